"""Simfile objects: dumps to the model's JSON shape, random edit scripts through the real API, the SafeDoc filter
(msdparser's escaping gaps are outside the domain of C01-C04 and tracked as known findings), text generators."""
import random

PY_SPACES = ["\t", "\x0b", "\x0c", "\x1c", "\x1d", "\x1e", "\x1f", " ", "\x85", "\xa0", "\u1680", "\u2000", "\u2003", "\u2009",
             "\u200a", "\u2028", "\u2029", "\u202f", "\u205f", "\u3000"]
SPECIALS = [":", ";", "\\", "/", "//", "#", "\n", "\r\n", " ", "\t", "=", ",", "[", "]", "&", "*"]
WORDS = ["a", "B", "song", "0.000", "1", "dance-single", "Hard", "漢字", "かな", "한", "😀", "é", "x y", "-1.5", "0000",
         # text that Unicode normalisation, case mapping or "invisible character" clean-ups would alter: values are kept as they are
         "e\u0301", "\u212b", "\ufb01", "\u0130", "\u00df", "\u200b", "\ufeff", "\uf900"]
SM_KEYS = ["TITLE", "SUBTITLE", "ARTIST", "CREDIT", "BANNER", "BACKGROUND", "MUSIC", "OFFSET", "BPMS", "STOPS", "FREEZES",
           "DELAYS", "WARPS", "BGCHANGES", "ANIMATIONS", "KEYSOUNDS", "ATTACKS", "DISPLAYBPM", "SELECTABLE", "GENRE",
           "FOO", "X1", "TIMESIGNATURES", "VERSION", "LABELS", "SAMPLESTART"]
SSC_CHART_KEYS = ["CHARTNAME", "STEPSTYPE", "DESCRIPTION", "CHARTSTYLE", "DIFFICULTY", "METER", "RADARVALUES", "CREDIT",
                  "MUSIC", "BPMS", "STOPS", "DELAYS", "WARPS", "OFFSET", "DISPLAYBPM", "ATTACKS", "LABELS", "FAKES", "FOO", "Z9",
                  # keys that merely begin or end like the note data key are ordinary properties
                  "NOTESKIN", "NOTES3", "NOTE", "XNOTES", "NOTEDATA2"]


def rand_value(rng, allow_none=True, short=False):
    r = rng.random()
    if allow_none and r < .04: return None
    if r < .14: return ""
    if r < .22: return rng.choice(["a", "1", ":", ";", "\\", "/", " ", "0"])      # one-character strings (interned)
    n = rng.randrange(1, 4 if short else 7)
    return "".join(rng.choice(SPECIALS) if rng.random() < .45 else rng.choice(WORDS) for _ in range(n))


def rand_multi(rng):
    """value for ATTACKS / DISPLAYBPM: dense in the characters that matter for the component split and the escaping"""
    n = rng.randrange(1, 8)
    return "".join(rng.choice([":", ":", "\\", "\\:", ";", "//", "/", "a", "60", "TIME=1.0", "\n", " ", "=", "*"]) for _ in range(n))


def rand_field(rng):
    """chart field: equal to its own strip()"""
    for _ in range(20):
        v = rand_value(rng, allow_none=False, short=True)
        if v == v.strip(): return v
    return "x"


def scan_safe(params, lead_nl=False):
    """SafeDoc (DESIGN 3.2) on the emitted parameter sequence: no '#' inside a parameter is reached while the lexer's
    'last TEXT token ended in a line break' bit is set; no '///'; no '#' in a key. Over-strict is fine (domain filter)."""
    last_nl = lead_nl            # a text in front of the first parameter that ends in a line break sets the bit
    for comps in params:
        if not comps: return False
        if "#" in comps[0]: return False
        for comp in comps:
            if "///" in comp: return False
            i = 0
            while i < len(comp):
                ch = comp[i]
                if ch in "\\:;":
                    i += 1; continue
                if ch == "/":
                    i += 2 if comp.startswith("//", i) else 1
                    last_nl = False; continue
                if ch == "#":
                    if last_nl: return False
                    last_nl = False; i += 1; continue
                j = i
                while j < len(comp) and comp[j] not in "\\/:;#": j += 1
                last_nl = comp[j - 1] in "\r\n"
                i = j
        last_nl = True
    return True


def dump_sm_chart(c):
    return {"fields": [[k, v] for k, v in dict.items(c)], "extradata": None if c.extradata is None else list(c.extradata)}


def dump_sm(sf):
    return {"kind": "sm", "props": [[k, v] for k, v in sf.items()], "charts": [dump_sm_chart(c) for c in sf.charts]}


def dump_ssc(sf):
    return {"kind": "ssc", "props": [[k, v] for k, v in sf.items()], "charts": [[[k, v] for k, v in c.items()] for c in sf.charts]}


def dump(sf):
    from simfile.sm import SMSimfile
    return dump_sm(sf) if isinstance(sf, SMSimfile) else dump_ssc(sf)


def model_params(items):
    """items from the Lean serializer -> list of component lists, and the texts between them"""
    return [x[1] for x in items if x[0] == "p"], [x[1] for x in items if x[0] == "t"]


def real_params(text, strict=True):
    from msdparser import parse_msd
    return [list(p.components) for p in parse_msd(string=text, ignore_stray_text=not strict)]


def values_ok(d):
    return all(isinstance(k, str) and (v is None or isinstance(v, str)) for k, v in d)


def dict_api_edit(rng, d, keys, value):
    """one edit through the rest of the OrderedDict interface (pop / popitem / move_to_end / update / setdefault) of a
    simfile or chart; returns the same edit spelled as [("del", k) | ("set", k, v)] steps, or None when nothing was done"""
    how = rng.choice(["pop", "popitem", "move_to_end", "update", "setdefault"])
    ks = [k for k in d.keys() if k not in ("NOTES", "NOTES2")]
    if how == "pop" and ks:
        k = rng.choice(ks); d.pop(k); return [("del", k)]
    if how == "popitem" and len(d) and next(reversed(d)) not in ("NOTES", "NOTES2"):
        k, _ = d.popitem(); return [("del", k)]
    if how == "move_to_end" and ks:
        k = rng.choice(ks); v = dict.__getitem__(d, k); d.move_to_end(k); return [("del", k), ("set", k, v)]
    if how == "update":
        k = rng.choice(keys); d.update({k: value}); return [("set", k, value)]
    if how == "setdefault":
        k = rng.choice(keys)
        if k in d: d.setdefault(k, value); return []
        d.setdefault(k, value); return [("set", k, value)]
    return None


def edit_sm(rng, sf, steps):
    """random edit script through the public API; returns the log of operations"""
    from simfile.sm import SMChart
    log = []
    attrs = ["title", "artist", "stops", "bgchanges", "attacks", "displaybpm", "music", "offset", "bpms"]
    for _ in range(steps):
        op = rng.choice(["setkey", "setkey", "setattr", "delkey", "delattr", "addchart", "delchart", "reverse", "replacechart",
                         "editchart", "editchart", "extradata", "insertchart", "serialize", "extradata_inplace", "dictapi"])
        try:
            if op == "setkey":
                k = rng.choice(SM_KEYS); v = rand_multi(rng) if k in ("ATTACKS", "DISPLAYBPM") and rng.random() < .7 else rand_value(rng)
                sf[k] = v; log.append(["setkey", k, v])
            elif op == "setattr":
                a = rng.choice(attrs); v = rand_multi(rng) if a in ("attacks", "displaybpm") and rng.random() < .7 else rand_value(rng, allow_none=False)
                setattr(sf, a, v); log.append(["setattr", a, v])
            elif op == "delkey":
                ks = list(sf.keys())
                if ks:
                    k = rng.choice(ks); del sf[k]; log.append(["delkey", k])
            elif op == "delattr":
                a = rng.choice(attrs)
                if getattr(sf, a) is not None or a.upper() in sf:
                    delattr(sf, a); log.append(["delattr", a])
            elif op == "dictapi":
                for st in dict_api_edit(rng, sf, SM_KEYS, rand_value(rng)) or []:
                    log.append(["delkey", st[1]] if st[0] == "del" else ["setkey", st[1], st[2]])
            elif op in ("addchart", "insertchart", "replacechart"):
                c = SMChart.blank()
                for f in ("stepstype", "description", "difficulty", "meter", "radarvalues"):
                    if rng.random() < .5: setattr(c, f, rand_field(rng))
                if rng.random() < .5: c.notes = rand_notes(rng)
                if rng.random() < .3: c.extradata = [rand_extradata(rng) for _ in range(rng.randrange(1, 3))]
                cd = dump_sm_chart(c)
                if op == "addchart" or not sf.charts: sf.charts.append(c); log.append(["append", cd])
                elif op == "insertchart":
                    i = rng.randrange(len(sf.charts) + 1); sf.charts.insert(i, c); log.append(["insert", i, cd])
                else:
                    i = rng.randrange(len(sf.charts)); sf.charts[i] = c; log.append(["set", i, cd])
            elif op == "delchart" and sf.charts:
                i = rng.randrange(len(sf.charts)); sf.charts.pop(i); log.append(["pop", i])
            elif op == "reverse":
                sf.charts.reverse(); log.append(["reverse"])
            elif op == "editchart" and sf.charts:
                i = rng.randrange(len(sf.charts)); c = sf.charts[i]
                f = rng.choice(["stepstype", "description", "difficulty", "meter", "radarvalues", "notes"])
                v = rand_notes(rng) if f == "notes" else rand_field(rng)
                if rng.random() < .5: setattr(c, f, v)
                else: c[f.upper()] = v
                log.append(["field", i, f.upper(), v])
            elif op == "serialize":
                # the object has been written out (and a chart on its own) before the later edits: a serializer that
                # remembers anything from an earlier call shows up as a stale text at the end of the script
                str(sf)
                if sf.charts: str(rng.choice(sf.charts))
                log.append(["serialize"])
            elif op == "extradata_inplace" and sf.charts:
                i = rng.randrange(len(sf.charts)); c = sf.charts[i]
                if c.extradata:
                    how = rng.choice(["append", "setitem", "pop"])
                    if how == "append": c.extradata.append(rand_extradata(rng))
                    elif how == "setitem": c.extradata[rng.randrange(len(c.extradata))] = rand_extradata(rng)
                    elif len(c.extradata) > 1: c.extradata.pop(rng.randrange(len(c.extradata)))
                    log.append(["extra", i, list(c.extradata)])
            elif op == "extradata" and sf.charts:
                i = rng.randrange(len(sf.charts)); c = sf.charts[i]
                c.extradata = rng.choice([None, [rand_extradata(rng)], [rand_extradata(rng), rand_extradata(rng)]])
                log.append(["extra", i, None if c.extradata is None else list(c.extradata)])
        except Exception as e:
            log.append(["raised", op, type(e).__name__])
    return log


def rand_notes(rng):
    rows = ["".join(rng.choice("0000012M34") for _ in range(4)) for _ in range(rng.choice([1, 4, 8]))]
    v = "\n".join(rows)
    if rng.random() < .3: v = rand_field(rng)
    return v


def rand_extradata(rng):
    return rand_value(rng, allow_none=False, short=True)


def edit_ssc(rng, sf, steps):
    from simfile.ssc import SSCChart
    log = []
    attrs = ["title", "artist", "stops", "bgchanges", "attacks", "displaybpm", "music", "warps", "version", "labels"]
    shared = rand_value(rng, allow_none=False, short=True)      # one string object assigned to several properties
    for _ in range(steps):
        op = rng.choice(["setkey", "setkey", "setattr", "delkey", "addchart", "delchart", "reverse", "editchart", "editchart",
                         "editchart", "chartdel", "shared", "notespos", "serialize", "serialize", "dictapi", "chartdictapi", "chartdictapi"])
        try:
            if op == "setkey":
                k = rng.choice(SM_KEYS + ["ORIGIN", "JACKET", "COMBOS"]); v = rand_multi(rng) if k in ("ATTACKS", "DISPLAYBPM") and rng.random() < .7 else rand_value(rng)
                sf[k] = v; log.append(["setkey", k, v])
            elif op == "setattr":
                a = rng.choice(attrs); v = rand_value(rng, allow_none=False); setattr(sf, a, v); log.append(["setattr", a, v])
            elif op == "delkey":
                ks = list(sf.keys())
                if ks:
                    k = rng.choice(ks); del sf[k]; log.append(["delkey", k])
            elif op == "addchart":
                c = rng.choice([SSCChart.blank, SSCChart.blank, SSCChart])()
                nk = rng.choice(["NOTES", "NOTES", "NOTES2"])
                if "NOTES" in c and nk == "NOTES2": del c["NOTES"]
                if nk not in c: c[nk] = rand_notes(rng)
                if rng.random() < .08: c[nk] = None      # note data loaded from a key-only #NOTES;
                i = rng.randrange(len(sf.charts) + 1)
                sf.charts.insert(i, c); log.append(["insert", i, [[k_, v_] for k_, v_ in c.items()]])
            elif op == "delchart" and sf.charts:
                i = rng.randrange(len(sf.charts)); sf.charts.pop(i); log.append(["pop", i])
            elif op == "serialize":
                try:
                    str(sf)
                    if sf.charts: str(rng.choice(sf.charts))
                except Exception:
                    pass                      # a chart without note data cannot be written; the later edits may add it
                log.append(["serialize"])
            elif op == "reverse":
                sf.charts.reverse(); log.append(["reverse"])
            elif op in ("editchart", "shared") and sf.charts:
                i = rng.randrange(len(sf.charts)); c = sf.charts[i]
                k = rng.choice(SSC_CHART_KEYS)
                v = shared if op == "shared" else (rand_multi(rng) if k in ("ATTACKS", "DISPLAYBPM") and rng.random() < .7 else rand_value(rng))
                if rng.random() < .2 and k.lower() in ("chartname", "credit", "music", "bpms", "offset", "displaybpm", "attacks"):
                    setattr(c, k.lower(), v if v is not None else ""); log.append(["cattr", i, k.lower(), v if v is not None else ""])
                else:
                    c[k] = v; log.append(["cset", i, k, v])
                if op == "shared" or rng.random() < .15:
                    # note data equal to / identical with another value, empty, or a one-character string
                    nk = "NOTES2" if ("NOTES" not in c and "NOTES2" in c) else "NOTES"
                    nv = rng.choice([v if v is not None else "", "", "0", shared])
                    if rng.random() < .3: c.notes = nv; log.append(["cattr", i, "notes", nv])
                    else: c[nk] = nv; log.append(["cset", i, nk, nv])
            elif op == "dictapi":
                for st in dict_api_edit(rng, sf, SM_KEYS + ["ORIGIN", "JACKET"], rand_value(rng)) or []:
                    log.append(["delkey", st[1]] if st[0] == "del" else ["setkey", st[1], st[2]])
            elif op == "chartdictapi" and sf.charts:
                i = rng.randrange(len(sf.charts)); c = sf.charts[i]
                for st in dict_api_edit(rng, c, SSC_CHART_KEYS, rand_value(rng)) or []:
                    log.append(["cdel", i, st[1]] if st[0] == "del" else ["cset", i, st[1], st[2]])
            elif op == "chartdel" and sf.charts:
                i = rng.randrange(len(sf.charts)); c = sf.charts[i]
                ks = [k for k in c.keys() if k not in ("NOTES", "NOTES2")]
                if ks:
                    k = rng.choice(ks); del c[k]; log.append(["cdel", i, k])
            elif op == "notespos" and sf.charts:
                # move the note data item to a random position (re-insert the other items after it)
                i = rng.randrange(len(sf.charts)); c = sf.charts[i]
                items = list(c.items())
                rng.shuffle(items)
                c.clear()
                for k, v in items: c[k] = v
                log.append(["set", i, [[k_, v_] for k_, v_ in c.items()]])      # as seen from outside: the chart replaced by a reordered one
        except Exception as e:
            log.append(["raised", op, type(e).__name__])
    return log


def ssc_chart_has_notes(c):
    """the chart has its note data property (NOTES, or NOTES2 when only that alias is present); the value may be None (#NOTES;)"""
    nk = "NOTES2" if ("NOTES" not in c and "NOTES2" in c) else "NOTES"
    return nk in c and (c[nk] is None or isinstance(c[nk], str))


def ssc_chart_ok(c):
    """exactly one of NOTES/NOTES2, holding a string or None (the domain of C02)"""
    has = [k for k in ("NOTES", "NOTES2") if k in c]
    return len(has) == 1 and (c[has[0]] is None or isinstance(c[has[0]], str))


# ---------------------------------------------------------------------------------------------
# MSD texts for C03 / C04

def rand_text(rng, ssc=None):
    """a text assembled from MSD metacharacters, keys in any case, duplicates, key-only and multi-component parameters,
    parameters before/after NOTES and NOTEDATA, stray text, missing semicolons, BOM, LF/CRLF; never ends in an unpaired backslash"""
    nl = rng.choice(["\n", "\n", "\r\n"])
    ssc = rng.random() < .5 if ssc is None else ssc
    parts = []
    if rng.random() < .1: parts.append("﻿")
    def stray():
        r = rng.random()
        if r < .75: return ""
        if r < .85: return rng.choice(["junk", "x", "  y  ", ":", ";", "a:b;"]) + nl
        if r < .93: return "// a comment" + nl
        return rng.choice([" ", "\t", nl])
    def pad(k):
        # blanks around a key are part of the key (keys are upper-cased, never trimmed)
        r = rng.random()
        if r < .85: return k
        return rng.choice([" " + k, k + " ", k + nl, "\t" + k, k + "  "])

    def key():
        k = rng.choice(SM_KEYS + ["NOTES2", "CHARTNAME"])
        r = rng.random()
        return pad(k if r < .6 else (k.lower() if r < .8 else k.capitalize()))
    def val():
        n = rng.randrange(0, 4)
        s = "".join(rng.choice(["a", "b c", "1.0", "=", ",", nl, "\\:", "\;", "\\\\", "\\#", "/", "漢", " ", "\\//", "e\u0301", "\u212b", "\u0130", "\u200b"]) for _ in range(n))
        if rng.random() < .25:
            # every character str.strip() removes, not only blank/tab/line break, at the edges (SM chart fields are stripped)
            ws = lambda: "".join(rng.choice(PY_SPACES) for _ in range(rng.randrange(1, 3)))
            s = (ws() if rng.random() < .7 else "") + s + (ws() if rng.random() < .7 else "")
        return s
    def param(k=None, comps=None):
        k = key() if k is None else k
        r = rng.random()
        if comps is None:
            comps = 0 if r < .08 else (1 if r < .8 else rng.randrange(2, 5))
        body = "#" + k + "".join(":" + val() for _ in range(comps))
        end = ";" if rng.random() < .9 else nl      # missing semicolon recovered at the next line-start '#'
        return body + end + (nl if rng.random() < .8 else "")
    if rng.random() < (.8 if ssc else .15):
        parts.append(stray() if rng.random() < .2 else "")
        parts.append(param(pad(rng.choice(["VERSION", "version", "Version"])), rng.choice([1, 1, 1, 0])))
    for _ in range(rng.randrange(0, 7)):
        parts.append(stray()); parts.append(param())
    for _ in range(rng.randrange(0, 3)):
        parts.append(stray())
        if ssc:
            parts.append(param(pad(rng.choice(["NOTEDATA", "notedata"])), rng.choice([1, 1, 0])))
            for _ in range(rng.randrange(0, 5)): parts.append(param(rng.choice(SSC_CHART_KEYS + ["stepstype", "Meter"])))
            if rng.random() < .15:
                # both spellings in one chart: NOTES is the note data, NOTES2 an ordinary property (either order)
                both = [param("NOTES2", 1), param(rng.choice(["NOTES", "notes"]), 1)]
                rng.shuffle(both); parts += both
            elif rng.random() < .9:
                parts.append(param(rng.choice(["NOTES", "NOTES", "notes", "NOTES2"]), rng.choice([1, 1, 1, 1, 0])))      # 0: key-only #NOTES;
            if rng.random() < .3: parts.append(param())
        else:
            ncomp = rng.choice([6, 6, 6, 6, 7, 8, 5, 2, 1, 0])      # 0: the key-only form #NOTES;
            parts.append(param(pad(rng.choice(["NOTES", "notes", "Notes"])), ncomp))
            if rng.random() < .4: parts.append(param())
    parts.append(stray())
    t = "".join(parts)
    while t.endswith("\\") and not t.endswith("\\\\"):
        t = t[:-1]
    # an odd number of trailing backslashes = unpaired
    n = len(t) - len(t.rstrip("\\"))
    if n % 2 == 1: t = t[:-1]
    return t


def mutate_text(rng, t):
    if not t: return t
    r = rng.random()
    i = rng.randrange(len(t)); j = rng.randrange(i, len(t))
    if r < .25: t2 = t[:i] + t[j:]
    elif r < .5: t2 = t[:j] + t[i:j] + t[j:]
    elif r < .7: t2 = t[:i]
    elif r < .85: t2 = t[:i] + t[i:j].swapcase() + t[j:]
    else: t2 = t[:i] + rng.choice(["#", ":", ";", "\n", "//", "#NOTES:"]) + t[i:]
    n = len(t2) - len(t2.rstrip("\\"))
    if n % 2 == 1: t2 = t2[:-1]
    return t2
