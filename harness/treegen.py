"""random directory trees for the tree-level models (Model/Tree.lean, Model/Path.lean): a pack with song directories,
nested directories, loose files, images beside the pack; built on a MemoryFS (PyFilesystem paths)"""
import fs.memoryfs, fs.path, fs.errors

SM = ["a.sm", "B.SM", "x.ssc", "Y.Ssc"]
OTHER = ["banner.png", "bg.JPG", "song.ogg", "readme.txt", "x.sm.old", "Art.PNG", "jk_a.png", "s-cd.gif", "My Banner.bmp", "cdtitle.png", "jacket-bg.png"]


def songdir(rng, depth=0):
    d = {}
    for n in rng.sample(SM, rng.randrange(0, 4)): d[n] = "#TITLE:%s;" % n
    for n in rng.sample(OTHER, rng.randrange(0, 5)): d[n] = None
    if depth < 2 and rng.random() < .5: d[rng.choice(["Sub", "sub", "deep", "n.sm"])] = songdir(rng, depth + 1)
    items = list(d.items()); rng.shuffle(items); return dict(items)


def pack(rng):
    p = {}
    for i in range(rng.randrange(0, 5)): p["Song%d" % i] = songdir(rng)
    if rng.random() < .5: p["loose.sm"] = "x"
    if rng.random() < .5: p["Empty"] = {}
    if rng.random() < .5: p["OnlyNested"] = {"deep": {"x.ssc": "x"}}
    for n in rng.sample(["b.png", "A.PNG", "c.jpg", "d.JPEG", "e.gif", "f.bmp"], rng.choice([0, 0, 1, 2])): p[n] = None
    items = list(p.items()); rng.shuffle(items); return dict(items)


def world(rng):
    pk = pack(rng)
    beside = {n: None for n in rng.sample(["MyPack.png", "MyPack.jpg", "mypack.gif", "MyPack.bmp"], rng.randrange(0, 3))}
    top = dict(beside); top["MyPack"] = pk
    return {"Songs": top, "Other": {"x.png": None, "X.PNG": None} if rng.random() < .3 else {"x.png": None}}, pk


def build(root):
    m = fs.memoryfs.MemoryFS()
    def make(path, v):
        for k, x in v.items():
            p = fs.path.join(path, k)
            if isinstance(x, dict): m.makedir(p); make(p, x)
            else: m.writetext(p, x or "")
    make("/", root)
    return m


def node(v):
    """JSON form of a tree for the Lean driver"""
    if isinstance(v, dict): return {"dir": [[k, node(x)] for k, x in v.items()]}
    return {"file": v or ""}


def fs_err(e):
    if isinstance(e, fs.errors.IllegalBackReference): return {"fs": "IllegalBackReference"}
    if isinstance(e, fs.errors.ResourceNotFound): return {"fs": "ResourceNotFound"}
    if isinstance(e, fs.errors.DirectoryExpected): return {"fs": "DirectoryExpected"}
    return None


PACK_PATHS = ["/Songs/MyPack", "Songs/MyPack/", "/Songs//MyPack/.", "/Songs/Other/../MyPack", "/Songs/Nope", "/Songs/MyPack/loose.sm", "/Songs/../..", "/Songs"]
