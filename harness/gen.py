"""Generators and canonicalisers shared by the adapters. All randomness comes from the rng passed in."""
import os, glob
from fractions import Fraction
from decimal import Decimal
from core import frac

NOTE_CHARS = None
INLINE_BLANKS = [" ", "\t", "\x1f", "\xa0", "　", " "]
BLANKS = INLINE_BLANKS + ["\n", "\r\n", "\x0b", "\x0c", "\x1c", "\x85", " "]
ROW_COUNTS = [1, 2, 3, 4, 5, 7, 8, 12, 16, 24, 32, 48, 64, 192]


def note_chars():
    global NOTE_CHARS
    if NOTE_CHARS is None:
        from simfile.notes import NoteType
        NOTE_CHARS = [t.value for t in NoteType]
    return NOTE_CHARS


def jnote(n):
    """impl Note -> canonical JSON"""
    return [frac(n.beat), n.column, n.note_type.value, n.player, n.keysound_index]


def mknote(j):
    from simfile.notes import Note, NoteType
    from simfile.timing import Beat
    from core import unfrac
    return Note(beat=Beat(unfrac(j[0])), column=j[1], note_type=NoteType(j[2]), player=j[3], keysound_index=j[4])


def dchart(rng, max_cols=16, max_players=3, max_measures=4, density=0.3, keysounds=True, deco=True, big_rows=True):
    """random decorated chart (players -> measures -> rows -> cells) in the JSON shape the driver reads"""
    cols = rng.randrange(1, max_cols + 1)
    players = rng.choice([1, 1, 1, 2, 3][:max(1, max_players + 2)]) if max_players > 1 else 1
    players = min(players, max_players)
    chars = note_chars()
    chart = []
    for p in range(players):
        ms = []
        for m in range(rng.randrange(1, max_measures + 1)):
            nrows = rng.choice(ROW_COUNTS if big_rows else ROW_COUNTS[:8]) if rng.random() < .85 else rng.randrange(1, 200 if big_rows else 20)
            crlf = deco and rng.random() < .3
            rows = []
            for l in range(nrows):
                cells = []
                for c in range(cols):
                    if rng.random() < density:
                        ch = rng.choice(chars)
                        ks = rng.choice([None, None, rng.randrange(0, 12), rng.randrange(0, 1000)]) if keysounds else None
                        cells.append([ch, ks])
                    else:
                        cells.append(["0", None])
                rows.append({"cells": cells,
                             "lead": "".join(rng.choice(INLINE_BLANKS) for _ in range(rng.randrange(0, 3))) if deco and rng.random() < .2 else "",
                             "trail": "".join(rng.choice(INLINE_BLANKS) for _ in range(rng.randrange(0, 3))) if deco and rng.random() < .2 else "",
                             "eol": "\r\n" if crlf else "\n"})
            if deco and rng.random() < .3:
                rows[-1]["eol"] = ""
            blank = lambda: "".join(rng.choice(BLANKS) for _ in range(rng.randrange(0, 4))) if deco and rng.random() < .5 else ""
            pre = blank()
            post = blank()
            # the separator line ('&' / ',') must not be glued to the last row unless the row ended a line or blanks follow
            if rows[-1]["eol"] == "" and not any(ch in post for ch in "\n\r\x0b\x0c\x1c\x1d\x1e\x85\u2028\u2029"):
                post += "\n"
            ms.append({"pre": pre if pre else ("\n" if (m > 0 or p > 0) else ""), "rows": rows, "post": post})
        chart.append(ms)
    return chart


def note_stream(rng, cols=None, players=(0,), max_beat=16, n=None, denoms=None, types=None, keysounds=True):
    """position-sorted stream with at most one note per (player, beat, column), as canonical JSON notes"""
    from simfile.notes import NoteType
    cols = cols or rng.randrange(1, 7)
    types = types or [t.value for t in NoteType]
    denoms = denoms or [1, 2, 3, 4, 4, 4, 8, 12, 16, 48]
    n = rng.randrange(0, 40) if n is None else n
    seen = set(); out = []
    for _ in range(n):
        p = rng.choice(list(players))
        d = rng.choice(denoms)
        b = Fraction(rng.randrange(0, max_beat * d), d)
        c = rng.randrange(cols)
        if (p, b, c) in seen: continue
        seen.add((p, b, c))
        ks = rng.choice([None, None, None, rng.randrange(0, 100)]) if keysounds else None
        out.append((p, b, c, rng.choice(types), ks))
    out.sort(key=lambda x: (x[0], x[1], x[2]))
    return cols, [[frac(b), c, t, p, ks] for p, b, c, t, ks in out]


def corpus_files():
    return sorted(glob.glob("/repo/testdata/**/*.sm", recursive=True) + glob.glob("/repo/testdata/**/*.ssc", recursive=True))


def corpus_charts():
    """(path, index, notes text) of every chart in the corpus"""
    import simfile
    out = []
    for p in corpus_files():
        try:
            sf = simfile.open(p)
        except Exception:
            continue
        for i, c in enumerate(sf.charts):
            if c.notes is not None:
                out.append((p, i, c.notes))
    return out


# ---------------------------------------------------------------------------------------------
# timing data
TAGS = ["WARP", "WARP_END", "BPM", "DELAY", "DELAY_END", "STOP", "STOP_END"]


def timing(rng, small=False, max_beat=None, zero=False):
    """random timing data inside the domain of C11-C13: first BPM at beat 0, positive BPMs, strictly increasing
    tick-aligned beats per list, positive pause and warp lengths; returns dict of lists of (Fraction beat, Decimal value)"""
    hi = max_beat or rng.choice([2, 4, 8, 16, 50, 400])
    def beats(n):
        k = rng.randrange(0, n + 1)
        grid = rng.choice([1, 2, 4, 4, 16, 48])
        bs = set()
        for _ in range(k):
            bs.add(Fraction(rng.randrange(0, hi * grid + 1), grid))
        return sorted(bs)
    nmax = 4 if small else 12
    def bpmv(): return rng.choice([Decimal(rng.choice([60, 90, 120, 128, 150, 175, 180, 200, 240])), Decimal(rng.randrange(1000, 2000000)) / 1000])
    def pausev():
        if zero and rng.random() < .25: return Decimal("0.000")      # zero-length stops and delays (C11Wide.Dom0)
        return rng.choice([Decimal("0.5"), Decimal("1"), Decimal("0.25"), Decimal("2"), Decimal(rng.randrange(1, 5000)) / 1000])
    def warpv():
        if zero and rng.random() < .2: return rng.choice([Decimal("0.000"), Decimal("0.004")])      # a warp of zero ticks
        return rng.choice([Decimal("0.5"), Decimal("1"), Decimal("2"), Decimal("0.25"), Decimal("4"), Decimal("1.5"),
                                    Decimal(rng.randrange(1, 48 * 8)) / 48 if rng.random() < .5 else Decimal(rng.randrange(11, 8000)) / 1000])
    bpms = [(Fraction(0), bpmv())] + [(b, bpmv()) for b in beats(nmax) if b != 0]
    td = {"bpms": bpms,
          "stops": [(b, pausev()) for b in beats(nmax)],
          "delays": [(b, pausev()) for b in beats(nmax)],
          "warps": [(b, warpv()) for b in beats(nmax)],
          "offset": rng.choice([Decimal(0), Decimal(0), Decimal("1.5"), Decimal("-0.25"), Decimal(rng.randrange(-100000, 100000)) / 1000])}
    # coincidences: put pauses on warp starts / inside / at ends, BPM changes inside warps, events at beat 0
    if td["warps"] and rng.random() < .7:
        from simfile.timing import Beat
        w = rng.choice(td["warps"]); we = w[0] + Beat(w[1])
        for lst in ("stops", "delays", "bpms"):
            if rng.random() < .5:
                x = rng.choice([w[0], we, Beat((w[0] + we) / 2).round_to_tick()])
                if x not in [b for b, _ in td[lst]] and x >= 0:
                    td[lst].append((Fraction(x), bpmv() if lst == "bpms" else pausev())); td[lst].sort()
    if rng.random() < .3:
        for lst in ("stops", "delays", "warps"):
            if rng.random() < .5 and Fraction(0) not in [b for b, _ in td[lst]]:
                td[lst].insert(0, (Fraction(0), warpv() if lst == "warps" else pausev()))
    return td


def td_json(td):
    """for the Lean driver: exact rationals"""
    f = lambda l: [[frac(b), frac(Fraction(v))] for b, v in l]
    return {"bpms": f(td["bpms"]), "stops": f(td["stops"]), "delays": f(td["delays"]), "warps": f(td["warps"]),
            "offset": frac(Fraction(td["offset"]))}


def td_show(td):
    f = lambda l: ",".join("%s=%s" % (b, v) for b, v in l)
    return {"bpms": f(td["bpms"]), "stops": f(td["stops"]), "delays": f(td["delays"]), "warps": f(td["warps"]), "offset": str(td["offset"])}


def td_impl(td):
    """the impl's TimingData built through the library's own parsers"""
    from simfile.ssc import SSCSimfile
    from simfile.timing import TimingData, Beat, BeatValue, BeatValues
    t = TimingData(SSCSimfile.blank())
    mk = lambda l: BeatValues([BeatValue(Beat(b), v) for b, v in l])
    t.bpms, t.stops, t.delays, t.warps, t.offset = mk(td["bpms"]), mk(td["stops"]), mk(td["delays"]), mk(td["warps"]), td["offset"]
    return t


def td_from_simfile(sf, chart=None):
    from simfile.timing import TimingData
    t = TimingData(sf, chart)
    g = lambda l: [(Fraction(e.beat), e.value) for e in l]
    return {"bpms": g(t.bpms), "stops": g(t.stops), "delays": g(t.delays), "warps": g(t.warps), "offset": t.offset}


def td_in_domain(td, zero_ok=False):
    from simfile.timing import Beat
    if not td["bpms"] or td["bpms"][0][0] != 0: return False
    for k in ("bpms", "stops", "delays", "warps"):
        bs = [b for b, _ in td[k]]
        if any(not a < b for a, b in zip(bs, bs[1:])): return False
        if any(b < 0 or (b * 48).denominator != 1 for b in bs): return False
        if any((v < 0 if (zero_ok and k != "bpms") else v <= 0) for _, v in td[k]): return False
    if any((Beat(v) < 0 if zero_ok else Beat(v) <= 0) for _, v in td["warps"]): return False
    if any(v < 1 or v > 2000 for _, v in td["bpms"]): return False
    return True


class TimeSpec:
    """The property's own statement of beat -> time, evaluated exactly with Fractions (prefix sums over ticks).
    Transcribes Spec/Timeline.lean; cross-checked against the Lean spec on a sample by the adapters."""

    def __init__(self, td, tag_order=None):
        from simfile.timing import Beat
        self.td = td
        self.order = {t: i for i, t in enumerate(tag_order or TAGS)}
        self.warps = [(b, b + Fraction(Beat(v))) for b, v in td["warps"]]
        self.bpms = [(b, Fraction(v)) for b, v in td["bpms"]]
        self.prefix = [Fraction(0)]

    def in_warp(self, x):
        return any(a <= x < e for a, e in self.warps)

    def bpm_on(self, x):
        cur = self.bpms[0][1]
        for b, v in self.bpms:
            if b <= x: cur = v
        return cur

    def tick_sum(self, k):
        while len(self.prefix) <= k:
            i = len(self.prefix) - 1
            x = Fraction(i, 48)
            self.prefix.append(self.prefix[-1] + (0 if self.in_warp(x) else Fraction(60, 48) / self.bpm_on(x)))
        return self.prefix[k]

    def key_le(self, a, b):
        return a[0] < b[0] or (a[0] == b[0] and self.order[a[1]] <= self.order[b[1]])

    def paused(self, b, g):
        s = Fraction(0)
        for x, v in self.td["delays"]:
            if self.key_le((x, "DELAY_END"), (b, g)): s += Fraction(v)
        for x, v in self.td["stops"]:
            if self.key_le((x, "STOP_END"), (b, g)): s += Fraction(v)
        return s

    def time(self, b, g="STOP"):
        base = -Fraction(self.td["offset"]) + self.paused(b, g)
        if b < 0:
            return base + b * 60 / self.bpms[0][1]
        k = (b * 48).__floor__()
        x = Fraction(k, 48)
        return base + self.tick_sum(k) + (0 if self.in_warp(x) else (b - x) * 60 / self.bpm_on(x))

    def hittable(self, b):
        on = any(x == b for x, _ in self.td["stops"]) or any(x == b for x, _ in self.td["delays"])
        return not (self.in_warp(b) and not on)
