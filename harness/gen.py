"""Generators and canonicalisers shared by the adapters. All randomness comes from the rng passed in."""
import os, glob
from fractions import Fraction
from decimal import Decimal
from core import frac

NOTE_CHARS = None
INLINE_BLANKS = [" ", "\t", "\x1f", "\xa0", "　", " "]
BLANKS = INLINE_BLANKS + ["\n", "\r\n", "\x0b", "\x0c", "\x1c", "\x85", " "]
ROW_COUNTS = [1, 2, 3, 4, 5, 7, 8, 12, 16, 24, 32, 48, 64, 192]


def note_chars():
    global NOTE_CHARS
    if NOTE_CHARS is None:
        from simfile.notes import NoteType
        NOTE_CHARS = [t.value for t in NoteType]
    return NOTE_CHARS


def jnote(n):
    """impl Note -> canonical JSON"""
    return [frac(n.beat), n.column, n.note_type.value, n.player, n.keysound_index]


def mknote(j):
    from simfile.notes import Note, NoteType
    from simfile.timing import Beat
    from core import unfrac
    return Note(beat=Beat(unfrac(j[0])), column=j[1], note_type=NoteType(j[2]), player=j[3], keysound_index=j[4])


def dchart(rng, max_cols=16, max_players=3, max_measures=4, density=0.3, keysounds=True, deco=True, big_rows=True):
    """random decorated chart (players -> measures -> rows -> cells) in the JSON shape the driver reads"""
    cols = rng.randrange(1, max_cols + 1)
    players = rng.choice([1, 1, 1, 2, 3][:max(1, max_players + 2)]) if max_players > 1 else 1
    players = min(players, max_players)
    chars = note_chars()
    chart = []
    for p in range(players):
        ms = []
        for m in range(rng.randrange(1, max_measures + 1)):
            nrows = rng.choice(ROW_COUNTS if big_rows else ROW_COUNTS[:8]) if rng.random() < .85 else rng.randrange(1, 200 if big_rows else 20)
            crlf = deco and rng.random() < .3
            rows = []
            for l in range(nrows):
                cells = []
                for c in range(cols):
                    if rng.random() < density:
                        ch = rng.choice(chars)
                        ks = rng.choice([None, None, rng.randrange(0, 12), rng.randrange(0, 1000)]) if keysounds else None
                        cells.append([ch, ks])
                    else:
                        cells.append(["0", None])
                rows.append({"cells": cells,
                             "lead": "".join(rng.choice(INLINE_BLANKS) for _ in range(rng.randrange(0, 3))) if deco and rng.random() < .2 else "",
                             "trail": "".join(rng.choice(INLINE_BLANKS) for _ in range(rng.randrange(0, 3))) if deco and rng.random() < .2 else "",
                             "eol": "\r\n" if crlf else "\n"})
            if deco and rng.random() < .3:
                rows[-1]["eol"] = ""
            blank = lambda: "".join(rng.choice(BLANKS) for _ in range(rng.randrange(0, 4))) if deco and rng.random() < .5 else ""
            pre = blank()
            post = blank()
            # the separator line ('&' / ',') must not be glued to the last row unless the row ended a line or blanks follow
            if rows[-1]["eol"] == "" and not post:
                post = "\n"
            ms.append({"pre": pre if pre else ("\n" if (m > 0 or p > 0) else ""), "rows": rows, "post": post})
        chart.append(ms)
    return chart


def note_stream(rng, cols=None, players=(0,), max_beat=16, n=None, denoms=None, types=None, keysounds=True):
    """position-sorted stream with at most one note per (player, beat, column), as canonical JSON notes"""
    from simfile.notes import NoteType
    cols = cols or rng.randrange(1, 7)
    types = types or [t.value for t in NoteType]
    denoms = denoms or [1, 2, 3, 4, 4, 4, 8, 12, 16, 48]
    n = rng.randrange(0, 40) if n is None else n
    seen = set(); out = []
    for _ in range(n):
        p = rng.choice(list(players))
        d = rng.choice(denoms)
        b = Fraction(rng.randrange(0, max_beat * d), d)
        c = rng.randrange(cols)
        if (p, b, c) in seen: continue
        seen.add((p, b, c))
        ks = rng.choice([None, None, None, rng.randrange(0, 100)]) if keysounds else None
        out.append((p, b, c, rng.choice(types), ks))
    out.sort(key=lambda x: (x[0], x[1], x[2]))
    return cols, [[frac(b), c, t, p, ks] for p, b, c, t, ks in out]


def corpus_files():
    return sorted(glob.glob("/repo/testdata/**/*.sm", recursive=True) + glob.glob("/repo/testdata/**/*.ssc", recursive=True))


def corpus_charts():
    """(path, index, notes text) of every chart in the corpus"""
    import simfile
    out = []
    for p in corpus_files():
        try:
            sf = simfile.open(p)
        except Exception:
            continue
        for i, c in enumerate(sf.charts):
            if c.notes is not None:
                out.append((p, i, c.notes))
    return out
