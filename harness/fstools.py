"""Filesystem helpers: materialise a tree natively (temp dir) and in a MemoryFS; recording / fault-injecting wrappers."""
import io, os, shutil, tempfile


def make_native(tree, root):
    """tree: dict name -> None (file with default content) | str/bytes (file content) | dict (directory)"""
    os.makedirs(root, exist_ok=True)
    for name, v in tree.items():
        p = os.path.join(root, name)
        if isinstance(v, dict):
            make_native(v, p)
        else:
            data = b"" if v is None else (v if isinstance(v, bytes) else v.encode("utf-8"))
            with open(p, "wb") as f: f.write(data)


def make_memory(tree, mem_in=None, root="/"):
    from fs.memoryfs import MemoryFS
    mem = mem_in if mem_in is not None else MemoryFS()
    for name, v in tree.items():
        p = root.rstrip("/") + "/" + name
        if isinstance(v, dict):
            mem.makedirs(p, recreate=True)
            make_memory(v, mem, p)
        else:
            data = b"" if v is None else (v if isinstance(v, bytes) else v.encode("utf-8"))
            mem.writebytes(p, data)
    return mem


def snapshot_native(root):
    out = {}
    for d, _, files in os.walk(root):
        for f in files:
            p = os.path.join(d, f)
            out[os.path.relpath(p, root)] = open(p, "rb").read()
    return out


def snapshot_memory(mem, root="/"):
    out = {}
    for p in mem.walk.files(root):
        out[p.lstrip("/")] = mem.readbytes(p)
    return out


class Fault(OSError):
    pass


class Recorder:
    """shared by both recording filesystems: the call log, and the fault to inject (k-th call)"""

    def __init__(self, fail_at=None, fail_kind=None, close_loses=False):
        self.log = []              # [kind, path, extra]
        self.fail_at = fail_at     # index into the log of write-side calls
        self.wcalls = 0            # number of write-side calls seen (openW, write, close-after-write)
        # buffered I/O whose flush happens at close: a write hands over only the first half of its data, the rest
        # reaches the file at close, and a failing close loses it
        self.close_loses = close_loses

    def _tick(self, kind):
        i = self.wcalls
        self.wcalls += 1
        return self.fail_at is not None and i == self.fail_at

    def wrap(self, real_open, path, mode, kwargs):
        enc = kwargs.get("encoding")
        writing = "w" in mode
        if writing:
            fail = self._tick("openW")
            self.log.append(["openW", path, enc])
            if fail:
                raise Fault("injected: open for writing failed")
        else:
            self.log.append(["openR", path, enc])
        f = real_open()
        if writing:
            rec = self
            real_write, real_close = f.write, f.close

            def write(data):
                fail = rec._tick("write")
                rec.log.append(["write", path, len(data)])
                if fail:
                    real_write(data[: len(data) // 2]); f.flush()
                    raise Fault("injected: write failed after half of the data")
                if rec.close_loses:
                    held.append(data[len(data) // 2:])
                    real_write(data[: len(data) // 2]); f.flush()
                    return len(data)
                return real_write(data)

            closed = [False]; held = []

            def close():
                if closed[0]:
                    return real_close()
                closed[0] = True
                fail = rec._tick("close")
                rec.log.append(["close", path, None])
                if held and not fail:
                    for h in held: real_write(h)
                real_close()
                if fail:
                    raise Fault("injected: close failed" + (" (the buffered half of the data is lost)" if rec.close_loses else " (data already flushed)"))
            f.write = write
            f.close = close
        return f


def recording_native(rec):
    from simfile._private.nativeosfs import NativeOSFS

    class RecNative(NativeOSFS):
        def open(self, path, mode="r", **kwargs):
            return rec.wrap(lambda: io.open(path, mode, **kwargs), path, mode, kwargs)
    return RecNative()


def recording_memory(rec, mem):
    """wraps an existing MemoryFS instance"""
    real = mem.open

    def open_(path, mode="r", **kwargs):
        return rec.wrap(lambda: real(path, mode, **kwargs), path, mode, kwargs)
    mem.open = open_
    return mem
