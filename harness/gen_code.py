#!/venv/bin/python
"""Translator (T2): selected *functions* of /repo are translated from their Python source into Lean definitions.

  harness/gen_code.py            -> lean/Simfile/Gen/Code/<Name>.lean (one module per function), lean/Simfile/Gen/code_status.json

What is translated is the statement structure and the expressions of each listed function (if/elif/else, early
returns, local assignments, augmented assignments, `for` loops that search or yield, comparisons, `in (a, b)`,
boolean operators, arithmetic, conditional expressions, calls). What is *bound by hand* (BINDINGS below, part of the
trusted base and small enough to read) is the vocabulary: which Lean term a dotted Python name, a constructor, a
library call or a method stands for (e.g. `self.event.beat` ↦ `self.beat`, `EventTag.STOP` ↦ `Tag.stop`,
`float(x)` ↦ `x` — floats are exact rationals in the model, `Beat(x)` ↦ `roundToTick x`).

`Simfile/Props/GenEq/<Name>.lean` then proves, for all inputs, that the translated definition equals the hand-written
model function the property theorems are about. A change to the body of a listed function therefore changes the
generated definition and the equality is re-proved (or not) on the next run. A function the translator cannot handle
(syntax outside the subset) is reported as "untranslatable": that is never an alarm, only a deeper differential search.
"""
import ast, json, os, re, sys

VERIF = os.path.dirname(os.path.dirname(os.path.abspath(__file__)))
REPO = os.environ.get("VERIF_REPO", "/repo")
OUT = os.path.join(VERIF, "lean", "Simfile", "Gen", "Code")
STATUS = os.path.join(VERIF, "lean", "Simfile", "Gen", "code_status.json")

LEAN_KEYWORDS = {"end", "open", "from", "at", "in", "do", "then", "else", "if", "fun", "let", "have", "show", "match", "with",
                 "instance", "structure", "class", "def", "theorem", "where", "section", "namespace", "import", "prefix",
                 "infix", "notation", "local", "private", "protected", "universe", "variable", "example", "by", "type", "Type",
                 "Prop", "Sort", "deriving", "extends", "for", "mut", "return", "try", "catch", "finally", "unless", "macro"}


class Unsupported(Exception):
    pass


def lean_str(s):
    """Python str constant -> Lean `List Char` literal (the models work on character lists)"""
    def ch(c):
        o = ord(c)
        if c == "'": return "'\\''"
        if c == "\\": return "'\\\\'"
        if c == "\n": return "'\\n'"
        if c == "\r": return "'\\r'"
        if c == "\t": return "'\\t'"
        if 32 <= o < 127: return "'%s'" % c
        return "(Char.ofNat %d)" % o
    return "([" + ", ".join(ch(c) for c in s) + "] : List Char)"


def dotted(e):
    """a.b.c -> 'a.b.c' for pure Name/Attribute chains, else None"""
    parts = []
    while isinstance(e, ast.Attribute):
        parts.append(e.attr); e = e.value
    if isinstance(e, ast.Name):
        parts.append(e.id)
        return ".".join(reversed(parts))
    return None


def names_loaded(nodes):
    out = set()
    for n in nodes:
        for x in ast.walk(n):
            if isinstance(x, ast.Name) and isinstance(x.ctx, ast.Load):
                out.add(x.id)
    return out


def names_stored(nodes):
    out = []
    for n in nodes:
        for x in ast.walk(n):
            if isinstance(x, ast.Name) and isinstance(x.ctx, ast.Store) and x.id not in out:
                out.append(x.id)
    return out


def terminates(stmts):
    """every path through the statement list ends in return / raise / continue"""
    for s in stmts:
        if isinstance(s, (ast.Return, ast.Raise, ast.Continue)):
            return True
        if isinstance(s, ast.If) and s.orelse and terminates(s.body) and terminates(s.orelse):
            return True
    return False


class Fn:
    """translation of one function"""

    # ---- mutation of objects (state mode): a statement that matches one of the binding's `mutations` rebinds a state variable
    def mutation(self, s):
        """(state variable, lean value, raises?) if the statement mutates a bound object, else None"""
        rules = self.spec.get("mutations", {})
        if isinstance(s, (ast.Assign, ast.AnnAssign)):
            tgt = s.targets[0] if isinstance(s, ast.Assign) and len(s.targets) == 1 else getattr(s, "target", None)
            if isinstance(tgt, ast.Subscript) and dotted(tgt.value) is not None and "%s[]=" % dotted(tgt.value) in rules:
                rule = rules["%s[]=" % dotted(tgt.value)]
                var, t = rule[0], rule[1]
                fillt = lambda: (t.replace("{key}", self.expr(tgt.slice)) if "{key}" in t else t).replace("{rawvalue}", self.expr(s.value) if "{rawvalue}" in t else "").replace("{value}", self.opt(s.value) if "{value}" in t else "")
                if len(rule) > 2 and rule[2]:
                    return var, (lambda: "py_v"), fillt()        # the store itself may raise: bind its result
                return var, fillt, False
            if isinstance(tgt, ast.Attribute) and dotted(tgt) is not None and "%s=" % dotted(tgt) in rules:
                var, t = rules["%s=" % dotted(tgt)]
                return var, (lambda: t.replace("{value}", self.expr(s.value)) if "{value}" in t else t), False
        if isinstance(s, ast.Expr) and isinstance(s.value, ast.Call):
            d = dotted(s.value.func)
            if d is not None and "%s()" % d in rules:
                var, t, raising = rules["%s()" % d]
                return var, (lambda: t.replace("{0}", "py_v" if raising else self.expr(s.value.args[0]))), (self.expr(s.value.args[0]) if raising else False)
        return None

    def stores(self, stmts):
        out = names_stored(stmts)
        for n in stmts:
            for x in ast.walk(n):
                if isinstance(x, ast.stmt):
                    m = self.mutation_target(x)
                    if m and m not in out: out.append(m)
                    if isinstance(x, ast.Break) and "py_done" not in out: out.append("py_done")
        return out

    def mutation_target(self, s):
        rules = self.spec.get("mutations", {})
        if isinstance(s, (ast.Assign, ast.AnnAssign)):
            tgt = s.targets[0] if isinstance(s, ast.Assign) and len(s.targets) == 1 else getattr(s, "target", None)
            if isinstance(tgt, ast.Subscript) and dotted(tgt.value) is not None and "%s[]=" % dotted(tgt.value) in rules:
                return rules["%s[]=" % dotted(tgt.value)][0]
            if isinstance(tgt, ast.Attribute) and dotted(tgt) is not None and "%s=" % dotted(tgt) in rules:
                return rules["%s=" % dotted(tgt)][0]
        if isinstance(s, ast.Expr) and isinstance(s.value, ast.Call):
            d = dotted(s.value.func)
            if d is not None and "%s()" % d in rules:
                return rules["%s()" % d][0]
        return None

    def opt(self, e):
        """an expression where the model holds an Optional[str]: None, an Optional variable, or a string"""
        if isinstance(e, ast.Constant) and e.value is None: return "none"
        if isinstance(e, ast.Name) and e.id in self.spec.get("optional_locals", ()): return self.ident(e.id)
        if dotted(e) in self.spec.get("optional_exprs", {}): return self.spec["optional_exprs"][dotted(e)]
        return "(some %s)" % self.expr(e)

    def __init__(self, spec, node, module_ast):
        self.spec, self.node, self.module = spec, node, module_ast
        self.names = dict(spec.get("names", {}))          # dotted python name -> lean term
        self.calls = dict(spec.get("calls", {}))          # dotted callee -> template
        self.methods = dict(spec.get("methods", {}))      # method name -> template ({self}, {0}, ...)
        self.fields = dict(spec.get("fields", {}))        # attribute name -> lean field (generic fallback)
        self.ret_mode = spec.get("ret_mode", "plain")     # plain | except | list (generator)
        self.raises = dict(spec.get("raises", {}))        # exception class name -> lean error term
        self.locals = set()
        self.fold_vars = set()
        self.fresh = 0

    # ---------------------------------------------------------------- names
    def ident(self, name):
        n = name
        if n in LEAN_KEYWORDS or n.startswith("_"):
            n = "py_" + n.lstrip("_")
        return n

    # ---------------------------------------------------------------- expressions
    def expr(self, e):
        if not isinstance(e, (ast.Constant, ast.Name)) and ast.unparse(e) in self.spec.get("exprs", {}):
            return self.spec["exprs"][ast.unparse(e)]          # a whole expression bound by its source text
        if isinstance(e, ast.Constant):
            v = e.value
            if v is True: return "true"
            if v is False: return "false"
            if v is None: return "none"
            if isinstance(v, int): return str(v) if v >= 0 else "(%d)" % v
            if isinstance(v, float):
                from fractions import Fraction
                q = Fraction(v)
                return "(%d : Rat)" % q.numerator if q.denominator == 1 else "((%d : Rat) / %d)" % (q.numerator, q.denominator)
            if isinstance(v, str): return lean_str(v)
            raise Unsupported("constant %r" % (v,))
        if isinstance(e, (ast.Name, ast.Attribute)):
            d = dotted(e)
            if d is not None:
                if d in self.names: return self.names[d]
                if isinstance(e, ast.Name):
                    if d in self.spec.get("optional_as_str", ()): return "(%s.getD [])" % self.ident(d)
                    if d in self.locals: return self.ident(d)
                    raise Unsupported("unbound name %s" % d)
                # longest bound prefix, remaining attributes as fields
                parts = d.split(".")
                for k in range(len(parts) - 1, 0, -1):
                    pre = ".".join(parts[:k])
                    if pre in self.names or (k == 1 and pre in self.locals):
                        base = self.names.get(pre, self.ident(pre))
                        rem = parts[k:]
                        while rem:
                            if len(rem) >= 2 and ".".join(rem[:2]) in self.fields:
                                f, rem = self.fields[".".join(rem[:2])], rem[2:]
                            elif rem[0] in self.fields:
                                f, rem = self.fields[rem[0]], rem[1:]
                            else:
                                raise Unsupported("attribute .%s of %s" % (rem[0], pre))
                            base = "(%s).%s" % (base, f) if not base.replace(".", "").replace("_", "").isalnum() else "%s.%s" % (base, f)
                        return base
                raise Unsupported("unbound name %s" % d)
            if isinstance(e, ast.Attribute):
                if e.attr not in self.fields: raise Unsupported("attribute .%s" % e.attr)
                return "(%s).%s" % (self.expr(e.value), self.fields[e.attr])
        if isinstance(e, ast.BinOp):
            ops = dict({ast.Add: "+", ast.Sub: "-", ast.Mult: "*", ast.Div: "/"})
            for k, v in self.spec.get("binops", {}).items(): ops[getattr(ast, k)] = v
            if type(e.op) not in ops: raise Unsupported("operator %s" % type(e.op).__name__)
            return "(%s %s %s)" % (self.expr(e.left), ops[type(e.op)], self.expr(e.right))
        if isinstance(e, ast.UnaryOp):
            if isinstance(e.op, ast.USub): return "(-%s)" % self.expr(e.operand)
            if isinstance(e.op, ast.Not): return "(decide (%s))" % self.cond(e)
            raise Unsupported("unary %s" % type(e.op).__name__)
        if isinstance(e, (ast.Compare, ast.BoolOp)):
            if isinstance(e, ast.BoolOp) and isinstance(e.op, ast.Or) and len(e.values) == 2 and ast.unparse(e.values[0]) in self.spec.get("value_or", {}):
                # `a or b` used for its value: bound per function and per left operand (the truthiness rule depends on the type of `a`)
                return self.spec["value_or"][ast.unparse(e.values[0])].replace("{0}", self.expr(e.values[0])).replace("{1}", self.expr(e.values[1]))
            return "(decide (%s))" % self.cond(e)
        if isinstance(e, ast.IfExp):
            return "(if %s then %s else %s)" % (self.cond(e.test), self.expr(e.body), self.expr(e.orelse))
        if isinstance(e, ast.Tuple):
            return "(" + ", ".join(self.expr(x) for x in e.elts) + ")"
        if isinstance(e, ast.List):
            return "[" + ", ".join(self.expr(x) for x in e.elts) + "]"
        if isinstance(e, ast.JoinedStr):
            # an f-string whose interpolated values are strings (as the binding types them): concatenation
            parts = []
            for v in e.values:
                if isinstance(v, ast.Constant) and isinstance(v.value, str): parts.append(lean_str(v.value))
                elif isinstance(v, ast.FormattedValue) and v.conversion == -1 and v.format_spec is None: parts.append(self.expr(v.value))
                else: raise Unsupported("f-string with a conversion or format")
            return "(" + " ++ ".join(parts) + ")" if parts else lean_str("")
        if isinstance(e, ast.Call):
            return self.call(e)
        if isinstance(e, ast.Subscript):
            d = dotted(e.value)
            if d and isinstance(e.slice, ast.Slice):
                sl = "%s:%s" % (ast.unparse(e.slice.lower) if e.slice.lower else "", ast.unparse(e.slice.upper) if e.slice.upper else "")
                if e.slice.step is None and "%s[%s]" % (d, sl) in self.calls:
                    return self.calls["%s[%s]" % (d, sl)]
                raise Unsupported("slice %s[%s]" % (d, sl))
            key = "%s[]" % d if d else None
            if key and key in self.calls:
                return self.calls[key].replace("{0}", self.expr(e.slice))
            raise Unsupported("subscript of %s" % (d or type(e.value).__name__))
        raise Unsupported("expression %s" % type(e).__name__)

    def call(self, e):
        args = [a for a in e.args]
        kw = {k.arg: k.value for k in e.keywords}
        d = dotted(e.func)
        if (any(isinstance(a, ast.Starred) for a in args) or None in kw) and not callable(self.calls.get(d)):
            raise Unsupported("star arguments")
        # any(<gen>) / all(<gen>) / sum(<gen of bool>)
        if d in ("any", "all", "sum") and len(args) == 1 and isinstance(args[0], ast.GeneratorExp) and d not in self.calls:
            g = args[0]
            if len(g.generators) != 1 or g.generators[0].ifs or not isinstance(g.generators[0].target, ast.Name):
                raise Unsupported("comprehension shape")
            var = g.generators[0].target.id
            it = self.expr(g.generators[0].iter)
            self.locals.add(var)
            body = self.cond(g.elt)
            if d == "sum":
                return "((%s).filter (fun %s => decide (%s))).length" % (it, self.ident(var), body)
            return "((%s).%s (fun %s => decide (%s)))" % (it, d, self.ident(var), body)
        if d is not None and args and dotted(args[0]) and "%s(%s)" % (d, dotted(args[0])) in self.calls:
            return self.fill(self.calls["%s(%s)" % (d, dotted(args[0]))], None, args, kw, skip=("0",))
        if d is not None and d in self.calls:
            t = self.calls[d]
            if callable(t): return t(self, args, kw)
            return self.fill(t, None, args, kw)
        if isinstance(e.func, ast.Attribute) and e.func.attr in self.methods:
            t = self.methods[e.func.attr]
            if callable(t): return t(self, e.func.value, args, kw)
            return self.fill(t, e.func.value, args, kw)
        raise Unsupported("call of %s" % (d or type(e.func).__name__))

    def default_of(self, file, qual, param):
        path = os.path.join(REPO, file)
        tree = ast.parse(open(path, encoding="utf-8").read())
        d = signature_defaults(tree, qual)
        if d is None or param not in d: raise Unsupported("no default for %s of %s" % (param, qual))
        return d[param]

    def fill(self, template, recv, args, kw, skip=()):
        if isinstance(template, tuple):
            template, defaults = template
            kw = dict(kw)
            for key, (file, qual, param) in defaults.items():
                present = (key.isdigit() and int(key) < len(args)) or key in kw or param in kw
                if param in kw and key != param:
                    kw[key] = kw.pop(param)
                elif not present:
                    kw[key] = self.default_of(file, qual, param)
        return self._fill(template, recv, args, kw, skip)

    def _fill(self, template, recv, args, kw, skip=()):
        """substitutes {self}, {0}, {1}, {kw} in the binding's template; {_0} marks an argument as deliberately ignored;
        every argument the call site passes must be consumed by the template (else the call has a shape the binding
        does not describe)"""
        avail = {}
        if recv is not None: avail["self"] = recv
        for i, a in enumerate(args): avail[str(i)] = a
        for k, v in kw.items(): avail[k] = v
        used = set(skip)
        template = re.sub(r"\{_(\w+)\}", lambda mo: (used.add(mo.group(1)) or ""), template)

        def sub(mo):
            k = mo.group(1)
            if k not in avail: raise Unsupported("call shape: argument %s missing" % k)
            used.add(k); return self.expr(avail[k])
        out = re.sub(r"\{(\w+)\}", sub, template.replace("{{", "\x00").replace("}}", "\x01")).replace("\x00", "{").replace("\x01", "}")
        extra = [k for k in avail if k not in used and k != "self"]
        if extra: raise Unsupported("call shape: unexpected argument %s" % extra[0])
        return out

    # ---------------------------------------------------------------- conditions (Prop-valued; Bool coerces)
    def cond(self, e):
        if not isinstance(e, (ast.Constant, ast.Name, ast.BoolOp)) and ast.unparse(e) in self.spec.get("conds", {}):
            return self.spec["conds"][ast.unparse(e)]          # a whole condition bound by its source text
        if isinstance(e, ast.BoolOp):
            op = " ∧ " if isinstance(e.op, ast.And) else " ∨ "
            return "(" + op.join(self.cond(v) for v in e.values) + ")"
        if isinstance(e, ast.UnaryOp) and isinstance(e.op, ast.Not):
            return "(¬ %s)" % self.cond(e.operand)
        if isinstance(e, ast.Compare):
            parts = []
            left = e.left
            for op, right in zip(e.ops, e.comparators):
                parts.append(self.compare(left, op, right)); left = right
            return parts[0] if len(parts) == 1 else "(" + " ∧ ".join(parts) + ")"
        if isinstance(e, ast.Call) and dotted(e.func) == "bool" and len(e.args) == 1:
            return self.cond(e.args[0])
        if isinstance(e, ast.Call) and dotted(e.func) == "isinstance" and len(e.args) == 2:
            key = "isinstance(%s, %s)" % (dotted(e.args[0]), dotted(e.args[1]))
            if key in self.names: return self.names[key]
            raise Unsupported(key)
        # a bare value used as a condition: only values the binding declares boolean (or gives a truthiness rule for)
        d = dotted(e) if isinstance(e, (ast.Name, ast.Attribute)) else None
        truthy = self.spec.get("truthy", {})
        if d is not None and d in truthy:
            return truthy[d]
        if isinstance(e, ast.Call):
            dd = dotted(e.func)
            key = (dd or "") + "()"
            if key in truthy: return truthy[key].replace("{0}", self.expr(e))
            if isinstance(e.func, ast.Attribute) and "." + e.func.attr + "()" in truthy:
                return truthy["." + e.func.attr + "()"].replace("{0}", self.expr(e))
        raise Unsupported("truthiness of %s" % (d or type(e).__name__))

    def compare(self, l, op, r):
        if isinstance(op, (ast.In, ast.NotIn)) and dotted(r) in self.spec.get("contains", {}):
            c = self.spec["contains"][dotted(r)].replace("{0}", self.expr(l))
            return c if isinstance(op, ast.In) else "(¬ %s)" % c
        if isinstance(op, (ast.In, ast.NotIn)):
            if isinstance(r, (ast.Tuple, ast.List, ast.Set)):
                le = self.expr(l)
                c = "(" + " ∨ ".join("%s = %s" % (le, self.expr(x)) for x in r.elts) + ")"
            else:
                c = "(%s ∈ %s)" % (self.expr(l), self.expr(r))
            return c if isinstance(op, ast.In) else "(¬ %s)" % c
        if isinstance(op, (ast.Is, ast.IsNot)) and isinstance(r, ast.Constant) and r.value is None:
            raw = self.ident(l.id) if isinstance(l, ast.Name) and l.id in self.locals else \
                (self.spec["optional_exprs"][dotted(l)] if dotted(l) in self.spec.get("optional_exprs", {}) else self.expr(l))
            c = "(%s = none)" % raw
            return c if isinstance(op, ast.Is) else "(¬ %s)" % c
        ops = {ast.Eq: "=", ast.NotEq: "≠", ast.Lt: "<", ast.LtE: "≤", ast.Gt: ">", ast.GtE: "≥"}
        if type(op) not in ops: raise Unsupported("comparison %s" % type(op).__name__)
        # lexicographic comparison of tuples is bound per function (cmp_tuple), everything else is the type's own order
        if (isinstance(l, ast.Tuple) or isinstance(r, ast.Tuple)) and type(op) not in (ast.Eq, ast.NotEq):
            raise Unsupported("tuple ordering")
        key = type(op).__name__
        if "cmp" in self.spec and key in self.spec["cmp"]:
            return self.spec["cmp"][key].replace("{0}", self.expr(l)).replace("{1}", self.expr(r))
        return "(%s %s %s)" % (self.expr(l), ops[type(op)], self.expr(r))

    # ---------------------------------------------------------------- statements
    def ret(self, v):
        if self.ret_mode == "except": return "(Except.ok %s)" % v
        return v

    def block(self, stmts, rest_value, in_loop=None):
        """Lean term for the statement list; `rest_value` is the term to use when control falls off the end
        (None: falling off the end is not supported here). in_loop: 'search' | 'yield' | None"""
        if not stmts:
            if rest_value is None: raise Unsupported("control falls off the end")
            return rest_value
        s, rest = stmts[0], stmts[1:]
        if isinstance(s, ast.Expr) and isinstance(s.value, ast.Constant) and isinstance(s.value.value, str):
            return self.block(rest, rest_value, in_loop)            # docstring
        if isinstance(s, ast.Pass):
            return self.block(rest, rest_value, in_loop)
        if isinstance(s, ast.Assert):
            self.spec.setdefault("_assumed", []).append(ast.unparse(s.test))
            return self.block(rest, rest_value, in_loop)
        if isinstance(s, ast.Return):
            if in_loop == "yield": raise Unsupported("return inside a generator loop")
            if self.ret_mode == "option":
                isnone = s.value is None or (isinstance(s.value, ast.Constant) and s.value.value is None)
                v = "none" if isnone else "(some %s)" % self.expr(s.value)
            else:
                v = self.ret(self.expr(s.value)) if s.value is not None else self.ret("()")
            return "(some %s)" % v if in_loop == "search" else v
        if isinstance(s, ast.Raise):
            if self.ret_mode != "except": raise Unsupported("raise in a function bound as total")
            exc = s.exc.func if isinstance(s.exc, ast.Call) else s.exc
            name = dotted(exc)
            if name not in self.raises: raise Unsupported("raise %s" % name)
            v = "(Except.error %s)" % self.raises[name]
            return "(some %s)" % v if in_loop == "search" else v
        if isinstance(s, ast.Continue):
            if in_loop == "yield": return "[]"
            if in_loop == "search": return "none"
            if in_loop == "fold": return rest_value
            raise Unsupported("continue outside a loop")
        if isinstance(s, ast.Break):
            if in_loop == "fold": return "(let py_done := true\n %s)" % rest_value
            raise Unsupported("break outside a state loop")
        if isinstance(s, (ast.Assign, ast.AnnAssign)):
            tgt0 = s.targets[0] if isinstance(s, ast.Assign) and len(s.targets) == 1 else getattr(s, "target", None)
            if dotted(tgt0) in self.spec.get("ignore_assign", ()):
                return self.block(rest, rest_value, in_loop)
        rc = self.spec.get("raising_calls", {})
        if rc and isinstance(s, (ast.Assign, ast.AnnAssign)) and isinstance(getattr(s, "value", None), ast.Call) and dotted(s.value.func) in rc:
            # x = f(...) where f may raise: bind its result
            tgt = s.targets[0] if isinstance(s, ast.Assign) and len(s.targets) == 1 else getattr(s, "target", None)
            if not isinstance(tgt, ast.Name) or self.ret_mode != "except": raise Unsupported("a raising call outside an assignment to a name")
            call = self.fill(rc[dotted(s.value.func)], None, s.value.args, {k.arg: k.value for k in s.value.keywords})
            self.locals.add(tgt.id)
            return "(Except.bind %s (fun %s =>\n %s))" % (call, self.ident(tgt.id), self.block(rest, rest_value, in_loop))
        m = self.mutation(s)
        if m is not None:
            var, val, raising = m
            self.locals.add(var)
            if raising:
                if self.ret_mode != "except": raise Unsupported("a raising call in a function bound as total")
                return "(Except.bind %s (fun py_v =>\n (let %s := %s\n %s)))" % (raising, var, val(), self.block(rest, rest_value, in_loop))
            return "(let %s := %s\n %s)" % (var, val(), self.block(rest, rest_value, in_loop))
        if isinstance(s, (ast.Assign, ast.AnnAssign)) and isinstance(getattr(s, "value", None), ast.Call) and dotted(s.value.func) == "next" \
                and len(s.value.args) == 1 and isinstance(s.value.args[0], ast.Name) and s.value.args[0].id in self.locals:
            # x = next(it): the iterator is a list in the model; an exhausted one raises StopIteration
            tgt = s.targets[0] if isinstance(s, ast.Assign) else s.target
            if not isinstance(tgt, ast.Name) or self.ret_mode != "except" or "StopIteration" not in self.raises: raise Unsupported("next()")
            it = self.ident(s.value.args[0].id)
            self.locals.add(tgt.id)
            return "(match %s with\n | [] => (Except.error %s)\n | %s :: %s =>\n %s)" % (it, self.raises["StopIteration"], self.ident(tgt.id), it,
                                                                                  self.block(rest, rest_value, in_loop))
        if isinstance(s, (ast.Assign, ast.AnnAssign)):
            tgt = s.targets[0] if isinstance(s, ast.Assign) else s.target
            if isinstance(s, ast.Assign) and len(s.targets) != 1: raise Unsupported("chained assignment")
            if s.value is None: return self.block(rest, rest_value, in_loop)
            if isinstance(tgt, ast.Name):
                v = self.opt(s.value) if tgt.id in self.spec.get("optional_locals", ()) else self.expr(s.value)
                self.locals.add(tgt.id)
                ty = self.spec.get("local_types", {}).get(tgt.id)
                return "(let %s%s := %s\n %s)" % (self.ident(tgt.id), " : " + ty if ty else "", v, self.block(rest, rest_value, in_loop))
            if isinstance(tgt, ast.Tuple) and all(isinstance(x, ast.Name) for x in tgt.elts):
                v = self.expr(s.value)
                for x in tgt.elts: self.locals.add(x.id)
                return "(let (%s) := %s\n %s)" % (", ".join(self.ident(x.id) for x in tgt.elts), v, self.block(rest, rest_value, in_loop))
            raise Unsupported("assignment target %s" % type(tgt).__name__)
        if isinstance(s, ast.AugAssign):
            if not isinstance(s.target, ast.Name): raise Unsupported("augmented assignment target")
            ops = {ast.Add: "+", ast.Sub: "-", ast.Mult: "*", ast.Div: "/"}
            if type(s.op) not in ops: raise Unsupported("augmented operator")
            n = self.ident(s.target.id)
            if s.target.id not in self.locals: raise Unsupported("augmented assignment to unbound %s" % n)
            return "(let %s := (%s %s %s)\n %s)" % (n, n, ops[type(s.op)], self.expr(s.value), self.block(rest, rest_value, in_loop))
        rc = self.spec.get("raising_calls", {})
        if rc and isinstance(s, ast.If):
            # `if a and b and g(f(x)) and c:` where f may raise: a and b are tested first (short circuit), then f is evaluated and
            # its result bound, then the remaining conjuncts
            vals = s.test.values if isinstance(s.test, ast.BoolOp) and isinstance(s.test.op, ast.And) else [s.test]
            hits = [(i, n) for i, v in enumerate(vals) for n in ast.walk(v) if isinstance(n, ast.Call) and dotted(n.func) in rc]
            if hits:
                if self.ret_mode != "except": raise Unsupported("a raising call in a function bound as total")
                if len(hits) != 1: raise Unsupported("two raising calls in one condition")
                idx, c = hits[0]
                bound = self.fill(rc[dotted(c.func)], None, c.args, {k.arg: k.value for k in c.keywords})
                target = ast.dump(c)

                class Sub(ast.NodeTransformer):
                    def visit_Call(self, node):
                        if ast.dump(node) == target: return ast.copy_location(ast.Name(id="py_r", ctx=ast.Load()), node)
                        return self.generic_visit(node)
                import copy as _copy
                newval = Sub().visit(_copy.deepcopy(vals[idx]))
                saved = set(self.locals)
                o = self.block(s.orelse + rest, rest_value, in_loop)
                self.locals = set(saved); self.locals.add("py_r")
                inner_cond = " ∧ ".join([self.cond(newval)] + [self.cond(v) for v in vals[idx + 1:]])
                b = self.block(s.body + rest, rest_value, in_loop)
                self.locals = set(saved)
                inner = "(Except.bind %s (fun py_r =>\n (if %s then\n %s\n else\n %s)))" % (bound, inner_cond, b, o)
                if idx == 0: return inner
                return "(if %s then\n %s\n else\n %s)" % (" ∧ ".join(self.cond(v) for v in vals[:idx]), inner, o)
        if isinstance(s, ast.If) and isinstance(s.test, ast.Call) and dotted(s.test.func) in self.spec.get("raising_conditions", {}):
            # `if f(...):` where f may raise: evaluate it first, then branch on the value
            if self.ret_mode != "except": raise Unsupported("a raising call in a function bound as total")
            kw = {k.arg: k.value for k in s.test.keywords}
            call = self.fill(self.spec["raising_conditions"][dotted(s.test.func)], None, s.test.args, kw)
            saved = set(self.locals)
            b = self.block(s.body + rest, rest_value, in_loop)
            self.locals = set(saved)
            o = self.block(s.orelse + rest, rest_value, in_loop)
            return "(Except.bind %s (fun py_c =>\n (if py_c = true then\n %s\n else\n %s)))" % (call, b, o)
        if isinstance(s, ast.If):
            c = self.cond(s.test)
            tb, te = terminates(s.body), terminates(s.orelse) if s.orelse else False
            live_after = names_loaded(rest)
            joined = [v for v in self.stores(s.body + s.orelse) if v in live_after or (in_loop == "fold" and v in self.fold_vars)]
            if in_loop == "yield" or tb or te or not rest or not joined:
                # no join point needed: the rest is placed behind the branch(es) that fall through
                saved = set(self.locals)
                b = self.block(s.body + ([] if tb else rest), rest_value, in_loop)
                self.locals = set(saved)
                o = self.block(s.orelse + ([] if te else rest), rest_value, in_loop)
                self.locals = saved | (self.locals if not te else set())
                return "(if %s then\n %s\n else\n %s)" % (c, b, o)
            # both branches may fall through and statements follow: join on the variables that are live afterwards
            assigned = joined
            saved = set(self.locals)
            tup = self.ident(assigned[0]) if len(assigned) == 1 else "(" + ", ".join(self.ident(v) for v in assigned) + ")"
            b = self._branch(s.body, assigned, tup, saved, in_loop)
            o = self._branch(s.orelse, assigned, tup, saved, in_loop)
            self.locals = saved | set(assigned)
            return "(let %s := (if %s then\n %s\n else\n %s)\n %s)" % (tup, c, b, o, self.block(rest, rest_value, in_loop))
        if isinstance(s, ast.For):
            if s.orelse: raise Unsupported("for/else")
            if not isinstance(s.target, (ast.Name, ast.Tuple)): raise Unsupported("loop target")
            it = self.expr(s.iter)
            saved = set(self.locals)
            if isinstance(s.target, ast.Name):
                pat = self.ident(s.target.id); self.locals.add(s.target.id)
            else:
                if not all(isinstance(x, ast.Name) for x in s.target.elts): raise Unsupported("loop target")
                pat = "(" + ", ".join(self.ident(x.id) for x in s.target.elts) + ")"
                for x in s.target.elts: self.locals.add(x.id)
            if self.ret_mode == "list":
                body = self.block(s.body, "[]", "yield")
                self.locals = saved
                after = self.block(rest, "[]", in_loop) if rest else "[]"
                return "((%s).flatMap (fun %s =>\n %s) ++ %s)" % (it, pat, body, after)
            carried = [v for v in self.stores(s.body) if v in saved or v == "py_done"]
            if carried and self.ret_mode in ("except", "plain") and self.spec.get("mutations") is not None:
                # a loop that updates state: a fold over the iterated list; the state is the tuple of variables that exist before
                # the loop and are assigned in its body (plus the `break` flag)
                has_break = "py_done" in carried
                tup = self.ident(carried[0]) if len(carried) == 1 else "(" + ", ".join(self.ident(v) for v in carried) + ")"
                okt = "(Except.ok %s)" % tup if self.ret_mode == "except" else tup
                self.fold_vars = set(carried)
                if has_break: self.locals.add("py_done")
                body = self.block(s.body, okt, "fold")
                if has_break: body = "(if py_done = true then %s else\n %s)" % (okt, body)
                self.locals = saved | set(carried) - {"py_done"}
                leak = (set(self.stores(s.body)) - set(carried)) & names_loaded(rest)
                if leak: raise Unsupported("variable %s first assigned in a loop and used after it" % sorted(leak)[0])
                after = self.block(rest, rest_value, in_loop)
                init = tup.replace("py_done", "false") if has_break else tup
                if self.ret_mode == "except":
                    return "(Except.bind ((%s).foldlM (fun %s %s =>\n %s) %s) (fun %s =>\n %s))" % (it, tup, pat, body, init, tup, after)
                return "(let %s := (%s).foldl (fun %s %s =>\n %s) %s\n %s)" % (tup, it, tup, pat, body, init, after)
            # a loop that only searches: no assignment in its body may be visible afterwards
            if set(names_stored(s.body)) & names_loaded(rest):
                raise Unsupported("loop that accumulates into a variable used later")
            body = self.block(s.body, "none", "search")
            self.locals = saved
            after = self.block(rest, rest_value, in_loop)
            if in_loop == "search":
                return "(Py.forFirst (%s) (fun %s =>\n (%s).map some)\n %s)" % (it, pat, body, after)
            return "(Py.forFirst (%s) (fun %s =>\n %s)\n %s)" % (it, pat, body, after)
        if isinstance(s, ast.Expr):
            v = s.value
            if isinstance(v, ast.Yield):
                if self.ret_mode != "list": raise Unsupported("yield in a function not bound as a generator")
                item = self.expr(v.value)
                return "(%s :: %s)" % (item, self.block(rest, rest_value if rest_value is not None else "[]", in_loop))
            if isinstance(v, ast.Call) and dotted(v.func) == self.spec.get("append_is_return") and not rest:
                return self.ret(self.expr(v.args[0]))
            if isinstance(v, ast.Call) and self.ret_mode == "list":
                d = dotted(v.func)
                tail = lambda: self.block(rest, rest_value if rest_value is not None else "[]", in_loop)
                if d is not None and d == self.spec.get("write_call") and len(v.args) == 1 and not v.keywords:
                    return "(%s ++ %s)" % (self.write_items(v.args[0]), tail())
                wc = self.spec.get("writer_calls", {})
                kw = {k.arg: k.value for k in v.keywords}
                if d in wc:
                    return "(%s ++ %s)" % (self.fill(wc[d], None, v.args, kw), tail())
                if isinstance(v.func, ast.Attribute) and "." + v.func.attr in wc:
                    return "(%s ++ %s)" % (self.fill(wc["." + v.func.attr], v.func.value, v.args, kw), tail())
            raise Unsupported("expression statement %s" % ast.unparse(v)[:40])
        raise Unsupported("statement %s" % type(s).__name__)

    def is_param(self, e):
        return (isinstance(e, ast.Name) and e.id in self.spec.get("param_vars", ())) or \
               (isinstance(e, ast.Call) and dotted(e.func) == self.spec.get("param_ctor"))

    def write_items(self, e):
        """what `file.write(e)` appends, as a list of items: parameters (objects the MSD layer renders) and plain text"""
        if isinstance(e, ast.Call) and dotted(e.func) == "str" and len(e.args) == 1 and self.is_param(e.args[0]):
            return "[Item.param %s]" % self.expr(e.args[0])
        if isinstance(e, ast.Constant) and isinstance(e.value, str):
            return "[Item.text %s]" % lean_str(e.value)
        if isinstance(e, ast.JoinedStr):
            items, text = [], []

            def flush():
                if text:
                    items.append("Item.text (%s)" % " ++ ".join(text)); del text[:]
            for v in e.values:
                if isinstance(v, ast.Constant) and isinstance(v.value, str): text.append(lean_str(v.value))
                elif isinstance(v, ast.FormattedValue) and v.conversion == -1 and v.format_spec is None:
                    if self.is_param(v.value):
                        flush(); items.append("Item.param %s" % self.expr(v.value))
                    else:
                        text.append(self.expr(v.value))
                else:
                    raise Unsupported("f-string with a conversion or format")
            flush()
            return "[" + ", ".join(items) + "]"
        raise Unsupported("written value %s" % type(e).__name__)

    def _branch(self, stmts, assigned, tup, saved, in_loop):
        self.locals = set(saved)
        for v in assigned:
            if v not in self.stores(stmts) and v not in saved:
                raise Unsupported("variable %s is defined on one path only" % v)
        return self.block(stmts, tup, in_loop)

    # ---------------------------------------------------------------- whole function
    def translate(self):
        a = self.node.args
        params = [p.arg for p in a.posonlyargs + a.args + a.kwonlyargs]
        if a.vararg and "vararg" not in self.spec: raise Unsupported("*args")
        if a.kwarg: raise Unsupported("**kwargs")
        want = [p for p, _ in self.spec["params"]]
        have = params + ([a.vararg.arg] if a.vararg else [])
        drop = set(self.spec.get("ignore_params", []))
        if [p for p in have if p not in drop] != want:
            raise Unsupported("parameter list is %s, binding expects %s" % (have, want))
        for p in want: self.locals.add(p)
        for p, _ in self.spec.get("state_params", []): self.locals.add(p)
        # defaults of keyword parameters are part of the function: record them for callers (e.g. group_notes' options)
        body = self.block(list(self.node.body), "[]" if self.ret_mode == "list" else self.spec.get("fallthrough"))
        sig = " ".join("(%s : %s)" % (self.ident(p), t) for p, t in self.spec.get("state_params", []) + self.spec["params"])
        return "def %s %s : %s :=\n %s" % (self.spec["lean"], sig, self.spec["ret"], body)


class _Strict(dict):
    def __missing__(self, k):
        raise KeyError(k)


def find_function(tree, qual):
    parts = qual.split(".")
    body = tree.body
    node = None
    for i, p in enumerate(parts):
        node = None
        for n in body:
            if isinstance(n, (ast.FunctionDef, ast.ClassDef)) and n.name == p:
                node = n; break
        if node is None: return None
        body = node.body
    return node if isinstance(node, ast.FunctionDef) else None


def signature_defaults(tree, qual):
    """keyword -> default expression (ast) of a function, for callers that omit the keyword"""
    f = find_function(tree, qual)
    if f is None: return None
    a = f.args
    out = {}
    pos = a.posonlyargs + a.args
    for p, d in zip(pos[len(pos) - len(a.defaults):], a.defaults): out[p.arg] = d
    for p, d in zip(a.kwonlyargs, a.kw_defaults):
        if d is not None: out[p.arg] = d
    return out


def main():
    sys.path.insert(0, os.path.dirname(os.path.abspath(__file__)))
    sys.modules.setdefault("gen_code", sys.modules[__name__])      # the bindings raise gen_code.Unsupported: one class, however this file was started
    import gen_code_bindings as B
    os.makedirs(OUT, exist_ok=True)
    status = {}
    trees = {}
    for spec in B.BINDINGS:
        spec = dict(spec)
        name = spec["lean"]
        path = os.path.join(REPO, spec["file"])
        entry = {"file": spec["file"], "function": spec["qual"], "lean": "Simfile.GenCode." + name, "module": "Simfile.Gen.Code." + spec["module"],
                 "model": spec["model"], "theorem": "Simfile.GenEq." + spec["theorem"], "eq_module": "Simfile.Props.GenEq." + spec["module"],
                 "properties": spec["properties"]}
        try:
            if path not in trees:
                trees[path] = ast.parse(open(path, encoding="utf-8").read())
            node = find_function(trees[path], spec["qual"])
            if node is None: raise Unsupported("function %s not found in %s" % (spec["qual"], spec["file"]))
            for req in spec.get("requires", []):
                req(lambda f: trees.setdefault(os.path.join(REPO, f), ast.parse(open(os.path.join(REPO, f), encoding="utf-8").read())))
            fn = Fn(spec, node, trees[path])
            lean = fn.translate()
            entry["status"] = "translated"
            entry["python_lines"] = (node.end_lineno or node.lineno) - node.lineno + 1
            if spec.get("_assumed"): entry["asserts_assumed"] = spec["_assumed"]
        except Unsupported as ex:
            entry["status"] = "untranslatable"; entry["reason"] = str(ex)[:300]
            lean = None
        except SyntaxError as ex:
            entry["status"] = "untranslatable"; entry["reason"] = "syntax error in %s" % spec["file"]
            lean = None
        except Exception as ex:
            entry["status"] = "untranslatable"; entry["reason"] = "translator error: %s: %s" % (type(ex).__name__, str(ex)[:200])
            lean = None
        status.setdefault(spec["module"], {"functions": {}, "imports": spec["imports"]})
        status[spec["module"]]["functions"][name] = entry
        status[spec["module"]]["functions"][name]["_lean"] = lean
    # a function that calls an untranslatable one has no definition to call: it is untranslatable too
    changed = True
    while changed:
        changed = False
        bad = {n for info in status.values() for n, e in info["functions"].items() if e["status"] != "translated"}
        for info in status.values():
            for n, e in info["functions"].items():
                if e["status"] == "translated":
                    deps = set(re.findall(r"Simfile\.GenCode\.(\w+)", e["_lean"])) & bad
                    if deps:
                        e["status"] = "untranslatable"; e["reason"] = "calls %s, which is untranslatable" % sorted(deps)[0]
                        e["_lean"] = None; changed = True
    # one Lean module per binding module; a module with an untranslatable function contains the others only
    for mod, info in status.items():
        lines = ["/- GENERATED by harness/gen_code.py from %s — do not edit. -/" % ", ".join(sorted({e["file"] for e in info["functions"].values()}))]
        lines += ["import Simfile.Gen.PyPrelude"] + ["import %s" % i for i in info["imports"]]
        lines += ["set_option linter.unusedVariables false", "namespace Simfile.GenCode", "open Simfile", ""]
        for name, e in info["functions"].items():
            lean = e.pop("_lean")
            if lean is None:
                lines.append("-- %s: untranslatable (%s)\n" % (e["function"], e["reason"]))
            else:
                lines.append("/-- translated from `%s` (%s) -/" % (e["function"], e["file"]))
                lines.append(lean + "\n")
        lines.append("end Simfile.GenCode")
        text = "\n".join(lines) + "\n"
        p = os.path.join(OUT, mod + ".lean")
        old = open(p, encoding="utf-8").read() if os.path.exists(p) else None
        if old != text:
            with open(p, "w", encoding="utf-8") as f: f.write(text)
    flat = {}
    for mod, info in status.items():
        for name, e in info["functions"].items(): flat[name] = e
    old = open(STATUS).read() if os.path.exists(STATUS) else None
    new = json.dumps(flat, indent=1, sort_keys=True)
    if old != new:
        with open(STATUS, "w") as f: f.write(new)
    for name, e in flat.items():
        print("gen_code: %-22s %s%s" % (name, e["status"], " (%s)" % e.get("reason") if e["status"] != "translated" else ""))
    return 0


if __name__ == "__main__":
    sys.exit(main())
