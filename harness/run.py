#!/venv/bin/python
"""Entry point of every check: ./check Cnn [--tier quick|thorough] [--replay PATH] | --setup

Layers (DESIGN 1.4): A proof (lake build of the property's theorems over the regenerated tables + axiom
audit), B tie (impl vs Lean model), C direct (the property's predicate on the impl). Exit 0 / 1 / 2.
"""
import argparse, importlib, json, os, random, sys, time, traceback

sys.path.insert(0, os.path.dirname(os.path.abspath(__file__)))
sys.path.insert(0, "/repo")
import core


def source_changed(pid):
    """anchor files of the property whose AST differs from the committed fingerprint (never an alarm: only a deeper search)"""
    try:
        sys.path.insert(0, os.path.join(core.VERIF, "tools"))
        import fingerprint
        allbase = json.load(open(os.path.join(core.VERIF, "fingerprints.json")))
        allcur = fingerprint.current()
        base, cur = dict(allbase.get("_all", {})), dict(allcur.get("_all", {}))
        base.update(allbase.get(pid, {})); cur.update(allcur.get(pid, {}))
        # any source file of the package that differs from the committed fingerprint (anchor files of the property or not)
        return sorted(f for f in set(cur) | set(base) if base.get(f) != cur.get(f))
    except Exception:
        return []


def run_adapter(mod, ctx):
    """runs the property's adapter. An exception that escapes it is an infrastructure failure (exit 2) unless it was raised
    *inside the implementation* (a frame under /repo/): the harness only calls the library on inputs of the property's domain
    and catches the exceptions the property allows, so an exception it did not expect, coming out of the library, means the
    library failed on such an input — reported as a violation with the call chain as its replay, not as a crash of the check."""
    try:
        return mod.run(ctx)
    except core.Infra:
        raise
    except Exception as ex:
        import traceback as _tb
        frames = _tb.extract_tb(ex.__traceback__)
        if not any(os.path.realpath(f.filename).startswith("/repo/") for f in frames):
            raise
        res = core.Result()
        chain = ["%s:%d %s" % (os.path.relpath(f.filename, "/"), f.lineno, f.name) for f in frames][-8:]
        res.rule = "(the adapter was interrupted by an exception raised inside the implementation)"
        res.case({"unexpected_exception": type(ex).__name__})
        res.violation({"unexpected_exception": type(ex).__name__, "message": str(ex)[:300], "call_chain": chain,
                       "seed": ctx.seed, "tier": ctx.tier, "widened": ctx.widen},
                      "the implementation raised %s on an input of the property's domain where the check expected it to work" % type(ex).__name__)
        return res


class Ctx:
    boost = 1

    def __init__(self, pid, tier, seed, widen=False):
        self.pid, self.tier, self.seed, self.widen = pid, tier, seed, widen
        self.rng = random.Random("%s-%s-%s" % (pid, seed, "w" if widen else "n"))
        self.lean = core.Driver()
        self.thorough = tier == "thorough"
        self.findings = [f for f in core.load_findings().get("findings", []) if f["property"] == pid]

    def scale(self, quick, thorough):
        n = thorough if self.thorough else quick * self.boost
        return n * 5 if self.widen else n


def setup():
    ok, out = core.gen_tables()
    print(out.strip())
    if not ok:
        print("gen_tables failed"); return 2
    okc, outc = core.gen_code()
    print(outc.strip())
    gmods = []
    try:
        st = json.load(open(os.path.join(core.LEAN, "Simfile", "Gen", "code_status.json")))
        short = sorted({e["module"].split(".")[-1] for e in st.values()})
        gmods = ["Simfile.GenDiff.Rand", "Simfile.GenDiff.RandObj"] + ["Simfile.Gen.Code." + m for m in short] + ["Simfile.Props.GenEq." + m for m in short]
        gmods += sorted("Simfile.Props.GenProps." + f[:-5] for f in os.listdir(os.path.join(core.LEAN, "Simfile", "Props", "GenProps")) if f.endswith(".lean"))
    except Exception as e:
        print("code translator status unreadable: %s" % e)
    mods = ["Simfile", "Simfile.Driver"] + sorted({m for v in core.PROPS_INDEX.values() for m in [v["module"]] + v.get("extra_modules", [])}) + gmods
    ok, out = core.lake_build(mods)
    print(out[-3000:])
    return 0 if ok else 2


def main():
    ap = argparse.ArgumentParser()
    ap.add_argument("pid", nargs="?")
    ap.add_argument("--tier", default=os.environ.get("VERIF_TIER", "quick"))
    ap.add_argument("--replay")
    ap.add_argument("--setup", action="store_true")
    a = ap.parse_args()
    if a.setup:
        return setup()
    pid = a.pid
    tier = a.tier if a.tier in ("quick", "thorough") else "quick"
    seed = int(os.environ.get("VERIF_SEED", "0") or 0)
    t0 = time.time()
    import simfile
    if not os.path.realpath(simfile.__file__).startswith("/repo/"):
        print("simfile is not imported from /repo: %s" % simfile.__file__); return 2

    ok, out = core.gen_tables()
    if not ok:
        print("gen_tables failed:\n" + out[-2000:]); return 2
    table_problems = [l[9:] for l in out.split("\n") if l.startswith("PROBLEM: ")]
    tdiff = core.tables_diff()
    drv_ok, tables_used, drv_log = core.ensure_driver()
    A = core.proof_layer(pid, thorough=(tier == "thorough")) if drv_ok else {
        "ok": False, "obligations": len(core.PROPS_INDEX.get(pid, {}).get("theorems", [])), "discharged": 0,
        "axioms": {}, "module": "Simfile.Props." + pid,
        "broken": ["models no longer compile against the regenerated tables: " + drv_log[-600:]]}
    if tdiff:
        A.setdefault("notes", []).append("generated tables differ from the committed baseline")
    if table_problems:
        A.setdefault("broken", []).extend("table extraction: " + t for t in table_problems)
        A["ok"] = False

    CT = core.code_tie(pid, seed, thorough=(tier == "thorough")) if drv_ok else {"functions": [], "ties": [], "notes": ["skipped: models do not build"], "proved": 0, "total": 0}
    A["code_tie"] = CT
    mod = importlib.import_module("adapters." + pid.lower())
    changed = source_changed(pid)
    if CT["total"] and CT["proved"] < CT["total"] and tier == "quick":
        Ctx.boost = 4          # a translated function is no longer proved equal to the model: search deeper
    if changed and tier == "quick":
        Ctx.boost = 4          # the code this property is anchored in changed since the fingerprints were taken: search deeper
    if os.environ.get("VERIF_BOOST", "").isdigit():
        Ctx.boost = max(1, int(os.environ["VERIF_BOOST"]))      # deeper quick-tier sampling on request (used when hunting false alarms)
    ctx = Ctx(pid, tier, seed)
    if a.replay:
        # a replay file names the seed and tier it came from; generation is deterministic in them, so the same case is
        # regenerated and re-evaluated against the current tree
        rp = json.load(open(a.replay))
        rseed, rtier = int(rp.get("seed", seed)), rp.get("tier", tier)
        want = (rp.get("violation") or {}).get("case")
        Ctx.boost = int(rp.get("boost", 1))
        rctx = Ctx(pid, rtier, rseed, widen="widened" in rp.get("kind", ""))
        rres = mod.run(rctx)
        same = [v for v in rres.violations if want is not None and v.get("case") == want]
        print(json.dumps({"replay_of": a.replay, "seed": rseed, "tier": rtier, "case": want,
                          "reproduced": bool(same), "violation_now": same[0] if same else None,
                          "other_violations_now": len(rres.violations) - len(same)}, indent=1, default=str)[:6000])
        print("REPLAY %s" % ("REPRODUCED" if same else "NOT REPRODUCED on the current tree"))
        return 1 if same else 0
    cov = None
    if tier == "thorough" or os.environ.get("VERIF_COVERAGE") == "1":
        # which statements and branches of the files this property is anchored in did the tie actually execute?
        try:
            import coverage
            files = [os.path.join("/repo", f) for f in json.loads([l for l in open(os.path.join(core.VERIF, "properties.jsonl")) if '"%s"' % pid in l[:12]][0])["anchors"]["files"] if f.startswith("simfile/")]
            cov = coverage.Coverage(include=files, branch=True, data_file=None)
            cov.start()
        except Exception:
            cov = None
    res = run_adapter(mod, ctx)
    if cov is not None:
        try:
            cov.stop()
            summary = {}
            for f in files:
                try:
                    _, stmts, _, missing, _ = cov.analysis2(f)
                    # only statements inside function bodies count: module-level code ran at import time, before the measurement
                    import ast
                    body = set()
                    for node in ast.walk(ast.parse(open(f, encoding="utf-8").read())):
                        if isinstance(node, (ast.FunctionDef, ast.AsyncFunctionDef)):
                            for st in node.body:
                                body.update(range(st.lineno, (st.end_lineno or st.lineno) + 1))
                    st_in = [l for l in stmts if l in body]; miss_in = [l for l in missing if l in body]
                    summary[os.path.relpath(f, "/repo")] = {"statements_in_function_bodies": len(st_in), "executed": len(st_in) - len(miss_in),
                                                            "missing_lines": miss_in[:80]}
                except Exception as e:
                    summary[os.path.relpath(f, "/repo")] = {"error": type(e).__name__}
            res.stats["impl_coverage_of_anchor_files"] = summary
        except Exception:
            pass

    def unlisted(vs):
        listed = {f["id"] for f in ctx.findings}
        return [v for v in vs if v.get("finding_id") not in listed or v.get("finding_id") is None]

    res.tie_breaks.extend(CT["ties"])
    for nline in CT["notes"]:
        print("note: translator: " + nline)
    viol = unlisted(res.violations)
    broken = list(A.get("broken", []))
    ties = res.tie_breaks
    status = 0
    replay_path = None
    if viol:
        replay_path = core.write_replay(pid, seed, {
            "property": pid, "seed": seed, "tier": tier, "boost": Ctx.boost, "kind": "property-fails-on-impl",
            "violation": viol[0], "more": len(viol) - 1, "proof_layer_broken": broken,
            "tie_disagreements": ties[:3], "tables_diff": tdiff})
        print("VIOLATION property=%s replay=%s" % (pid, os.path.relpath(replay_path, core.VERIF)))
        status = 1
    elif broken or ties:
        # a proof obligation or the correspondence no longer checks: search harder for a failing input
        wctx = Ctx(pid, tier, seed, widen=True)
        wctx.hints = [t["case"] for t in ties[:20]]
        wres = run_adapter(mod, wctx)
        wv = unlisted(wres.violations)
        res.evaluations += wres.evaluations; res.nontrivial |= wres.nontrivial
        if wv:
            viol = wv
            replay_path = core.write_replay(pid, seed, {
                "property": pid, "seed": seed, "tier": tier, "boost": Ctx.boost, "kind": "property-fails-on-impl (found by the widened search)",
                "violation": wv[0], "proof_layer_broken": broken, "tie_disagreements": ties[:3], "tables_diff": tdiff})
            print("VIOLATION property=%s replay=%s" % (pid, os.path.relpath(replay_path, core.VERIF)))
        else:
            replay_path = core.write_replay(pid, seed, {
                "property": pid, "seed": seed, "tier": tier, "boost": Ctx.boost, "kind": "no-longer-shown",
                "no_longer_checks": broken + ["correspondence stream %s" % t["stream"] for t in ties[:5]],
                "tie_disagreements": ties[:5], "tables_diff": tdiff,
                "searched": {"evaluations": res.evaluations}})
            print("VIOLATION property=%s replay=%s no-failing-input-found" % (pid, os.path.relpath(replay_path, core.VERIF)))
        status = 1
    for fid, still, text in res.findings_seen:
        if still:
            print("KNOWN-FINDING: property=%s %s" % (pid, text))
        else:
            print("note: listed finding %s no longer reproduces (%s)" % (fid, text))
    core.write_evidence(pid, tier, seed, time.time() - t0, A, res, len(viol) if viol else (1 if status else 0),
                        extra_assumptions=["tables used by the driver: " + tables_used] +
                        (["source files changed since the committed fingerprints (%s): quick-tier sample sizes x4 on this run" % ", ".join(changed)] if changed else []))
    print("%s %s tier=%s seed=%s: theorems %d/%d, cases %d (distinct non-trivial %d), tie disagreements %d, violations %d, %.1fs"
          % (pid, "OK" if status == 0 else "FAILED", tier, seed, A.get("discharged", 0), A.get("obligations", 0),
             res.evaluations, len(res.nontrivial), len(ties), len(viol) if viol else 0, time.time() - t0))
    return status


if __name__ == "__main__":
    try:
        sys.exit(main())
    except core.Infra as e:
        print("INFRASTRUCTURE FAILURE: %s" % e); sys.exit(2)
    except Exception:
        traceback.print_exc(); print("INFRASTRUCTURE FAILURE (harness crash)"); sys.exit(2)
