"""Bindings of the code translator (harness/gen_code.py): which functions of /repo are translated, under which Lean
signature, and which Lean term every *name* that occurs in them stands for. Control flow and expressions are translated
from the source; only this vocabulary is written by hand (trusted base, listed in DESIGN 11).

Each entry: file, qual (Class.method or function), module (Lean module under Simfile/Gen/Code), lean (definition name),
params [(python name, Lean type)], ret (Lean type), model (the hand-written model function it is proved equal to),
theorem (name in namespace Simfile.GenEq), properties (whose evidence reports it), names / calls / methods / fields.
"""

TAGS = {"EventTag.WARP": "Tag.warp", "EventTag.WARP_END": "Tag.warpEnd", "EventTag.BPM": "Tag.bpm", "EventTag.DELAY": "Tag.delay",
        "EventTag.DELAY_END": "Tag.delayEnd", "EventTag.STOP": "Tag.stop", "EventTag.STOP_END": "Tag.stopEnd"}

# a TimingState is flattened in the model: state.event.{beat,value,tag,time} are fields of TState
STATE = {"self.event.beat": "self.beat", "self.event.value": "self.value", "self.event.tag": "self.tag", "self.event.time": "self.time",
         "self.bpm": "self.bpm", "self.warp": "self.warp"}

ENGINE_IMPORTS = ["Simfile.Model.Engine"]

# The engine's three parallel lists (_tagged_beats, _tagged_times/_times, _state_machine) are views of one state list in the
# model (Engine.arr); `bisect` is Python's loop verbatim (Model/Engine.lean: bisectRightLoop / bisectLeftLoop).
QUERY = dict(
    names={**TAGS, "self.timing_data.bpms": "self.td.bpms"},
    fields={"event.beat": "beat", "event.tag": "tag", "event.time": "time", "event.value": "value", "bpm": "bpm", "warp": "warp", "value": "2"},
    truthy={"prior_state.warp": "(prior_state.warp = true)"},
    calls={"SongTime": "{0}", "Decimal": "{0}", "cast": "{_0}{1}", "max": "(max {0} {1})",
           "bisect(self._tagged_beats)": "(Int.ofNat (bisectRightLoop (fun (py_s : TState) => keyLT {1} (py_s.beat, py_s.tag)) self.arr (self.arr.size + 1) 0 self.arr.size))",
           "bisect(self._times)": "(Int.ofNat (bisectRightLoop (fun (py_s : TState) => decide ({1} < py_s.time)) self.arr (self.arr.size + 1) 0 self.arr.size))",
           "bisect_left(self._times)": "(Int.ofNat (bisectLeftLoop (fun (py_s : TState) => decide (py_s.time < {1})) self.arr (self.arr.size + 1) 0 self.arr.size))",
           "self._state_machine[]": "(self.arr.getD (Int.toNat {0}) self.init)",
           "self.timing_data.bpms[]": "(self.td.bpms.getD {0} (0, 0))"},
    methods={"time_until": "(Simfile.GenCode.timeUntil {self} {0} {1})", "beats_until": "(Simfile.GenCode.beatsUntil {self} {0})"})

NOTE_FIELDS = {"beat": "beat", "column": "column", "note_type": "ntype", "player": "player", "keysound_index": "keysound"}
NOTE_CMP = dict(fields=NOTE_FIELDS, methods={"_comparable": "(Simfile.GenCode.comparable {self})"}, calls={"bool": "{0}"},
                cmp={"Lt": "(keyLt {0} {1} = true)", "Gt": "(keyLt {1} {0} = true)", "LtE": "(keyLe {0} {1} = true)", "GtE": "(keyLe {1} {0} = true)"})

def plain_enum(file, cls):
    """the binding relies on the members of `cls` being always truthy: true for a plain Enum, false for IntEnum/Flag"""
    def check(get_tree):
        import ast as _ast
        from gen_code import Unsupported
        for n in get_tree(file).body:
            if isinstance(n, _ast.ClassDef) and n.name == cls:
                bases = [_ast.unparse(b) for b in n.bases]
                if bases != ["Enum"]:
                    raise Unsupported("%s is no longer a plain Enum (bases %s): truthiness of its members is not what the binding assumes" % (cls, bases))
                return
        raise Unsupported("class %s not found in %s" % (cls, file))
    return check


def _frozenset(fn, args, kw):
    import ast as _ast
    from gen_code import Unsupported, dotted
    if len(args) == 1 and isinstance(args[0], _ast.Tuple):
        return "[" + ", ".join(fn.expr(x) for x in args[0].elts) + "]"
    if len(args) == 1 and dotted(args[0]) == "NoteType":
        return "allNoteTypes"
    raise Unsupported("frozenset(%s)" % _ast.unparse(args[0]) if args else "frozenset()")


GROUP_DEFAULTS = {k: ("simfile/notes/group.py", "group_notes", k) for k in
                  ("include_note_types", "same_beat_notes", "join_heads_to_tails", "orphaned_head", "orphaned_tail")}
COUNT_DEFAULTS = lambda qual, *ks: {k: ("simfile/notes/count.py", qual, k) for k in ks}
COUNT = dict(
    names={"NoteType.TAIL": "cTAIL", "NoteType.HOLD_HEAD": "cHOLD", "NoteType.ROLL_HEAD": "cROLL", "DEFAULT_NOTE_TYPES": "defaultNoteTypes",
           "SameBeatNotes.KEEP_SEPARATE": "SameBeat.keepSeparate", "SameBeatNotes.JOIN_BY_NOTE_TYPE": "SameBeat.joinByType",
           "SameBeatNotes.JOIN_ALL": "SameBeat.joinAll", "OrphanedNotes.RAISE_EXCEPTION": "Orphan.raise",
           "OrphanedNotes.KEEP_ORPHAN": "Orphan.keep", "OrphanedNotes.DROP_ORPHAN": "Orphan.drop"},
    calls={"frozenset": _frozenset,
           "group_notes": ("(groupNotes {{ incl := {include_note_types}, sameBeat := {same_beat_notes}, join := {join_heads_to_tails}, "
                           "orphanHead := {orphaned_head}, orphanTail := {orphaned_tail} }} {0})", GROUP_DEFAULTS),
           # an exception raised while the generator is consumed propagates: Except.map
           "count_grouped_notes": ("(({0}).map (fun py_g => Simfile.GenCode.countGrouped py_g {same_beat_minimum}))",
                                   COUNT_DEFAULTS("count_grouped_notes", "same_beat_minimum")),
           "count_steps": ("(Simfile.GenCode.countSteps {0} {include_note_types} {same_beat_notes} {same_beat_minimum})",
                           COUNT_DEFAULTS("count_steps", "include_note_types", "same_beat_notes", "same_beat_minimum")),
           "_count_holds_or_rolls": ("(Simfile.GenCode.countHoldsOrRolls {0} {1} {orphaned_head} {orphaned_tail})",
                                     COUNT_DEFAULTS("_count_holds_or_rolls", "orphaned_head", "orphaned_tail"))})

def _msd_parameter(fn, args, kw):
    """MSDParameter(<tuple of components>): the component list; `*xs` splices a list, a conditional expression chooses between tuples"""
    import ast as _ast
    from gen_code import Unsupported

    def comps(e):
        if isinstance(e, _ast.Tuple):
            parts, cur = [], []
            for x in e.elts:
                if isinstance(x, _ast.Starred):
                    if cur: parts.append("[" + ", ".join(cur) + "]"); cur = []
                    parts.append(fn.expr(x.value))
                else:
                    cur.append(fn.expr(x))
            if cur or not parts: parts.append("[" + ", ".join(cur) + "]")
            return "(" + " ++ ".join(parts) + ")"
        if isinstance(e, _ast.IfExp):
            return "(if %s then %s else %s)" % (fn.cond(e.test), comps(e.body), comps(e.orelse))
        raise Unsupported("MSDParameter(%s)" % type(e).__name__)
    if len(args) != 1 or kw: raise Unsupported("MSDParameter call shape")
    return "(⟨%s⟩ : Param)" % comps(args[0])


def _split(fn, recv, args, kw):
    import ast as _ast
    from gen_code import Unsupported
    if len(args) == 1 and isinstance(args[0], _ast.Constant) and isinstance(args[0].value, str) and len(args[0].value) == 1 and not kw:
        return "(splitOn %s %s)" % (repr(args[0].value).replace('"', "'"), fn.expr(recv))
    raise Unsupported("str.split with this separator")


SER = dict(write_call="file.write", param_ctor="MSDParameter", param_vars=("param", "notes_param"), calls={"MSDParameter": _msd_parameter})

def _join(fn, recv, args, kw):
    import ast as _ast
    from gen_code import Unsupported
    if isinstance(recv, _ast.Constant) and isinstance(recv.value, str) and len(args) == 1 and not kw:
        from gen_code import lean_str
        return "(joinWith %s %s)" % (lean_str(recv.value), fn.expr(args[0]))
    raise Unsupported("join on a non-literal separator")


# an MSD parameter is the model's Param (component list); `.value` is None for a key-only parameter
PARSE = dict(
    names={"param.key": "(Param.key param)", "param.value": "((Param.value param).getD [])", "BaseSimfile.MULTI_VALUE_PROPERTIES": "T.multiValue"},
    optional_exprs={"param.value": "(Param.value param)"},
    calls={"param.components[1:]": "param.comps.tail", "SMChart.from_msd": "(Simfile.GenCode.smChartFromMsd [] none {0})",
           "SSCChart": "(some (⟨[]⟩ : SSCChart))", "SSCCharts": "[]", "SMCharts": "[]", "iter": "{0}"},
    methods={"upper": "(upper {self})", "join": _join})

def _ext_match(fn, args, kw):
    """extensions.match(name, *exts): the translated function; `*extensions.SIMFILE` is the generated table"""
    import ast as _ast
    from gen_code import Unsupported, dotted
    if kw or not args: raise Unsupported("extensions.match call shape")
    tables = {"extensions.SIMFILE": "T.simfileExts", "extensions.IMAGE": "T.imageExts", "extensions.AUDIO": "T.audioExts"}
    rest = args[1:]
    if len(rest) == 1 and isinstance(rest[0], _ast.Starred) and dotted(rest[0].value) in tables:
        exts = tables[dotted(rest[0].value)]
    elif len(rest) == 1 and isinstance(rest[0], _ast.Starred):
        exts = fn.expr(rest[0].value)
    elif rest and not any(isinstance(a, _ast.Starred) for a in rest):
        exts = "[" + ", ".join(fn.expr(a) for a in rest) + "]"
    else:
        raise Unsupported("extensions.match call shape")
    return "(Simfile.GenCode.extMatch %s %s)" % (fn.expr(args[0]), exts)


BINDINGS = [
    dict(file="simfile/timing/engine.py", qual="TaggedEvent.__lt__", module="Engine", lean="taggedEventLt",
         params=[("self", "TEvent"), ("other", "TEvent")], ret="Bool", model="TEvent.lt", theorem="taggedEventLt_eq",
         properties=["C11", "C12", "C13"], imports=ENGINE_IMPORTS,
         # EventTag is an IntEnum: `<` on tags is `<` on their integer values (read from the generated table by Tag.val)
         names={"self.beat": "self.beat", "other.beat": "other.beat", "self.tag": "self.tag.val", "other.tag": "other.tag.val"}),
    dict(file="simfile/timing/engine.py", qual="TimingState.time_until", module="Engine", lean="timeUntil",
         params=[("self", "TState"), ("beat", "Rat"), ("event_tag", "Tag")], ret="Rat", model="TState.timeUntil", theorem="timeUntil_eq",
         properties=["C11", "C13"], imports=ENGINE_IMPORTS,
         names={**TAGS, **STATE}, calls={"float": "{0}"}, truthy={"self.warp": "(self.warp = true)"}),
    dict(file="simfile/timing/engine.py", qual="TimingState.beats_until", module="Engine", lean="beatsUntil",
         params=[("self", "TState"), ("time", "Rat")], ret="Rat", model="TState.beatsUntil", theorem="beatsUntil_eq",
         properties=["C12"], imports=ENGINE_IMPORTS,
         # Beat(x) of a float rounds to the tick grid; Beat(0) is roundToTick 0 = 0 (proved, not assumed)
         names={**TAGS, **STATE}, calls={"float": "{0}", "Beat": "(roundToTick {0})"}),
    dict(file="simfile/timing/engine.py", qual="TimingStateMachine.advance", module="Engine", lean="advance",
         params=[("self", "TState"), ("event", "TEvent")], ret="TState", model="advance", theorem="advance_eq",
         properties=["C11", "C12", "C13"], imports=ENGINE_IMPORTS, append_is_return="self.append",
         # `self` of the state machine is represented by its last state (the only part `advance` reads)
         names={**TAGS, "self.last.event.time": "self.time", "self.last.bpm": "self.bpm", "self.last.warp": "self.warp",
                "event.beat": "event.beat", "event.value": "event.value", "event.tag": "event.tag"},
         calls={"SongTime": "{0}", "self.last.time_until": "(Simfile.GenCode.timeUntil self {0} {1})",
                "TimedEvent": "({beat}, {value}, {tag}, {time})",
                "TimingState": "(let ev := {event}; ({{ beat := ev.1, value := ev.2.1, tag := ev.2.2.1, time := ev.2.2.2, bpm := {bpm}, warp := {warp} }} : TState))"}),

    # ---- queries of TimingEngine: `self` is the model's Engine (state array + initial state + timing data)
    dict(file="simfile/timing/engine.py", qual="TimingEngine.time_at", module="EngineQuery", lean="timeAt",
         params=[("self", "Engine"), ("beat", "Rat"), ("event_tag", "Tag")], ret="Rat", model="Engine.timeAt", theorem="timeAt_eq",
         properties=["C11"], imports=ENGINE_IMPORTS + ["Simfile.Gen.Code.Engine"], **QUERY),
    dict(file="simfile/timing/engine.py", qual="TimingEngine.bpm_at", module="EngineQuery", lean="bpmAt",
         params=[("self", "Engine"), ("beat", "Rat")], ret="Rat", model="Engine.bpmAt", theorem="bpmAt_eq",
         properties=["C11"], imports=ENGINE_IMPORTS + ["Simfile.Gen.Code.Engine"], **QUERY),
    dict(file="simfile/timing/engine.py", qual="TimingEngine.hittable", module="EngineQuery", lean="hittable",
         params=[("self", "Engine"), ("beat", "Rat")], ret="Bool", model="Engine.hittable", theorem="hittable_eq",
         properties=["C13"], imports=ENGINE_IMPORTS + ["Simfile.Gen.Code.Engine"], **QUERY),
    dict(file="simfile/timing/engine.py", qual="TimingEngine.beat_at", module="EngineQuery", lean="beatAt",
         params=[("self", "Engine"), ("time", "Rat"), ("event_tag", "Tag")], ret="Rat", model="Engine.beatAt", theorem="beatAt_eq",
         properties=["C12"], imports=ENGINE_IMPORTS + ["Simfile.Gen.Code.Engine"], **QUERY),

    # ---- Note ordering: tuples compare lexicographically (keyLt / keyLe of Model/Notes.lean are that order on triples)
    dict(file="simfile/notes/__init__.py", qual="Note._comparable", module="NoteOrder", lean="comparable",
         params=[("self", "Note")], ret="Nat × Rat × Nat", model="Note.key", theorem="comparable_eq",
         properties=["C07"], imports=["Simfile.Model.Notes"], fields=NOTE_FIELDS),
    dict(file="simfile/notes/__init__.py", qual="Note.__lt__", module="NoteOrder", lean="noteLt",
         params=[("self", "Note"), ("other", "Note")], ret="Bool", model="Note.lt", theorem="noteLt_eq",
         properties=["C07"], imports=["Simfile.Model.Notes"], **NOTE_CMP),
    dict(file="simfile/notes/__init__.py", qual="Note.__gt__", module="NoteOrder", lean="noteGt",
         params=[("self", "Note"), ("other", "Note")], ret="Bool", model="Note.gt", theorem="noteGt_eq",
         properties=["C07"], imports=["Simfile.Model.Notes"], **NOTE_CMP),
    dict(file="simfile/notes/__init__.py", qual="Note.__le__", module="NoteOrder", lean="noteLe",
         params=[("self", "Note"), ("other", "Note")], ret="Bool", model="Note.le", theorem="noteLe_eq",
         properties=["C07"], imports=["Simfile.Model.Notes"], **NOTE_CMP),
    dict(file="simfile/notes/__init__.py", qual="Note.__ge__", module="NoteOrder", lean="noteGe",
         params=[("self", "Note"), ("other", "Note")], ret="Bool", model="Note.ge", theorem="noteGe_eq",
         properties=["C07"], imports=["Simfile.Model.Notes"], **NOTE_CMP),

    # ---- time_notes: a generator; `for ... yield` becomes flatMap over the note list
    dict(file="simfile/notes/timed.py", qual="time_notes", module="Timed", lean="timeNotes", ret_mode="list",
         params=[("note_data", "List Note"), ("timing_data", "TimingData"), ("unhittable_notes", "Unhittable")], ret="List (Rat × Note)",
         model="timeNotes", theorem="timeNotes_eq", properties=["C13"],
         imports=["Simfile.Model.Engine", "Simfile.Gen.Code.EngineQuery"], fields=NOTE_FIELDS,
         names={**TAGS, "UnhittableNotes.KEEP_NOTE": "Unhittable.keepNote", "UnhittableNotes.TAP_TO_FAKE": "Unhittable.tapToFake",
                "UnhittableNotes.DROP_NOTE": "Unhittable.dropNote", "NoteType.TAP": "cTAP", "NoteType.FAKE": "cFAKE"},
         calls={"TimingEngine": "(mkEngine {0})", "TimedNote": "({time}, {note})"},
         truthy={".hittable()": "({0} = true)"},
         methods={"hittable": "(Simfile.GenCode.hittable {self} {0})",
                  "time_at": ("(Simfile.GenCode.timeAt {self} {0} {1})", {"1": ("simfile/timing/engine.py", "TimingEngine.time_at", "event_tag")}),
                  "_replace": "({{ {self} with ntype := {note_type} }} : Note)"}),

    # ---- extensions.match: first extension the lower-cased path ends with
    dict(file="simfile/_private/extensions.py", qual="match", module="Ext", lean="extMatch", vararg=True,
         params=[("path", "Str"), ("extensions", "List Str")], ret="Option Str", model="extMatch", theorem="extMatch_eq",
         properties=["C19", "C20"], imports=["Simfile.Model.Dir"], fallthrough=None,
         methods={"lower": "(lower {self})", "endswith": "(endsWith {self} {0})"}, truthy={".endswith()": "({0} = true)"},
         ret_mode="option"),

    # ---- convert._should_copy_property: the decision table of C17 (kinds and behaviours are the integer codes of the generated tables)
    dict(file="simfile/convert.py", qual="_should_copy_property", module="Convert", lean="shouldCopy", ret_mode="except",
         params=[("property", "Str"), ("value", "Option Str"), ("invalid_properties", "List (Nat × List Str)"),
                 ("invalid_property_behaviors", "List (Nat × Nat)")], ret="Except CErr Bool", model="shouldCopy", theorem="shouldCopy_eq",
         properties=["C16", "C17"], imports=["Simfile.Model.Convert"], requires=[plain_enum("simfile/convert.py", "InvalidPropertyBehavior")],
         names={"InvalidPropertyBehavior.COPY_ANYWAY": "bCOPY", "InvalidPropertyBehavior.IGNORE": "bIGNORE",
                "InvalidPropertyBehavior.ERROR_UNLESS_DEFAULT": "bUNLESS", "InvalidPropertyBehavior.ERROR": "bERROR"},
         methods={"items": "{self}", "get": "((({self}).find? (fun py_e => py_e.1 = {0})).map (fun py_e => py_e.2))", "strip": "(strip {self})"},
         calls={"INVALID_PROPERTY_BEHAVIORS[]": "(((T.invalidPropertyBehaviors.find? (fun py_e => py_e.1 = {0})).map (fun py_e => py_e.2)).getD 0)",
                "DEFAULT_PROPERTIES[]": "(defaultProperty {0})"},
         # members of a plain Enum are always truthy (checked by `requires`): `d.get(k) or e` is d[k] when present, else e;
         # `value or ""`: None and "" both give ""
         value_or={"invalid_property_behaviors.get(invalid_property)": "(({0}).getD {1})",
                   "value": "(({0}).getD {1})"},
         raises={"InvalidPropertyException": "(CErr.invalidProperty property)"}),

    # ---- notes.count: which options each counter passes to group_notes (defaults read from the signatures in the source)
    dict(file="simfile/notes/count.py", qual="count_grouped_notes", module="Count", lean="countGrouped",
         params=[("grouped_notes_iterator", "List (List GNote)"), ("same_beat_minimum", "Nat")], ret="Nat", model="countGrouped",
         theorem="countGrouped_eq", properties=["C09"], imports=["Simfile.Model.Group"], calls={"len": "({0}).length"}),
    dict(file="simfile/notes/count.py", qual="count_steps", module="Count", lean="countSteps",
         params=[("notes", "List Note"), ("include_note_types", "List Char"), ("same_beat_notes", "SameBeat"), ("same_beat_minimum", "Nat")],
         ret="Except GErr Nat", model="countSteps", theorem="countSteps_eq", properties=["C09"], imports=["Simfile.Model.Group"], **COUNT),
    dict(file="simfile/notes/count.py", qual="count_jumps", module="Count", lean="countJumps",
         params=[("notes", "List Note"), ("include_note_types", "List Char"), ("same_beat_notes", "SameBeat")],
         ret="Except GErr Nat", model="fun notes incl mode => countSteps notes incl mode 2", theorem="countJumps_eq", properties=["C09"],
         imports=["Simfile.Model.Group"], **COUNT),
    dict(file="simfile/notes/count.py", qual="count_hands", module="Count", lean="countHands",
         params=[("notes", "List Note"), ("include_note_types", "List Char"), ("same_beat_notes", "SameBeat"), ("same_beat_minimum", "Nat")],
         ret="Except GErr Nat", model="countSteps", theorem="countHands_eq", properties=["C09"], imports=["Simfile.Model.Group"], **COUNT),
    dict(file="simfile/notes/count.py", qual="count_mines", module="Count", lean="countMines",
         params=[("notes", "List Note")], ret="Nat", model="countMines", theorem="countMines_eq", properties=["C09"],
         imports=["Simfile.Model.Group"], names={"NoteType.MINE": "cMINE"}, fields=NOTE_FIELDS),
    dict(file="simfile/notes/count.py", qual="_count_holds_or_rolls", module="Count", lean="countHoldsOrRolls",
         params=[("notes", "List Note"), ("head", "Char"), ("orphaned_head", "Orphan"), ("orphaned_tail", "Orphan")],
         ret="Except GErr Nat", model="countHoldsOrRolls", theorem="countHoldsOrRolls_eq", properties=["C09"], imports=["Simfile.Model.Group"], **COUNT),
    dict(file="simfile/notes/count.py", qual="count_holds", module="Count", lean="countHolds",
         params=[("notes", "List Note"), ("orphaned_head", "Orphan"), ("orphaned_tail", "Orphan")],
         ret="Except GErr Nat", model="fun notes oh ot => countHoldsOrRolls notes cHOLD oh ot", theorem="countHolds_eq", properties=["C09"],
         imports=["Simfile.Model.Group"], **COUNT),
    dict(file="simfile/notes/count.py", qual="count_rolls", module="Count", lean="countRolls",
         params=[("notes", "List Note"), ("orphaned_head", "Orphan"), ("orphaned_tail", "Orphan")],
         ret="Except GErr Nat", model="fun notes oh ot => countHoldsOrRolls notes cROLL oh ot", theorem="countRolls_eq", properties=["C09"],
         imports=["Simfile.Model.Group"], **COUNT),

    # ---- Beat.round_to_tick
    dict(file="simfile/timing/__init__.py", qual="Beat.round_to_tick", module="Beat", lean="roundToTick",
         params=[("self", "Rat")], ret="Rat", model="roundToTick", theorem="roundToTick_eq", properties=["C14"], imports=["Simfile.Model.Beat"],
         names={"BEAT_SUBDIVISION": "(T.beatSubdivision : Rat)"},
         # round() of a Fraction is half-to-even to an int; Beat(n, d) with a denominator is the exact fraction n/d
         calls={"round": "(roundHalfEven {0})", "int": "{0}", "Beat": "(((({0}) : Int) : Rat) / {1})"}),

    # ---- serializers (C01, C02, C04, C05): `file.write(...)` appends items; a parameter object is rendered by the MSD layer
    dict(file="simfile/sm.py", qual="SMChart.serialize", module="Serialize", lean="serSMChart", ret_mode="list",
         params=[("self", "SMChart")], ignore_params=["file"], ret="List Item", model="fun c => [Item.param (smChartParam c)]",
         theorem="serSMChart_eq", properties=["C01", "C04", "C05"], imports=["Simfile.Model.Objects"], **SER,
         names={"self.stepstype": "(fmtAttr (self.fields.get? (smKey 0)))", "self.description": "(fmtAttr (self.fields.get? (smKey 1)))",
                "self.difficulty": "(fmtAttr (self.fields.get? (smKey 2)))", "self.meter": "(fmtAttr (self.fields.get? (smKey 3)))",
                "self.radarvalues": "(fmtAttr (self.fields.get? (smKey 4)))", "self.notes": "(fmtAttr (self.fields.get? (smKey 5)))",
                "self.extradata": "self.extradata"},
         value_or={"self.extradata": "(({0}).getD {1})"}),
    dict(file="simfile/base.py", qual="BaseCharts.serialize", module="Serialize", lean="serSMCharts", ret_mode="list",
         params=[("self", "List SMChart")], ignore_params=["file"], ret="List Item",
         model="fun cs => cs.flatMap fun c => [Item.param (smChartParam c), Item.text nl]", theorem="serSMCharts_eq",
         properties=["C01", "C04", "C05"], imports=["Simfile.Model.Objects"], **SER, names={"self": "self"},
         writer_calls={".serialize": "(Simfile.GenCode.serSMChart {self}){_0}"}),
    dict(file="simfile/base.py", qual="BaseSimfile.serialize", module="Serialize", lean="serSM", ret_mode="list",
         params=[("self", "SMSimfile")], ignore_params=["file"], ret="List Item", model="serSM", theorem="serSM_eq",
         properties=["C01", "C04", "C05"], imports=["Simfile.Model.Objects"], **SER,
         names={"BaseSimfile.MULTI_VALUE_PROPERTIES": "T.multiValue", "value": "(value.getD [])"},
         methods={"items": "{self}.props", "split": _split},
         writer_calls={"self.charts.serialize": "(Simfile.GenCode.serSMCharts self.charts){_0}"}),

    # SSC flavour. `self[notes_key]` raises KeyError for a chart without note data: that branch is outside the translated tie
    # (the equality theorems carry the hypothesis that every chart has its note data; the model's error branch is tied by the
    # differential stream only).
    dict(file="simfile/ssc.py", qual="SSCChart.serialize", module="SerializeSSC", lean="serSSCChart", ret_mode="list",
         params=[("self", "SSCChart")], ignore_params=["file"], ret="List Item", model="serSSCChart (under hasNotes)",
         theorem="serSSCChart_eq", properties=["C02", "C04", "C05"], imports=["Simfile.Model.Objects"], **{k: v for k, v in SER.items() if k != "calls"},
         names={"BaseSimfile.MULTI_VALUE_PROPERTIES": "T.multiValue", "value": "(value.getD [])", "notes": "(notes.getD [])"},
         contains={"self": "(self.props.contains {0} = true)"},
         methods={"items": "{self}.props", "split": _split},
         calls={"MSDParameter": _msd_parameter, "self[]": "((self.props.get? {0}).getD none)"}),
    dict(file="simfile/base.py", qual="BaseCharts.serialize", module="SerializeSSC", lean="serSSCCharts", ret_mode="list",
         params=[("self", "List SSCChart")], ignore_params=["file"], ret="List Item", model="serSSC (chart part, under hasNotes)",
         theorem="serSSCCharts_eq", properties=["C02", "C04", "C05"], imports=["Simfile.Model.Objects"], **SER, names={"self": "self"},
         writer_calls={".serialize": "(Simfile.GenCode.serSSCChart {self}){_0}"}),
    dict(file="simfile/base.py", qual="BaseSimfile.serialize", module="SerializeSSC", lean="serSSC", ret_mode="list",
         params=[("self", "SSCSimfile")], ignore_params=["file"], ret="List Item", model="serSSC (under hasNotes)", theorem="serSSC_eq",
         properties=["C02", "C04", "C05"], imports=["Simfile.Model.Objects"], **SER,
         names={"BaseSimfile.MULTI_VALUE_PROPERTIES": "T.multiValue", "value": "(value.getD [])"},
         methods={"items": "{self}.props", "split": _split},
         writer_calls={"self.charts.serialize": "(Simfile.GenCode.serSSCCharts self.charts){_0}"}),

    # ---- loaders (C03, C04): loops that fill the object become folds over the parameter list (state = the objects being filled)
    dict(file="simfile/sm.py", qual="SMChart._from_msd", module="Load", lean="smChartFromMsd", ret_mode="except",
         state_params=[("fields", "Dict"), ("extradata", "Option (List Str)")], params=[("values", "List Str")], ignore_params=["self"],
         ret="Except Err SMChart", model="smChartFromMsd", theorem="smChartFromMsd_eq", properties=["C03", "C04", "C01"],
         imports=["Simfile.Model.Objects"], fallthrough="(Except.ok ({ fields := fields, extradata := extradata } : SMChart))",
         names={"SM_CHART_PROPERTIES": "T.smChartProperties"}, raises={"ValueError": "Err.valueError"},
         calls={"len": "({0}).length", "zip": "(({0}).zip {1})", "list": "{0}",
                "values[len(SM_CHART_PROPERTIES):]": "(values.drop T.smChartProperties.length)"},
         methods={"strip": "(strip {self})"},
         mutations={"self[]=": ("fields", "(Dict.set fields {key} {value})"), "self.extradata=": ("extradata", "(some {value})")}),
    dict(file="simfile/sm.py", qual="SMSimfile._parse", module="Load", lean="loadSM", ret_mode="except",
         state_params=[("props", "Dict"), ("charts", "List SMChart")], params=[("parser", "List Param")], ignore_params=["self"],
         ret="Except Err SMSimfile", model="loadSM", theorem="loadSM_eq", properties=["C03", "C04", "C01"],
         imports=["Simfile.Model.Objects"], fallthrough="(Except.ok ({ props := props, charts := charts } : SMSimfile))", **PARSE,
         mutations={"self[]=": ("props", "(Dict.set props {key} {value})"), "self._charts=": ("charts", "[]"),
                    "self.charts.append()": ("charts", "(charts ++ [{0}])", True)}),
    dict(file="simfile/ssc.py", qual="SSCSimfile._parse", module="Load", lean="loadSSC", ret_mode="plain",
         state_params=[("props", "Dict"), ("charts", "List SSCChart")], params=[("parser", "List Param")], ignore_params=["self"],
         ret="SSCSimfile", model="loadSSC", theorem="loadSSC_eq", properties=["C03", "C04", "C02"],
         imports=["Simfile.Model.Objects"], fallthrough="({ props := props, charts := charts } : SSCSimfile)", **PARSE,
         optional_locals=("value",), local_types={"value": "Option Str", "partial_chart": "Option SSCChart"},
         mutations={"self[]=": ("props", "(Dict.set props {key} {value})"), "self.charts=": ("charts", "[]"),
                    "partial_chart[]=": ("partial_chart", "(partial_chart.map (fun py_c => (⟨Dict.set py_c.props {key} {value}⟩ : SSCChart)))"),
                    "self.charts.append()": ("charts", "(charts ++ ({0}).toList)", False)}),
    dict(file="simfile/ssc.py", qual="SSCChart._parse", module="Load", lean="loadSSCChart", ret_mode="except",
         state_params=[("props", "Dict")], params=[("parser", "List Param")], ignore_params=["self"],
         ret="Except Err SSCChart", model="loadSSCChart", theorem="loadSSCChart_eq", properties=["C03", "C04", "C02"],
         imports=["Simfile.Model.Objects"], fallthrough="(Except.ok (⟨props⟩ : SSCChart))", **PARSE,
         raises={"ValueError": "Err.valueError", "StopIteration": "Err.stopIteration"},
         mutations={"self[]=": ("props", "(Dict.set props {key} {value})")}),

    # ---- convert._copy_properties: the table of invalid properties for the target type is a parameter of the model
    dict(file="simfile/convert.py", qual="_copy_properties", module="ConvertCopy", lean="copyProperties", ret_mode="except",
         state_params=[("smChartTarget", "Bool"), ("invalid", "List (Nat × List Str)")],
         params=[("source", "Dict"), ("output", "Dict"), ("invalid_property_behaviors", "List (Nat × Nat)")], ignore_params=["output_type"],
         ret="Except CErr Dict", model="copyProperties", theorem="copyProperties_eq", properties=["C16", "C17"],
         imports=["Simfile.Model.Convert", "Simfile.Gen.Code.Convert"], fallthrough="(Except.ok output)",
         calls={"INVALID_PROPERTIES.get": "invalid{_0}{_1}"}, methods={"items": "{self}"},
         optional_locals=("value",),
         raising_conditions={"_should_copy_property": "(Simfile.GenCode.shouldCopy {0} {1} {2} {3})"},
         # storing into an SM chart refuses keys outside its six fields (KeyError): `setItem` of the model
         mutations={"output[]=": ("output", "(setItem smChartTarget output {key} {value})", True)}),

    # ---- dir.py (C19, C20). The model works on directory listings: the listing is a parameter, and the entry *name* stands for
    # the joined path (the join itself is modelled in Model/Path.lean and tied separately).
    dict(file="simfile/dir.py", qual="SimfileDirectory.__init__", module="Dir", lean="scanDir", ret_mode="except",
         state_params=[("sm_path", "Option Str"), ("ssc_path", "Option Str"), ("listing", "List Str")],
         params=[("ignore_duplicate", "Bool")], ignore_params=["self", "simfile_dir", "filesystem"],
         ret="Except DErr SimDir", model="scanDir", theorem="scanDir_eq", properties=["C19"],
         imports=["Simfile.Model.Dir", "Simfile.Gen.Code.Ext"], fallthrough="(Except.ok ({ sm := sm_path, ssc := ssc_path } : SimDir))",
         ignore_assign=("self._path", "self.simfile_dir", "self.filesystem", "self._ignore_duplicate"),
         names={"self.sm_path": "sm_path", "self.ssc_path": "ssc_path", "self._dirlist": "dirlist"},
         calls={"extensions.match": _ext_match, "self._path.join": "{_0}{1}", "self.filesystem.listdir": "listing{_0}"},
         truthy={"match": "(py_match ≠ none)", "self.sm_path": "(sm_path ≠ none)", "self.ssc_path": "(ssc_path ≠ none)",
                 "self._ignore_duplicate": "(ignore_duplicate = true)"},
         cmp={"Eq": "({0} = some {1})"}, raises={"DuplicateSimfileError": "DErr.duplicate"},
         mutations={"self._dirlist=": ("dirlist", "{value}"), "self.sm_path=": ("sm_path", "(some {value})"),
                    "self.ssc_path=": ("ssc_path", "(some {value})")}),
    dict(file="simfile/dir.py", qual="SimfilePack.banner", module="Dir", lean="packBanner", ret_mode="option",
         state_params=[("packListing", "List Str"), ("packName", "Str"), ("besideExists", "Str → Bool")],
         params=[], ignore_params=["self"], ret="Option (Bool × Str)", model="packBanner", theorem="packBanner_eq",
         properties=["C20", "C19"], imports=["Simfile.Model.Dir", "Simfile.Gen.Code.Ext"], fallthrough="none",
         names={"extensions.IMAGE": "T.imageExts"}, binops={"Add": "++"},
         # inside the pack: (true, entry name); beside it: (false, pack name ++ extension)
         calls={"extensions.match": _ext_match, "self.filesystem.listdir": "packListing{_0}", "self._path.join(self.pack_dir)": "(true, {1})",
                "self._path.join(songs_dir)": "(false, {1})", "self._path.split": "((), packName){_0}",
                "self.filesystem.exists": "(besideExists ({0}).2)"},
         truthy={"extensions.match()": "(({0}).isSome = true)", "self.filesystem.exists()": "({0} = true)"}),

    # ---- assets.py (C20)
    dict(file="simfile/assets.py", qual="AssetDefinition.matches", module="Assets", lean="assetMatches",
         state_params=[("presets", "List Str"), ("exts", "List Str"), ("byExt", "Bool")], params=[("path", "Str")], ignore_params=["self"],
         ret="Bool", model="assetMatches (for the table entry of the kind)", theorem="assetMatches_eq", properties=["C20"],
         imports=["Simfile.Model.Dir", "Simfile.Gen.PyRe", "Simfile.Gen.Code.Ext"],
         names={"self.presets": "presets", "self.extensions": "exts"},
         truthy={"any()": "({0} = true)", "self.match_by_extension": "(byExt = true)", "extensions.match()": "(({0}).isSome = true)",
                 "re.search()": "({0} = true)"},
         # os.path.splitext(name)[0] is Model/Dir.lean's `stem` (tied to CPython by the path stream of C20)
         calls={"os.path.splitext": "(stem {0}, ())", "re.search": "(Py.reSearch {0} {1})", "extensions.match": _ext_match},
         methods={"lower": "(lower {self})"}),
    dict(file="simfile/assets.py", qual="Assets._get_case_insensitive_path", module="Assets", lean="caseInsensitive", ret_mode="option",
         state_params=[("containing", "Option (List Str)"), ("filename", "Str")], params=[], ignore_params=["self", "path"],
         ret="Option Str", model="caseInsensitive", theorem="caseInsensitive_eq", properties=["C20"],
         imports=["Simfile.Model.Dir", "Simfile.Gen.PyRe", "Simfile.Gen.Code.Ext"], fallthrough="none",
         # the containing directory is represented by its listing (none: not a directory); the answer by the entry's name
         calls={"self._path.split": "((), filename){_0}", "self.filesystem.listdir": "(containing.getD []){_0}", "self._path.join": "{_0}{1}"},
         truthy={"self.filesystem.isdir()": "(containing ≠ none)"},
         methods={"lower": "(lower {self})", "isdir": "(containing ≠ none){_0}"}),

    # ---- TimingEngine._coalesce_warps: the two BeatValues lists hold beats only in the model (the values are all zero)
    dict(file="simfile/timing/engine.py", qual="TimingEngine._coalesce_warps", module="Coalesce", lean="coalesceWarps", ret_mode="plain",
         state_params=[("warps", "List (Rat × Rat)")], params=[], ignore_params=["self"],
         ret="List (List Rat × Tag)", model="coalesceWarps", theorem="coalesceWarps_eq", properties=["C11", "C12", "C13"],
         imports=ENGINE_IMPORTS, names={**TAGS, "self.timing_data.warps": "warps"},
         local_types={"warp_starts": "List Rat", "warp_ends": "List Rat"},
         exprs={"warp_ends[-1].beat": "(warp_ends.getLast?.getD 0)"},
         fields={"beat": "1", "value": "2"}, truthy={"warp_starts": "(warp_starts ≠ [])"},
         calls={"Decimal": "{0}", "BeatValues": "[]", "Beat": "(roundToTick {0})", "BeatValue": "{beat}{_value}"},
         mutations={"warp_starts.append()": ("warp_starts", "(warp_starts ++ [{0}])", False),
                    "warp_ends.append()": ("warp_ends", "(warp_ends ++ [{0}])", False),
                    "warp_ends[]=": ("warp_ends", "(warp_ends.dropLast ++ [{rawvalue}])")}),

    # ---- the attribute/key layer (C18): item_property's closure, and the SM chart's guarded dictionary access
    dict(file="simfile/_private/property.py", qual="item_property._name_or_alias", module="Views", lean="nameOrAlias",
         state_params=[("name", "Str"), ("alias", "Option Str")], params=[("self", "Dict")], ret="Str", model="nameOrAlias",
         theorem="nameOrAlias_eq", properties=["C18", "C16", "C15"], imports=["Simfile.Model.Views", "Simfile.Model.Convert"],
         names={"name": "name"}, exprs={}, contains={"self": "(Dict.contains self {0} = true)"},
         # `alias` is None or a non-empty constant of the class tables (aliases_nonempty is decided over the generated tables)
         truthy={"alias": "(alias ≠ none)"}, optional_exprs={}, calls={},
         optional_as_str=("alias",)),
    dict(file="simfile/sm.py", qual="SMChart.__setitem__", module="Views", lean="smChartSetItem", ret_mode="except",
         params=[("self", "Dict"), ("property", "Str"), ("value", "Str")], ret="Except CErr Dict", model="setItem true",
         theorem="smChartSetItem_eq", properties=["C18", "C17"], imports=["Simfile.Model.Views", "Simfile.Model.Convert"],
         names={"SM_CHART_PROPERTIES": "T.smChartProperties"}, raises={"KeyError": "CErr.keyError"},
         exprs={"super().__setitem__(property, value)": "(Dict.set self property (some value))"}),
    dict(file="simfile/sm.py", qual="SMChart.__getitem__", module="Views", lean="smChartGetItem", ret_mode="except",
         params=[("self", "Dict"), ("property", "Str")], ret="Except CErr (Option Str)", model="vstep .smChart · (.getKey ·)",
         theorem="smChartGetItem_eq", properties=["C18"], imports=["Simfile.Model.Views", "Simfile.Model.Convert"],
         names={"SM_CHART_PROPERTIES": "T.smChartProperties"}, raises={"KeyError": "CErr.keyError"},
         calls={"getattr": "(attrGet Kind.smChart {0} {1})"}, methods={"lower": "(lower {self})"}),

    # ---- which object the timing comes from (C15) and what TimingData reads from it (C14, C15). A simfile or chart is a
    # (kind, dictionary) pair as in Model/Source.lean; `chart=None` is `none`
    dict(file="simfile/timing/_private/timingsource.py", qual="timing_source", module="Source", lean="timingSource", ret_mode="except",
         state_params=[("sim", "Src"), ("chart", "Option Src")], params=[], ignore_params=["simfile", "chart"],
         ret="Except SErr (Option Src)", model="timingSource (the chosen object)", theorem="timingSource_eq", properties=["C15"],
         imports=["Simfile.Model.Source", "Simfile.Gen.PySource"],
         names={"isinstance(simfile, SSCSimfile)": "(sim.kind = Kind.sscSimfile)", "isinstance(chart, SSCChart)": "(Py.chartIs chart Kind.sscChart = true)",
                "chart": "chart", "simfile": "(some sim)", "CHART_TIMING_PROPERTIES": "T.chartTimingProperties",
                "SSC_VERSION_SPLIT_TIMING": "((T.sscVersionSplitTimingNum : Rat) / (T.sscVersionSplitTimingDen : Rat))"},
         exprs={"simfile.version": "(attrGet Kind.sscSimfile sim.d ['v','e','r','s','i','o','n'])"},
         value_or={"simfile.version": "(Py.strOr {0} {1})"},
         raising_calls={"float": "(Py.pyFloat {0})"},
         # the eleven properties are the generated list of their keys; reading one through its descriptor is attrGet on the chart
         calls={"timing_prop.__get__": "(attrGet Kind.sscChart (Py.chartDict {0}) (chartAttrOfKey timing_prop))"},
         truthy={"timing_prop.__get__()": "(truthy {0} = true)", "any()": "({0} = true)"}),
    dict(file="simfile/timing/__init__.py", qual="TimingData.__init__", module="Source", lean="timingDataInit", ret_mode="except",
         state_params=[("sim", "Src"), ("chart", "Option Src")], params=[], ignore_params=["self", "simfile", "chart"],
         ret="Except SErr TDStrings", model="timingData", theorem="timingDataInit_eq", properties=["C14", "C15"],
         imports=["Simfile.Model.Source", "Simfile.Gen.PySource"],
         fallthrough="(Except.ok ({ bpms := bpms, stops := stops, delays := delays, warps := warps, offset := offset } : TDStrings))",
         names={"simfile": "sim", "chart": "chart"},
         raising_calls={"timing_source": "(Except.map (fun py_o => py_o.getD sim) (Simfile.GenCode.timingSource {0} {1}))"},
         exprs={"simfile_or_chart.bpms": "(attrGet simfile_or_chart.kind simfile_or_chart.d ['b','p','m','s'])",
                "simfile_or_chart.stops": "(attrGet simfile_or_chart.kind simfile_or_chart.d ['s','t','o','p','s'])",
                "simfile_or_chart.delays": "(attrGet simfile_or_chart.kind simfile_or_chart.d ['d','e','l','a','y','s'])",
                "simfile_or_chart.offset": "(attrGet simfile_or_chart.kind simfile_or_chart.d ['o','f','f','s','e','t'])"},
         value_or={"simfile_or_chart.offset": "(Py.strOrInt {0} {1})"},
         # the parsers answer `none` where Python raises (the model carries that per field); Decimal(x or 0)
         calls={"BeatValues.from_str": "(beatValuesFromStr {0})", "Decimal": "(Py.decimalOf {0})"},
         methods={"get": "(({self}).d.get? {0}).join"},
         mutations={"self.bpms=": ("bpms", "{value}"), "self.stops=": ("stops", "{value}"), "self.delays=": ("delays", "{value}"),
                    "self.warps=": ("warps", "{value}"), "self.offset=": ("offset", "{value}")}),

    # ---- equality of simfiles (C18): type, OrderedDict.__eq__ as CPython computes it (Model/Equality.lean), chart lists
    dict(file="simfile/base.py", qual="BaseSimfile.__eq__", module="Equality", lean="simfileEq", ret_mode="plain",
         params=[("self", "EqObj"), ("other", "EqObj")], ret="Bool", model="simfileEq", theorem="simfileEq_eq", properties=["C18"],
         imports=["Simfile.Model.Equality"],
         conds={"type(self) is type(other)": "(self.kind = other.kind)",
                "OrderedDict.__eq__(self, other)": "(orderedDictEq self.items other.items = true)",
                "self.charts == other.charts": "(chartsEq (decide (self.kind = Kind.smSimfile)) self.charts other.charts = true)"}),
]
