"""C19 — directory and pack discovery finds exactly the right simfiles."""
import os, shutil, tempfile
import core, gen, objs, fstools

SM_NAMES = ["a.sm", "B.SM", "c.Sm", "song.sm"]
SSC_NAMES = ["a.ssc", "B.SSC", "c.sSc", "song.ssc"]
NEAR = ["x.sm.old", "y.ssca", "sm", "ssc", "z.smx", "notes.txt", "w.ssc~", ".sm.bak"]
OTHER = ["banner.png", "bg.jpg", "music.ogg", "readme.txt", "漢字.png", "cd.bmp"]


def sm_text(title, stray=False):
    return ("stray text\n" if stray else "") + "#TITLE:%s;\n#BPMS:0.000=120.000;\n" % title


def ssc_text(title, stray=False):
    return ("stray text\n" if stray else "") + "#VERSION:0.83;\n#TITLE:%s;\n#BPMS:0.000=120.000;\n" % title


def rand_songdir(rng, stray):
    d = {}
    n_sm = rng.choice([0, 0, 1, 1, 1, 2]); n_ssc = rng.choice([0, 0, 1, 1, 2])
    for n in rng.sample(SM_NAMES, n_sm): d[n] = sm_text("sm=" + n, stray)
    for n in rng.sample(SSC_NAMES, n_ssc): d[n] = ssc_text("ssc=" + n, stray)
    for n in rng.sample(NEAR, rng.randrange(0, 3)): d[n] = sm_text("near=" + n)
    for n in rng.sample(OTHER, rng.randrange(0, 3)): d[n] = None
    if rng.random() < .2: d["sub"] = {"nested.sm": sm_text("nested")}
    return d


def rand_pack(rng, stray):
    pack = {}
    for i in range(rng.randrange(0, 5)):
        pack["Song%d" % i] = rand_songdir(rng, stray)
    if rng.random() < .5: pack["loose.sm"] = sm_text("loose")
    if rng.random() < .5: pack["Empty"] = {}
    if rng.random() < .4: pack["OnlyNested"] = {"deep": {"x.ssc": ssc_text("deep")}}
    if rng.random() < .4: pack["banner.png"] = None
    return pack


def run(ctx):
    import simfile
    from simfile.dir import SimfileDirectory, SimfilePack, DuplicateSimfileError
    from simfile._private.nativeosfs import NativeOSFS
    import fs.path
    rng = ctx.rng
    res = core.Result()
    res.rule = ("random trees of depth <= 3 from simfile names in mixed case, near-miss names (.sm.old, .ssca, 'sm', ...), images, "
                "audio, loose files, empty and nested directories, 0..2 simfiles of each kind per directory; materialised in a temp "
                "directory (NativeOSFS) and in a MemoryFS; x ignore_duplicate x strict with files that contain stray text x explicit "
                "encoding. The real listing order is recorded and passed to the model. Observed: paths, exception classes, loaded "
                "titles, the keyword arguments reaching simfile.open. non-trivial: a directory with >= 2 simfile-like names; distinct by hash")
    tmp = tempfile.mkdtemp(prefix="simfile-verif-c19-")
    real_open = simfile.open
    seen_kwargs = []

    def spy(filename, *a, **kw):
        seen_kwargs.append(dict(kw)); return real_open(filename, *a, **kw)
    reqs, metas = [], []
    home = os.getcwd()
    try:
        simfile.open = spy
        for i in range(ctx.scale(120, 1500)):
            stray = rng.random() < .4
            pack = rand_pack(rng, stray)
            strict = rng.choice([True, False]); ign = rng.choice([True, False])
            enc = rng.choice([None, None, "utf-8", "cp1252"])
            kw = {"strict": strict}
            if enc: kw["encoding"] = enc
            # besides the absolute address: a trailing separator, a bare relative name (the parent being the current directory /
            # the filesystem's root) and a pack that is the root of its filesystem - discovery is the same listing each time
            extra = ["native-trailing-slash", "native-relative", "memory-relative", "memory-root"][i % 4]
            for fsname in ("native", "memory", extra):
                os.chdir(home)
                if fsname.startswith("native"):
                    root = os.path.join(tmp, "p%d" % i); fstools.make_native(pack, root)
                    fsys = NativeOSFS(); join = os.path.join; packdir = root
                    if fsname == "native-trailing-slash": packdir = root + "/"
                    if fsname == "native-relative": os.chdir(tmp); packdir = "p%d" % i
                elif fsname == "memory-root":
                    fsys = fstools.make_memory(pack); join = fs.path.join; packdir = "/"
                else:
                    fsys = fstools.make_memory({"Pack": pack}); join = fs.path.join; packdir = "/Pack" if fsname == "memory" else "Pack"
                case = {"fs": fsname, "pack": _names(pack), "strict": strict, "ignore_duplicate": ign, "encoding": enc, "stray": stray}
                res.case(case, nontrivial=any(isinstance(v, dict) and sum(1 for n in v if n.lower().endswith((".sm", ".ssc"))) >= 2 for v in pack.values()))
                listing = fsys.listdir(packdir)
                entries = []
                for name in listing:
                    p = join(packdir, name)
                    isd = fsys.isdir(p)
                    entries.append({"name": name, "is_dir": isd, "listing": fsys.listdir(p) if isd else []})
                # pack discovery -------------------------------------------------------------------
                try:
                    sp = SimfilePack(packdir, filesystem=fsys, ignore_duplicate=ign)
                    dirs = list(sp.simfile_dir_paths)
                except Exception as e:
                    res.violation(case, "SimfilePack raised", impl=core.exc_name(e)); continue
                exp_dirs = [join(packdir, e["name"]) for e in entries if e["is_dir"] and any(n.lower().endswith((".sm", ".ssc")) for n in e["listing"])]
                res.traces += 1
                if dirs != exp_dirs:
                    res.violation(case, "pack lists something other than its immediate sub-directories that directly contain a simfile", impl=dirs, expected=exp_dirs); continue
                reqs.append({"op": "dir.pack", "entries": entries}); metas.append(("pack", case, [os.path.basename(d) if fsname.startswith("native") else fs.path.basename(d) for d in dirs]))
                # each directory -------------------------------------------------------------------
                via_pack = []
                for e in entries:
                    if not e["is_dir"]: continue
                    d = join(packdir, e["name"])
                    sms = [n for n in e["listing"] if n.lower().endswith(".sm")]; sscs = [n for n in e["listing"] if n.lower().endswith(".ssc")]
                    dcase = dict(case, dir=e["name"], listing=e["listing"])
                    try:
                        sd = SimfileDirectory(d, filesystem=fsys, ignore_duplicate=ign)
                        got = {"sm": sd.sm_path, "ssc": sd.ssc_path}
                    except DuplicateSimfileError:
                        got = "DuplicateSimfileError"
                    except Exception as ex:
                        got = core.exc_name(ex)
                    dup = (len(sms) > 1 or len(sscs) > 1) and not ign
                    exp = "DuplicateSimfileError" if dup else {"sm": join(d, sms[0]) if sms else None, "ssc": join(d, sscs[0]) if sscs else None}
                    res.traces += 1
                    if got != exp:
                        res.violation(dcase, "directory reports the wrong .sm/.ssc files or duplicate handling", impl=got, expected=exp); continue
                    reqs.append({"op": "dir.scan", "listing": e["listing"], "ignore_duplicate": ign})
                    metas.append(("dir", dcase, got if isinstance(got, str) else {"sm": sms[0] if sms else None, "ssc": sscs[0] if sscs else None}))
                    if isinstance(got, str): continue
                    target = got["ssc"] or got["sm"]
                    del seen_kwargs[:]
                    try:
                        sf = sd.open(**kw); opened = sf.title
                    except FileNotFoundError:
                        opened = "FileNotFoundError"
                    except Exception as ex:
                        opened = core.exc_name(ex)
                    if target is None:
                        exp_open = "FileNotFoundError"
                    elif stray and strict:
                        exp_open = "MSDParserError"
                    else:
                        exp_open = ("ssc=" if got["ssc"] else "sm=") + (os.path.basename(target))
                    if opened != exp_open:
                        res.violation(dcase, "open() did not open the SSC in preference to the SM / wrong error / loader options lost", impl=opened, expected=exp_open); continue
                    if target is not None and (not seen_kwargs or any(seen_kwargs[-1].get(k) != v for k, v in kw.items())):
                        res.violation(dcase, "loader options did not reach simfile.open", impl=seen_kwargs[-1:] ); continue
                    # opendir
                    try:
                        sf2, p2 = simfile.opendir(d, filesystem=fsys, **kw); od = (sf2.title, p2)
                    except Exception as ex:
                        od = core.exc_name(ex)
                    exp_od = exp_open if exp_open in ("FileNotFoundError", "MSDParserError") else (exp_open, target)
                    if od != exp_od and not (dup is False and (len(sms) > 1 or len(sscs) > 1)):
                        res.violation(dcase, "opendir differs from SimfileDirectory", impl=str(od), expected=str(exp_od)); continue
                    if e["name"] in [os.path.basename(x) for x in dirs]:
                        via_pack.append((exp_open, target))
                # openpack: same simfiles and paths, options passed down
                del seen_kwargs[:]
                try:
                    got_pack = [(sf.title, p) for sf, p in simfile.openpack(packdir, filesystem=fsys, **kw)]
                except Exception as ex:
                    got_pack = core.exc_name(ex)
                # openpack constructs SimfilePack without ignore_duplicate: duplicates raise there
                any_dup = any(e["is_dir"] and (sum(1 for n in e["listing"] if n.lower().endswith(".sm")) > 1 or sum(1 for n in e["listing"] if n.lower().endswith(".ssc")) > 1) for e in entries)
                if any_dup:
                    pass
                elif stray and strict and via_pack:
                    if got_pack != "MSDParserError":
                        res.violation(case, "openpack(strict=True) did not reject stray text", impl=str(got_pack)[:200])
                else:
                    exp_pack = [(t, p) for t, p in via_pack]
                    if got_pack != exp_pack:
                        res.violation(case, "openpack differs from SimfilePack/SimfileDirectory (or drops loader options)", impl=str(got_pack)[:300], expected=str(exp_pack)[:300])
                    elif via_pack and any(any(k2.get(k) != v for k, v in kw.items()) for k2 in seen_kwargs):
                        res.violation(case, "openpack did not pass the loader options down", impl=seen_kwargs[:2])
                # SimfilePack.simfiles(**kwargs): the same simfiles, options passed down
                if not any_dup and not (stray and strict and via_pack) and isinstance(got_pack, list):
                    del seen_kwargs[:]
                    try:
                        titles = [sf.title for sf in SimfilePack(packdir, filesystem=fsys).simfiles(**kw)]
                    except Exception as ex:
                        titles = core.exc_name(ex)
                    if titles != [t for t, _ in got_pack]:
                        res.violation(case, "SimfilePack.simfiles() differs from openpack", impl=str(titles)[:200], expected=str([t for t, _ in got_pack])[:200])
                    elif via_pack and any(any(k2.get(k) != v for k, v in kw.items()) for k2 in seen_kwargs):
                        res.violation(case, "SimfilePack.simfiles() did not pass the loader options down", impl=seen_kwargs[:2])
                # a pack made with ignore_duplicate=True: its simfile_dirs()/simfiles() use that setting in every directory
                if ign and any_dup and not (stray and strict and via_pack):
                    try:
                        spi = SimfilePack(packdir, filesystem=fsys, ignore_duplicate=True)
                        titles = [sf.title for sf in spi.simfiles(**kw)]
                        paths = [(sd_.sm_path, sd_.ssc_path) for sd_ in spi.simfile_dirs()]
                    except Exception as ex:
                        titles = paths = core.exc_name(ex)
                    exp_titles = [t for t, _ in via_pack]
                    if titles != exp_titles:
                        res.violation(case, "SimfilePack(ignore_duplicate=True).simfiles() differs from opening its directories with that setting",
                                      impl=str(titles)[:200], expected=str(exp_titles)[:200])
                if fsname.startswith("native"): shutil.rmtree(root, ignore_errors=True)
    finally:
        os.chdir(home)
        simfile.open = real_open
        shutil.rmtree(tmp, ignore_errors=True)
    resp = ctx.lean.eval_sharded(reqs)
    for (kind, case, got), m in zip(metas, resp):
        if kind == "pack":
            if m != got: res.tie_break("dir.pack", case, got, m)
        else:
            mm = m.get("err") if "err" in m else {"sm": m["ok"]["sm"], "ssc": m["ok"]["ssc"]}
            if mm != got: res.tie_break("dir.scan", case, got, mm)
    from adapters import strlib
    strlib.validate(ctx, res, routines=('lower', 'endswith'))
    # whole trees: the pack and directory objects on a MemoryFS against the tree-level model (Model/Tree.lean, Model/Path.lean;
    # theorems Props/C19Tree.lean: only immediate sub-directories that directly contain a simfile, never anything deeper)
    import treegen, fs.path
    from simfile.dir import SimfilePack as _Pack, SimfileDirectory as _Dir, DuplicateSimfileError as _Dup
    treqs, tmetas = [], []
    for i in range(ctx.scale(60, 800)):
        root, pk = treegen.world(rng)
        m = treegen.build(root); T = treegen.node(root)
        pp = rng.choice(treegen.PACK_PATHS)
        case = {"tree": root if len(str(root)) < 1500 else "(large)", "pack_path": pp}
        res.case({"tree_case": case}, nontrivial=any(isinstance(v, dict) for v in pk.values())); res.traces += 1; res.count("tree_cases")
        try: got = list(_Pack(pp, filesystem=m).simfile_dir_paths)
        except Exception as e:
            got = treegen.fs_err(e) or {"err": core.exc_name(e)}
        treqs.append({"op": "tree.pack_dirs", "tree": T, "pack": pp}); tmetas.append(("tree.pack_dirs", case, got))
        if isinstance(got, list):
            # direct: exactly the immediate sub-directories that directly contain a simfile, in listing order
            base = fs.path.normpath(pp)
            exp = [fs.path.join(base, n) for n in m.listdir(base)
                   if m.isdir(fs.path.join(base, n)) and any(x.lower().endswith((".sm", ".ssc")) for x in m.listdir(fs.path.join(base, n)))]
            if got != exp:
                res.violation(case, "a pack does not list exactly its immediate sub-directories that directly contain a simfile", impl=got, expected=exp); continue
        songs = [k for k, v in pk.items() if isinstance(v, dict)]
        sd = rng.choice(["/Songs/MyPack/" + s_ for s_ in songs] + ["/Songs/MyPack", "Songs/MyPack/./" + (songs[0] if songs else "x"), "/Songs/MyPack/loose.sm", "/a/../.."])
        ign = rng.random() < .5
        try:
            o = _Dir(sd, filesystem=m, ignore_duplicate=ign); got = {"dir": o.simfile_dir, "sm": o.sm_path, "ssc": o.ssc_path}
        except _Dup: got = "DuplicateSimfileError"
        except Exception as e: got = treegen.fs_err(e) or {"err": core.exc_name(e)}
        treqs.append({"op": "tree.dir", "tree": T, "path": sd, "ignore_duplicate": ign}); tmetas.append(("tree.dir", dict(case, dir=sd, ignore_duplicate=ign), got))
        for pth in [pp, sd, rng.choice(["a//b/../c/", "/x/./y", "../z", "/..", "", "/", "a/b/", "//a"])]:
            try: g1 = fs.path.normpath(pth)
            except Exception as e: g1 = None
            treqs.append({"op": "path.normpath", "p": pth}); tmetas.append(("path.normpath", {"p": pth}, g1))
            g2 = list(fs.path.split(pth))
            treqs.append({"op": "path.split", "p": pth}); tmetas.append(("path.split", {"p": pth}, g2))
            other = rng.choice(["x.png", "Sub/x", "../y", "/abs", "", "."])
            try: g3 = fs.path.join(pth, other)
            except Exception as e: g3 = None
            treqs.append({"op": "path.join", "a": pth, "b": other}); tmetas.append(("path.join", {"a": pth, "b": other}, g3))
    for (stream, case, got), mm in zip(tmetas, ctx.lean.eval_sharded(treqs)):
        res.traces += 1
        if got != mm:
            res.tie_break(stream, case, got, mm)
    res.assumptions = ["listdir/isdir semantics are the filesystem's; the real listing order is an input of the model",
                       "names are ASCII plus caseless CJK, so str.lower is within the modelled table"]
    return res


def _names(tree):
    return {k: (_names(v) if isinstance(v, dict) else None) for k, v in tree.items()}
