"""C17 — SSC -> SM conversion applies the caller's policy to every SSC-only property."""
import itertools
from decimal import Decimal
import core, gen, objs
from adapters import c16

# the documented policy (simfile.convert docs / property statement), independent of the tables in the working tree
KINDS = ["SSC_VERSION", "METADATA", "FILE_PATH", "GAMEPLAY_EVENT", "TIMING_DATA"]
BEHS = ["COPY_ANYWAY", "IGNORE", "ERROR_UNLESS_DEFAULT", "ERROR"]
DOC_DEFAULT_BEH = {"SSC_VERSION": "IGNORE", "METADATA": "IGNORE", "FILE_PATH": "IGNORE",
                   "GAMEPLAY_EVENT": "ERROR_UNLESS_DEFAULT", "TIMING_DATA": "ERROR_UNLESS_DEFAULT"}
DOC_SIM = {"SSC_VERSION": ["VERSION"], "METADATA": ["ORIGIN", "TIMESIGNATURES", "LABELS", "MUSICLENGTH", "LASTSECONDHINT"],
           "FILE_PATH": ["PREVIEWVID", "JACKET", "CDIMAGE", "DISCIMAGE", "PREVIEW"], "GAMEPLAY_EVENT": ["COMBOS", "SPEEDS", "SCROLLS", "FAKES"],
           "TIMING_DATA": ["WARPS"]}
DOC_CHART = {"METADATA": ["CHARTNAME", "CHARTSTYLE", "CREDIT", "DISPLAYBPM", "TIMESIGNATURES", "LABELS"],
             "GAMEPLAY_EVENT": ["TICKCOUNTS", "COMBOS", "SPEEDS", "SCROLLS", "FAKES", "ATTACKS"],
             "TIMING_DATA": ["OFFSET", "BPMS", "STOPS", "DELAYS", "WARPS"]}
DOC_DEFAULTS = {"TIMESIGNATURES": "0.000=4=4", "TICKCOUNTS": "0.000=4", "COMBOS": "0.000=1", "SPEEDS": "0.000=1.000=0.000=0",
                "SCROLLS": "0.000=1.000", "LABELS": "0.000=Song Start"}
SIX = ["STEPSTYPE", "DESCRIPTION", "DIFFICULTY", "METER", "RADARVALUES", "NOTES"]


def doc_outcome(src, st, ct, beh):
    """the property's statement evaluated on dumps: ('err', name[, key]) or ('ok', dump)"""
    from simfile.sm import SMSimfile, SMChart
    def kind_of(k, table):
        for kind in KINDS:
            if k in table.get(kind, []): return kind
        return None
    def decide(k, v, table):
        kind = kind_of(k, table)
        if kind is None: return True
        b = beh.get(kind, DOC_DEFAULT_BEH[kind])
        if b == "COPY_ANYWAY": return True
        if b == "IGNORE": return False
        if b == "ERROR_UNLESS_DEFAULT" and (v or "").strip() == DOC_DEFAULTS.get(k, ""): return False      # a key-only property (None) counts as empty
        raise KeyError(k)
    props = dict(src["props"])
    if props.get("WARPS"): return ("err", "NotImplementedError")
    base = st if st is not None and st["props"] else c16.any_dump(SMSimfile.blank())
    out_props = [list(x) for x in base["props"]]
    def put(lst, k, v):
        for e in lst:
            if e[0] == k: e[1] = v; return
        lst.append([k, v])
    try:
        for k, v in src["props"]:
            if decide(k, v, DOC_SIM): put(out_props, k, v)
        charts = [dict(c) for c in base["charts"]]
        for c in src["charts"]:
            tmpl = ct if ct is not None and ct["d"] else c16.chart_dump(SMChart.blank())
            d = [list(x) for x in tmpl["d"]]
            for k, v in c["d"]:
                if decide(k, v, DOC_CHART): put(d, k, v)
            charts.append({"d": d, "extradata": tmpl["extradata"]})
    except KeyError as e:
        return ("err", "InvalidPropertyException", e.args[0])
    return ("ok", {"ssc": False, "props": out_props, "charts": charts})


def ssc_source(rng):
    from simfile.ssc import SSCSimfile, SSCChart
    sf = SSCSimfile.blank()
    states = lambda k: rng.choice(["absent", "empty", "default", "default", "blanked", "other", "keyonly"])
    for kind, keys in DOC_SIM.items():
        for k in keys:
            s = states(k)
            if k == "WARPS":
                s = rng.choice(["absent", "empty", "empty", "empty", "value", "keyonly"])
                if s == "value":
                    # well-formed, non-empty warp lists of every shape: zero-length warps, several rows, rows over several lines
                    sf[k] = rng.choice(["4.000=1.000", "8.000=0.000", "8.000=0.000,\n12.000=0.000", "0.000=0.500", "4.000=0.000,8.000=2.000",
                                        "4.000=1.000,\n6.000=0.250", "1.500=0", "2=0.0"]); continue
            if s == "absent":
                if k in sf: del sf[k]
            elif s == "empty": sf[k] = ""
            elif s == "keyonly": sf[k] = None      # loaded from a key-only parameter such as #LABELS;
            elif s == "default": sf[k] = DOC_DEFAULTS.get(k, "")
            elif s == "blanked": sf[k] = " " + DOC_DEFAULTS.get(k, "") + "\n"
            else: sf[k] = rng.choice(["x", "1.000=2", "0.83", "a.png"])
    for k in ("TITLE", "ARTIST", "BPMS", "STOPS", "OFFSET"):
        if rng.random() < .4: sf[k] = objs.rand_value(rng, allow_none=False, short=True) if k in ("TITLE", "ARTIST") else sf.get(k) or ""
    for _ in range(rng.randrange(0, 3)):
        c = SSCChart.blank()
        for kind, keys in DOC_CHART.items():
            for k in keys:
                if k in ("DISPLAYBPM", "ATTACKS") and rng.random() < .5: continue
                s = states(k)
                if s == "absent":
                    if k in c: del c[k]
                elif s == "empty": c[k] = ""
                elif s == "keyonly": c[k] = None
                elif s == "default": c[k] = DOC_DEFAULTS.get(k, "")
                elif s == "blanked": c[k] = "  " + DOC_DEFAULTS.get(k, "") + " "
                else: c[k] = rng.choice(["y", "0.000=120.000", "2"])
        if rng.random() < .5: c.description = objs.rand_field(rng)
        items = list(c.items()); rng.shuffle(items) if rng.random() < .3 else None
        c.clear()
        for k, v in items: c[k] = v
        sf.charts.append(c)
    return sf


def templates(rng):
    from simfile.sm import SMSimfile, SMChart
    st = ct = None
    if rng.random() < .3:
        st = SMSimfile.blank(); st["CREDIT"] = "tmpl"; st["EXTRA"] = "1"
        if rng.random() < .4:
            c = SMChart.blank(); c.description = "template chart"; st.charts.append(c)
    if rng.random() < .3:
        ct = SMChart.blank(); ct.description = "from template"
        if rng.random() < .5: ct.extradata = ["x"]
    return st, ct


def run(ctx):
    from simfile.convert import ssc_to_sm, sm_to_ssc, PropertyType, InvalidPropertyBehavior, InvalidPropertyException
    from simfile.sm import SMSimfile
    from simfile.ssc import SSCSimfile, SSCChart
    import simfile, re
    rng = ctx.rng
    res = core.Result()
    res.rule = ("SSC sources derived from blank() with every SSC-only simfile and chart property {absent, empty, default, default "
                "with blanks, non-default} (WARPS: absent/empty/well-formed), 0..2 charts, x random total and partial behaviour "
                "mappings (all 4^5 total mappings on a fixed family in the thorough tier) x templates; corpus SSC files; "
                "sm_to_ssc outputs for the there-and-back clause. Observation: SM simfile items/charts or the exception class and, "
                "for InvalidPropertyException, the property named. non-trivial: some SSC-only property is non-default; distinct by hash")
    jobs = []
    n = ctx.scale(500, 6000)
    for i in range(n):
        src = ssc_source(rng)
        r = rng.random()
        if r < .2: beh = {}
        elif r < .6: beh = {k: rng.choice(BEHS) for k in KINDS}
        else: beh = {k: rng.choice(BEHS) for k in KINDS if rng.random() < .5}
        # chart kinds under COPY_ANYWAY end in a bare KeyError: known finding, outside the random domain
        if any(beh.get(k) == "COPY_ANYWAY" for k in ("METADATA", "GAMEPLAY_EVENT", "TIMING_DATA")) and src.charts:
            for k in ("METADATA", "GAMEPLAY_EVENT", "TIMING_DATA"):
                if beh.get(k) == "COPY_ANYWAY": beh[k] = rng.choice(["IGNORE", "ERROR", "ERROR_UNLESS_DEFAULT"])
        st, ct = templates(rng)
        jobs.append((src, beh, st, ct))
    if ctx.thorough:
        fam = [ssc_source(rng) for _ in range(6)]
        for f in fam: del f.charts[:]
        for combo in itertools.product(BEHS, repeat=5):
            jobs.append((rng.choice(fam), dict(zip(KINDS, combo)), None, None))
        res.stats["all_1024_total_mappings"] = True
    for p in gen.corpus_files():
        if p.endswith(".ssc"):
            sf = simfile.open(p)
            for c in list(sf.charts):
                for k in list(c.keys()):
                    if k not in SIX and not any(k in v for v in DOC_CHART.values()): del c[k]
            jobs.append((sf, {k: "IGNORE" for k in KINDS}, None, None))
            jobs.append((sf, {}, None, None))
    beh_code = {b.name: b.value for b in InvalidPropertyBehavior}; kind_code = {k.name: k.value for k in PropertyType}
    reqs, metas = [], []
    for src, beh, st, ct in jobs:
        snap = (c16.any_dump(src), None if st is None else c16.any_dump(st), c16.chart_dump(ct))
        case = {"source": {"props": [p for p in snap[0]["props"] if p[1] not in ("",)][:40], "charts": [c["d"] for c in snap[0]["charts"]][:2]},
                "behaviours": beh, "sim_template": bool(st), "chart_template": bool(ct)}
        res.case(case, nontrivial=True)
        res.traces += 1
        try:
            out = ssc_to_sm(src, simfile_template=st, chart_template=ct,
                            invalid_property_behaviors={PropertyType[k]: InvalidPropertyBehavior[v] for k, v in beh.items()})
            got = ("ok", c16.any_dump(out))
        except InvalidPropertyException as e:
            m = re.match(r"cannot convert '([^']*)'", str(e))
            got = ("err", "InvalidPropertyException", m.group(1) if m else str(e))
        except Exception as e:
            got = ("err", core.exc_name(e))
        res.count(got[0] if got[0] == "ok" else got[1])
        exp = doc_outcome(snap[0], snap[1], snap[2], beh)
        if got != exp:
            res.violation(case, "outcome differs from the documented policy", impl=str(got)[:400], expected=str(exp)[:400]); continue
        if (c16.any_dump(src), None if st is None else c16.any_dump(st), c16.chart_dump(ct)) != snap:
            res.violation(case, "source or template modified by the conversion"); continue
        if got[0] == "ok" and (c16.mutable_ids(out) & (c16.mutable_ids(src) | (c16.mutable_ids(st) if st else set()))):
            res.violation(case, "result shares a mutable object with the source or a template"); continue
        reqs.append({"op": "convert.convert", "src": snap[0], "to_ssc": False, "sim_template": snap[1], "chart_template": snap[2],
                     "beh": [[kind_code[k], beh_code[v]] for k, v in beh.items()]})
        metas.append((case, got))
    resp = ctx.lean.eval_sharded(reqs)
    for (case, got), m in zip(metas, resp):
        mm = ("ok", m["ok"]) if "ok" in m else (("err", m["err"], m["key"]) if "key" in m else ("err", m["err"]))
        if mm != got:
            res.tie_break("convert.convert (ssc_to_sm)", case, str(got)[:400], str(mm)[:400])
    # there and back -------------------------------------------------------------------------------------
    for i in range(ctx.scale(120, 1500)):
        sm = c16.sm_source(rng)
        for k in list(sm.keys()):
            if any(k in v for v in DOC_SIM.values()): del sm[k]
        if any(v is None for v in sm.values()): continue
        snap = c16.any_dump(sm)
        case = {"there_and_back": snap if len(str(snap)) < 2000 else {"props": snap["props"][:30]}}
        res.case(case)
        try:
            back = ssc_to_sm(sm_to_ssc(sm))
        except Exception as e:
            res.violation(case, "ssc_to_sm(sm_to_ssc(sm)) raised", impl=core.exc_name(e)); continue
        ok = all(back.get(k, "<missing>") == v for k, v in sm.items()) and len(back.charts) == len(sm.charts) and \
            all(c1 == c2 for c1, c2 in zip(sm.charts, back.charts))
        if not ok:
            res.violation(case, "SM -> SSC -> SM does not give back every original property and chart")
    # known findings ---------------------------------------------------------------------------------------
    for f in ctx.findings:
        src = SSCSimfile.blank(); c = SSCChart.blank(); src.charts.append(c); beh = {}
        if f["id"].endswith("MUSIC"): c["MUSIC"] = "x.ogg"
        elif f["id"].endswith("NOTES2"): c["NOTES2"] = "0000"
        elif f["id"].endswith("unknown"): c["FOO"] = "1"
        elif f["id"].endswith("copy-anyway"): beh = {PropertyType.METADATA: InvalidPropertyBehavior.COPY_ANYWAY}
        else: continue
        try:
            ssc_to_sm(src, invalid_property_behaviors={PropertyType.METADATA: InvalidPropertyBehavior.IGNORE, PropertyType.GAMEPLAY_EVENT: InvalidPropertyBehavior.IGNORE,
                                                       PropertyType.TIMING_DATA: InvalidPropertyBehavior.IGNORE, **beh}); fails = False
        except KeyError:
            fails = True
        except Exception:
            fails = False
        res.findings_seen.append((f["id"], fails, "%s: %s [%s]" % (f["id"], f["what"], f["input"])))
    res.assumptions = ["the documented tables (kinds, defaults, default behaviours) are transcribed in the adapter for the direct layer; the Lean model reads them from the generated tables",
                       "aliasing/unmodified clauses are observed, not proved"]
    return res
