"""C09 — grouping and counting notes follow the documented rules for every stream."""
import os
import itertools
from fractions import Fraction
import core, gen
from core import frac, unfrac

MODES = ["KEEP_SEPARATE", "JOIN_BY_NOTE_TYPE", "JOIN_ALL"]
POLICIES = ["RAISE_EXCEPTION", "KEEP_ORPHAN", "DROP_ORPHAN"]


def all_opts():
    out = []
    for mode in MODES:
        for join in (False, True):
            for oh in POLICIES:
                for ot in POLICIES:
                    out.append({"same_beat": mode, "join": join, "orphaned_head": oh, "orphaned_tail": ot})
    return out


def jg(g):
    from simfile.notes.group import NoteWithTail
    if isinstance(g, NoteWithTail):
        return ["t", [frac(g.beat), g.column, g.note_type.value, g.player, g.keysound_index], frac(g.tail_beat)]
    return ["n", gen.jnote(g)]


def impl_group(notes, opts):
    from simfile.notes import NoteType
    from simfile.notes.group import group_notes, SameBeatNotes, OrphanedNotes
    try:
        r = list(group_notes([gen.mknote(j) for j in notes],
                             include_note_types=frozenset(NoteType(c) for c in opts["incl"]),
                             same_beat_notes=SameBeatNotes[opts["same_beat"]], join_heads_to_tails=opts["join"],
                             orphaned_head=OrphanedNotes[opts["orphaned_head"]], orphaned_tail=OrphanedNotes[opts["orphaned_tail"]]))
        return {"ok": [[jg(g) for g in grp] for grp in r]}
    except Exception as e:
        return {"err": core.exc_name(e)}


def grid_stream(code, kinds):
    """stream on the 2-column x 4-row grid from a base-5 code; kinds = the 5 cell characters"""
    notes = []
    for cell in range(8):
        k = code % 5; code //= 5
        if k:
            row, col = divmod(cell, 2)
            notes.append([frac(Fraction(row)), col, kinds[k], 0, None])
    return notes


def random_stream(rng, hold_heavy=True):
    cols = rng.randrange(1, 7)
    types = ["1", "2", "3", "4", "M", "L", "F", "K", "A"]
    weights = [4, 3, 4, 2, 1, 1, 1, 1, 1] if hold_heavy else [1] * 9
    rows = rng.randrange(1, 65 if rng.random() < .2 else 14)
    notes = []
    dens = rng.choice([[1], [1, 2], [4], [1, 3, 4]])
    b = Fraction(0)
    for r in range(rows):
        b += Fraction(rng.randrange(0 if r else 0, 3), rng.choice(dens)) if r else 0
        if r and b == prev: b += Fraction(1, rng.choice(dens))
        prev = b
        for c in range(cols):
            if rng.random() < rng.choice([.2, .5, .8]):
                notes.append([frac(b), c, rng.choices(types, weights)[0], 0, rng.choice([None, None, None, 3, 0])])
    return notes


def subsets(rng, n):
    allt = "1234AFKLM"
    out = [allt, "124L", "23", "43", "234", ""]          # the empty set is a subset too: nothing is included
    while len(out) < n:
        out.append("".join(c for c in allt if rng.random() < .6))
    return out[:n]


def run(ctx, for_c10=False):
    from simfile.notes import NoteType
    from simfile.notes import count as cnt
    from simfile.notes.group import OrphanedNotes, SameBeatNotes
    rng = ctx.rng
    res = core.Result()
    opts_all = all_opts()
    streams = []
    # small grid: exhaustive in the thorough tier, a seeded slice in the quick tier
    kinds = ["0", "1", "2", "4" if ctx.seed % 2 == 0 else "M", "3"]
    total = 5 ** 8
    if ctx.thorough and not (for_c10 and os.environ.get("VERIF_FULL_GRID") != "1"):
        codes = range(total); res.exhaustive = True
    elif ctx.thorough:
        # C10 re-uses these streams and doubles the work per stream: every 6th code (rotating with the seed) unless VERIF_FULL_GRID=1
        codes = range(ctx.seed % 6, total, 6)
    else:
        step = 97 if not ctx.widen else 13
        codes = range(ctx.seed % step, total, step)
    for code in codes:
        streams.append(("grid", grid_stream(code, kinds)))
    ngrid = len(streams)
    for i in range(ctx.scale(1200, 20000)):
        streams.append(("random", random_stream(rng)))
    # several holds/rolls opened in a random column order and released late (together or not), little else:
    # the pending tails of ungroup and the buffer of group are exercised at the very end of the stream
    for i in range(ctx.scale(250, 4000)):
        cols = rng.randrange(3, 7)
        order = rng.sample(range(cols), rng.randrange(3, cols + 1))
        notes = []
        b = 0
        for c in order:
            notes.append([frac(Fraction(b)), c, rng.choice("24"), 0, rng.choice([None, None, 7, 0])]); b += rng.choice([0, 1, 1, 2])
        end = b + rng.randrange(1, 4)
        rel = order[:] if rng.random() < .5 else rng.sample(order, len(order))
        together = rng.random() < .5
        for j, c in enumerate(rel):
            if rng.random() < .9:
                notes.append([frac(Fraction(end if together else end + j)), c, "3", 0, None])
        if rng.random() < .3:
            notes.append([frac(Fraction(end + len(rel) + 1)), rng.randrange(cols), "1", 0, None])
        seen = set(); uniq = []
        for n in sorted(notes, key=lambda n: (unfrac(n[0]), n[1])):
            if (n[0], n[1]) not in seen: seen.add((n[0], n[1])); uniq.append(n)
        streams.append(("late-release", uniq))
    # beats off the 1/48 grid lying closer together than a tick (384th and 1000-row measures, fifths against 48ths, sums
    # computed arithmetically): notes are one group only when their beats are equal, not when they round to the same tick
    for i in range(ctx.scale(200, 3000)):
        cols = rng.randrange(1, 5)
        den = rng.choice([96, 96, 192, 250, 5 * 48, 7 * 48, 1000])
        b = Fraction(rng.randrange(0, 3 * 48), 48)
        notes = []
        for r in range(rng.randrange(2, 9)):
            for c in range(cols):
                if rng.random() < .6:
                    notes.append([frac(b), c, rng.choice("1112M4"), 0, None])
            b += rng.choice([Fraction(1, den), Fraction(1, den), Fraction(2, den), Fraction(1, 48) - Fraction(1, den), Fraction(1, 48)])
        streams.append(("off-grid", notes))
    from simfile.notes import NoteData
    for p, i, t in gen.corpus_charts():
        notes = [gen.jnote(n) for n in NoteData(t) if n.player == 0]
        streams.append(("corpus", notes))
    res.rule = ("streams: the 2x4x5 grid (%d of %d codes%s), random streams over 1..6 columns with holds/rolls/tails/mines "
                "and keysounds, corpus charts; each under option combinations rotating through all 54 mode/join/policy "
                "combinations x include-subsets; observation = list of groups (every note spelled out) or the exception "
                "class. non-trivial: the stream has a head or tail and join is on, or two notes share a beat; distinct by "
                "hash of (stream, options)" % (ngrid, total, ", exhaustive" if ctx.thorough else ""))
    per = 4 if ctx.thorough else (3 if not ctx.widen else 8)
    jobs = []
    k = ctx.seed
    incl_sets = subsets(rng, 12)
    for kind, notes in streams:
        n_opts = per if kind != "corpus" else 10
        for _ in range(n_opts):
            o = dict(opts_all[k % len(opts_all)]); k += 7
            o["incl"] = incl_sets[0] if rng.random() < .55 else rng.choice(incl_sets)
            jobs.append((kind, notes, o))
    reqs = []
    for kind, notes, o in jobs:
        reqs.append({"op": "group.group", "notes": notes, "opts": o})
        reqs.append({"op": "spec.group", "notes": notes, "opts": o})
    resp = ctx.lean.eval_sharded(reqs, shards=16)
    for i, (kind, notes, o) in enumerate(jobs):
        model, spec = resp[2 * i], resp[2 * i + 1]
        impl = impl_group(notes, o)
        case = {"notes": notes if len(notes) < 80 else notes[:80] + ["…%d more" % (len(notes) - 80)], "opts": o}
        has_hold = any(n[2] in "234" for n in notes)
        beats = [n[0] for n in notes]
        res.case(case, nontrivial=(has_hold and o["join"]) or len(set(beats)) < len(beats))
        res.traces += 1
        res.count("kind_" + kind); res.count("err" if "err" in impl else "ok")
        if impl != spec:
            res.violation(case, "group_notes differs from the documented rule", impl=_short(impl), spec=_short(spec))
        elif impl != model:
            res.tie_break("group.group", case, _short(impl), _short(model))
    # model ⊨ spec on everything explored is also recorded (it is what the theorem will state)
    res.stats["model_vs_spec_disagreements"] = sum(1 for i in range(len(jobs)) if resp[2 * i] != resp[2 * i + 1])
    if for_c10:
        return res, jobs
    # counting -------------------------------------------------------------------------------------
    creqs, cjobs = [], []
    sample = [s for s in streams if s[0] != "grid"][: ctx.scale(300, 3000)] + [s for s in streams if s[0] == "off-grid"][: ctx.scale(100, 1000)] \
        + streams[:ctx.scale(300, 3000)]
    for kind, notes in sample:
        mn = rng.randrange(1, 5)
        incl = rng.choice(["124L", "124L", "1", "1234AFKLM", "12M", ""])
        mode = rng.choice(MODES)
        oh, ot = rng.choice(POLICIES), rng.choice(POLICIES)
        head = rng.choice("24")
        cjobs.append((notes, mn, incl, mode, oh, ot, head))
        creqs += [{"op": "count.steps", "notes": notes, "incl": incl, "same_beat": mode, "minimum": mn},
                  {"op": "spec.beats_with_at_least", "notes": notes, "incl": incl, "minimum": mn},
                  {"op": "count.mines", "notes": notes},
                  {"op": "count.holds", "notes": notes, "head": head, "orphaned_head": oh, "orphaned_tail": ot},
                  {"op": "spec.holds", "notes": notes, "head": head, "orphaned_head": oh, "orphaned_tail": ot},
                  {"op": "spec.group", "notes": notes, "opts": {"same_beat": mode, "join": False, "orphaned_head": "RAISE_EXCEPTION",
                                                              "orphaned_tail": "RAISE_EXCEPTION", "incl": incl}}]
    cresp = ctx.lean.eval_sharded(creqs, shards=16)
    for i, (notes, mn, incl, mode, oh, ot, head) in enumerate(cjobs):
        m_steps, s_beats, m_mines, m_holds, s_holds, s_groups = cresp[6 * i: 6 * i + 6]
        ns = [gen.mknote(j) for j in notes]
        inc = frozenset(NoteType(c) for c in incl)
        case = {"notes": notes[:80], "minimum": mn, "incl": incl, "mode": mode, "head": head, "oh": oh, "ot": ot}
        res.case({"count": case})
        res.traces += 1

        def call(f):
            try: return {"ok": f()}
            except Exception as e: return {"err": core.exc_name(e)}
        steps = call(lambda: cnt.count_steps(ns, include_note_types=inc, same_beat_notes=SameBeatNotes[mode], same_beat_minimum=mn))
        # documented: the count is the number of groups the requested same-beat mode emits that hold at least `minimum` notes
        if "ok" in s_groups:
            exp_steps = {"ok": sum(1 for g in s_groups["ok"] if len(g) >= mn)}
            if steps != exp_steps:
                res.violation(case, "count_steps under the requested same-beat mode is not the number of emitted groups with at least the minimum size",
                              impl=steps, expected=exp_steps); continue
        if steps != m_steps:
            res.tie_break("count.steps", case, steps, m_steps)
        # documented: steps/jumps/hands = beats carrying at least 1/2/3 (or the minimum) included notes
        d_steps = call(lambda: cnt.count_steps(ns, include_note_types=inc, same_beat_minimum=mn))
        if d_steps != {"ok": s_beats}:
            res.violation(case, "count_steps(minimum) is not the number of beats with that many included notes", impl=d_steps, spec=s_beats)
        if mn == 2 and call(lambda: cnt.count_jumps(ns, include_note_types=inc)) != {"ok": s_beats}:
            res.violation(case, "count_jumps differs from beats with >= 2 notes")
        if mn == 3 and call(lambda: cnt.count_hands(ns, include_note_types=inc)) != {"ok": s_beats}:
            res.violation(case, "count_hands differs from beats with >= 3 notes")
        if call(lambda: cnt.count_mines(ns)) != {"ok": m_mines} or m_mines != sum(1 for n in notes if n[2] == "M"):
            res.violation(case, "count_mines is not the number of mines")
        f = cnt.count_holds if head == "2" else cnt.count_rolls
        holds = call(lambda: f(ns, orphaned_head=OrphanedNotes[oh], orphaned_tail=OrphanedNotes[ot]))
        if holds != s_holds:
            res.violation(case, "count_holds/rolls differs from the number of items joining emits", impl=holds, spec=s_holds)
        elif holds != m_holds:
            res.tie_break("count.holds", case, holds, m_holds)
    # defaults of the counting functions come from the generated DEFAULT_NOTE_TYPES
    res.assumptions = ["which orphan an OrphanedNoteException names is not observed (not claimed)",
                       "streams are single-player and position-sorted, as the property's quantifier says"]
    return res


def _short(x):
    s = str(x)
    return s if len(s) < 600 else s[:600] + "…"
