"""C06 — a failed or cancelled mutate never damages the input file (fault enumeration on the real code)."""
import os, shutil, tempfile
import core, gen, objs, fstools
from adapters import c01, c02, c05


class MyError(Exception):
    pass


class MyBase(BaseException):
    pass


def configs(ext):
    for outn in (None, "out" + ext):
        for bakn in (None, "in.bak"):
            yield outn, bakn


def run(ctx):
    import simfile
    rng = ctx.rng
    res = core.Result()
    res.rule = ("every fault point of the save sequence, enumerated: for each configuration (format x output name x backup name x "
                "native/MemoryFS x file encoding) a fault-free run records the N write-side filesystem calls, then every k < N is "
                "re-run on a fresh copy with the k-th call failing (open-for-write, write after half of the data, close after flush); "
                "an exception of each class at every position of the edit script; an unserializable value / chart; an unencodable "
                "character per detected encoding. Directory snapshots are compared with the Lean model's faulty run. non-trivial: a "
                "fault on the output while a backup was requested; distinct by hash of (configuration, fault)")
    tmp = tempfile.mkdtemp(prefix="simfile-verif-c06-")
    reqs, metas = [], []
    dreqs, dmetas = [], []
    xreqs, xmetas = [], []
    idx = [0]

    def world(kind, files, rec=None):
        idx[0] += 1
        return c05.World(kind, tmp, idx[0], files, rec)

    try:
        reps = ctx.scale(2, 12)
        for rep in range(reps):
            for ext in (".sm", ".ssc"):
                data, enc_written = c05.rand_file(rng, ext)
                for _ in range(40):
                    if rep % 2 == 1 or b"#NOTES:" in data: break      # every other file carries a chart for certain
                    data, enc_written = c05.rand_file(rng, ext)
                tries = list(c05.DEFAULT_ENCODINGS)
                detected = next(e for e in tries if c05.decodes(data, e))
                tr = [[e, c05.decodes(data, e)] for e in tries]
                cls = simfile.sm.SMSimfile if ext == ".sm" else simfile.ssc.SSCSimfile
                s0 = cls(string=data.decode(detected))
                new_title = "edited " + rng.choice(c05.REPERTOIRE[detected])
                for kind in ("native", "memory"):
                    for outn, bakn in configs(ext):
                        files = {"in" + ext: data, "other.txt": b"bystander"}
                        base_case = {"fs": kind, "ext": ext, "bytes": data.decode("latin-1"), "detected": detected, "output": outn, "backup": bakn}

                        def do(w, body, **kw):
                            try:
                                with simfile.mutate(w.path("in" + ext), output_filename=w.path(outn) if outn else None,
                                                    backup_filename=w.path(bakn) if bakn else None, filesystem=w.fs, **kw) as sf:
                                    body(sf)
                                return ("returned", None)
                            except BaseException as e:
                                return ("raised", e)

                        cap = {}
                        def edit_ok(sf):
                            if "entry" not in cap: cap["entry"] = str(sf)
                            sf.title = new_title
                            # the block also edits the charts in place (a field of one, the list itself): the backup is the
                            # simfile as it was on entry whatever the block does to the objects it was handed
                            if sf.charts:
                                sf.charts[0].meter = "99"; sf.charts[0].notes = "1000\n0100\n0010\n0001\n"
                                if len(sf.charts) > 1: sf.charts.pop()
                                else: sf.charts.append(type(sf.charts[0]).blank())
                            if "exit" not in cap: cap["exit"] = str(sf); cap["dump"] = objs.dump(sf)
                        # fault-free run: learn N and the expected bytes ------------------------------
                        w = world(kind, files)
                        r = do(w, edit_ok)
                        good = w.snapshot(); n_calls = w.rec.wcalls
                        w.close()
                        if r[0] != "returned":
                            res.violation(base_case, "fault-free mutate failed", impl=repr(r[1])); continue
                        out_bytes = good[outn or "in" + ext]; bak_bytes = good.get(bakn) if bakn else None
                        # every k-th write-side call fails ----------------------------------------------
                        seq0 = (["openW", "write", "close"] if bakn else []) + ["openW", "write", "close"]
                        for k, lossy in [(k, l) for k in range(n_calls) for l in ((False, True) if seq0[k] == "close" else (False,))]:
                            rec = fstools.Recorder(fail_at=k, close_loses=lossy)
                            w = world(kind, files, rec)
                            r = do(w, edit_ok)
                            snap = w.snapshot(); w.close()
                            case = dict(base_case, fault_at=k, call=rec.log[-1][0] if rec.log else None)
                            if lossy: case["close_loses_buffered_data"] = True
                            res.case(case, nontrivial=bool(bakn) and k >= 3)
                            res.traces += 1; res.count("fault_" + str(case["call"]))
                            if r[0] != "raised" or not isinstance(r[1], fstools.Fault):
                                res.violation(case, "the injected filesystem failure did not propagate", impl=repr(r)); continue
                            inp = snap.get("in" + ext)
                            backup_complete = bakn is not None and snap.get(bakn) == bak_bytes
                            seq = (["openW", "write", "close"] if bakn else []) + ["openW", "write", "close"]
                            failing = seq[k]; on_backup = bool(bakn) and k < 3
                            case["call"] = ("backup:" if on_backup else "output:") + failing
                            if failing == "openW" and inp != data:
                                res.violation(case, "a file could not be opened for writing but the input no longer holds its original bytes", input=repr(inp)[:80]); continue
                            if bakn and inp != data and not backup_complete:
                                res.violation(case, "a backup was asked for, saving failed, and neither the input nor a complete backup holds the original", input=repr(inp)[:80]); continue
                            if bakn and k >= 3 and not backup_complete:
                                res.violation(case, "saving failed after the backup had been written, but the backup is not complete"); continue
                            if backup_complete:
                                try:
                                    ok = objs.dump(simfile.open(w.path(bakn) if kind == "native" and False else None)) if False else None
                                except Exception:
                                    ok = None
                                b = cls(string=snap[bakn].decode(detected))
                                exp = objs.dump(s0) if ext == ".sm" else c02.notes_last(objs.dump(s0))
                                if objs.dump(b) != exp:
                                    res.violation(case, "the written backup does not parse to the original simfile"); continue
                            extra = set(snap) - set(files) - {outn, bakn}
                            if extra:
                                res.violation(case, "stray file created", impl=sorted(extra)); continue
                            # classify for the model comparison
                            def cl(name):
                                b = snap.get(name)
                                if b is None: return None
                                if name in files and b == files[name]: return "original"
                                if bakn and name == bakn and b == bak_bytes: return "backup"
                                if name == (outn or "in" + ext) and b == out_bytes: return "output"
                                return "truncated"
                            if not lossy:
                                reqs.append({"op": "mutate.run", "input": w.path("in" + ext), "output": w.path(outn) if outn else None,
                                             "backup": w.path(bakn) if bakn else None, "tries": tr, "body": "returns", "problem": "none",
                                             "fault": k, "files": [w.path(n) for n in files]})
                                metas.append((case, {w.path(n): cl(n) for n in snap}))
                            # the data-carrying model with the same fault: the bytes of every file
                            if len(data) < 30000 and "dump" in cap:
                                L1 = lambda b: b.decode("latin-1")
                                text_k = cap["entry"] if on_backup else cap["exit"]
                                half = len(text_k[: len(text_k) // 2].encode(detected))
                                cut = 0 if failing == "openW" else (half if (failing == "write" or lossy) else 10 ** 9)
                                def dec_or_none(b, e):
                                    try: return b.decode(e)
                                    except UnicodeDecodeError: return None
                                codecs = [[e, {"decode": [[L1(data), dec_or_none(data, e)]],
                                               "encode": [[t, L1(t.encode(e))] for t in dict.fromkeys([cap["entry"], cap["exit"], ""]) if c05.encodable(t, e)]}] for e in tries]
                                dreqs.append({"op": "mutate.data", "input": w.path("in" + ext), "output": w.path(outn) if outn else None,
                                              "backup": w.path(bakn) if bakn else None, "encs": tries,
                                              "fs": [[w.path(n), L1(v)] for n, v in files.items()], "codecs": codecs, "world": ext[1:], "strict": True,
                                              "body": {"returns": cap["dump"]}, "fault": k, "cut": cut})
                                dmetas.append((case, {w.path(n): L1(v) for n, v in snap.items()}, k))
                        # exceptions raised by the body ---------------------------------------------------
                        class MyCancel(simfile.CancelMutation):
                            pass
                        for exc in (ValueError("v"), KeyError("k"), MyError("m"), KeyboardInterrupt(), SystemExit(3), MyBase("b"),
                                    simfile.CancelMutation(), MyCancel()):
                            for pos in (0, 1, 2):
                                def body(sf, exc=exc, pos=pos):
                                    if pos == 0: raise exc
                                    sf.title = new_title
                                    if pos == 1: raise exc
                                    sf["ARTIST"] = "x"; sf.charts.clear()
                                    raise exc
                                w = world(kind, files)
                                r = do(w, body)
                                snap = w.snapshot(); wrote = [op for op in w.rec.log if op[0] != "openR"]
                                case = dict(base_case, body_raises=type(exc).__name__, position=pos)
                                # a history on the same untouched file: after the failed or cancelled block (which edited its
                                # simfile object), a second block must start from what the file holds, and its backup must be
                                # the original again - nothing of the abandoned edits may survive anywhere
                                if pos > 0 and snap == files and rep % 2 == 0:
                                    seen2 = {}
                                    def body2(sf):
                                        seen2["entry"] = objs.dump(sf)
                                    try:
                                        with simfile.mutate(w.path("in" + ext), backup_filename=w.path("second.bak"), filesystem=w.fs) as sf2:
                                            body2(sf2)
                                        r2 = "returned"
                                    except BaseException as e2:
                                        r2 = core.exc_name(e2)
                                    snap2 = w.snapshot()
                                    res.count("second_block_after_failed_block")
                                    if r2 != "returned" or seen2.get("entry") != objs.dump(s0):
                                        res.violation(dict(case, history="second mutate of the same file"), "after a failed/cancelled block, the next block does not start from the file's content", impl=r2)
                                    else:
                                        try:
                                            bak2 = cls(string=snap2["second.bak"].decode(detected))
                                            ok2 = objs.dump(bak2) == objs.dump(cls(string=str(s0)))
                                        except Exception:
                                            ok2 = False
                                        if not ok2:
                                            res.violation(dict(case, history="second mutate of the same file"), "after a failed/cancelled block, the next block's backup does not parse to the original simfile")
                                w.close()
                                res.case(case, nontrivial=pos > 0); res.traces += 1
                                if snap != files or wrote:
                                    res.violation(case, "the body raised but something on the filesystem was created or modified", impl=sorted(set(snap) ^ set(files)) or wrote[:3]); continue
                                if pos == 0 and len(data) < 30000:
                                    # exception values in the data-carrying model: swallowed iff an instance of CancelMutation
                                    L1 = lambda b: b.decode("latin-1")
                                    def dec_or_none(b, e):
                                        try: return b.decode(e)
                                        except UnicodeDecodeError: return None
                                    s0text = str(s0)
                                    exn = {"tag": type(exc).__name__, "isCancel": isinstance(exc, simfile.CancelMutation), "isException": isinstance(exc, Exception)}
                                    xreqs.append({"op": "mutate.data", "input": w.path("in" + ext), "output": w.path(outn) if outn else None,
                                                  "backup": w.path(bakn) if bakn else None, "encs": tries,
                                                  "fs": [[w.path(n), L1(v)] for n, v in files.items()],
                                                  "codecs": [[e, {"decode": [[L1(data), dec_or_none(data, e)]], "encode": [[s0text, L1(s0text.encode(e))]] if c05.encodable(s0text, e) else []}] for e in tries],
                                                  "world": ext[1:], "strict": True, "body": {"raises": exn}, "fault": None, "cut": 0})
                                    xmetas.append((case, {w.path(n): L1(v) for n, v in snap.items()},
                                                   "returned" if exn["isCancel"] else ["propagated", exn], ("returned", None) if r[0] == "returned" else ("raised", r[1] is exc)))
                                if isinstance(exc, simfile.CancelMutation):
                                    if r[0] != "returned":
                                        res.violation(case, "CancelMutation was not swallowed", impl=repr(r[1]))
                                elif r[0] != "raised" or r[1] is not exc:
                                    res.violation(case, "the body's exception did not propagate unchanged", impl=repr(r))
                        # saving fails before anything is opened ------------------------------------------
                        problems = [("non-string value", lambda sf: sf.__setitem__("TITLE", 5))]
                        if ext == ".ssc":
                            def no_notes(sf):
                                from simfile.ssc import SSCChart
                                c = SSCChart(); c["STEPSTYPE"] = "dance-single"; sf.charts.append(c)
                            problems.append(("chart without note data", no_notes))
                        bad_char = {"utf-8": "\ud800", "cp1252": "あ", "cp932": "한", "cp949": "ก"}[detected]     # utf-8: a lone surrogate
                        if bad_char:
                            def unenc(sf, ch=bad_char):
                                sf.title = new_title; sf.artist = "a" + ch
                            problems.append(("unencodable character for " + detected, unenc))
                        for name, fn in problems:
                            w = world(kind, files)
                            r = do(w, fn)
                            snap = w.snapshot(); w.close()
                            case = dict(base_case, save_problem=name)
                            res.case(case); res.traces += 1
                            if r[0] != "raised":
                                res.violation(case, "an unsaveable simfile was saved without error"); continue
                            if snap.get("in" + ext) != data:
                                res.violation(case, "saving failed but the input file no longer holds its original bytes", input=repr(snap.get("in" + ext))[:80]); continue
                            if bakn and bakn in snap and snap[bakn] != bak_bytes:
                                res.violation(case, "a backup was written but is not complete"); continue
                        # output cannot be opened for writing: a directory stands in its place -------------
                        if outn:
                            w = world(kind, dict(files, **{outn: {}}))
                            r = do(w, edit_ok)
                            snap = w.snapshot(); w.close()
                            case = dict(base_case, save_problem="output path is a directory")
                            res.case(case); res.traces += 1
                            if r[0] != "raised" or snap.get("in" + ext) != data:
                                res.violation(case, "output could not be opened for writing but the input was touched / no error", impl=repr(r))
        # serializations of exactly 4096 … 196608 characters: a save that fails after the backup must leave a complete backup,
        # whatever block size a writer uses ------------------------------------------------------------
        marks = c05.MARKS if ctx.thorough or ctx.widen else c05.MARKS[:6]
        for mi, mark in enumerate(marks):
            ext = (".sm", ".ssc")[(mi + ctx.seed) % 2]
            kind = rng.choice(["native", "memory"]); outn = rng.choice([None, "out" + ext]); bakn = "in.bak"
            data, _, text = c05.exact_file(rng, ext, mark)
            detected = next(e for e in c05.DEFAULT_ENCODINGS if c05.decodes(data, e))
            cls = simfile.sm.SMSimfile if ext == ".sm" else simfile.ssc.SSCSimfile
            s0 = cls(string=data.decode(detected))
            files = {"in" + ext: data, "other.txt": b"bystander"}
            base_case = {"fs": kind, "ext": ext, "bytes": data[:120].decode("latin-1") + "…", "exact_length": mark, "detected": detected, "output": outn, "backup": bakn}

            def do2(w, keep_length):
                try:
                    with simfile.mutate(w.path("in" + ext), output_filename=w.path(outn) if outn else None, backup_filename=w.path(bakn), filesystem=w.fs) as sf:
                        sf["TITLE"] = "edited"
                        if keep_length and not c05.pad_to(rng, sf, mark, detected): raise simfile.CancelMutation
                    return ("returned", None)
                except BaseException as e:
                    return ("raised", e)
            for keep_length in (True, False):
                w = world(kind, files); st = rng.getstate()
                r = do2(w, keep_length); good = w.snapshot(); n_calls = w.rec.wcalls; w.close()
                case = dict(base_case, output_has_the_same_length=keep_length)
                if r[0] != "returned" or good.get(bakn) is None:
                    res.violation(case, "fault-free mutate failed on an exact-length file", impl=repr(r[1])); continue
                exp = objs.dump(s0) if ext == ".sm" else c02.notes_last(objs.dump(s0))
                if objs.dump(cls(string=good[bakn].decode(detected))) != exp:
                    res.violation(case, "the backup of an exact-length file does not parse to the original simfile", impl=len(good[bakn])); continue
                for k in range(n_calls):
                    rec = fstools.Recorder(fail_at=k)
                    w = world(kind, files, rec); rng.setstate(st)
                    r = do2(w, keep_length); snap = w.snapshot(); w.close()
                    fcase = dict(case, fault_at=k)
                    res.case(fcase, nontrivial=k >= 3); res.traces += 1; res.count("exact_length_fault")
                    if r[0] != "raised" or not isinstance(r[1], fstools.Fault):
                        res.violation(fcase, "the injected filesystem failure did not propagate", impl=repr(r)); continue
                    inp = snap.get("in" + ext)
                    complete = snap.get(bakn) == good[bakn]
                    if inp != data and not complete:
                        res.violation(fcase, "a backup was asked for, saving failed, and neither the input nor a complete backup holds the original"); continue
                    if k >= 3 and not complete:
                        res.violation(fcase, "saving failed after the backup had been written, but the backup is not complete",
                                      impl={"backup_bytes": len(snap.get(bakn) or b""), "expected": len(good[bakn])}); continue
    finally:
        shutil.rmtree(tmp, ignore_errors=True)
    resp = ctx.lean.eval_sharded(reqs)
    for (case, classes), m in zip(metas, resp):
        mm = {p: c for p, c in m["files"]}
        if {p: c for p, c in classes.items()} != mm:
            res.tie_break("mutate.run with fault (file map)", case, classes, mm)
    for (case, snap_files, k), m in zip(dmetas, ctx.lean.eval_sharded(dreqs)):
        res.traces += 1; res.count("data_model_fault_compared")
        got_fs = {p_: b_ for p_, b_ in m["fs"]}
        if m["outcome"] != ["ioError", k] or got_fs != snap_files:
            diff = sorted(p_ for p_ in set(got_fs) | set(snap_files) if got_fs.get(p_) != snap_files.get(p_))
            res.tie_break("mutate.data with fault (bytes of every file)", case, {"outcome": ["ioError", k], "files_differing": diff,
                          "impl_len": {p_: len(snap_files.get(p_) or "") for p_ in diff}},
                          {"outcome": m["outcome"], "model_len": {p_: len(got_fs.get(p_) or "") for p_ in diff}})
    for (case, snap_files, exp_outcome, impl_seen), m in zip(xmetas, ctx.lean.eval_sharded(xreqs)):
        res.traces += 1; res.count("data_model_exception_compared")
        got_fs = {p_: b_ for p_, b_ in m["fs"]}
        impl_outcome = "returned" if impl_seen[0] == "returned" else (exp_outcome if impl_seen[1] else "propagated a different exception")
        if m["outcome"] != exp_outcome or got_fs != snap_files or impl_outcome != exp_outcome:
            res.tie_break("mutate.data with a raising body (exception value, files)", case, {"outcome": impl_outcome}, {"outcome": m["outcome"]})
    res.stats["fault_triples"] = len(metas)
    res.assumptions = ["a failing open(..., 'w') is assumed not to truncate; a failing write may leave any prefix (injected: half); a failing close happens after the flush",
                       "crashes of the interpreter or the OS between calls are not modelled (call-granularity faults only)"]
    return res
