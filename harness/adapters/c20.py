"""C20 — asset lookup: the named file if it exists, else a pattern match, else None."""
import os, shutil, tempfile
import core, gen, fstools

KINDS = {"MUSIC": "music", "BANNER": "banner", "BACKGROUND": "background", "CDTITLE": "cdtitle", "JACKET": "jacket", "CDIMAGE": "cdimage"}
HITS = {"BANNER": ["banner.png", "My Banner.JPG", "songbn.png", "x bn.gif"], "BACKGROUND": ["background.png", "BG.png", "songbg.jpeg", "Background-1.bmp"],
        "CDTITLE": ["cdtitle.png", "my-CDTitle.gif"], "JACKET": ["jk_song.png", "Jacket.jpg", "albumart.png", "AlbumArtSmall.bmp"],
        "CDIMAGE": ["song-cd.png", "x-CD.jpg"], "MUSIC": ["song.ogg", "Track.MP3", "a.oga", "b.wav"]}
DUAL = ["jacket-bg.png", "banner-cd.png", "albumart bn.png", "jk_background.png", "cdtitle banner.gif", "jacket cdtitle-cd.jpg", "Background bn.PNG"]
NEAR = ["bann.png", "bnx.png", "b g.txt", "cdtitl.png", "xjk_.png", "song-cdx.png", "cd.png", "music.og", "ogg", "song.ogg.bak", "jk.png", "readme.txt", ".png"]


def rand_dir(rng):
    d = {}
    for k, names in HITS.items():
        for n in rng.sample(names, rng.choice([0, 0, 1, 1, 2])):
            d[n] = None
    for n in rng.sample(NEAR, rng.randrange(0, 5)): d[n] = None
    # names that hit the patterns of two asset kinds at once (each kind's lookup is independent of the others')
    for n in rng.sample(DUAL, rng.choice([0, 0, 1, 1, 2])): d[n] = None
    if rng.random() < .5:
        d["Sub"] = {n: None for n in rng.sample(["Art.PNG", "bg.png", "tune.ogg", "x.txt"], rng.randrange(1, 4))}
    if rng.random() < .3: d["banner"] = {}      # a directory whose name matches a pattern
    return d


def run(ctx):
    import simfile
    from simfile.assets import Assets
    from simfile.dir import SimfilePack
    from simfile.ssc import SSCSimfile
    from simfile._private.nativeosfs import NativeOSFS
    import fs.path
    rng = ctx.rng
    res = core.Result()
    res.rule = ("simfile directories built from names that hit, nearly hit and miss each pattern in mixed case, with a sub-directory, "
                "the simfile's property {absent, empty, existing name in another case, missing file, file in a missing sub-directory, "
                "file in an existing sub-directory in another case}; native temp directory and MemoryFS; packs with 0..n images inside "
                "and beside. Direct: the answer is the named file if it exists, else a matching entry (membership), None iff nothing "
                "matches, always an existing path, stable when asked again; tie: the Lean model with the real listing order. "
                "non-trivial: the property names a file or >= 2 entries match; distinct by hash")
    tmp = tempfile.mkdtemp(prefix="simfile-verif-c20-")
    reqs, metas = [], []
    try:
        for i in range(ctx.scale(250, 3000)):
            tree = rand_dir(rng)
            sf = SSCSimfile.blank()
            spec = {}
            files = [n for n, v in tree.items() if not isinstance(v, dict)]
            for K in KINDS:
                st = rng.choice(["absent", "empty", "exists_case", "missing", "missing_subdir", "subdir_case", "exact"])
                if st == "absent":
                    if K in sf: del sf[K]
                    spec[K] = None
                elif st == "empty": sf[K] = ""; spec[K] = ""
                elif st in ("exists_case", "exact") and files:
                    n = rng.choice(files); sf[K] = n.swapcase() if st == "exists_case" else n; spec[K] = sf[K]
                elif st == "missing": sf[K] = "nope.png"; spec[K] = sf[K]
                elif st == "missing_subdir": sf[K] = "NoDir/x.png"; spec[K] = sf[K]
                elif st == "subdir_case" and "Sub" in tree:
                    n = rng.choice(list(tree["Sub"])); sf[K] = "Sub/" + n.swapcase(); spec[K] = sf[K]
                else:
                    if K in sf: del sf[K]
                    spec[K] = None
            if i % 4 == 0:
                tree["song.ssc"] = str(sf)
            for fsname in ("native", "memory"):
                if fsname == "native":
                    root = os.path.join(tmp, "d%d" % i); fstools.make_native(tree, root)
                    fsys = NativeOSFS(); join, norm, split = os.path.join, os.path.normpath, os.path.split; sdir = root
                else:
                    fsys = fstools.make_memory({"Song": tree}); join, norm, split = fs.path.join, fs.path.normpath, fs.path.split; sdir = "/Song"
                listing = fsys.listdir(sdir)
                try:
                    if i % 4 == 0 and "song.ssc" in tree:
                        # the asset loader opens the directory's own simfile when none is supplied — directly, or through
                        # SimfileDirectory(dir).assets()
                        if i % 8 == 0:
                            from simfile.dir import SimfileDirectory
                            assets = SimfileDirectory(sdir, filesystem=fsys).assets()
                        else:
                            assets = Assets(sdir, filesystem=fsys)
                        if [[k, v] for k, v in assets.simfile.items()] != [[k, v] for k, v in sf.items()]:
                            res.violation({"fs": fsname, "tree": list(tree)}, "Assets(dir) did not load the directory's simfile"); continue
                    else:
                        assets = Assets(sdir, simfile=sf, filesystem=fsys)
                except Exception as e:
                    res.violation({"fs": fsname, "tree": list(tree)}, "Assets() raised", impl=core.exc_name(e)); continue
                for K, attr in KINDS.items():
                    case = {"fs": fsname, "listing": listing, "sub": list(tree.get("Sub", {})), "kind": K, "property": spec[K]}
                    try:
                        ans = getattr(assets, attr); again = getattr(assets, attr)
                    except Exception as e:
                        res.violation(case, "asset lookup raised", impl=core.exc_name(e)); continue
                    res.traces += 1
                    # expected, straight from the statement
                    named = None; containing = None; fname = ""
                    if spec[K]:
                        full = join(sdir, spec[K]); cdir, fname = split(full)
                        if fsys.isdir(cdir):
                            containing = fsys.listdir(cdir)
                            m = [x for x in containing if x.lower() == fname.lower()]
                            if m: named = [norm(join(cdir, x)) for x in m]
                    cands = _matching(K, listing)
                    res.case(case, nontrivial=bool(spec[K]) or len(cands) >= 2)
                    if ans != again:
                        res.violation(case, "asking again returns a different answer", impl=[ans, again]); continue
                    if ans is not None and not fsys.exists(ans):
                        res.violation(case, "the answer is a path that does not exist", impl=ans); continue
                    if named:
                        if ans not in named:
                            res.violation(case, "the named file exists but is not the answer", impl=ans, expected=named); continue
                    elif ans is None:
                        if cands:
                            res.violation(case, "None although an entry matches the documented pattern", expected=cands); continue
                    elif ans not in [norm(join(sdir, c)) for c in cands]:
                        res.violation(case, "the answer is not an entry matching the documented pattern", impl=ans, expected=cands); continue
                    reqs.append({"op": "assets.lookup", "kind": K, "specified": spec[K], "containing": containing, "file": fname, "dirlist": listing})
                    metas.append((case, ans, sdir, (split(join(sdir, spec[K]))[0] if spec[K] else None), join, norm))
                # a session on one object: kinds asked in random order, repeatedly, while the simfile's properties and the directory
                # change underneath (the listing is taken once, every answer is remembered; Props/C20Session.lean)
                try:
                    a2 = Assets(sdir, simfile=sf, filesystem=fsys)
                except Exception as e:
                    res.violation({"fs": fsname, "tree": list(tree)}, "Assets() raised", impl=core.exc_name(e)); continue
                saved = {K: sf.get(K) for K in KINDS}
                asks, answers, first = [], [], {}
                hist = []
                bad = False
                for step in range(rng.randrange(6, 14)):
                    K = rng.choice(list(KINDS))
                    spec_now = sf.get(K)
                    containing = None; fname = ""; cdir = None
                    if spec_now:
                        cdir, fname = split(join(sdir, spec_now))
                        if fsys.isdir(cdir): containing = fsys.listdir(cdir)
                    try:
                        ans = getattr(a2, KINDS[K])
                    except Exception as e:
                        res.violation({"fs": fsname, "listing": listing, "session": hist, "kind": K}, "asset lookup raised in a session", impl=core.exc_name(e)); bad = True; break
                    hist.append([K, spec_now])
                    if K in first and ans != first[K][0]:
                        res.violation({"fs": fsname, "listing": listing, "session": list(hist)}, "the same object answers differently when asked again", impl=[first[K][0], ans]); bad = True; break
                    first.setdefault(K, (ans, cdir))
                    asks.append({"kind": K, "specified": spec_now, "containing": containing, "file": fname}); answers.append(ans)
                    # the world moves on
                    r = rng.random()
                    if r < .35 and files:
                        sf[rng.choice(list(KINDS))] = rng.choice(files + ["nope.png", ""])
                    elif r < .5:
                        newname = rng.choice(["late banner.png", "late-bg.png", "late jacket.png", "late-cd.png", "late cdtitle.png", "late.ogg"])
                        try:
                            if fsname == "native": open(os.path.join(sdir, newname), "w").close()
                            else: fsys.writetext(join(sdir, newname), "")
                        except Exception:
                            pass
                for K, v in saved.items():
                    if v is None: sf.pop(K, None)
                    else: sf[K] = v
                if not bad and asks:
                    res.case({"fs": fsname, "listing": listing, "session": hist}, nontrivial=len(set(h[0] for h in hist)) < len(hist)); res.traces += 1
                    res.count("sessions")
                    reqs.append({"op": "assets.session", "dirlist": listing, "asks": asks})
                    metas.append(({"session": {"fs": fsname, "listing": listing, "asks": hist}}, answers, sdir, [first[q["kind"]][1] for q in asks], join, norm))
                if fsname == "native": shutil.rmtree(root, ignore_errors=True)
        # pack banners ----------------------------------------------------------------------------------
        for i in range(ctx.scale(80, 800)):
            imgs = ["b.png", "A.PNG", "c.jpg", "d.JPEG", "e.gif", "f.bmp", "g.jpeg"]
            inside = {n: None for n in rng.sample(imgs, rng.choice([0, 0, 1, 2, 3]))}
            inside["Song"] = {"a.sm": "#TITLE:x;"}
            inside.update({n: None for n in rng.sample(["x.txt", "png", "pack.pn"], rng.randrange(0, 2))})
            beside = {n: None for n in rng.sample(["MyPack.png", "MyPack.jpg", "MyPack.bmp", "mypack.gif", "Other.png", "MyPack.txt"], rng.randrange(0, 4))}
            top = dict(beside); top["MyPack"] = inside
            # the pack is addressed absolutely, with a trailing separator, by a bare relative name (the current directory /
            # the filesystem root being its parent) and below a relative parent: "beside the pack" is the same directory each time
            for fsname in ("native", "native-relative", "memory", "memory-top", "memory-relative", "memory-relative-parent"):
                cwd = None
                if fsname.startswith("native"):
                    root = os.path.join(tmp, "k%d" % i); fstools.make_native(top, root); fsys = NativeOSFS()
                    join = os.path.join
                    if fsname == "native":
                        pdir = os.path.join(root, "MyPack") + rng.choice(["", "/"]); parent = root
                    else:
                        cwd = os.getcwd(); os.chdir(root); pdir = "MyPack" + rng.choice(["", "/"]); parent = ""
                else:
                    join = fs.path.join
                    if fsname == "memory": fsys = fstools.make_memory({"Songs": top}); pdir = "/Songs/MyPack"; parent = "/Songs"
                    elif fsname == "memory-top": fsys = fstools.make_memory(top); pdir = "/MyPack"; parent = "/"
                    elif fsname == "memory-relative": fsys = fstools.make_memory(top); pdir = "MyPack"; parent = ""
                    else: fsys = fstools.make_memory({"Songs": top}); pdir = "Songs/MyPack"; parent = "Songs"
                try:
                    case = {"fs": fsname, "pack_dir": pdir if not fsname == "native" else "<tmp>/MyPack" + pdir[len(os.path.join(root, "MyPack")):],
                            "inside": fsys.listdir(pdir), "beside": sorted(beside)}
                    res.case({"banner": case}, nontrivial=len(inside) > 2)
                    try:
                        b = SimfilePack(pdir, filesystem=fsys).banner()
                    except Exception as e:
                        res.violation(case, "SimfilePack.banner raised", impl=core.exc_name(e)); continue
                    exts = [".png", ".jpg", ".jpeg", ".gif", ".bmp"]
                    exp = None
                    for e in exts:
                        m = [n for n in case["inside"] if n.lower().endswith(e)]
                        if m: exp = [join(pdir.rstrip("/"), x) for x in m]; break
                    if exp is None:
                        for e in exts:
                            if fsys.exists(join(parent, "MyPack" + e)): exp = [join(parent, "MyPack" + e)]; break
                    res.traces += 1; res.count("pack_addressed_" + fsname)
                    if (b is None) != (exp is None) or (b is not None and os.path.normpath(b) not in [os.path.normpath(x) for x in exp]):
                        res.violation(case, "pack banner not chosen by extension priority inside the pack, else beside it", impl=b, expected=exp); continue
                    reqs.append({"op": "dir.banner", "listing": case["inside"], "pack_name": "MyPack",
                                 "beside": [n for n in beside if fsys.exists(join(parent, n))]})
                    metas.append(("banner", b, pdir, parent, join, None))
                finally:
                    if cwd is not None: os.chdir(cwd)
                    if fsname.startswith("native"): shutil.rmtree(root, ignore_errors=True)
    finally:
        shutil.rmtree(tmp, ignore_errors=True)
    resp = ctx.lean.eval_sharded(reqs)
    for (case, ans, sdir, cdir, join, norm), m in zip(metas, resp):
        if case == "banner":
            exp = None if m is None else os.path.normpath(join(sdir.rstrip("/"), m[1]) if m[0] else join(cdir, m[1]))
            if (None if ans is None else os.path.normpath(ans)) != exp:
                res.tie_break("dir.banner", {"pack": sdir}, ans, m)
            continue
        if isinstance(case, dict) and "session" in case:
            if m == "unmodelled" or len(m) != len(ans):
                res.tie_break("assets.session", case, ans, m); continue
            exp = [None if x is None else (norm(join(cd, x[1])) if x[0] == "spec" else norm(join(sdir, x[1]))) for x, cd in zip(m, cdir)]
            if ans != exp:
                res.tie_break("assets.session", case, ans, exp)
            continue
        if m == "unmodelled":
            res.tie_break("assets.lookup (a preset left the modelled regex fragment)", case, ans, m); continue
        exp = None if m is None else (norm(join(cdir, m[1])) if m[0] == "spec" else norm(join(sdir, m[1])))
        if ans != exp:
            res.tie_break("assets.lookup", case, ans, exp)
    # whole trees on a MemoryFS against the tree-level model (assetOf in Model/Tree.lean derives the containing directory and the
    # file name from the property value itself: join, split, normpath; Props/C20Tree.lean)
    import treegen
    treqs, tmetas = [], []
    outside_seen = False
    for i in range(ctx.scale(60, 700)):
        root, pk = treegen.world(rng)
        songs = [k for k, v in pk.items() if isinstance(v, dict)]
        if not songs: continue
        m = treegen.build(root); T = treegen.node(root)
        sname = rng.choice(songs); sdir = rng.choice(["/Songs/MyPack/" + sname, "Songs/MyPack/" + sname + "/", "/Songs/MyPack/./" + sname])
        tree = pk[sname]; files = [n for n, v in tree.items() if not isinstance(v, dict)]
        subs = [(n, v) for n, v in tree.items() if isinstance(v, dict)]
        for K in KINDS:
            opts = [None, "", "nope.png", "NoDir/x.png", "../../../../x", "/Other/X.PNG", "../" + sname + "/" + (files[0].swapcase() if files else "q"), ".", "..", "Sub/", "./",
                    "../b.png", "../../MyPack.png"]
            if files: opts += [rng.choice(files).swapcase(), rng.choice(files)]
            for n, v in subs:
                for f in v: opts += [n + "/" + f.swapcase(), n.swapcase() + "/" + f, n + "//" + f]
            spec = rng.choice(opts)
            sf = SSCSimfile.blank()
            if spec is None: sf.pop(K, None)
            else: sf[K] = spec
            case = {"tree_case": {"song_dir": sdir, "song": tree if len(str(tree)) < 800 else "(large)", "kind": K, "property": spec}}
            res.case(case, nontrivial=bool(spec)); res.traces += 1; res.count("tree_asset_cases")
            try:
                got = getattr(Assets(sdir, simfile=sf, filesystem=m), KINDS[K])
            except Exception as e:
                got = treegen.fs_err(e) or {"err": core.exc_name(e)}
            if isinstance(got, str):
                if not m.exists(got):
                    res.violation(case, "the answer is a path that does not exist", impl=got); continue
                base = fs.path.normpath(sdir)
                if not (got == base or got.startswith(base.rstrip("/") + "/")) or got == base:
                    # answered with something that does not lie under the simfile directory
                    if spec and (spec.startswith("/") or ".." in spec.split("/") or spec in (".", "./")):
                        outside_seen = True; res.count("named_file_outside_the_directory")      # listed finding C20-named-outside-directory
                    else:
                        res.violation(case, "the answer does not lie under the simfile directory", impl=got); continue
            treqs.append({"op": "tree.asset", "tree": T, "dir": sdir, "kind": K, "specified": spec}); tmetas.append((case, got))
    for (case, got), mm in zip(tmetas, ctx.lean.eval_sharded(treqs)):
        res.traces += 1
        exp = mm[1] if isinstance(mm, list) else mm
        if got != exp:
            res.tie_break("tree.asset", case, got, mm)
    for f in ctx.findings:
        if f["id"] == "C20-named-outside-directory":
            res.findings_seen.append((f["id"], outside_seen, "%s: %s [%s]" % (f["id"], f["what"], f["input"])))
    from adapters import strlib
    strlib.validate(ctx, res, routines=('lower', 'endswith', 'rpartition'))
    res.assumptions = ["Python re is trusted for the three preset forms (lit, ^lit, lit$); names contain no line breaks",
                       "which of several matching entries is returned is not claimed: the direct layer checks membership, the tie checks 'first listed'",
                       "the disc image lookup by name is not claimed and not generated"]
    return res


def _matching(K, listing):
    """entries matching the documented pattern for the asset kind"""
    out = []
    for n in listing:
        root = os.path.splitext(n)[0].lower()
        low = n.lower()
        ok = {"BANNER": "banner" in root or root.endswith("bn"), "BACKGROUND": "background" in root or root.endswith("bg"),
              "CDTITLE": "cdtitle" in root, "JACKET": root.startswith("jk_") or "jacket" in root or "albumart" in root,
              "CDIMAGE": root.endswith("-cd"), "MUSIC": low.endswith((".mp3", ".oga", ".ogg", ".wav"))}[K]
        if ok: out.append(n)
    return out
