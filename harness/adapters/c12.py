"""C12 — time -> beat inverts beat -> time on the tick grid."""
from decimal import Decimal
from fractions import Fraction
import core, gen
from core import frac, unfrac
from adapters import c11

TOL = 1e-9


def coalesced(td):
    from simfile.timing import Beat
    segs = []
    for b, v in td["warps"]:
        e = b + Fraction(Beat(v))
        if segs and b <= segs[-1][1]:
            segs[-1][1] = max(segs[-1][1], e)
        else:
            segs.append([b, e])
    return segs


def run(ctx):
    from simfile.timing import Beat
    from simfile.timing.engine import EventTag
    rng = ctx.rng
    res = core.Result()
    tag_order = [t.name for t in sorted(EventTag, key=int)]
    tds = c11.build_cases(ctx, res)
    tds = [x for x in tds if all(Fraction(v) * 0 == 0 for _, v in x[1]["bpms"])]
    res.rule = ("C11's timing data; times asked symbolically (time_at(b, tag') of every probe beat, so that impl and model both sit "
                "exactly on their own boundary), inside every pause at .001/.5/.999 of its length, and dyadic random times; "
                "checked on the impl: inversion on the grid outside warps, paused beat inside pauses, tick-aligned and close, "
                "WARP tag = start of the stretch / default = furthest beat, monotonicity, independence of redundant BPM changes; "
                "impl vs Lean model: exact beat equality. non-trivial: a warp and a pause present; distinct by hash")
    reqs, metas = [], []
    for kind, td in tds:
        pr = [b for b in c11.probes_for(td, rng, n_random=3 if kind == "grid" else 10) if (b * 1000).denominator == 1 or (b * 48).denominator == 1]
        if len(pr) > 30: pr = sorted(rng.sample(pr, 30))
        pl = []
        qtags = ["STOP", "WARP", "STOP_END", "DELAY", "DELAY_END"] if kind != "grid" else ["STOP", "WARP", "STOP_END"]
        atags = ["STOP", "WARP", "WARP_END", "STOP_END"] if kind != "grid" else ["STOP", "WARP"]
        for b in pr:
            for q in qtags:
                for a in atags:
                    pl.append(["beat_at_time_at", frac(b), q, a])
        # only pauses of positive length have times strictly inside them
        pauses = [(b, "STOP") for b, v in td["stops"] if v > 0] + [(b, "DELAY") for b, v in td["delays"] if v > 0]
        for b, t in pauses:
            for f in ("WARP", "BPM", "STOP_END"):
                pl.append(["beat_at_in_pause", frac(b), t, f])
        # dyadic times, exactly representable on both sides
        dy = [Fraction(rng.randrange(-64 * 8, 64 * 64), 64) for _ in range(6)]
        for t in dy:
            for a in ("STOP", "WARP"):
                pl.append(["beat_at", frac(t), a])
                pl.append(["beat_at_raw", frac(t), a])
        reqs.append({"op": "engine.probe", "td": gen.td_json(td), "probes": pl})
        metas.append((kind, td, pr, qtags, atags, pauses, dy))
    resp = ctx.lean.eval_sharded(reqs, shards=16)
    for (kind, td, pr, qtags, atags, pauses, dy), out in zip(metas, resp):
        case = {"kind": kind, "td": gen.td_show(td)}
        res.case(case, nontrivial=bool(td["warps"]) and bool(td["stops"] or td["delays"]))
        try:
            e = c11.engine(td)
        except Exception as ex:
            res.violation(case, "TimingEngine raised", impl=core.exc_name(ex)); continue
        spec = gen.TimeSpec(td, tag_order)
        segs = coalesced(td)
        inW = lambda x: any(a <= x < b for a, b in segs)
        i = 0; stop = False
        answers = {}
        for b in pr:
            for q in qtags:
                try:
                    t = e.time_at(Beat(b), EventTag[q])
                except Exception as ex:
                    res.violation(case, "time_at raised", impl=core.exc_name(ex)); stop = True; break
                for a in atags:
                    model = unfrac(out[i]); i += 1
                    try:
                        r = Fraction(e.beat_at(t, EventTag[a]))
                    except Exception as ex:
                        res.violation(case, "beat_at raised", impl=core.exc_name(ex)); stop = True; break
                    res.traces += 1
                    answers[(b, q, a)] = (float(t), r)
                    if (r * 48).denominator != 1:
                        res.violation(case, "beat_at answer is not tick-aligned", beat=str(b), impl=str(r)); stop = True; break
                    # inversion on the grid outside warps (default tags)
                    if q == "STOP" and a == "STOP" and (b * 48).denominator == 1 and not inW(b) and r != b:
                        res.violation(case, "beat_at(time_at(b)) != b for a tick-aligned beat outside every warp", beat=str(b), impl=str(r)); stop = True; break
                    # close: own time within half a tick (widened by pauses on that beat)
                    lo = float(spec.time(r, "WARP")); hi = float(spec.time(r, "STOP_END"))
                    bpm = min(spec.bpm_on(r), spec.bpm_on(max(Fraction(0), r - Fraction(1, 48))))
                    h = float(Fraction(1, 96) * 60 / bpm)
                    if not (lo - h - 1e-7 <= float(t) <= hi + h + 1e-7):
                        res.violation(case, "answer's own time is further than half a tick from the asked time", beat=str(b), qtag=q, tag=a, t=float(t), impl=str(r), window=[lo - h, hi + h]); stop = True; break
                    if r != model:
                        res.tie_break("engine.beat_at(time_at)", dict(case, beat=str(b), qtag=q, tag=a), str(r), str(model))
                if stop: break
            if stop: break
        if stop: continue
        # WARP tag vs default at the time a warp segment elapses
        tick = Fraction(1, 48)
        for ws, we in segs:
            t = e.time_at(Beat(ws), EventTag.WARP)
            texact = spec.time(ws, "WARP")
            cand = [ws + k * tick for k in range(-2, int((we - ws) / tick) + 3)]
            lo = min(b for b in cand if spec.time(b, "STOP_END") >= texact and b >= 0) if any(spec.time(b, "STOP_END") >= texact and b >= 0 for b in cand) else None
            hi = max(b for b in cand if spec.time(b, "WARP") <= texact)
            rw = Fraction(e.beat_at(t, EventTag.WARP)); rd = Fraction(e.beat_at(t))
            if ws > 0 and (lo is not None and rw != lo or rd != hi):
                res.violation(case, "WARP tag / default at a warp's time: expected start of the stretch / furthest beat", warp=[str(ws), str(we)],
                              impl=[str(rw), str(rd)], expect=[str(lo), str(hi)]); break
        # inside pauses
        for b, tg in pauses:
            a0 = e.time_at(Beat(b), EventTag[tg])
            L = float(dict(td["stops"] if tg == "STOP" else td["delays"])[b])
            for f, fr in (("WARP", 0.001), ("BPM", 0.5), ("STOP_END", 0.999)):
                model = unfrac(out[i]); i += 1
                for a in EventTag:
                    r = Fraction(e.beat_at(a0 + L * fr, a))
                    if r != b:
                        res.violation(case, "a time strictly inside a pause does not give the paused beat", pause=[str(b), tg], frac=fr, tag=a.name, impl=str(r)); break
                if model != b:
                    res.tie_break("engine.beat_at(in pause)", dict(case, pause=[str(b), tg]), str(b), str(model))
        for t in dy:
            for a in ("STOP", "WARP"):
                model = unfrac(out[i]); i += 1
                raw = out[i]; i += 1
                r = Fraction(e.beat_at(float(t), EventTag[a]))
                res.traces += 1
                # the same time given as an exact Fraction, or as an int when it is whole, is the same time: same tick-aligned answer
                alts = [Fraction(t)] + ([int(Fraction(t))] if Fraction(t).denominator == 1 else [])
                bad_alt = None
                for alt in alts:
                    try:
                        r2 = Fraction(e.beat_at(alt, EventTag[a]))
                    except Exception as ex:
                        r2 = core.exc_name(ex)
                    if r2 != r: bad_alt = (alt, r2)
                if bad_alt:
                    res.violation(case, "beat_at answers differently when the same time is given as %s" % type(bad_alt[0]).__name__, time=str(t), tag=a,
                                  impl=str(bad_alt[1]), expected=str(r))
                    continue
                if r != model:
                    # the exact position sits on a half tick: the float product may land on either side
                    if raw is not None and abs(abs((unfrac(raw) * 48) % 1) - Fraction(1, 2)) < Fraction(1, 10**6) and abs(r - model) == Fraction(1, 48):
                        res.count("half_tick_float_noise")
                    else:
                        res.tie_break("engine.beat_at(dyadic time)", dict(case, time=str(t), tag=a), str(r), str(model))
        # monotone in time, per answer tag
        for a in atags:
            seq = sorted((v[0], v[1]) for k, v in answers.items() if k[2] == a)
            for (t1, r1), (t2, r2) in zip(seq, seq[1:]):
                if t2 > t1 and r2 < r1:
                    res.violation(case, "beat_at decreases as time increases", tag=a, at=[t1, t2], impl=[str(r1), str(r2)]); break
        # independence of unrelated earlier events
        td3 = dict(td); td3["bpms"] = list(td["bpms"])
        for x in [Fraction(rng.randrange(1, 48 * 3), 48) for _ in range(rng.randrange(1, 4))]:
            if all(b != x for b, _ in td3["bpms"]):
                cur = [v for b, v in sorted(td3["bpms"]) if b <= x][-1]
                td3["bpms"].append((x, cur)); td3["bpms"].sort()
        e3 = c11.engine(td3)
        for (b, q, a), (t, r) in list(answers.items())[:: max(1, len(answers) // 60)]:
            r3 = Fraction(e3.beat_at(e3.time_at(Beat(b), EventTag[q]), EventTag[a]))
            if r3 != r:
                res.violation(case, "beat_at depends on unrelated earlier events (redundant BPM changes inserted)", beat=str(b), qtag=q, tag=a,
                              impl=[str(r), str(r3)], bpms=gen.td_show(td3)["bpms"]); break
    for f in ctx.findings:
        if f["id"] == "C12-half-tick-tie":
            from decimal import Decimal
            td0 = {"bpms": [(Fraction(0), Decimal(60))], "stops": [], "delays": [], "warps": [], "offset": Decimal(0)}
            td1 = dict(td0, bpms=[(Fraction(0), Decimal(60)), (Fraction(1, 48), Decimal(60))])
            fails = c11.engine(td0).beat_at(0.09375) != c11.engine(td1).beat_at(0.09375)
            res.findings_seen.append((f["id"], fails, "%s: %s" % (f["id"], f["what"][:230])))
    res.assumptions = ["float rounding in beats_until is not modelled; symbolic boundary queries keep both sides on their own boundary",
                       "'beat that no warp skips over' is read as b outside the union of warp segments (DESIGN 4.12)"]
    return res
