"""C04 — load, save, load loses nothing; a second save changes nothing."""
import core, gen, objs
from adapters import c01, c02, c03


def run(ctx):
    import simfile
    from simfile.sm import SMSimfile
    from simfile.ssc import SSCSimfile
    res = core.Result()
    res.rule = ("C03's texts (generated, corpus, mutated corpus) under strict=True and strict=False; every text that loads is "
                "serialized, reloaded in the same format, and serialized again. SSC texts with a chart lacking note data and "
                "values in msdparser's escaping gaps are outside the domain (counted). non-trivial: the loaded simfile has a "
                "duplicate/lower-case/key-only parameter, a chart, or dropped stray text; distinct by hash of (text, strict)")
    reqs, metas = [], []
    for t in c03.texts(ctx):
        for strict in (True, False):
            tok = c03.tokens(t, strict)
            if tok.get("tokerr") or not c03.keys_modelled(tok):
                res.count("not_loadable_or_unmodelled"); continue
            try:
                sf = simfile.loads(t, strict=strict)
            except Exception as e:
                res.count("load_raised_" + core.exc_name(e)); continue
            is_sm = isinstance(sf, SMSimfile)
            try:
                if not is_sm and not all(objs.ssc_chart_has_notes(c) for c in sf.charts):
                    res.count("ssc_chart_without_notes"); continue
                params = c01.sm_params(sf) if is_sm else c02.ssc_params(sf)
            except Exception as e:
                # the loaded object cannot even be inspected (its properties and charts read): it did not load to a usable simfile
                res.case({"text": t[:400], "strict": strict})
                res.violation({"text": t[:1500], "strict": strict}, "a text loaded, but the loaded simfile's properties/charts cannot be read", impl=core.exc_name(e)); continue
            if not objs.scan_safe(params, lead_nl=len(sf) == 0):
                res.count("skipped_unsafe_for_msdparser"); continue
            d = objs.dump(sf)
            case = {"text": t if len(t) < 1500 else t[:700] + "…(%d chars)…" % len(t) + t[-300:], "strict": strict}
            keys = [p[0] for p in tok["params"]]
            res.case(case, nontrivial=len(keys) >= 2 and (len(set(k.upper() for k in keys)) < len(keys) or any(k != k.upper() for k in keys)
                                                           or any(len(p) == 1 for p in tok["params"]) or len(sf.charts) > 0))
            res.traces += 1
            try:
                t1 = str(sf)
            except Exception as e:
                res.violation(case, "a simfile that loaded cannot be serialized", impl=core.exc_name(e)); continue
            cls = SMSimfile if is_sm else SSCSimfile
            try:
                sf2 = cls(string=t1, strict=True)
            except Exception as e:
                res.violation(case, "the saved text does not load back (strict)", impl=core.exc_name(e)); continue
            exp = d if is_sm else c02.notes_last(d)
            if objs.dump(sf2) != exp:
                res.violation(case, "load/save/load lost, invented or altered a property or chart", impl=c01._diff(objs.dump(sf2), exp)); continue
            if str(sf2) != t1:
                res.violation(case, "a second save changes the text"); continue
            # the same, through format auto-detection, when the format is recognisable from the content
            try:
                sf3 = simfile.loads(t1)
                if type(sf3) is type(sf) and objs.dump(sf3) != exp:
                    res.violation(case, "loads(saved text) differs"); continue
            except Exception as e:
                res.violation(case, "loads(saved text) raised", impl=core.exc_name(e)); continue
            reqs.append({"op": "obj.ser_sm" if is_sm else "obj.ser_ssc", "sf": d}); metas.append((case, t1, is_sm))
    resp = ctx.lean.eval_sharded(reqs)
    for (case, t1, is_sm), items in zip(metas, resp):
        items = items if is_sm else items.get("ok")
        if items is None:
            res.tie_break("obj.ser (model cannot serialize what the impl serialized)", case, "ok", "error"); continue
        mp, _ = objs.model_params(items)
        if objs.real_params(t1) != mp:
            res.tie_break("obj.ser (parameter structure of the saved text)", case, objs.real_params(t1)[:6], mp[:6])
    for f in ctx.findings:
        if f["id"] == "C04-msd-escaping-gaps":
            t = "#TITLE:a\n\\#b;"
            try:
                sf = simfile.loads(t); fails = objs.dump(SMSimfile(string=str(sf), strict=False)) != objs.dump(sf)
            except Exception:
                fails = True
            res.findings_seen.append((f["id"], fails, "%s: %s [%s]" % (f["id"], f["what"], f["input"])))
    res.assumptions = ["msdparser is the trusted base; SafeDoc filter as in C01"]
    return res
