"""C14 — beats: exact fractions, rounding to the tick grid, text round trips, BeatValues."""
import math, random
from decimal import Decimal
from fractions import Fraction
import core
from core import frac, unfrac


def run(ctx):
    from simfile.timing import Beat, BeatValue, BeatValues
    rng = ctx.rng
    res = core.Result()
    res.rule = ("streams: (1) inexact constructor inputs (floats sent as their exact as_integer_ratio, decimal strings), "
                "(2) exact constructors and typed arithmetic on random fractions, (3) str()/from_str on tick multiples "
                "(exhaustive range in evidence.stats.grid), (4) BeatValues text round trips with decorated rows; a case is "
                "non-trivial when its value is not an integer beat; distinct by hash of the case")
    reqs, checks = [], []

    def ask(req, fn):
        reqs.append(req); checks.append(fn)

    # (1) rounding of inexact input ------------------------------------------------------------
    n1 = ctx.scale(1500, 20000)
    for i in range(n1):
        kind = rng.choice(["float", "decstr", "decimal", "halfway"])
        if kind == "float":
            x = rng.choice([rng.uniform(-50, 50), rng.uniform(-1e7, 1e7), rng.random() / 48, rng.randrange(-4000, 4000) / 48 + rng.uniform(-0.011, 0.011)])
            exact = Fraction(*x.as_integer_ratio())
            try: got = Beat(x)
            except Exception as e: got = core.exc_name(e)
            case = {"stream": "round", "input": "float", "x": repr(x)}
        elif kind == "halfway":
            # exactly between two ticks: ties go to the even tick
            k = rng.randrange(-20000, 20000)
            exact = Fraction(2 * k + 1, 96)
            s = None
            try: got = Beat(Decimal(exact.numerator) / Decimal(exact.denominator)) if exact.denominator in (1, 2, 4, 8, 16, 32) else Beat(float(exact))
            except Exception as e: got = core.exc_name(e)
            # only binary-exact halves are exact in float/Decimal; otherwise use the converted value
            if exact.denominator in (1, 2, 4, 8, 16, 32):
                pass
            else:
                exact = Fraction(*float(exact).as_integer_ratio())
            case = {"stream": "round", "input": "halfway", "x": str(exact)}
        else:
            digits = rng.randrange(0, 7)
            v = Decimal(rng.randrange(-10**7, 10**7)) / (Decimal(10) ** digits) if rng.random() < .8 else Decimal(rng.randrange(-96000, 96000)) / 48
            v = +v
            s = format(v, "f")
            exact = Fraction(s)
            try: got = Beat(s) if kind == "decstr" else Beat(Decimal(s))
            except Exception as e: got = core.exc_name(e)
            case = {"stream": "round", "input": kind, "x": s}
        res.case(case, nontrivial=exact.denominator != 1)

        def chk(resp, case=case, exact=exact, got=got):
            res.traces += 1
            model = unfrac(resp)
            # direct: nearest tick, within 1/96, on the grid
            if not isinstance(got, Fraction):
                res.violation(case, "constructor raised", impl=str(got)); return
            if (got * 48).denominator != 1 or abs(got - exact) > Fraction(1, 96) or type(got) is not Beat:
                res.violation(case, "not the nearest tick / not a Beat", impl=str(got), exact=str(exact))
            elif got != model:
                res.tie_break("beat.round_to_tick", case, str(got), str(model))
        ask({"op": "beat.round_to_tick", "x": frac(exact)}, chk)

    # (2) exact constructors and arithmetic ----------------------------------------------------
    n2 = ctx.scale(1500, 20000)
    ops = ["+", "-", "*", "/", "%", "//", "divmod", "neg", "abs", "pos", "r+", "r-", "r*", "r/", "r%", "rdivmod"]
    for i in range(n2):
        a = Fraction(rng.randrange(-5000, 5000), rng.randrange(1, 1001))
        b = Fraction(rng.randrange(-5000, 5000), rng.randrange(1, 1001))
        if b == 0: b = Fraction(1, 3)
        op = rng.choice(ops)
        other_kind = rng.choice(["beat", "int", "fraction"])
        if other_kind == "int": b = Fraction(rng.choice([-3, -1, 1, 2, 4, 7]))
        ctor = rng.choice(["pair", "fraction", "int"])
        if ctor == "int": a = Fraction(a.numerator)
        case = {"stream": "arith", "a": str(a), "b": str(b), "op": op, "other": other_kind, "ctor": ctor}
        res.case(case, nontrivial=a.denominator != 1)
        try:
            A = Beat(a.numerator, a.denominator) if ctor == "pair" else (Beat(a) if ctor == "fraction" else Beat(a.numerator))
            B = Beat(b) if other_kind == "beat" else (int(b) if other_kind == "int" else Fraction(b))
            if A != a or type(A) is not Beat:
                res.violation(case, "exact constructor changed the value", impl=str(A)); continue
            if op == "+": r, e = A + B, a + b
            elif op == "-": r, e = A - B, a - b
            elif op == "*": r, e = A * B, a * b
            elif op == "/": r, e = A / B, a / b
            elif op == "%": r, e = A % B, None
            elif op == "//": r, e = A // B, None
            elif op == "divmod": r, e = divmod(A, B), None
            elif op == "neg": r, e = -A, -a
            elif op == "abs": r, e = abs(A), abs(a)
            elif op == "pos": r, e = +A, a
            elif op == "r+": r, e = B + A, b + a
            elif op == "r-": r, e = B - A, b - a
            elif op == "r*": r, e = B * A, b * a
            elif op == "r/":
                if a == 0: continue
                r, e = B / A, b / a
            elif op == "r%":
                if a == 0: continue
                r, e = B % A, None
            elif op == "rdivmod":
                if a == 0: continue
                r, e = divmod(B, A), None
        except Exception as ex:
            res.violation(case, "arithmetic raised", impl=core.exc_name(ex)); continue
        if e is not None:
            # the spec *is* exact rational arithmetic: compare with Fraction's, and require the Beat type
            # (when both operands are Beats or the left one is; int.__add__ etc. defer to Beat.__radd__)
            if r != e or type(r) is not Beat:
                res.violation(case, "inexact or untyped result", impl="%s:%s" % (type(r).__name__, r), expect=str(e))
            res.traces += 1
        else:
            x, y = (a, b) if op not in ("r%", "rdivmod") else (b, a)

            def chk(resp, case=case, r=r, op=op):
                res.traces += 1
                q = int(resp[0]); m = unfrac(resp[1])
                if op in ("%", "r%"):
                    ok = r == m and type(r) is Beat
                elif op == "//":
                    ok = r == q
                else:
                    ok = r[0] == q and r[1] == m and type(r[1]) is Beat
                if not ok:
                    res.violation(case, "floor-division semantics", impl=str(r), model=[q, str(m)])
            reqs.append({"op": "beat.floordiv", "a": frac(x), "b": frac(y)})
            reqs.append({"op": "beat.mod", "a": frac(x), "b": frac(y)})
            checks.append(None); checks.append(("pair", chk))

    # (2b) the same number through exact and inexact constructors, in both orders, in one process ------
    for i in range(ctx.scale(600, 8000)):
        if rng.random() < .5:
            d = rng.randrange(1, 5); q = Fraction(rng.randrange(-500 * 10 ** d, 500 * 10 ** d), 10 ** d)
            kinds = ["decimal", "decstr", "fraction", "pair"]
        else:
            m = rng.randrange(1, 9); q = Fraction(rng.randrange(-300 * 2 ** m, 300 * 2 ** m), 2 ** m)
            kinds = ["float", "decimal", "fraction", "pair", "decstr"]
        seq = [rng.choice(kinds) for _ in range(rng.randrange(2, 5))]
        rounded = Fraction(round(q * 48), 48)
        case = {"stream": "mixed-constructors", "value": str(q), "sequence": seq}
        res.case(case, nontrivial=(q * 48).denominator != 1)
        for k in seq:
            try:
                if k == "decimal": got, exp = Beat(Decimal(q.numerator) / Decimal(q.denominator)), rounded
                elif k == "decstr": got, exp = Beat(format(Decimal(q.numerator) / Decimal(q.denominator), "f")), rounded
                elif k == "float": got, exp = Beat(float(q)), rounded
                elif k == "fraction": got, exp = Beat(Fraction(q)), q
                else: got, exp = Beat(q.numerator, q.denominator), q
            except Exception as ex:
                res.violation(case, "constructor raised", impl=core.exc_name(ex)); break
            if got != exp or type(got) is not Beat:
                res.violation(case, "a beat depends on how the same number was constructed earlier (exact input must stay exact, inexact input must snap)",
                              kind=k, impl=str(got), expected=str(exp)); break
        res.traces += 1

    # (2c) the operator wrappers against the Lean operator model (Model/BeatArith.lean), zero divisors included --------------
    areqs, ameta = [], []
    def rq():
        d = rng.choice([1, 1, 2, 3, 4, 48, 96, 7])
        return Fraction(rng.randrange(-200, 200), d)
    for i in range(ctx.scale(800, 10000)):
        f = rng.choice(["add", "sub", "mul", "truediv", "mod", "radd", "rsub", "rmul", "rtruediv", "rmod", "divmod", "floordiv", "neg", "abs", "pow"])
        a = rq(); b = rq() if rng.random() < .85 else Fraction(0)
        if rng.random() < .3: b = Fraction(int(b))            # an int operand
        A = Beat(a); B = (int(b) if b.denominator == 1 and rng.random() < .5 else (Beat(b) if rng.random() < .5 else Fraction(b)))
        n = rng.randrange(-3, 5)
        case = {"stream": "operator-wrappers", "f": f, "a": str(a), "b": str(b), "b_type": type(B).__name__, "n": n}
        res.case(case, nontrivial=True)
        try:
            if f == "add": r = A + B
            elif f == "sub": r = A - B
            elif f == "mul": r = A * B
            elif f == "truediv": r = A / B
            elif f == "mod": r = A % B
            elif f == "radd": r = B + A
            elif f == "rsub": r = B - A
            elif f == "rmul": r = B * A
            elif f == "rtruediv": r = B / A
            elif f == "rmod": r = B % A
            elif f == "divmod": r = divmod(A, B)
            elif f == "floordiv": r = A // B
            elif f == "neg": r = -A
            elif f == "abs": r = abs(A)
            else: r = A ** n
            if f.startswith("r") and isinstance(B, Beat):
                pass        # Beat op Beat: the left operand's method runs; same value
            if f == "divmod": got = [str(int(r[0])), frac(Fraction(r[1]))]; typed = type(r[1]) is Beat
            elif f == "floordiv": got = str(int(r)); typed = True
            else: got = frac(Fraction(r)); typed = type(r) is Beat
        except ZeroDivisionError:
            got = None; typed = True
        except Exception as ex:
            res.violation(case, "operator raised", impl=core.exc_name(ex)); continue
        if not typed:
            res.violation(case, "the result of an operator on a Beat is not a Beat", impl=type(r).__name__); continue
        req = {"op": "beat.arith", "f": f, "a": frac(a), "b": frac(b)}
        if f == "pow": req["n"] = n
        areqs.append(req); ameta.append((case, got))
    for (case, got), m in zip(ameta, ctx.lean.eval_sharded(areqs)):
        res.traces += 1
        mm = m if not isinstance(m, list) else [str(m[0]), m[1]]
        gg = got
        if isinstance(m, int) and not isinstance(m, bool): mm = str(m)
        if gg != mm:
            res.tie_break("beat.arith", case, gg, m)

    # (3) text form on the grid ------------------------------------------------------------------
    lim = 96000 if ctx.thorough else 9600
    grid = list(range(-lim, lim + 1))
    extra = [rng.randrange(-48 * 10**7, 48 * 10**7) for _ in range(ctx.scale(2000, 50000))]
    res.stats["grid"] = "every tick n/48 for |n| <= %d (exhaustive) + %d random ticks up to 1e7 beats" % (lim, len(extra))
    for n in grid + extra:
        b = Beat(n, 48)
        s = str(b)
        case = {"stream": "str", "n": n}
        res.case(case, nontrivial=n % 48 != 0)
        try:
            back = Beat.from_str(s)
        except Exception as ex:
            res.violation(case, "from_str raised", impl=core.exc_name(ex)); continue
        if back != b or type(back) is not Beat:
            res.violation(case, "str/from_str round trip", text=s, impl=str(back))

        def chk(resp, case=case, s=s):
            res.traces += 1
            if resp != s:
                res.tie_break("beat.str", case, s, resp)
        ask({"op": "beat.str", "x": "%d/48" % n}, chk)

    # (4) BeatValues ---------------------------------------------------------------------------------
    blanks = [" ", "\t", "\n", "\r\n", "  ", "\n\n", ""]
    for i in range(ctx.scale(400, 5000)):
        k = rng.randrange(0, 7)
        beats = sorted(rng.sample(range(0, 48 * 400), k))
        shape = rng.random()
        if shape < .2: rng.shuffle(beats)                                   # an event list need not be in beat order
        elif shape < .35 and beats: beats = beats + [rng.choice(beats) for _ in range(rng.randrange(1, 3))]   # two rows on one beat
        rows = []
        for n in beats:
            digits = rng.randrange(0, 7)
            v = Decimal(rng.randrange(-10**6, 10**7)) / (Decimal(10) ** digits)
            rows.append((Fraction(n, 48), v))
        bv = BeatValues([BeatValue(Beat(b), v) for b, v in rows])
        text = str(bv)
        case = {"stream": "beatvalues", "rows": [[str(b), str(v)] for b, v in rows]}
        res.case(case, nontrivial=k > 0)
        # decorate: blanks and line breaks around rows
        deco = ",".join(rng.choice(blanks) + r.strip() + rng.choice(blanks) for r in text.split(",")) if text else rng.choice(["", " ", "\n"])
        for t, label in ((text, "plain"), (deco, "decorated")):
            try:
                back = BeatValues.from_str(t)
            except Exception as ex:
                res.violation(case, "BeatValues.from_str raised on its own output (%s)" % label, text=t, impl=core.exc_name(ex)); continue
            if [(e.beat, e.value) for e in back] != [(Beat(b), v) for b, v in rows] or any(type(e.beat) is not Beat or type(e.value) is not Decimal for e in back):
                res.violation(case, "BeatValues round trip (%s)" % label, text=t, impl=str(list(back)))

        def chk(resp, case=case, text=text):
            res.traces += 1
            if resp != text:
                res.tie_break("beat.values_to_str", case, text, resp)
        ask({"op": "beat.values_to_str", "rows": [[frac(b), str(v)] for b, v in rows]}, chk)

        def chk2(resp, case=case, rows=rows, deco=deco):
            res.traces += 1
            exp = [[frac(b), str(v)] for b, v in rows]
            got = None if resp is None else [[r[0], r[1]] for r in resp]
            if got is None or [g[0] for g in got] != [e[0] for e in exp] or [Decimal(g[1]) for g in got] != [Decimal(e[1]) for e in exp]:
                res.tie_break("beat.values_from_str", dict(case, text=deco), exp, got)
        ask({"op": "beat.values_from_str", "s": deco}, chk2)
    # None / blank strings
    for s in (None, "", "  ", "\n"):
        try:
            ok = list(BeatValues.from_str(s)) == []
        except Exception:
            ok = False
        res.case({"stream": "beatvalues-empty", "s": s}, nontrivial=False)
        if not ok:
            res.violation({"s": s}, "BeatValues.from_str of an empty value is not the empty list")

    # TimingData reads the strings through these very parsers
    from simfile.ssc import SSCSimfile
    from simfile.sm import SMSimfile
    from simfile.timing import TimingData
    for i in range(ctx.scale(50, 500)):
        sf = (SSCSimfile if i % 4 < 2 else SMSimfile).blank()
        vals = {}
        for key in ("BPMS", "STOPS", "DELAYS", "WARPS"):
            k = rng.randrange(0, 4)
            rows = [(Fraction(n, 48), Decimal(rng.randrange(1, 10**6)) / 1000) for n in sorted(rng.sample(range(0, 4800), k))]
            if key == "BPMS": rows = [(Fraction(0), Decimal("120"))] + [r for r in rows if r[0] != 0]
            sf[key] = ",\n".join("%s=%s" % (Beat(b), v) for b, v in rows)
            vals[key] = rows
        off = Decimal(rng.randrange(-5000, 5000)) / 1000
        sf["OFFSET"] = str(off)
        case = {"stream": "timingdata", "values": {k: [[str(b), str(v)] for b, v in r] for k, r in vals.items()}, "offset": str(off)}
        res.case(case)
        # a TimingData is a value: it carries the strings its simfile had when it was built, also when the simfile is
        # retimed before the fields are first looked at (the usual way to keep the old timing beside the new one)
        retimed = i % 2 == 1
        try:
            td = TimingData(sf)
            if retimed:
                case["history"] = "simfile retimed after TimingData(simfile), before its fields were read"
                sf["BPMS"] = "0.000=200.000"; sf["STOPS"] = "1.000=9.000"; sf["DELAYS"] = ""; sf["WARPS"] = "2.000=1.000"; sf["OFFSET"] = "0.000"
            got = {"BPMS": td.bpms, "STOPS": td.stops, "DELAYS": td.delays, "WARPS": td.warps}
            ok = all([(e.beat, e.value) for e in got[k]] == vals[k] for k in vals) and td.offset == off
        except Exception as ex:
            ok = False
        if not ok:
            res.violation(case, "TimingData does not carry the parsed BPMS/STOPS/DELAYS/WARPS/OFFSET")

    # evaluate the model side
    resps = ctx.lean.eval_sharded(reqs)
    i = 0
    while i < len(reqs):
        c = checks[i]
        if c is None:
            pair = checks[i + 1][1]
            pair((resps[i], resps[i + 1])); i += 2
        else:
            c(resps[i]); i += 1
    from adapters import strlib
    strlib.validate(ctx, res, routines=('strip', 'split', 'join'))
    res.assumptions = [
        "float(Fraction) and '%.3f' formatting are CPython's; the model prints the exact rational (DESIGN 4.14 limit i)",
        "'the result is again a beat' is a run-time type, observed by the harness on every operator, not a theorem",
        "Decimal parsing/printing is CPython's; values cross the model as text tokens",
    ]
    return res
