"""C16 — SM -> SSC conversion keeps every property, chart, timing and note."""
import copy
from decimal import Decimal
from fractions import Fraction
import core, gen, objs
from adapters import c01


def any_dump(sf):
    from simfile.ssc import SSCSimfile
    return {"ssc": isinstance(sf, SSCSimfile), "props": [[k, v] for k, v in sf.items()],
            "charts": [{"d": [[k, v] for k, v in dict.items(c)], "extradata": getattr(c, "extradata", None)} for c in sf.charts]}


def chart_dump(c):
    return None if c is None else {"d": [[k, v] for k, v in dict.items(c)], "extradata": getattr(c, "extradata", None)}


def mutable_ids(sf):
    ids = {id(sf), id(sf.charts), id(sf.charts.data)}
    for c in sf.charts:
        ids.add(id(c))
        if getattr(c, "extradata", None) is not None: ids.add(id(c.extradata))
    return ids


def timing_str(rng, kind, allow_negative=False):
    n = rng.randrange(0, 4)
    beats = sorted(rng.sample(range(0, 48 * 32), n))
    if kind == "BPMS": beats = [0] + [b for b in beats if b]
    rows = []
    for b in beats:
        v = Decimal(rng.randrange(1, 400000)) / 1000
        if allow_negative and rng.random() < .5: v = -v
        rows.append("%.3f=%s" % (b / 48, v))
    return rng.choice([",", ",\n"]).join(rows)


def sm_source(rng):
    import simfile
    from simfile.sm import SMSimfile
    r = rng.random()
    if r < .5: sf = SMSimfile.blank()
    else: sf = simfile.open("/repo/testdata/nekonabe/nekonabe.sm")
    objs.edit_sm(rng, sf, rng.choice([0, 2, 6, 15]))
    for k in ("FREEZES",):
        if k in sf: del sf[k]
    sf["OFFSET"] = rng.choice(["0.000", "-0.125", "1.5", ""])
    sf["BPMS"] = timing_str(rng, "BPMS")
    sf["STOPS"] = timing_str(rng, "STOPS")
    for k in ("DELAYS", "WARPS"):
        if k in sf: del sf[k]
    if "VERSION" in sf: sf["VERSION"] = rng.choice(["0.83", "0.7", "0.69", "", "1.0"])
    if rng.random() < .4: sf["DELAYS"] = timing_str(rng, "DELAYS")
    if rng.random() < .3: sf["WARPS"] = timing_str(rng, "WARPS")
    if rng.random() < .3 and "BGCHANGES" in sf:
        v = sf["BGCHANGES"]; del sf["BGCHANGES"]; sf["ANIMATIONS"] = v if v is not None else ""
    for c in sf.charts:
        if True:
            cols, notes = gen.note_stream(rng, cols=4, n=rng.randrange(0, 12), max_beat=8, denoms=[1, 2, 4], keysounds=False)
            from simfile.notes import NoteData
            c.notes = str(NoteData.from_notes([gen.mknote(n) for n in notes], 4)).strip()
    return sf


def _both_notes_last(c):
    """both spellings present, NOTES (the note data) last, every value a string: the serializer writes NOTES2 as an ordinary property"""
    ks = list(c.keys())
    return "NOTES" in c and "NOTES2" in c and ks[-1] == "NOTES" and all(isinstance(v, str) for v in c.values())


def templates(rng):
    from simfile.ssc import SSCSimfile, SSCChart
    st = ct = None
    r = rng.random()
    if r < .35:
        st = SSCSimfile.blank(); st["ORIGIN"] = "tmpl"; st["EXTRA"] = "1"
        if rng.random() < .5:
            c = SSCChart.blank(); c.description = "template chart"; st.charts.append(c)
    if rng.random() < .35:
        ct = SSCChart.blank(); ct["CHARTNAME"] = "from template"; ct["CREDIT"] = "t"
        if rng.random() < .3: ct["XTRA"] = "x"
        if rng.random() < .3:
            # a template whose (placeholder) note data sits under the legacy spelling: the result then holds NOTES2 from the
            # template and NOTES from the source, and its notes are the source's
            del ct["NOTES"]; ct["NOTES2"] = "0000\n0000\n0000\n0000\n"
    return st, ct


def run(ctx):
    from simfile.convert import sm_to_ssc
    from simfile.sm import SMSimfile
    from simfile.ssc import SSCSimfile
    from simfile.timing import TimingData
    from simfile.notes import NoteData
    rng = ctx.rng
    res = core.Result()
    res.rule = ("SM sources from C01's edit-script generator carrying OFFSET, BPMS, STOPS (DELAYS, WARPS, ANIMATIONS alias, stray "
                "SSC-only keys optional), 0..n charts with generated note data, x templates {none, blank-derived with extra "
                "properties, with charts}; negative BPM/stop values for the refusal clause. Observed on the impl: every source "
                "property and chart field in the result, timing data and notes equal through the library's readers, source and "
                "templates unmodified, no shared mutable object, reload equality; impl vs Lean model: result items and charts. "
                "non-trivial: source has a chart and a non-empty stop or delay list; distinct by hash of the dumps")
    reqs, metas = [], []
    for i in range(ctx.scale(300, 5000)):
        sm = sm_source(rng)
        if rng.random() < .3:
            # key-only parameters (#ATTACKS; loads as None), in particular for the keys whose components are re-joined on loading
            for k in rng.sample(["ATTACKS", "DISPLAYBPM", "GENRE", "KEYSOUNDS", "CREDIT"], rng.randrange(1, 3)): sm[k] = None
            res.count("source_with_key_only_parameter")
        if not c01.in_domain_sm(sm): res.count("skipped_out_of_domain"); continue
        neg = rng.random() < .12
        if neg:
            sm[rng.choice(["BPMS", "STOPS"])] = "0.000=120.000,4.000=-%s" % rng.choice(["1", "0.5", "200"])
        malformed = (not neg) and rng.random() < .08
        if malformed:
            # outside the property's domain (timing strings that do not parse); compared with the model only: both must refuse
            sm[rng.choice(["BPMS", "STOPS"])] = rng.choice(["0.000=abc", "0.000=120.000,4.000=1x", "0.000=", "0.000=1e", "x=1", "0.000", "0=1=2", "0.000=12 0"])
            res.count("malformed_timing_probe")
        st, ct = templates(rng)
        snap = (any_dump(sm), None if st is None else any_dump(st), chart_dump(ct))
        case = {"source": snap[0] if len(str(snap[0])) < 2500 else {"props": snap[0]["props"][:30], "charts": len(snap[0]["charts"])},
                "sim_template": bool(st), "chart_template": bool(ct), "negative": neg}
        res.case(case, nontrivial=len(sm.charts) > 0 and bool(sm.get("STOPS") or sm.get("DELAYS")))
        res.traces += 1
        try:
            out = sm_to_ssc(sm, simfile_template=st, chart_template=ct)
            got = {"ok": any_dump(out)}
        except Exception as e:
            out = None; got = {"err": core.exc_name(e)}
        if neg:
            if got != {"err": "NotImplementedError"}:
                res.violation(case, "negative BPM/stop not refused with NotImplementedError", impl=str(got)[:300])
            continue
        if malformed:
            # CPython raises ValueError (wrong number of '=') or decimal.InvalidOperation (bad number); the model has one class for both
            if got.get("err") in ("InvalidOperation", "other:InvalidOperation", "ValueError"): got = {"err": "ValueError"}
            reqs.append({"op": "convert.convert", "src": snap[0], "to_ssc": True, "sim_template": snap[1], "chart_template": snap[2], "beh": []})
            metas.append((dict(case, malformed=True), got))
            continue
        reqs.append({"op": "convert.convert", "src": snap[0], "to_ssc": True, "sim_template": snap[1], "chart_template": snap[2], "beh": []})
        metas.append((case, got))
        if out is None:
            res.violation(case, "sm_to_ssc raised", impl=got); continue
        if (any_dump(sm), None if st is None else any_dump(st), chart_dump(ct)) != snap:
            res.violation(case, "source or template modified by the conversion"); continue
        shared = mutable_ids(out) & (mutable_ids(sm) | (mutable_ids(st) if st else set()) | ({id(ct)} if ct else set()))
        if shared:
            res.violation(case, "result shares a mutable object with the source or a template"); continue
        if type(out) is not SSCSimfile or any(out.get(k, "<missing>") != v for k, v in sm.items()):
            res.violation(case, "a source property is missing or changed in the result"); continue
        base = (st if st is not None and len(st) else SSCSimfile.blank())
        if any(k not in sm and out.get(k) != v for k, v in base.items()):
            res.violation(case, "a property the source lacks does not come from the template"); continue
        tail = out.charts[len(base.charts):]
        if len(tail) != len(sm.charts) or any([c2.get(k) for k in ("STEPSTYPE", "DESCRIPTION", "DIFFICULTY", "METER", "RADARVALUES", "NOTES")] !=
                                               [c1[k] for k in ("STEPSTYPE", "DESCRIPTION", "DIFFICULTY", "METER", "RADARVALUES", "NOTES")] for c1, c2 in zip(sm.charts, tail)):
            res.violation(case, "charts not in order with the same six fields"); continue
        try:
            t0 = gen.td_from_simfile(sm)
            same = all(gen.td_from_simfile(out, c) == t0 for c in tail) and gen.td_from_simfile(out) == t0
            notes_same = all(list(NoteData(c1)) == list(NoteData(c2)) for c1, c2 in zip(sm.charts, tail) if c1.notes.strip())
        except Exception as e:
            res.violation(case, "reading timing/notes of the result raised", impl=core.exc_name(e)); continue
        if not same or not notes_same:
            res.violation(case, "timing data or notes of the result differ from the source's"); continue
        if objs.scan_safe(__import__("adapters.c02", fromlist=["x"]).ssc_params(out)) and all((objs.ssc_chart_ok(c) and list(c.keys())[-1] in ("NOTES", "NOTES2")) or (_both_notes_last(c)) for c in out.charts):
            try:
                back = SSCSimfile(string=str(out))
                if not (back == out) or any_dump(back) != any_dump(out):
                    res.violation(case, "the serialized result does not load back as an equal SSC simfile"); continue
            except Exception as e:
                res.violation(case, "reloading the result raised", impl=core.exc_name(e)); continue
    resp = ctx.lean.eval_sharded(reqs)
    for (case, got), m in zip(metas, resp):
        if got != m:
            res.tie_break("convert.convert (sm_to_ssc)", case, str(got)[:400], str(m)[:400])
    for f in ctx.findings:
        if f["id"] == "C16-freezes-alias":
            sm = SMSimfile.blank(); del sm["STOPS"]; sm["FREEZES"] = "4.000=1.000"
            out = sm_to_ssc(sm)
            fails = [(e.beat, e.value) for e in TimingData(out).stops] != [(e.beat, e.value) for e in TimingData(sm).stops]
            res.findings_seen.append((f["id"], fails, "%s: %s [%s]" % (f["id"], f["what"], f["input"])))
    res.assumptions = ["'shares no mutable object' and 'left unmodified' are observed by the harness (identity walk, deep snapshot): a value-semantics model has no aliasing",
                       "copy.deepcopy is CPython's"]
    return res
