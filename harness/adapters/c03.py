"""C03 — loading builds exactly the documented object, through every entry point."""
import io, os, shutil, tempfile
import core, gen, objs
from adapters import c01

# the last three: names that consist of the extension alone (what is left of a name after its last dot decides, not a "stem")
FILE_NAMES = ["a.sm", "a.ssc", "A.SM", "b.SsC", "a.txt", "a.sm.bak", "noext", ".ssc", ".SM", "..sm", "a.b.ssc"]


def universal(text):
    return text.replace("\r\n", "\n").replace("\r", "\n")


def tokens(text, strict):
    """what the lazy tokenizer yields: the parameters before it stops, and whether it stopped with the stray-text error"""
    from msdparser import MSDParserError, parse_msd
    ps = []
    try:
        for p in parse_msd(string=text, ignore_stray_text=not strict):
            ps.append(list(p.components))
        return {"params": ps}
    except MSDParserError:
        return {"tokerr": True, "params": ps}


def keys_modelled(tok):
    """keys whose Python upper() is the ASCII upper() of the model"""
    return all(p and p[0].upper() == c01.ascii_upper(p[0]) for p in tok["params"])


def observe(f):
    try:
        sf = f()
        return {"ok": objs.dump(sf)}
    except Exception as e:
        return {"err": core.exc_name(e)}


def texts(ctx):
    rng = ctx.rng
    out = []
    for i in range(ctx.scale(260, 4000)):
        out.append(objs.rand_text(rng))
    corpus = []
    for p in gen.corpus_files():
        with open(p, encoding="utf-8", newline="") as f:
            corpus.append(f.read())
    for t in corpus:
        if len(t) < 30000: out.append(t)
    for i in range(ctx.scale(40, 600)):
        t = rng.choice(corpus)
        if len(t) > 12000:
            a = rng.randrange(0, len(t) - 12000); t = t[:2000] + t[a:a + rng.choice([3000, 7000, 10000])]
        out.append(objs.mutate_text(rng, objs.mutate_text(rng, t)))
    # files larger than the lexer's 4096 / 8192 character chunks, with the first parameter beyond the first chunk
    out.append("\n" * 5000 + "#VERSION:0.83;\n#TITLE:x;\n")
    out.append(" " * 9000 + "#TITLE:x;\n#NOTES:a:b:c:d:e:0000;\n")
    out.append("#TITLE:" + "y" * 9000 + ";\n#ARTIST:z;")
    # fixed regression inputs (the repaired defects)
    out += ["#TITLE;", "junk\n#TITLE:a;", "#title:a;#TITLE:b;#Title;", "#VERSION:0.83;#TITLE:a;\n#NOTEDATA:;#NOTES:0000;#AFTER:1;",
            "#version:0.7;#ATTACKS:a:b:c;#DISPLAYBPM;", "", "   \n", "#NOTES:a:b;", "#NOTEDATA:;#chartname;#notes:00;",
            "#VERSION:0.83;#NOTEDATA:;#NOTES2:a;#CREDIT:b;#NOTES:c;", "#VERSION:0.83;#NOTEDATA:;#NOTES:c;#NOTES2:a;#X:1;",
            "#VERSION\n#TITLE:a;", "# VERSION:0.83;#TITLE:a;", "#VERSION :0.83;#TITLE:a;\n#NOTEDATA :;#NOTES:0;", "#TITLE:a;#NOTES :a:b:c:d:e:f;"]
    return out


def run(ctx):
    import simfile
    from simfile.sm import SMSimfile, SMChart
    from simfile.ssc import SSCSimfile, SSCChart
    rng = ctx.rng
    res = core.Result()
    res.rule = ("texts assembled from MSD metacharacters, keys in any letter case, duplicates, key-only and multi-component "
                "parameters, parameters before/after NOTES and NOTEDATA, stray text before/between/after parameters, missing "
                "semicolons, BOM, LF/CRLF, texts longer than the lexer's chunks; corpus files and mutations of them; x strict x "
                "13 entry points (loads, load(StringIO), load(iterator of lines), load(open file) under 7 names, open(filename), "
                "both constructors with string= and file=) + chart-level from_str/from_msd. Expected object = the documented "
                "rules (Lean model) applied to the real tokenizer's parameter list. non-trivial: >= 2 parameters and (a duplicate, "
                "lower-case or key-only parameter, a chart, or stray text); distinct by hash of (text, strict)")
    tmp = tempfile.mkdtemp(prefix="simfile-verif-c03-")
    try:
        cases = []
        for t in texts(ctx):
            for strict in (True, False):
                cases.append((t, strict))
        reqs, metas = [], []
        ereqs, e2e = [], []
        for t, strict in cases:
            tok = tokens(t, strict)
            tok_u = tokens(universal(t), strict)
            if not keys_modelled(tok) or not keys_modelled(tok_u):
                res.count("skipped_non_ascii_case_key"); continue
            base = {"params": tok["params"]}
            if tok.get("tokerr"): base["tokerr"] = True
            base_u = {"params": tok_u["params"]}
            if tok_u.get("tokerr"): base_u["tokerr"] = True
            k = len(reqs)
            # end-to-end model (modelled msdparser + entry-point plumbing + loading rules), no Python tokenizer involved
            e2e.append((t, strict, len(ereqs)))
            ereqs.append({"op": "entry.load", "kind": "stringIO", "content": t, "strict": strict})
            ereqs.append({"op": "entry.load", "kind": "lines", "content": "", "lines": t.splitlines(keepends=True), "strict": strict})
            for n in FILE_NAMES[:5]:
                ereqs.append({"op": "entry.load", "kind": "wrapper", "name": n, "content": universal(t), "strict": strict})
            reqs.append(dict(base, op="load.any", name=None))                      # content rule
            reqs.append(dict(base, op="load.any", force="sm"))
            reqs.append(dict(base, op="load.any", force="ssc"))
            for n in FILE_NAMES:
                reqs.append(dict(base_u, op="load.any", name=n))
            metas.append((t, strict, tok, k))
        resp = ctx.lean.eval_sharded(reqs)
        eresp = ctx.lean.eval_sharded(ereqs)
        e2e_expected = {}
        for t, strict, i in e2e:
            e2e_expected[(t, strict)] = {"loads": eresp[i], "load(iter(lines))": eresp[i + 1],
                                         **{"load(open(%s))" % n: eresp[i + 2 + j] for j, n in enumerate(FILE_NAMES[:5])}}
        creqs, cmetas = [], []
        for t, strict, tok, k in metas:
            exp_content, exp_sm, exp_ssc = resp[k], resp[k + 1], resp[k + 2]
            exp_file = dict(zip(FILE_NAMES, resp[k + 3:k + 3 + len(FILE_NAMES)]))
            ps = tok["params"]
            keys = [p[0] for p in ps]
            case = {"text": t if len(t) < 1500 else t[:700] + "…(%d chars)…" % len(t) + t[-300:], "strict": strict}
            res.case(case, nontrivial=len(ps) >= 2 and (len(set(k_.upper() for k_ in keys)) < len(keys) or any(k_ != k_.upper() for k_ in keys)
                                                         or any(len(p) == 1 for p in ps) or any(k_.upper() in ("NOTES", "NOTEDATA") for k_ in keys) or tok.get("tokerr")))
            res.count("tokerr" if tok.get("tokerr") else "tokenized"); res.count("strict" if strict else "lenient")
            obs = {}
            obs["loads"] = (observe(lambda: simfile.loads(t, strict=strict)), exp_content)
            obs["load(StringIO)"] = (observe(lambda: simfile.load(io.StringIO(t), strict=strict)), exp_content)
            obs["load(iter(lines))"] = (observe(lambda: simfile.load(iter(t.splitlines(keepends=True)), strict=strict)), exp_content)
            obs["SMSimfile(string=)"] = (observe(lambda: SMSimfile(string=t, strict=strict)), exp_sm)
            obs["SSCSimfile(string=)"] = (observe(lambda: SSCSimfile(string=t, strict=strict)), exp_ssc)
            obs["SMSimfile(file=StringIO)"] = (observe(lambda: SMSimfile(file=io.StringIO(t), strict=strict)), exp_sm)
            obs["SSCSimfile(file=iter)"] = (observe(lambda: SSCSimfile(file=iter(t.splitlines(keepends=True)), strict=strict)), exp_ssc)
            names = FILE_NAMES if len(t) < 20000 or ctx.thorough else FILE_NAMES[:5]
            for n in names:
                p = os.path.join(tmp, n)
                with open(p, "w", encoding="utf-8", newline="") as f:
                    f.write(t)
                def via_file(p=p):
                    with open(p, encoding="utf-8") as f:
                        return simfile.load(f, strict=strict)
                obs["load(open(%s))" % n] = (observe(via_file), exp_file[n])
                obs["open(%s)" % n] = (observe(lambda p=p: simfile.open(p, strict=strict)), exp_file[n])
            res.traces += len(obs)
            # direct clauses -----------------------------------------------------------------------
            if not strict and any(o[0].get("err") == "MSDParserError" for o in obs.values()):
                bad = [n for n, o in obs.items() if o[0].get("err") == "MSDParserError"]
                res.violation(case, "strict=False rejected a text for stray text", entry_points=bad); continue
            content_eps = ["loads", "load(StringIO)", "load(iter(lines))"]
            if len({str(obs[n][0]) for n in content_eps}) > 1:
                res.violation(case, "the same content gives different simfiles through different entry points", impl={n: str(obs[n][0])[:200] for n in content_eps}); continue
            for n in names:
                if str(obs["load(open(%s))" % n][0]) != str(obs["open(%s)" % n][0]):
                    res.violation(case, "open file object and filename give different simfiles", name=n); break
            # the end-to-end Lean model (own tokenizer model) against the implementation
            for n, m in e2e_expected.get((t, strict), {}).items():
                if n in obs and obs[n][0] != m:
                    res.tie_break("entry.load (end-to-end model: modelled msdparser + plumbing + rules)", dict(case, entry_point=n), str(obs[n][0])[:300], str(m)[:300])
                    break
            res.count("e2e_compared", len(e2e_expected.get((t, strict), {})))
            wrong = [(n, o) for n, o in obs.items() if o[0] != o[1]]
            if wrong:
                n, o = wrong[0]
                # is it the documented rule that is broken, or only the model? the expected value IS the documented rule
                res.violation(case, "loaded object differs from the documented rules applied to the text's parameters", entry_point=n,
                              impl=str(o[0])[:500], expected=str(o[1])[:500], also=[w[0] for w in wrong[1:6]])
                continue
            # chart level
            for p in ps:
                if p[0].upper() == "NOTES" and len(cmetas) < 4000:
                    creqs.append({"op": "obj.sm_chart_from_msd", "values": p[1:]}); cmetas.append(("from_msd", p[1:], case))
                    raw = ":".join(p[1:])
                    creqs.append({"op": "obj.sm_chart_from_str", "s": raw}); cmetas.append(("from_str", raw, case))
            idx = [i for i, p in enumerate(ps) if p[0].upper() == "NOTEDATA"]
            for a, b in zip(idx, idx[1:] + [len(ps)]):
                seg = ps[a:b]
                creqs.append({"op": "obj.load_ssc_chart", "params": seg}); cmetas.append(("ssc_chart", seg, case))
                # the same chart as a text with layout that must not matter to a stand-alone chart any more than to a simfile:
                # every line indented, a blanks-only line inside a value, the last parameter unterminated and ending in blanks
                if len(cmetas) < 4000 and rng.random() < .35:
                    from msdparser import MSDParameter as _P
                    t0 = "".join(str(_P(tuple(p))) + "\n" for p in seg)
                    how = rng.choice(["indent", "blankline", "unterminated"])
                    if how == "indent": t2 = "\n".join(rng.choice(["  ", "    ", "\t"]) + l for l in t0.split("\n"))
                    elif how == "blankline": t2 = t0.replace(":", ":\n   \n", 1)
                    else: t2 = t0.rstrip("\n").rstrip(";") + "   "
                    try:
                        p2 = objs.real_params(t2)
                    except Exception:
                        p2 = None
                    if p2 is not None:
                        creqs.append({"op": "obj.load_ssc_chart", "params": p2}); cmetas.append(("ssc_chart_text", t2, case))
            # a stand-alone chart text must begin with NOTEDATA (ValueError otherwise; StopIteration on no parameter at all)
            if ps and ps[0][0].upper() != "NOTEDATA" and len(cmetas) < 4000 and rng.random() < .2:
                seg = ps[:rng.randrange(0, 4)]
                creqs.append({"op": "obj.load_ssc_chart", "params": seg}); cmetas.append(("ssc_chart", seg, case))
        cresp = ctx.lean.eval_sharded(creqs)
        from msdparser import MSDParameter
        for (kind, arg, case), m in zip(cmetas, cresp):
            def chart_obs(f, dump):
                try: return {"ok": dump(f())}
                except Exception as e: return {"err": core.exc_name(e)}
            if kind == "from_msd":
                got = chart_obs(lambda: SMChart.from_msd(arg), objs.dump_sm_chart)
            elif kind == "from_str":
                got = chart_obs(lambda: SMChart.from_str(arg), objs.dump_sm_chart)
            elif kind == "ssc_chart_text":
                got = chart_obs(lambda: SSCChart.from_str(arg), lambda c: [[k, v] for k, v in c.items()])
            else:
                text = "".join(str(MSDParameter(tuple(p))) + "\n" for p in arg)
                if objs.real_params(text) != arg:
                    res.count("chart_slice_not_reserializable"); continue
                got = chart_obs(lambda: SSCChart.from_str(text), lambda c: [[k, v] for k, v in c.items()])
            res.traces += 1; res.count("chart_" + kind)
            if got != m:
                res.violation(dict(case, chart_entry=kind, arg=str(arg)[:300]), "chart-level loader differs from the documented rules", impl=str(got)[:300], expected=str(m)[:300])
    finally:
        shutil.rmtree(tmp, ignore_errors=True)
    # "with strict parsing off … the result equals that of the same text with the stray text removed": the cleaned text is
    # computed by the Lean model (MsdP.removeStray, a pure deletion of the tokens ignore_stray_text discards), the comparison is
    # made on the implementation. C03Text.lenient_eq_strict_removeStray proves the equation under three side conditions
    # (`removable`); where they fail the real msdparser can differ (listed finding C03-lenient-removal-joins).
    lenient = [t for t, strict, tok, k in metas if not strict]
    lenient += ["abc\n#:#B;", "#A:1\n;abc#:#B;", "//c\nx#A;", "x #A:1;y\n#B:2; z", "junk\n#TITLE:a;\nmore junk\n#ARTIST:b;tail"]
    rresp = ctx.lean.eval_sharded([{"op": "msd.remove_stray", "text": t} for t in lenient])
    joins_seen = False
    for t, m in zip(lenient, rresp):
        if m is None: continue
        a = observe(lambda: simfile.loads(t, strict=False)); b = observe(lambda: simfile.loads(m["cleaned"], strict=True))
        res.traces += 1; res.count("lenient_vs_cleaned_compared"); res.count("removable" if m["removable"] else "not_removable")
        if m["cleaned"] != t: res.count("stray_text_removed")
        if a != b:
            case = {"text": t[:600], "strict": False, "cleaned": m["cleaned"][:600]}
            if m["removable"]:
                res.violation(case, "with strict parsing off the result differs from that of the same text with the stray text removed",
                              impl=str(a)[:300], cleaned_strict=str(b)[:300])
            else:
                joins_seen = True; res.count("lenient_differs_where_removal_joins_tokens")
    # known findings
    for f in ctx.findings:
        if f["id"] == "C03-lenient-removal-joins":
            res.findings_seen.append((f["id"], joins_seen, "%s: %s [%s]" % (f["id"], f["what"], f["input"])))
        if f["id"] == "C03-trailing-backslash":
            try:
                simfile.loads("#TITLE:a\\"); fails = False
            except AssertionError:
                fails = True
            except Exception:
                fails = True
            res.findings_seen.append((f["id"], fails, "%s: %s [%s]" % (f["id"], f["what"], f["input"])))
    from adapters import strlib
    strlib.validate(ctx, res, routines=('upper', 'lower', 'rpartition', 'join', 'split'))
    res.assumptions = ["msdparser.parse_msd is the trusted base the rules are applied to",
                       "files are read in text mode with universal newlines: for file entry points the expected object is computed from the newline-translated text",
                       "keys with non-ASCII cased letters are outside the modelled upper() and skipped (counted)"]
    return res
