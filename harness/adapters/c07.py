"""C07 — note data text decodes to exactly one correctly placed note per non-zero cell."""
import itertools
from fractions import Fraction
import core, gen
from core import frac, unfrac


def impl_decode(text, history=0):
    from simfile.notes import NoteData
    try:
        nd = NoteData(text)
        out = {"ok": {"cols": nd.columns, "notes": [gen.jnote(n) for n in nd]}, "str": str(nd)}
        if history:
            # the same text through objects with a history: an iteration abandoned part-way, a second pass, a copy
            nd2 = NoteData(text)
            it = iter(nd2)
            for _ in range(history):
                next(it, None)
            del it
            out["after_partial"] = [gen.jnote(n) for n in nd2]
            out["second_pass"] = [gen.jnote(n) for n in nd2]
            out["copy"] = [gen.jnote(n) for n in NoteData(nd2)]
            out["copy_str"] = str(NoteData(nd2))
        return out
    except Exception as e:
        return {"err": core.exc_name(e)}


def run(ctx):
    from simfile.notes import Note, NoteType
    from simfile.timing import Beat
    rng = ctx.rng
    res = core.Result()
    res.rule = ("decorated charts (1..16 columns, 1..3 players, rows/measure from the usual counts and random <= 200, every "
                "note character, keysound brackets, blanks, CRLF) rendered by the Lean spec, decoded by the impl, the Lean model "
                "and the Lean spec (notesOf); corpus charts; operator streams on notes across players. non-trivial: at least "
                "one note and (keysound, >1 player, odd row count or decoration) present; distinct by hash of the chart")
    charts = []
    n = ctx.scale(250, 4000)
    for i in range(n):
        small = rng.random() < .6
        charts.append(gen.dchart(rng, max_cols=16, max_players=3, max_measures=3 if small else 5,
                                 density=rng.choice([.05, .2, .5]), big_rows=not small or rng.random() < .2))
    for rows_n in [256, 384, 1000][: ctx.scale(2, 3)] * ctx.scale(1, 2):
        c = gen.dchart(rng, max_cols=4, max_players=1, max_measures=1, density=.5, big_rows=False, keysounds=False, deco=False)
        proto = c[0][0]["rows"][0]
        c[0][0]["rows"] = [dict(proto, cells=[[rng.choice("1234M"), None] if rng.random() < .5 else ["0", None] for _ in proto["cells"]], eol="\n")
                           for _ in range(rows_n)]
        charts.append(c)
    rend = ctx.lean.eval_sharded([{"op": "spec.render", "chart": c} for c in charts])
    specs = ctx.lean.eval_sharded([{"op": "spec.notes_of", "chart": c} for c in charts])
    texts = list(rend)
    models = ctx.lean.eval_sharded([{"op": "notes.decode", "text": t} for t in texts])
    for c, text, spec, model in zip(charts, texts, specs, models):
        if not spec["wf"]:
            res.count("generator-produced-illformed"); continue
        impl = impl_decode(text, history=rng.choice([0, 1, 1, 2, 5]))
        nontriv = len(spec["notes"]) > 0
        case = {"text": text}
        res.case(case, nontrivial=nontriv)
        res.count("notes", len(spec["notes"])); res.count("players_%d" % len(c))
        res.traces += 1
        # C: impl vs spec (the property's own statement)
        if "ok" not in impl:
            res.violation(case, "well-formed note data rejected", impl=impl)
            continue
        if impl["ok"]["notes"] != spec["notes"] or impl["ok"]["cols"] != spec["cols"]:
            res.violation(case, "decoded notes differ from one-note-per-non-zero-cell", impl=_first_diff(impl["ok"]["notes"], spec["notes"]),
                          cols=[impl["ok"]["cols"], spec["cols"]])
            continue
        if impl["str"] != text:
            res.violation(case, "str(NoteData) is not the original text")
        if "after_partial" in impl:
            res.count("iteration_histories")
            for k in ("after_partial", "second_pass", "copy"):
                if impl[k] != spec["notes"]:
                    res.violation(case, "iterating the same NoteData again (%s) gives different notes" % k,
                                  impl=_first_diff(impl[k], spec["notes"])); break
            if impl["copy_str"] != text:
                res.violation(case, "NoteData(NoteData(text)) has a different string form")
        # every comparison operator on neighbouring decoded notes (dense measures put neighbours less than a tick apart)
        try:
            from simfile.notes import NoteData as _ND
            dn = list(_ND(text))
            for a, b in zip(dn, dn[1:]):
                if not (a < b and b > a and a <= b and b >= a and not (b < a) and not (a > b) and not (b <= a) and not (a >= b)):
                    res.violation(case, "comparison operators disagree with the position order on neighbouring decoded notes",
                                  impl=[gen.jnote(a), gen.jnote(b)]); break
            if dn and sorted(reversed(dn)) != dn:
                res.violation(case, "sorted() of the decoded notes is not the decoded order")
        except Exception as e:
            res.violation(case, "comparison raised", impl=core.exc_name(e))
        # strictly increasing (player, beat, column)
        keys = [(n[3], unfrac(n[0]), n[1]) for n in impl["ok"]["notes"]]
        if any(not a < b for a, b in zip(keys, keys[1:])):
            res.violation(case, "notes not in strictly increasing (player, beat, column) order")
        # B: impl vs model
        if "ok" not in model or model["ok"] != impl["ok"]:
            res.tie_break("notes.decode", case, impl.get("ok", impl), model)
    # corpus
    cc = gen.corpus_charts()
    models = ctx.lean.eval([{"op": "notes.decode", "text": t} for _, _, t in cc])
    for (p, i, t), model in zip(cc, models):
        impl = impl_decode(t)
        case = {"corpus": p, "chart": i}
        res.case(case); res.traces += 1
        if "ok" not in impl:
            res.violation(case, "corpus chart rejected", impl=impl)
        elif model.get("ok") != impl["ok"]:
            res.tie_break("notes.decode", case, _first_diff(impl["ok"]["notes"], model.get("ok", {}).get("notes", [])), "model differs")
        else:
            keys = [(n[3], unfrac(n[0]), n[1]) for n in impl["ok"]["notes"]]
            if any(not a < b for a, b in zip(keys, keys[1:])):
                res.violation(case, "corpus notes not strictly increasing")
    # malformed stream: model and impl must both reject, or agree (not a property claim; feeds the tie only)
    bad = ["", "\n", "10\n1\n", "1x00\n", "10[a]0\n", "1[1\n", "0000\n\n0000\n,0000", "[1]000\n"]
    models = ctx.lean.eval([{"op": "notes.decode", "text": t} for t in bad])
    for t, model in zip(bad, models):
        impl = impl_decode(t)
        res.count("malformed")
        a = impl.get("ok"); b = model.get("ok")
        if (a is None) != (b is None) or (a is not None and a != b):
            # outside the property's domain: recorded, reported only as a tie note
            res.count("malformed-disagreement")
            res.stats.setdefault("malformed_disagreements", []).append({"text": t, "impl": impl, "model": model})
    # operators ----------------------------------------------------------------------------------------
    pool = []
    for _ in range(ctx.scale(60, 300)):
        pool.append(Note(beat=Beat(Fraction(rng.randrange(0, 64), rng.choice([1, 2, 3, 4, 48]))), column=rng.randrange(0, 4),
                         note_type=rng.choice(list(NoteType)), player=rng.randrange(0, 3),
                         keysound_index=rng.choice([None, 1, 7])))
    pairs = [(a, b) for a in pool for b in pool][: ctx.scale(3000, 40000)]
    for _ in range(ctx.scale(300, 3000)):
        d = rng.choice([64, 96, 192, 256, 384, 768, 1000, 7, 5])
        k = rng.randrange(0, 4 * d)
        pl = rng.randrange(0, 2)
        a = Note(beat=Beat(Fraction(k, d)), column=rng.randrange(1, 4), note_type=NoteType.TAP, player=pl)
        b = Note(beat=Beat(Fraction(k + rng.choice([1, 1, 2]), d)), column=rng.randrange(0, a.column), note_type=NoteType.TAP, player=pl)
        pairs.append((a, b)); pairs.append((b, a))
    cmps = ctx.lean.eval_sharded([{"op": "notes.cmp", "a": gen.jnote(a), "b": gen.jnote(b)} for a, b in pairs])
    for (a, b), m in zip(pairs, cmps):
        ka, kb = (a.player, a.beat, a.column), (b.player, b.beat, b.column)
        case = {"a": gen.jnote(a), "b": gen.jnote(b)}
        res.case({"cmp": case}, nontrivial=a.player != b.player or a.beat != b.beat)
        try:
            got = [a < b, a > b, a <= b, a >= b]
        except Exception as e:
            res.violation(case, "comparison raised", impl=core.exc_name(e)); continue
        exp = [ka < kb, ka > kb, ka <= kb, ka >= kb]
        res.traces += 1
        if got != exp:
            res.violation(case, "comparison operators disagree with the (player, beat, column) order", impl=got, expect=exp)
        elif m != got:
            res.tie_break("notes.cmp", case, got, m)
    for _ in range(ctx.scale(100, 1000)):
        xs = rng.sample(pool, min(len(pool), rng.randrange(2, 8)))
        keys = lambda l: [(n.player, n.beat, n.column) for n in l]
        case = {"sorted": [gen.jnote(n) for n in xs]}
        res.case(case)
        if keys(sorted(xs)) != sorted(keys(xs)) or keys([min(xs)]) != [min(keys(xs))] or keys([max(xs)]) != [max(keys(xs))]:
            res.violation(case, "sorted/min/max disagree with the position order")
    from adapters import strlib
    strlib.validate(ctx, res, routines=("strip", "splitlines", "split"))
    res.assumptions = ["Python's str.split/strip/splitlines are modelled by Model/Str.lean (tied to CPython by the strlib stream of this run: all 29x29 space pairs, all pairs of line boundaries, random strings)",
                       "'string form is the original text' is an identity of the model; checked on the impl only"]
    return res


def _first_diff(a, b):
    for i, (x, y) in enumerate(zip(a, b)):
        if x != y: return {"index": i, "impl": x, "expected": y}
    return {"len_impl": len(a), "len_expected": len(b)}
