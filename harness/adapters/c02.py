"""C02 — SSC simfile: serialize then parse gives back the same simfile (note data moved last in each chart)."""
import core, gen, objs
from adapters import c01


def in_domain_ssc(sf):
    if not objs.values_ok(sf.items()): return False
    for k in sf.keys():
        if k != c01.ascii_upper(k) or k != k.upper() or k == "NOTEDATA": return False
    for c in sf.charts:
        if not objs.values_ok(c.items()) or not objs.ssc_chart_ok(c): return False
        for k in c.keys():
            if k != c01.ascii_upper(k) or k != k.upper() or k == "NOTEDATA": return False
    return True


def notes_key(c):
    return "NOTES2" if "NOTES" not in c and "NOTES2" in c else "NOTES"


def ssc_params(sf):
    def vp(k, v):
        if v is None: return [k]
        if k in ("ATTACKS", "DISPLAYBPM"): return [k] + v.split(":")
        return [k, v]
    ps = [vp(k, v) for k, v in sf.items()]
    for c in sf.charts:
        nk = notes_key(c)
        ps.append(["NOTEDATA", ""])
        ps += [vp(k, v) for k, v in c.items() if k != nk]
        ps.append([nk] if c[nk] is None else [nk, c[nk]])
    return ps


def notes_last(d):
    out = {"kind": "ssc", "props": d["props"], "charts": []}
    for ch in d["charts"]:
        keys = [k for k, _ in ch]
        nk = "NOTES2" if "NOTES" not in keys and "NOTES2" in keys else "NOTES"
        out["charts"].append([kv for kv in ch if kv[0] != nk] + [kv for kv in ch if kv[0] == nk])
    return out


def run(ctx):
    import simfile
    from simfile.ssc import SSCSimfile, SSCChart
    from msdparser import MSDParserError
    res = core.Result()
    res.rule = ("SSC simfiles built through the public API by random edit scripts from blank(), SSCChart.blank(), corpus files "
                "and empty objects; chart keys from the known chart properties, unknown keys and the multi-value keys, note data "
                "(NOTES or NOTES2) at a random position, values including '', one-character strings, the same string object "
                "assigned to several properties and to the note data, None. non-trivial: a chart whose note data equals or is "
                "identical with another value, or sits in the middle, or a metacharacter value; distinct by hash of the dump")
    objs_ = c01.make_objects(ctx, res, "ssc")
    c01.edit_history_tie(ctx, res)
    reqs, metas = [], []
    for sf, origin, log in objs_:
        # the auto-detection clause: VERSION first, with every kind of value (also key-only and empty)
        if next(iter(sf.keys()), None) == "VERSION" and ctx.rng.random() < .25:
            sf["VERSION"] = ctx.rng.choice([None, "", "0.83", " 0.7 ", "x"]); log.append(["setkey", "VERSION", sf["VERSION"]])
        if not in_domain_ssc(sf):
            res.count("skipped_out_of_domain"); continue
        if not objs.scan_safe(ssc_params(sf), lead_nl=len(sf) == 0):
            res.count("skipped_unsafe_for_msdparser"); continue
        d = objs.dump_ssc(sf)
        reqs.append({"op": "obj.ser_ssc", "sf": d}); metas.append((sf, origin, log, d))
    resp = ctx.lean.eval_sharded(reqs)
    reqs2, metas2 = [], []
    for (sf, origin, log, d), items in zip(metas, resp):
        case = {"origin": origin, "edits": log[-12:], "simfile": d if len(str(d)) < 3000 else {"props": d["props"][:40], "charts": [c[:12] for c in d["charts"][:2]]}}
        tricky = False
        for ch in d["charts"]:
            keys = [k for k, _ in ch]; nk = "NOTES2" if "NOTES" not in keys and "NOTES2" in keys else "NOTES"
            nv = dict(map(tuple, ch))[nk]
            tricky = tricky or keys[-1] != nk or sum(1 for _, v in ch if v == nv) > 1
        res.case(case, nontrivial=tricky or any(x in str(d) for x in (":", ";", "\\\\")))
        res.count("origin_" + origin.split(":")[0]); res.count("tricky_notes" if tricky else "plain"); res.traces += 1
        exp = notes_last(d)
        try:
            text = str(sf)
        except Exception as e:
            res.violation(case, "serialize raised", impl=core.exc_name(e)); continue
        try:
            rp = objs.real_params(text, strict=True)
        except MSDParserError as e:
            res.violation(case, "serialized text rejected by the strict parser", impl=str(e)); continue
        if "ok" not in items:
            res.tie_break("obj.ser_ssc", case, "impl serialized", items); continue
        mp, mt = objs.model_params(items["ok"])
        if rp != mp:
            res.tie_break("obj.ser_ssc (parameter structure)", case, rp[:8], mp[:8])
        try:
            back = SSCSimfile(string=text, strict=True)
        except Exception as e:
            res.violation(case, "strict re-parse raised", impl=core.exc_name(e)); continue
        bd = objs.dump_ssc(back)
        if bd != exp:
            res.violation(case, "serialize -> parse loses, renames or reorders a property (beyond moving the note data last)", impl=c01._diff(_as(bd), _as(exp))); continue
        if exp == d and not (back == sf):
            res.violation(case, "charts end with their note data but the reloaded simfile does not compare equal"); continue
        if str(back) != text:
            res.violation(case, "serializing the result again does not reproduce the text"); continue
        first = next(iter(sf.keys()), None)
        if first == "VERSION":
            try:
                auto = simfile.loads(text)
                if type(auto) is not SSCSimfile:
                    res.violation(case, "text with VERSION first not auto-detected as SSC", impl=type(auto).__name__); continue
            except Exception as e:
                res.violation(case, "loads() raised", impl=core.exc_name(e)); continue
        # shape: NOTEDATA first, note data last, multi-value unescaped
        ok = True
        i = len(list(sf.items()))
        for c in sf.charts:
            n = len(c)
            seg = rp[i:i + n + 1]; i += n + 1
            ok = ok and seg[0] == ["NOTEDATA", ""] and seg[-1][0] == notes_key(c)
            for p in seg[1:]:
                if p[0] in ("ATTACKS", "DISPLAYBPM") and len(p) > 1:
                    ok = ok and all(":" not in x for x in p[1:]) and ":".join(p[1:]) == c[p[0]]
        if not ok:
            res.violation(case, "chart not written as NOTEDATA ... note data last / multi-value components escaped", params=rp[:10]); continue
        # stand-alone chart round trip
        for c in sf.charts[:2]:
            try:
                c2 = SSCChart.from_str(str(c))
                e = notes_last({"props": [], "charts": [[[k, v] for k, v in c.items()]]})["charts"][0]
                if [[k, v] for k, v in c2.items()] != e:
                    res.violation(case, "SSCChart.from_str(str(chart)) differs from the chart (note data last)", impl=list(c2.items())[:8]); break
            except Exception as ex:
                res.violation(case, "SSCChart.from_str(str(chart)) raised", impl=core.exc_name(ex)); break
        reqs2.append({"op": "obj.load_ssc", "params": rp}); metas2.append((case, exp))
    # informational: the full text written by the Lean model (modelled MSDParameter.__str__) against str(simfile), byte for byte
    texts = ctx.lean.eval_sharded([{"op": "obj.text_ssc", "sf": d} for (_, _, _, d) in metas])
    res.stats["model_text_equals_impl_text"] = {"compared": len(texts), "different": sum(1 for (sf, _, _, _), t in zip(metas, texts) if _safe_str(sf) != t)}
    resp2 = ctx.lean.eval_sharded(reqs2)
    for (case, exp), m in zip(metas2, resp2):
        if m.get("ok") != exp:
            res.tie_break("obj.load_ssc (model loader on the real tokenizer's output)", case, "impl reload == notesLast(original)", str(m)[:400])
    c01.probe_findings(ctx, res, "ssc")
    from adapters import msdcontract
    msdcontract.validate(ctx, res)
    res.assumptions = ["msdparser is the trusted base; SafeDoc filter as in C01",
                       "object identity is invisible to the model: the harness assigns one Python string object to several properties so that any identity-dependence of the impl shows up as a disagreement"]
    return res


def _as(d):
    return {"props": d["props"], "charts": d["charts"]}


def _safe_str(sf):
    try:
        return str(sf)
    except Exception:
        return None
