"""C01 — SM simfile: serialize then parse gives back the same simfile."""
import copy, io
import core, gen, objs


def ascii_upper(s):
    return "".join(chr(ord(c) - 32) if "a" <= c <= "z" else c for c in s)


EDIT_HISTORIES = []      # (dump before, edit log, dump after) of the SM objects built by this run: the tie of Model/Edit.lean


def edit_history_tie(ctx, res):
    """the editing API as modelled by Model/Edit.lean (the model behind C01Reach.reachable_in_dom) against the implementation:
    the same edit history applied to the same starting object must give the same object"""
    reqs, metas = [], []
    for before, log, after in EDIT_HISTORIES:
        if any(e[0] == "raised" for e in log): continue
        edits = [e for e in log if e[0] != "serialize"]
        if not objs.values_ok([(k, v) for k, v in before["props"]]): continue
        if not all(objs.values_ok(c["fields"] if isinstance(c, dict) else c) for c in before["charts"]): continue
        reqs.append({"op": "edit.apply" if before["kind"] == "sm" else "edit.apply_ssc", "sf": before, "edits": edits}); metas.append((before, edits, after))
    del EDIT_HISTORIES[:]
    for (before, edits, after), m in zip(metas, ctx.lean.eval_sharded(reqs)):
        res.count("edit_histories"); res.count("edit_ops", len(edits)); res.traces += 1
        if m != after:
            res.tie_break("edit.apply (Model/Edit*.lean vs the editing API)", {"before": before, "edits": edits}, after, m)


def make_objects(ctx, res, kind):
    """objects reachable from blank(), corpus files and the empty simfile by random edit scripts"""
    import simfile
    from simfile.sm import SMSimfile
    from simfile.ssc import SSCSimfile
    rng = ctx.rng
    cls = SMSimfile if kind == "sm" else SSCSimfile
    corpus = [p for p in gen.corpus_files() if p.endswith("." + kind)]
    out = []
    n = ctx.scale(500, 8000)
    for i in range(n):
        r = rng.random()
        if r < .45: sf, origin = cls.blank(), "blank"
        elif r < .6: sf, origin = cls(string=""), "empty"
        else:
            p = rng.choice(corpus); sf, origin = simfile.open(p), "corpus:" + p.split("/")[-1]
            if len(sf.charts) > 3:
                del sf.charts[3:]
        steps = rng.choice([0, 1, 3, 8, 20])
        before = objs.dump(sf)
        log = (objs.edit_sm if kind == "sm" else objs.edit_ssc)(rng, sf, steps)
        out.append((sf, origin, log))
        EDIT_HISTORIES.append((before, log, objs.dump(sf)))
    # note data longer than the usual I/O block sizes, with characters the serializer must escape (and the two-character '//')
    # sitting on, just before and just after the 4096/8192/16384-character marks of the value: escaping is per value, not per block
    from simfile.sm import SMChart
    from simfile.ssc import SSCChart
    for i in range(ctx.scale(4, 40)):
        sf = cls.blank()
        c = (SMChart if kind == "sm" else SSCChart).blank()
        total = rng.choice([8192, 16384, 16384, 32768]) + rng.randrange(200, 700)
        rows = ("0000\n" * (total // 5 + 2))[:total]
        chars = list(rows)
        for mark in range(4096, total, 4096):
            if rng.random() < .7:
                tok = rng.choice(["//", "//", "\\", ";", ":", "\\\\", "// x"])
                at = mark + rng.choice([-2, -1, -1, 0, 1]) - (1 if i % 2 else 0)
                chars[at:at + len(tok)] = list(tok)
        c.notes = "".join(chars).rstrip() if kind == "sm" else "".join(chars)
        sf.charts.append(c)
        out.append((sf, "blank+long-notes", [["long note data", len(c.notes)]]))
    return out


def in_domain_sm(sf):
    if not objs.values_ok(sf.items()): return False
    for k in sf.keys():
        if k != ascii_upper(k) or k != k.upper() or k == "NOTES": return False
    for c in sf.charts:
        items = list(dict.items(c))
        if [k for k, _ in items] != ["STEPSTYPE", "DESCRIPTION", "DIFFICULTY", "METER", "RADARVALUES", "NOTES"]: return False
        if any(not isinstance(v, str) or v != v.strip() for _, v in items): return False
        if c.extradata is not None and (len(c.extradata) == 0 or any(not isinstance(x, str) for x in c.extradata)): return False
    return True


def sm_params(sf):
    """the parameter sequence as the documented format says it must be emitted (used for the SafeDoc filter)"""
    ps = []
    for k, v in sf.items():
        if v is None: ps.append([k])
        elif k in ("ATTACKS", "DISPLAYBPM"): ps.append([k] + v.split(":"))
        else: ps.append([k, v])
    for c in sf.charts:
        ps.append(["NOTES"] + ["\n     " + c[f] for f in ("STEPSTYPE", "DESCRIPTION", "DIFFICULTY", "METER", "RADARVALUES")]
                  + ["\n" + c["NOTES"] + "\n"] + list(c.extradata or []))
    return ps


def deep_sm(sf):
    return objs.dump_sm(sf)


def probe_findings(ctx, res, kind="sm"):
    """fixed inputs of the listed known findings (dependency's escaping gaps)"""
    from simfile.sm import SMSimfile, SMChart
    from simfile.ssc import SSCSimfile, SSCChart
    for f in ctx.findings:
        try:
            if f["id"].endswith("hash-after-linebreak") or f["id"].endswith("triple-slash"):
                val = "a\n#b" if "hash" in f["id"] else "a///b"
                if ctx.pid == "C01":
                    sf = SMSimfile.blank(); sf.title = val
                    back = SMSimfile(string=str(sf), strict=False)
                else:
                    sf = SSCSimfile.blank(); sf.title = val
                    if "hash" in f["id"]:
                        c = SSCChart.blank(); c.credit = val; sf.charts.append(c)
                    back = SSCSimfile(string=str(sf), strict=False)
                fails = objs.dump(back) != objs.dump(sf)
            elif f["id"].endswith("hash-in-key"):
                sf = SMSimfile.blank(); sf["A\n#B"] = "x"
                back = SMSimfile(string=str(sf), strict=False); fails = objs.dump(back) != objs.dump(sf)
            elif f["id"].endswith("notes-leading-hash"):
                sf = SMSimfile.blank(); c = SMChart.blank(); c.notes = "#0000"; sf.charts.append(c)
                try:
                    back = SMSimfile(string=str(sf), strict=False); fails = objs.dump(back) != objs.dump(sf)
                except Exception:
                    fails = True
            else:
                continue
        except Exception:
            fails = True
        res.findings_seen.append((f["id"], fails, "%s: %s [%s]" % (f["id"], f["what"], f["input"])))


def run(ctx):
    import simfile
    from simfile.sm import SMSimfile
    from msdparser import MSDParserError
    res = core.Result()
    res.rule = ("SM simfiles built through the public API by random edit scripts (set/delete by key and attribute, charts "
                "appended/inserted/popped/reversed/replaced, chart fields and extradata edited) from blank(), corpus files and "
                "the empty simfile; values over an alphabet rich in ':', ';', '\\', '/', '#', line breaks, CJK, emoji, '' and "
                "None; objects outside the property's domain (SafeDoc, non-stripped fields) are counted and skipped. "
                "non-trivial: a value with an MSD metacharacter or None, or a chart with extradata; distinct by hash of the dump")
    objs_ = make_objects(ctx, res, "sm")
    edit_history_tie(ctx, res)
    reqs, metas = [], []
    for sf, origin, log in objs_:
        if not in_domain_sm(sf):
            res.count("skipped_out_of_domain"); continue
        if not objs.scan_safe(sm_params(sf), lead_nl=len(sf) == 0):
            res.count("skipped_unsafe_for_msdparser"); continue
        d = objs.dump_sm(sf)
        reqs.append({"op": "obj.ser_sm", "sf": d}); metas.append((sf, origin, log, d))
    resp = ctx.lean.eval_sharded(reqs)
    reqs2, metas2 = [], []
    for (sf, origin, log, d), items in zip(metas, resp):
        case = {"origin": origin, "edits": log[-12:], "simfile": d if len(str(d)) < 3000 else {"props": d["props"][:40], "charts": len(d["charts"])}}
        flat = str(d)
        res.case(case, nontrivial=any(ch in flat for ch in (":", ";", "\\\\", "//", "None")) or any(c["extradata"] for c in d["charts"]))
        res.count("origin_" + origin.split(":")[0]); res.traces += 1
        try:
            text = str(sf)
        except Exception as e:
            res.violation(case, "serialize raised", impl=core.exc_name(e)); continue
        # accepted by the strict parser, and what it contains
        try:
            rp = objs.real_params(text, strict=True)
        except MSDParserError as e:
            res.violation(case, "serialized text rejected by the strict parser", impl=str(e)); continue
        except Exception as e:
            res.violation(case, "tokenizer failed on serialized text", impl=core.exc_name(e)); continue
        mp, mt = objs.model_params(items)
        if rp != mp:
            # structure differs from the model's: is the property's shape clause still true?
            res.tie_break("obj.ser_sm (parameter structure)", case, rp[:6], mp[:6])
        # direct: reload and compare deeply
        try:
            back = SMSimfile(string=text, strict=True)
        except Exception as e:
            res.violation(case, "strict re-parse raised", impl=core.exc_name(e)); continue
        if deep_sm(back) != d or not (back == sf):
            res.violation(case, "serialize -> parse does not give back the same simfile", impl=_diff(deep_sm(back), d)); continue
        if str(back) != text:
            res.violation(case, "serializing the result again does not reproduce the text"); continue
        first = next(iter(sf.keys()), None)
        if first != "VERSION":
            try:
                auto = simfile.loads(text)
                if type(auto) is not SMSimfile:
                    res.violation(case, "text not auto-detected as SM", impl=type(auto).__name__); continue
            except Exception as e:
                res.violation(case, "loads() raised on serialized SM text", impl=core.exc_name(e)); continue
        # shape clauses: one NOTES parameter per chart, six fields in the documented order; multi-value unescaped
        notes_params = [p for p in rp if p[0] == "NOTES"]
        ok = len(notes_params) == len(sf.charts)
        for p, c in zip(notes_params, sf.charts):
            ok = ok and [x.strip() for x in p[1:7]] == [c.stepstype, c.description, c.difficulty, c.meter, c.radarvalues, c.notes] \
                and list(p[7:]) == list(c.extradata or [])
        for k, v in sf.items():
            if k in ("ATTACKS", "DISPLAYBPM") and v is not None:
                pp = [p for p in rp if p[0] == k]
                ok = ok and len(pp) == 1 and all(":" not in x for x in pp[0][1:]) and ":".join(pp[0][1:]) == v
                ok = ok and ("#%s:%s;" % (k, v.replace("\\", "\\\\").replace("//", "\\//").replace(";", "\;"))) in text
        if not ok:
            res.violation(case, "chart parameter shape / multi-value components not as documented", params=rp[:8]); continue
        reqs2.append({"op": "obj.load_sm", "params": rp}); metas2.append((case, d))
    # informational: the full text written by the Lean model (modelled MSDParameter.__str__) against str(simfile), byte for byte
    texts = ctx.lean.eval_sharded([{"op": "obj.text_sm", "sf": d} for (_, _, _, d) in metas])
    res.stats["model_text_equals_impl_text"] = {"compared": len(texts), "different": sum(1 for (sf, _, _, _), t in zip(metas, texts) if _safe_str(sf) != t)}
    resp2 = ctx.lean.eval_sharded(reqs2)
    for (case, d), m in zip(metas2, resp2):
        if m.get("ok") != d:
            res.tie_break("obj.load_sm (model loader on the real tokenizer's output)", case, "impl reload == original", str(m)[:400])
    probe_findings(ctx, res)
    from adapters import msdcontract
    msdcontract.validate(ctx, res)
    res.assumptions = ["msdparser (tokenizer and MSDParameter escaping) is the trusted base; its escaping gaps are excluded by the SafeDoc filter and probed as known findings",
                       "unpaired surrogates are outside the domain"]
    return res


def _diff(a, b):
    if a["props"] != b["props"]:
        for x, y in zip(a["props"], b["props"]):
            if x != y: return {"prop_impl": x, "prop_expected": y}
        return {"props_len": [len(a["props"]), len(b["props"])]}
    for i, (x, y) in enumerate(zip(a["charts"], b["charts"])):
        if x != y: return {"chart": i, "impl": str(x)[:300], "expected": str(y)[:300]}
    return {"charts_len": [len(a["charts"]), len(b["charts"])]}


def _safe_str(sf):
    try:
        return str(sf)
    except Exception:
        return None
