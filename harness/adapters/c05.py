"""C05 — mutate saves exactly the edited simfile, in the encoding it was read in (shared machinery for C06)."""
import os, shutil, tempfile, codecs
import core, gen, objs, fstools
from adapters import c01, c02

DEFAULT_ENCODINGS = ["utf-8", "cp1252", "cp932", "cp949"]
# also text that Unicode normalisation would alter (a decomposed accent, the angstrom and ohm signs, compatibility ideographs of
# the two East Asian code pages): what is saved is the edited simfile's own text, character for character
REPERTOIRE = {"utf-8": ["猫鍋", "é", "한글", "😀", "—", "a", "e\u0301", "\u212b", "\uf900"], "cp1252": ["café", "Ünï", "£5", "a"],
              "cp932": ["猫鍋", "ｶﾀｶﾅ", "ねこ", "a", "\uf929", "\u212b", "\uf9dc"], "cp949": ["한글", "가나다", "a", "\u212b", "\uf900", "\u2126"]}
UNDECODABLE = b"#TITLE:\x81 \x81;\n"
# ... also ones that a code page outside the tried list (gbk, big5, euc-jp, latin-1 reads anything) would decode: found at import time
def _more_undecodable():
    import random as _r
    rr = _r.Random(5); out = {}
    for _ in range(200000):
        if len(out) >= 4: break
        b = bytes(rr.choice([0x81, 0x8e, 0xa1, 0xfd, 0xfe, 0xd0, 0x50, 0x40, 0x80, 0xff, 0xa0, 0xe0]) for _ in range(rr.randrange(2, 5)))
        data = b"#ARTIST:" + b + b";\n"
        if any(decodes(data, e) for e in DEFAULT_ENCODINGS): continue
        for other in ("gbk", "big5", "euc_jp", "euc_kr"):
            if other not in out and decodes(data, other): out[other] = data
    return [UNDECODABLE] + list(out.values())

# serialized lengths (in characters) at which block-wise writers and buffers change behaviour
MARKS = [4096, 8192, 16384, 32768, 65536, 131072, 196608]


def pad_to(rng, sf, mark, enc):
    """pad GENRE so that the serialization is exactly `mark` characters long (False when it is already longer)"""
    sf["GENRE"] = ""
    n = len(str(sf))
    if n > mark: return False
    singles = ["a", "b"] + [w for w in REPERTOIRE.get(enc, []) if len(w) == 1 and w != "—"]
    pool = [rng.choice(singles) for _ in range(64)]
    k = mark - n
    sf["GENRE"] = ("".join(pool) * (k // 64 + 1))[:k]
    return len(str(sf)) == mark


def exact_file(rng, ext, mark):
    """(bytes, encoding, text): a canonical serialization of exactly `mark` characters"""
    import simfile
    for _ in range(20):
        data, enc = rand_file(rng, ext, long_ok=False)
        sf = (simfile.sm.SMSimfile if ext == ".sm" else simfile.ssc.SSCSimfile)(string=data.decode(enc))
        if pad_to(rng, sf, mark, enc):
            text = str(sf)
            if len(text) == mark and encodable(text, enc):
                return text.encode(enc), enc, text
    raise core.Infra("could not build an exact-length file")


def rand_file(rng, ext, long_ok=True):
    """(bytes, the encoding it was written in) for a small simfile whose text comes from one code page's repertoire"""
    enc = rng.choice(DEFAULT_ENCODINGS)
    w = lambda: rng.choice(REPERTOIRE[enc])
    if ext == ".sm":
        text = "#TITLE:%s;\n#ARTIST:%s;\n#BPMS:0.000=120.000;\n#STOPS:;\n" % (w(), w())
        if rng.random() < .5:
            text += "#NOTES:\n     dance-single:\n     %s:\n     Easy:\n     3:\n     0,0,0,0,0:\n0000\n1000\n0000\n0000\n;\n" % w()
    else:
        text = "#VERSION:0.83;\n#TITLE:%s;\n#ARTIST:%s;\n#BPMS:0.000=120.000;\n" % (w(), w())
        if rng.random() < .5:
            text += "#NOTEDATA:;\n#STEPSTYPE:dance-single;\n#DESCRIPTION:%s;\n#NOTES:\n0000\n0100\n;\n" % w()
    if long_ok and rng.random() < .18:
        # a long value so that multi-byte characters straddle the 4096/8192/16384-byte and -character marks
        target = rng.choice([4096, 8192, 8192, 16384]) + rng.randrange(-40, 40)
        filler = ""
        while len((text + filler).encode(enc)) < target + 120:
            filler += rng.choice([w(), "a", "bc", w() + w()])
        text = text.replace("#ARTIST:", "#GENRE:%s;\n#ARTIST:" % filler, 1)
    return text.encode(enc), enc


def decodes(data, enc):
    try:
        data.decode(enc); return True
    except UnicodeDecodeError:
        return False


def encodable(text, enc):
    try:
        text.encode(enc); return True
    except UnicodeEncodeError:
        return False


UNDECODABLES = _more_undecodable()


class World:
    """one filesystem (native temp dir or MemoryFS) holding the input file and some bystanders"""

    def __init__(self, kind, tmp, idx, files, rec=None):
        from simfile._private.nativeosfs import NativeOSFS
        self.kind = kind
        self.rec = rec or fstools.Recorder()
        if kind == "native":
            self.root = os.path.join(tmp, "w%d" % idx)
            fstools.make_native(files, self.root)
            self.fs = fstools.recording_native(self.rec)
            self.path = lambda n: os.path.join(self.root, n)
        else:
            self.mem = fstools.make_memory({"d": files})
            self.fs = fstools.recording_memory(self.rec, self.mem)
            self.root = "/d"
            self.path = lambda n: "/d/" + n

    def snapshot(self):
        return fstools.snapshot_native(self.root) if self.kind == "native" else {k[2:]: v for k, v in fstools.snapshot_memory(self.mem, "/d").items()}

    def close(self):
        if self.kind == "native": shutil.rmtree(self.root, ignore_errors=True)


def edit(rng, sf, enc, steps):
    """random edits restricted to text the detected encoding can hold; returns False when out of domain"""
    from simfile.sm import SMSimfile
    (objs.edit_sm if isinstance(sf, SMSimfile) else objs.edit_ssc)(rng, sf, steps)
    sf["TITLE"] = "edited " + rng.choice(REPERTOIRE[enc] if enc in REPERTOIRE else ["a"])
    return True


def in_domain(sf, enc):
    from simfile.sm import SMSimfile
    if isinstance(sf, SMSimfile):
        ok = c01.in_domain_sm(sf) and objs.scan_safe(c01.sm_params(sf), lead_nl=len(sf) == 0)
    else:
        ok = c02.in_domain_ssc(sf) and objs.scan_safe(c02.ssc_params(sf), lead_nl=len(sf) == 0)
    if not ok: return False
    try:
        text = str(sf)
    except Exception:
        return False
    return encodable(text, enc) and "\r" not in text and text.encode(enc).decode(enc) == text


def run(ctx):
    import simfile
    rng = ctx.rng
    res = core.Result()
    res.rule = ("file contents from each code page's repertoire (also texts valid under several of the four encodings, and an "
                "undecodable byte string) x {.sm, .ssc} x output name {none, other, = input} x backup name {none, other, = input, "
                "= output} x random edit scripts x custom try_encodings orders x explicit encoding= x {native temp dir, MemoryFS}; "
                "the filesystem call log and the directory snapshot are compared with the Lean model's script and file map; the "
                "bytes written are decoded with the detected codec and re-loaded with the real loader. non-trivial: non-ASCII "
                "content with an output or backup name; distinct by hash")
    tmp = tempfile.mkdtemp(prefix="simfile-verif-c05-")
    reqs, metas = [], []
    dreqs, dmetas = [], []
    try:
        for i in range(ctx.scale(700, 6000)):
            ext = rng.choice([".sm", ".ssc"])
            exact_in = exact_out = None
            if i < len(MARKS) * 2 or rng.random() < .03:
                # serializations of exactly 4096 … 196608 characters, on the way in (the backup) and/or on the way out
                mark = MARKS[(i // 2) % len(MARKS)] if i < len(MARKS) * 2 else rng.choice(MARKS)
                if i % 2 == 0 or rng.random() < .5: exact_in = mark
                if i % 2 == 1 or rng.random() < .5: exact_out = mark
            if exact_in:
                data, written_in, _ = exact_file(rng, ext, exact_in)
            else:
                data, written_in = rand_file(rng, ext) if rng.random() < .93 else (rng.choice(UNDECODABLES), None)
            tries = list(DEFAULT_ENCODINGS)
            mode = rng.choice(["default", "default", "custom", "explicit"])
            if mode == "custom":
                rng.shuffle(tries); tries = tries[: rng.randrange(1, 5)]
            elif mode == "explicit":
                tries = [rng.choice(DEFAULT_ENCODINGS)]
            outn = rng.choice([None, None, "out" + ext, "in" + ext, ""])
            bakn = rng.choice([None, None, "in.bak", "in" + ext, "out" + ext, ""])
            if exact_in or exact_out:
                mode = "default"; tries = list(DEFAULT_ENCODINGS); bakn = rng.choice(["in.bak", "in.bak", None]); outn = rng.choice([None, "out" + ext])
            # "default": the library's own default list is used (the argument is left out), which the property says is these four
            tk = {} if mode == "default" else {"try_encodings": tries}
            kind = rng.choice(["native", "memory"])
            w = World(kind, tmp, i, {"in" + ext: data, "other.txt": b"bystander", "out" + ext: b"old output"} if rng.random() < .5 else {"in" + ext: data, "other.txt": b"bystander"})
            P = lambda n: None if n is None else ("" if n == "" else w.path(n))
            cfg = {"input": w.path("in" + ext), "output": P(outn), "backup": P(bakn)}
            before = w.snapshot()
            tr = [[e, decodes(data, e)] for e in tries]
            detected = next((e for e, ok in tr if ok), None)
            case = {"fs": kind, "ext": ext, "bytes": data.decode("latin-1"), "written_in": written_in, "tries": tries, "mode": mode,
                    "output": outn, "backup": bakn}
            if exact_in or exact_out:
                case["bytes"] = case["bytes"][:200] + "…"; case["exact_length_in"] = exact_in; case["exact_length_out"] = exact_out
                res.count("exact_length_cases")
            res.case(case, nontrivial=any(b > 127 for b in data) and bool(outn or bakn))
            res.count("detected_%s" % detected); res.traces += 1
            # open / open_with_detected_encoding -----------------------------------------------------
            try:
                if mode == "explicit":
                    sf0 = simfile.open(cfg["input"], filesystem=w.fs, encoding=tries[0]); enc0 = tries[0]
                else:
                    sf0, enc0 = simfile.open_with_detected_encoding(cfg["input"], filesystem=w.fs, **tk)
                opened = ("ok", enc0)
            except UnicodeDecodeError:
                opened = ("UnicodeDecodeError",)
            except Exception as e:
                opened = (core.exc_name(e),)
            exp_open = ("ok", detected) if detected else ("UnicodeDecodeError",)
            if opened != exp_open:
                res.violation(case, "reported encoding is not the first tried one under which the file decodes", impl=opened, expected=exp_open); w.close(); continue
            if detected:
                text = data.decode(detected)
                if objs.dump(sf0) != objs.dump(simfile.loads(text) if ext == ".sm" or True else None) and type(sf0).__name__[:2].lower() != ext[1:3]:
                    pass
                exp_sf = (simfile.sm.SMSimfile if ext == ".sm" else simfile.ssc.SSCSimfile)(string=text)
                if objs.dump(sf0) != objs.dump(exp_sf):
                    res.violation(case, "the loaded simfile is not the decoded text's", impl=objs.dump(sf0)["props"][:3]); w.close(); continue
            # mutate -----------------------------------------------------------------------------------
            del w.rec.log[:]; w.rec.wcalls = 0
            entry = [None]; exit_ = [None]; ok_domain = [True]; texts = [None, None]
            steps = rng.choice([0, 0, 1, 4, 10])
            romanise = rng.random() < .3      # the saved file may then decode under an earlier encoding of the list
            case["romanise"] = romanise
            try:
                with simfile.mutate(cfg["input"], output_filename=cfg["output"], backup_filename=cfg["backup"], filesystem=w.fs, **tk) as sf:
                    entry[0] = objs.dump(sf)
                    try: texts[0] = str(sf)
                    except Exception: texts[0] = None
                    snapshot_rng = rng.getstate()
                    edit(rng, sf, detected, steps)
                    if romanise:
                        for k in list(sf.keys()):
                            if isinstance(sf[k], str) and any(ord(c) > 127 for c in sf[k]): sf[k] = "romanised"
                        for ch in sf.charts:
                            for k in list(ch.keys()):
                                if isinstance(ch[k], str) and any(ord(c) > 127 for c in ch[k]): ch[k] = "romanised"
                    if exact_out and not pad_to(rng, sf, exact_out, detected):
                        exact_out = None
                    if not in_domain(sf, detected):
                        ok_domain[0] = False
                        raise simfile.CancelMutation
                    exit_[0] = objs.dump(sf)
                    texts[1] = str(sf)
                outcome = "returned"
            except ValueError as e:
                outcome = "ValueError" if not isinstance(e, UnicodeDecodeError) else "UnicodeDecodeError"
            except Exception as e:
                outcome = core.exc_name(e)
            if not ok_domain[0]:
                res.count("edit_left_domain"); w.close(); continue
            log = [[op[0], op[1]] + ([op[2]] if op[0].startswith("open") else []) for op in w.rec.log]
            after = w.snapshot()
            reqs.append({"op": "mutate.run", "input": cfg["input"], "output": cfg["output"], "backup": cfg["backup"], "tries": tr,
                         "body": "returns", "problem": "none", "files": [w.path(n) for n in before]})
            metas.append((case, outcome, log, {w.path(k): v for k, v in before.items()}, {w.path(k): v for k, v in after.items()}, detected, entry[0], exit_[0], cfg))
            # direct clauses ----------------------------------------------------------------------------
            clash = bool(bakn) and (P(bakn) == cfg["input"] or (cfg["output"] is not None and P(bakn) == cfg["output"]))
            if clash:
                if outcome != "ValueError" or after != before:
                    res.violation(case, "a backup name equal to the input or output name was not refused before anything was written", impl=outcome)
                w.close(); continue
            if detected is None:
                if outcome != "UnicodeDecodeError" or after != before:
                    res.violation(case, "no encoding decodes the file but mutate did not raise UnicodeDecodeError / touched files", impl=outcome)
                w.close(); continue
            if outcome != "returned":
                res.violation(case, "mutate raised on a normal exit", impl=outcome); w.close(); continue
            outname = (outn or "in" + ext)
            changed = {k for k in set(before) | set(after) if before.get(k) != after.get(k)}
            allowed = {outname} | ({bakn} if bakn else set())
            if not changed <= allowed:
                res.violation(case, "a file other than the output and backup was created or changed", impl=sorted(changed)); w.close(); continue
            if outn and outn != "in" + ext and after.get("in" + ext) != data:
                res.violation(case, "the input file was touched although an output name was given"); w.close(); continue
            cls = simfile.sm.SMSimfile if ext == ".sm" else simfile.ssc.SSCSimfile
            try:
                got_out = objs.dump(cls(string=after[outname].decode(detected)))
                exp_out = exit_[0] if ext == ".sm" else c02.notes_last(exit_[0])
                if got_out != exp_out:
                    res.violation(case, "the output file does not parse to the simfile as it stood at block exit", impl=c01._diff(got_out, exp_out)); w.close(); continue
                if bakn:
                    got_b = objs.dump(cls(string=after[bakn].decode(detected)))
                    exp_b = entry[0] if ext == ".sm" else c02.notes_last(entry[0])
                    if got_b != exp_b:
                        res.violation(case, "the backup does not parse to the simfile as it stood at block entry", impl=c01._diff(got_b, exp_b)); w.close(); continue
            except Exception as e:
                res.violation(case, "written file does not decode/parse in the detected encoding", impl=core.exc_name(e)); w.close(); continue
            # the data-carrying model (Model/MutateData.lean): same bytes in every file, same detected encoding, same outcome.
            # The codecs are handed over as finite tables: how the input bytes decode under each tried encoding, and how the two
            # serializations encode under the detected one (CPython's codecs are the trusted base for that).
            if texts[0] is not None and texts[1] is not None and len(data) < 30000:
                L1 = lambda b: b.decode("latin-1")
                def enc_or_none(t, e):
                    try: return L1(t.encode(e))
                    except UnicodeEncodeError: return None
                def dec_or_none(b, e):
                    try: return b.decode(e)
                    except UnicodeDecodeError: return None
                codecs = [[e, {"decode": [[L1(data), dec_or_none(data, e)]],
                               "encode": [[t, enc_or_none(t, e)] for t in dict.fromkeys([texts[0], texts[1], ""])]}] for e in dict.fromkeys(tries)]
                dreqs.append({"op": "mutate.data", "input": cfg["input"], "output": cfg["output"], "backup": cfg["backup"], "encs": tries,
                              "fs": [[w.path(k), L1(v)] for k, v in before.items()], "codecs": codecs, "world": ext[1:], "strict": True,
                              "body": {"returns": exit_[0]}, "fault": None, "cut": 0})
                dmetas.append((case, {w.path(k): L1(v) for k, v in after.items()}, detected))
            # a second mutate of the file just written: the encoding is detected afresh from the bytes on disk (it may differ
            # from the first one when the edit removed what made the earlier encodings fail), and the save obeys the same rules
            outpath = w.path(outname)
            cur = after[outname]
            tr2 = [[e, decodes(cur, e)] for e in tries]
            enc2 = next((e for e, ok in tr2 if ok), None)
            noop = rng.random() < .35
            bak2 = "second.bak" if rng.random() < .5 else None      # a backup is owed whenever the block exits normally, edits or not
            case2 = dict(case, second_mutate={"noop": noop, "detected": enc2, "backup": bak2})
            if enc2 != detected: res.count("second_pass_detects_other_encoding")
            del w.rec.log[:]; w.rec.wcalls = 0
            exit2 = [None]; ok2 = [True]
            try:
                with simfile.mutate(outpath, filesystem=w.fs, **tk, **({"backup_filename": w.path(bak2)} if bak2 else {})) as sf:
                    entry2 = objs.dump(sf)
                    if not noop:
                        sf["SUBTITLE"] = "again " + rng.choice(REPERTOIRE[enc2])
                        if not in_domain(sf, enc2):
                            ok2[0] = False
                            raise simfile.CancelMutation
                    exit2[0] = objs.dump(sf)
                out2 = "returned"
            except Exception as e:
                out2 = core.exc_name(e)
            if not ok2[0]:
                w.close(); continue
            log2 = [[op[0], op[1]] + ([op[2]] if op[0].startswith("open") else []) for op in w.rec.log]
            after2 = w.snapshot()
            try:
                cls(string=cur.decode(enc2)); unparseable = None
            except Exception as e:
                # read under another encoding than the one it was written in, the bytes can be a different, even malformed, document
                # (a cp1252 'é\\' is one cp932 character: the backslash that escaped a ';' is gone): the loader's error propagates
                unparseable = core.exc_name(e)
            if unparseable:
                res.count("second_pass_unparseable_under_detected_encoding")
                if enc2 == detected:
                    res.violation(case2, "a file mutate wrote does not load under the encoding it was written in", impl=unparseable)
                elif out2 != unparseable or after2 != after:
                    res.violation(case2, "the saved file does not parse under the encoding detected now, but mutate did not raise the loader's error / touched files", impl=out2, expected=unparseable)
                w.close(); continue
            if out2 != "returned":
                res.violation(case2, "second mutate of the saved file raised", impl=out2, saved_bytes=cur.decode("latin-1")[:600]); w.close(); continue
            if {k for k in set(after) | set(after2) if after.get(k) != after2.get(k)} - {outname, bak2}:
                res.violation(case2, "second mutate touched a file other than the ones it was given"); w.close(); continue
            if bak2:
                try:
                    gotb = objs.dump(cls(string=after2[bak2].decode(enc2)))
                    expb = entry2 if ext == ".sm" else c02.notes_last(entry2)
                except KeyError:
                    res.violation(case2, "the block exited normally and a backup was requested, but no backup file was written"); w.close(); continue
                except Exception as e:
                    res.violation(case2, "the backup does not decode/parse in the encoding the file was read in", impl=core.exc_name(e)); w.close(); continue
                if gotb != expb:
                    res.violation(case2, "the backup does not parse to the simfile as it stood at block entry", impl=c01._diff(gotb, expb)); w.close(); continue
            if noop and enc2 == detected and after2.get(outname) != cur:
                res.violation(case2, "a no-op mutate changed the bytes of a file mutate had written"); w.close(); continue
            try:
                got2 = objs.dump(cls(string=after2[outname].decode(enc2)))
                exp2 = exit2[0] if ext == ".sm" else c02.notes_last(exit2[0])
                if got2 != exp2:
                    res.violation(case2, "after a second mutate the file does not parse, in the encoding it was read in, to the simfile at block exit",
                                  impl=c01._diff(got2, exp2)); w.close(); continue
            except Exception as e:
                res.violation(case2, "after a second mutate the file does not decode in the encoding it was read in (%s)" % enc2, impl=core.exc_name(e)); w.close(); continue
            reqs.append({"op": "mutate.run", "input": outpath, "output": None, "backup": w.path(bak2) if bak2 else None, "tries": tr2,
                         "body": "returns", "problem": "none", "files": [w.path(n) for n in after]})
            metas.append((case2, out2, log2, {w.path(k): v for k, v in after.items()}, {w.path(k): v for k, v in after2.items()}, enc2, None, exit2[0], None))
            w.close()
    finally:
        shutil.rmtree(tmp, ignore_errors=True)
    # Codec.Law (decode(encode(c)) == c) for the four default codecs: a fact about CPython, reported, never a violation
    law = {}
    step = 1 if ctx.thorough else 23
    for enc in DEFAULT_ENCODINGS:
        bad = []; n = 0
        for cp in range(ctx.seed % step, 0x110000, step):
            if 0xD800 <= cp <= 0xDFFF: continue
            ch = chr(cp)
            try:
                b = ch.encode(enc)
            except UnicodeEncodeError:
                continue
            n += 1
            try:
                if b.decode(enc) != ch: bad.append("U+%04X" % cp)
            except UnicodeDecodeError:
                bad.append("U+%04X" % cp)
        law[enc] = {"encodable_code_points_checked": n, "violating": bad[:20], "exhaustive": step == 1}
    res.stats["codec_law"] = law
    resp = ctx.lean.eval_sharded(reqs)
    for (case, outcome, log, before, after, detected, entry, exit_, cfg), m in zip(metas, resp):
        if m["outcome"] != outcome or m["ops"] != log or m["detected"] != detected:
            res.tie_break("mutate.run (outcome and filesystem call script)", case, {"outcome": outcome, "log": log}, {"outcome": m["outcome"], "ops": m["ops"]}); continue
        # file map: which files are original / backup / output
        cls = {}
        for p, c in m["files"]: cls[p] = c
        for p in after:
            want = cls.get(p, "original")
            is_orig = before.get(p) == after[p]
            if (want == "original") != is_orig and not (want != "original" and is_orig):
                res.tie_break("mutate.run (file map)", dict(case, path=p), "changed" if not is_orig else "unchanged", want)
    for (case, after_files, detected), m in zip(dmetas, ctx.lean.eval_sharded(dreqs)):
        res.traces += 1; res.count("data_model_compared")
        got_fs = {p_: b_ for p_, b_ in m["fs"]}
        if m["outcome"] != "returned" or m["detected"] != detected or got_fs != after_files:
            diff = sorted(p_ for p_ in set(got_fs) | set(after_files) if got_fs.get(p_) != after_files.get(p_))
            res.tie_break("mutate.data (bytes of every file, detected encoding, outcome)", case,
                          {"outcome": "returned", "detected": detected, "files_differing": diff},
                          {"outcome": m["outcome"], "detected": m["detected"], "model_bytes": {p_: (got_fs.get(p_) or "")[:80] for p_ in diff[:2]}})
    res.assumptions = ["Python's codecs are the trusted base for what 'decodes' means; decode outcomes per tried encoding are inputs of the model",
                       "text-mode newline translation is not modelled: generated contents use LF only",
                       "io / PyFilesystem open-truncate-write-close semantics are trusted (call-granularity model)"]
    return res
