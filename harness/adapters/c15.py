"""C15 — split timing: chart timing is used all-or-nothing under one rule."""
import itertools
from decimal import Decimal, InvalidOperation
from fractions import Fraction
import core, gen, objs
from core import frac, unfrac

ELEVEN = ["BPMS", "STOPS", "DELAYS", "TIMESIGNATURES", "TICKCOUNTS", "COMBOS", "WARPS", "SPEEDS", "SCROLLS", "FAKES", "LABELS"]
VERSIONS = [None, "", "0.69", "0.7", "0.70", "0.83", "1.0"]
CHART_VALUE = {"BPMS": "0.000=200.000", "STOPS": "2.000=0.200", "DELAYS": "3.000=0.300", "WARPS": "4.000=0.500",
               "TIMESIGNATURES": "0.000=3=4", "TICKCOUNTS": "0.000=2", "COMBOS": "0.000=2", "SPEEDS": "0.000=2.000=0.000=0",
               "SCROLLS": "0.000=2.000", "FAKES": "1.000=1.000", "LABELS": "0.000=x"}
SIM_VALUE = {"BPMS": "0.000=100.000", "STOPS": "1.000=0.100", "DELAYS": "1.500=0.150", "WARPS": "8.000=0.250"}


def build(simkind, version, chartkind, states, sim_off, ch_off, sim_dbpm, ch_dbpm, with_values=True):
    from simfile.sm import SMSimfile, SMChart
    from simfile.ssc import SSCSimfile, SSCChart
    sim = (SMSimfile if simkind == "SM" else SSCSimfile)(string="")
    # an SM simfile may carry a VERSION key too (any key can be set); it never makes the chart the source
    if version is not None: sim["VERSION"] = version
    for k, v in SIM_VALUE.items(): sim[k] = v
    if sim_off is not None: sim["OFFSET"] = sim_off
    if sim_dbpm is not None: sim["DISPLAYBPM"] = sim_dbpm
    chart = None
    if chartkind == "SM":
        chart = SMChart.blank()
    elif chartkind == "SSC":
        chart = SSCChart.blank()
        for k, st in zip(ELEVEN, states):
            if st == 1: chart[k] = ""
            elif st == 2: chart[k] = CHART_VALUE[k]
        if ch_off is not None: chart["OFFSET"] = ch_off
        if ch_dbpm is not None: chart["DISPLAYBPM"] = ch_dbpm
    return sim, chart


def src(obj):
    if obj is None: return None
    return {"kind": type(obj).__name__, "d": [[k, v] for k, v in dict.items(obj)]}


def rule_uses_chart(simkind, version, chartkind, states):
    """the property's statement, evaluated directly"""
    if simkind != "SSC" or chartkind != "SSC": return False
    v = version if version else "0"
    return Decimal(v) >= Decimal("0.7") and any(s == 2 for s in states)


def rand_dbpm(rng):
    num = lambda: rng.choice(["120", "120.5", " 150 ", "-3", "+7.25", "1e2", "0.000", "175.000"])
    return rng.choice([num(), num() + ":" + num(), num() + ":" + num() + ":" + num(), "*", " * ", "abc", "", "12a:3", ":", "150:", num()])


def expected_display(dbpm, ignore, bpms_text):
    if dbpm is not None and not ignore:
        try:
            if dbpm == "*": return ["random"]
            if ":" in dbpm:
                a, _, b = dbpm.partition(":")
                return ["range", Fraction(Decimal(a)), Fraction(Decimal(b))]
            return ["static", Fraction(Decimal(dbpm))]
        except InvalidOperation:
            pass
    vals = [Fraction(Decimal(r.split("=")[1])) for r in bpms_text.split(",")]
    return ["static", vals[0]] if len(vals) == 1 else ["range", min(vals), max(vals)]


def run(ctx):
    from simfile.timing import TimingData
    from simfile.timing.displaybpm import displaybpm, StaticDisplayBPM, RangeDisplayBPM, RandomDisplayBPM
    rng = ctx.rng
    res = core.Result()
    configs = []
    # the eleven-property factor: all-absent, all-empty, every single trigger, every pair, random triples; the full 3^11 in the thorough tier
    pats = [tuple([0] * 11), tuple([1] * 11), tuple([2] * 11)]
    for i in range(11):
        for st in (1, 2):
            p = [0] * 11; p[i] = st; pats.append(tuple(p))
            p = [1] * 11; p[i] = 2; pats.append(tuple(p))
    for i, j in itertools.combinations(range(11), 2):
        for a, b in ((1, 2), (2, 1), (2, 2)):
            p = [0] * 11; p[i] = a; p[j] = b; pats.append(tuple(p))
    for _ in range(ctx.scale(60, 400)):
        pats.append(tuple(rng.choice([0, 1, 2]) for _ in range(11)))
    pats = list(dict.fromkeys(pats))
    for simkind in ("SM", "SSC"):
        for version in (VERSIONS if simkind == "SSC" else [None, "0.83", "1.0"]):
            for chartkind in (None, "SM", "SSC"):
                ps = pats if (simkind == "SSC" and chartkind == "SSC") else pats[:3]
                for st in ps:
                    configs.append((simkind, version, chartkind, st))
    res.stats["configs_rule"] = len(configs)
    res.rule = ("simfile kind x SSC version {absent, '', 0.69, 0.7, 0.70, 0.83, 1.0} x chart {none, SM, SSC} x the eleven chart "
                "timing properties {absent, empty, non-empty}: every single trigger, every pair, random patterns (quick) / all "
                "3^11 on the impl (thorough); sources carry disjoint marker values so that mixing is visible; OFFSET and "
                "DISPLAYBPM {absent, empty, value} on both sides x ignore_specified with random values per syntactic class. "
                "non-trivial: SSC simfile with an SSC chart; distinct by hash of the configuration")
    reqs, metas = [], []
    for (simkind, version, chartkind, st) in configs:
        sim_off = rng.choice([None, "", "-0.500", "1.250"]); ch_off = rng.choice([None, "", "0.750"])
        sim, chart = build(simkind, version, chartkind, st, sim_off, ch_off, None, None)
        case = {"sim": simkind, "version": version, "chart": chartkind, "eleven": "".join(map(str, st)), "sim_offset": sim_off, "chart_offset": ch_off}
        res.case(case, nontrivial=simkind == "SSC" and chartkind == "SSC")
        uses = rule_uses_chart(simkind, version, chartkind, st)
        res.count("chart_source" if uses else "simfile_source")
        try:
            td = TimingData(sim, chart)
            got = {k: [(Fraction(e.beat), Fraction(e.value)) for e in getattr(td, k)] for k in ("bpms", "stops", "delays", "warps")}
            got["offset"] = Fraction(td.offset)
        except Exception as e:
            res.violation(case, "TimingData raised", impl=core.exc_name(e)); continue
        source = chart if uses else sim
        def rows(text):
            return [] if not text else [(Fraction(Decimal(r.split("=")[0])), Fraction(Decimal(r.split("=")[1]))) for r in text.split(",")]
        exp = {"bpms": rows(source.get("BPMS")), "stops": rows(source.get("STOPS")), "delays": rows(source.get("DELAYS")),
               "warps": rows(source.get("WARPS")), "offset": Fraction(Decimal(source.get("OFFSET") or 0))}
        res.traces += 1
        if got != exp:
            res.violation(case, "timing data not taken wholly from the %s" % ("chart" if uses else "simfile"),
                          impl={k: str(v) for k, v in got.items()}, expected={k: str(v) for k, v in exp.items()}); continue
        reqs.append({"op": "source.timing_data", "sim": src(sim), "chart": src(chart)}); metas.append((case, got))
    if ctx.thorough:
        # the whole 3^11 factor on the impl against the rule (theorem C15.source_rule covers it for the model)
        n = 0
        for st in itertools.product((0, 1, 2), repeat=11):
            for version in ("0.7", "0.69", None):
                sim, chart = build("SSC", version, "SSC", st, None, None, None, None)
                td = TimingData(sim, chart)
                uses = rule_uses_chart("SSC", version, "SSC", st)
                n += 1
                got = [Fraction(e.value) for e in td.bpms]
                exp = ([Fraction(200)] if st[0] == 2 else []) if uses else [Fraction(100)]
                stops = [Fraction(e.value) for e in td.stops]
                exp_stops = ([Fraction(1, 5)] if st[1] == 2 else []) if uses else [Fraction(1, 10)]
                if got != exp or stops != exp_stops:
                    res.violation({"sim": "SSC", "version": version, "eleven": "".join(map(str, st))}, "source rule violated in the full 3^11 enumeration",
                                  impl=[str(got), str(stops)], expected=[str(exp), str(exp_stops)]); break
            else:
                continue
            break
        res.stats["full_3^11_x_3_versions"] = n; res.exhaustive = True
        res.evaluations += n
    resp = ctx.lean.eval_sharded(reqs)
    for (case, got), m in zip(metas, resp):
        if "ok" not in m:
            res.tie_break("source.timing_data", case, "ok", m); continue
        mm = m["ok"]
        ok = all(mm[k] is not None and [(unfrac(r[0]), Fraction(Decimal(r[1]))) for r in mm[k]] == got[k] for k in ("bpms", "stops", "delays", "warps")) \
            and mm["offset"] is not None and unfrac(mm["offset"]) == got["offset"]
        if not ok:
            res.tie_break("source.timing_data", case, {k: str(v) for k, v in got.items()}, mm)
    # displayed BPM ------------------------------------------------------------------------------------
    dreqs, dmetas = [], []
    for i in range(ctx.scale(600, 8000)):
        simkind = rng.choice(["SM", "SSC"]); version = rng.choice(VERSIONS) if simkind == "SSC" else rng.choice([None, None, "0.7", "0.83"])
        chartkind = rng.choice([None, "SSC", "SSC"])
        st = tuple(rng.choice([0, 0, 1, 2]) for _ in range(11))
        sim_d = rng.choice([None, "", rand_dbpm(rng)]); ch_d = rng.choice([None, "", rand_dbpm(rng)])
        ignore = rng.random() < .3
        sim, chart = build(simkind, version, chartkind, st, None, None, sim_d, ch_d)
        if rng.random() < .5: sim["BPMS"] = "0.000=100.000,4.000=%s,8.000=%s" % (rng.choice(["50", "250.5"]), rng.choice(["75", "300"]))
        # the displayed BPM reads BPMS alone: warps (and stops) lying over whole BPM segments of the chosen source change nothing
        if chart is not None and chart.get("BPMS") and rng.random() < .5:
            chart["BPMS"] = "0.000=200.000,4.000=%s,8.000=%s,9.000=%s" % (rng.choice(["960", "25.5"]), rng.choice(["150", "400"]), rng.choice(["200", "90"]))
        if rng.random() < .5:
            w = rng.choice(["4.000=4.000", "3.000=6.000", "0.000=9.000", "4.000=1.000,8.000=1.000", "8.000=2.000", "0.000=4.000"])
            sim["WARPS"] = w
            if chart is not None and chart.get("WARPS"): chart["WARPS"] = w
            if rng.random() < .3: sim["STOPS"] = "4.000=1.000,8.000=2.000"
        uses = rule_uses_chart(simkind, version, chartkind, st)
        source = chart if uses else sim
        if not source.get("BPMS"): continue      # the clause assumes a non-empty BPMS in the chosen source
        case = {"sim": simkind, "version": version, "chart": chartkind, "eleven": "".join(map(str, st)), "sim_displaybpm": sim_d,
                "chart_displaybpm": ch_d, "ignore": ignore, "bpms": source.get("BPMS")}
        res.case(case, nontrivial=source.get("DISPLAYBPM") is not None)
        try:
            r = displaybpm(sim, chart, ignore) if chart is not None else displaybpm(sim, ignore_specified=ignore)
            got = ["random"] if isinstance(r, RandomDisplayBPM) else (["static", Fraction(r.value)] if isinstance(r, StaticDisplayBPM) else ["range", Fraction(r.min), Fraction(r.max)])
        except Exception as e:
            res.violation(case, "displaybpm raised", impl=core.exc_name(e)); continue
        exp = expected_display(source.get("DISPLAYBPM"), ignore, source["BPMS"])
        res.traces += 1
        if got != exp:
            res.violation(case, "displayed BPM differs from the rule", impl=str(got), expected=str(exp)); continue
        # the three result classes present the same answer through value / min / max / range and str(): static = one number
        # (min = max = value, no range), range = (min, max) and no value, random = nothing but '*'
        try:
            view = [r.value, r.min, r.max, r.range, str(r)]
        except Exception as e:
            res.violation(case, "a view of the displayed BPM raised", impl=core.exc_name(e)); continue
        if got[0] == "static": ok_view = view[:4] == [r.value, r.value, r.value, None] and view[4] == str(round(r.value))
        elif got[0] == "range": ok_view = view[0] is None and view[3] == (r.min, r.max) and view[4] == "%s:%s" % (round(r.min), round(r.max))
        else: ok_view = view == [None, None, None, None, "*"]
        if not ok_view:
            res.violation(case, "value/min/max/range/str of the displayed BPM disagree with its kind", impl=str(view)); continue
        dreqs.append({"op": "source.displaybpm", "sim": src(sim), "chart": src(chart), "ignore": ignore}); dmetas.append((case, got))
    dresp = ctx.lean.eval_sharded(dreqs)
    for (case, got), m in zip(dmetas, dresp):
        mm = m.get("ok")
        if mm is None or [mm[0]] + [unfrac(x) for x in mm[1:]] != got:
            res.tie_break("source.displaybpm", case, str(got), str(m))
    # histories: the same simfile and chart objects are asked again after edits (the answer depends on their current content only)
    for h in range(ctx.scale(120, 1500)):
        version = rng.choice(VERSIONS)
        st = [rng.choice([0, 0, 1, 2]) for _ in range(11)]
        sim, chart = build("SSC", version, "SSC", tuple(st), None, None, None, None)
        hist = []
        for step in range(rng.randrange(2, 7)):
            uses = rule_uses_chart("SSC", version, "SSC", st)
            source = chart if uses else sim
            case = {"history": list(hist), "version": version, "eleven_now": "".join(map(str, st))}
            res.case(case, nontrivial=len(hist) > 0); res.traces += 1
            try:
                td = TimingData(sim, chart)
                got = [[str(e.beat), str(e.value)] for e in td.bpms], [[str(e.beat), str(e.value)] for e in td.stops]
                td2 = TimingData(*build("SSC", version, "SSC", tuple(st), None, None, None, None))
                exp = [[str(e.beat), str(e.value)] for e in td2.bpms], [[str(e.beat), str(e.value)] for e in td2.stops]
            except Exception as e:
                res.violation(case, "TimingData raised after edits to the same objects", impl=core.exc_name(e)); break
            if got != exp:
                res.violation(case, "after edits, the same objects give timing data that freshly built equal objects do not (source: %s)" % ("chart" if uses else "simfile"),
                              impl=str(got), expected=str(exp)); break
            if source.get("BPMS"):
                try:
                    r = displaybpm(sim, chart)
                    gd = ["static", Fraction(r.value)] if isinstance(r, StaticDisplayBPM) else ["other"]
                except Exception as e:
                    res.violation(case, "displaybpm raised after edits to the same objects", impl=core.exc_name(e)); break
                ed = expected_display(None, False, source["BPMS"])
                if gd != ed:
                    res.violation(case, "after edits, displayed BPM is not the chosen source's", impl=str(gd), expected=str(ed)); break
            # one edit
            if rng.random() < .15:
                version = rng.choice(VERSIONS)
                if version is None: sim.pop("VERSION", None)
                else: sim["VERSION"] = version
                hist.append(["version", version])
            else:
                i = rng.choice([j for j in range(11) if st[j] == 2] or list(range(11))) if rng.random() < .5 else rng.randrange(11)
                new = rng.choice([0, 1, 2]); st[i] = new
                if new == 0: chart.pop(ELEVEN[i], None)
                elif new == 1: chart[ELEVEN[i]] = ""
                else: chart[ELEVEN[i]] = CHART_VALUE[ELEVEN[i]]
                hist.append([ELEVEN[i], ["absent", "empty", "value"][new]])
    # the order of the calls does not matter: asking for the displayed BPM first leaves what TimingData reads untouched (the same
    # BPMS text, several entries not ascending in tempo, on the same and on freshly built objects)
    for h in range(ctx.scale(60, 600)):
        tempos = rng.sample(["120.000", "60.000", "240.500", "90.000", "180.000", "30.250"], rng.randrange(2, 5))
        text = ",".join("%d.000=%s" % (4 * j, t) for j, t in enumerate(tempos))
        version = rng.choice(["0.83", "0.7", None])
        sim, chart = build("SSC", version, "SSC", tuple([2] + [0] * 9 + [2]), None, None, None, None)
        chart["BPMS"] = text; sim["BPMS"] = text
        case = {"history": "displaybpm(...) then TimingData(...) on the same BPMS text", "bpms": text, "version": version}
        res.case(case, nontrivial=True); res.traces += 1
        try:
            displaybpm(sim, chart); displaybpm(sim)
            got = [[str(e.beat), str(e.value)] for e in TimingData(sim, chart).bpms], [[str(e.beat), str(e.value)] for e in TimingData(*build("SSC", version, None, tuple([0] * 11), None, None, None, None)[:1]).bpms]
        except Exception as e:
            res.violation(case, "displaybpm / TimingData raised", impl=core.exc_name(e)); continue
        exp = [["%d.000" % (4 * j), t] for j, t in enumerate(tempos)]
        sim2 = build("SSC", version, None, tuple([0] * 11), None, None, None, None)[0]; sim2["BPMS"] = text
        got2 = [[str(e.beat), str(e.value)] for e in TimingData(sim2).bpms]
        if got[0] != exp or got2 != exp:
            res.violation(case, "after the displayed BPM was asked for, TimingData no longer carries the BPMS of its source in the source's order",
                          impl=str(got[0] if got[0] != exp else got2), expected=str(exp)); continue
    res.assumptions = ["Python float() on version strings and Decimal() are CPython's; the model parses plain decimal literals (DESIGN 4.15 limits)"]
    return res
