"""Validation of the msdparser contract hypothesis (Model/Msd.lean: safeDoc ⇒ render/tokenize round trip).
It is about code outside the repo: a failure here is reported in the evidence, not as a violation of a repo property."""
import core, objs

ALPHA = ["a", "#", "\n", "\r", ":", ";", "\\", "/", " ", "b"]


def validate(ctx, res, n_quick=1500, n_thorough=40000):
    from msdparser import MSDParameter, parse_msd
    rng = ctx.rng
    docs = []
    for _ in range(ctx.scale(n_quick, n_thorough)):
        ps = []
        for _ in range(rng.randrange(1, 4)):
            comps = ["".join(rng.choice(ALPHA) for _ in range(rng.randrange(0, 5))) for _ in range(rng.randrange(1, 4))]
            if rng.random() < .7:
                comps[0] = rng.choice(["K", "A", "", "NOTES"])
            ps.append(comps)
        docs.append(ps)
    leads = [rng.random() < .3 for _ in docs]          # a line break in front of the first parameter
    safe = ctx.lean.eval_sharded([{"op": "msd.safe", "params": d, "lead_nl": l} for d, l in zip(docs, leads)])
    unsound, strict_gap, n_safe = [], 0, 0
    for d, s, lead in zip(docs, safe, leads):
        text = ("\n" if lead else "") + "".join(str(MSDParameter(tuple(c))) + "\n" for c in d)
        try:
            back = [list(p.components) for p in parse_msd(string=text)]
            rt = back == d
        except Exception:
            rt = False
        if s != objs.scan_safe(d, lead_nl=lead):
            res.tie_break("msd.safe (Lean safeDoc vs its Python transcription)", {"params": d, "lead_nl": lead}, objs.scan_safe(d, lead_nl=lead), s)
        if s:
            n_safe += 1
            if not rt: unsound.append(d)
        elif rt:
            strict_gap += 1
    # the Lean model of msdparser itself (Model/MsdParser.lean) against the real lexer/parser/serializer
    from msdparser import MSDParserError
    texts = []
    alpha = ALPHA + ["//", "\ufeff", "\t", "x", "\\:", "\\#"]
    for _ in range(ctx.scale(1500, 40000)):
        t = "".join(rng.choice(alpha) for _ in range(rng.randrange(0, 14)))
        n = len(t) - len(t.rstrip("\\"))
        if n % 2 == 1: t = t[:-1]          # texts ending in an unpaired backslash: excluded (lexer assertion, known finding)
        texts.append(t)
    texts += [objs.rand_text(rng) for _ in range(ctx.scale(150, 3000))]
    jobs = [(t, st) for t in texts for st in (True, False)]
    model = ctx.lean.eval_sharded([{"op": "msd.parse", "text": t, "strict": st} for t, st in jobs])
    bad_model = 0
    for (t, st), m in zip(jobs, model):
        ps = []
        try:
            for p in parse_msd(string=t, ignore_stray_text=not st): ps.append(list(p.components))
            real = {"params": ps, "tokerr": False}
        except MSDParserError:
            real = {"params": ps, "tokerr": True}
        except AssertionError:
            real = "AssertionError"
        if real != m:
            bad_model += 1
            res.tie_break("msd.parse (Lean model of msdparser vs the real msdparser)", {"text": t, "strict": st}, real, m)
    rend = ctx.lean.eval_sharded([{"op": "msd.render", "param": c} for d in docs[:400] for c in d])
    i = 0
    for d in docs[:400]:
        for c in d:
            if rend[i] != str(MSDParameter(tuple(c))):
                bad_model += 1
                res.tie_break("msd.render (Lean model vs MSDParameter.__str__)", {"param": c}, str(MSDParameter(tuple(c))), rend[i])
            i += 1
    res.stats["msdparser_model"] = {"texts_x_strict": len(jobs), "render_params": i, "disagreements": bad_model}
    res.stats["msd_contract"] = {"documents": len(docs), "judged_safe": n_safe, "safe_but_no_roundtrip": len(unsound),
                                 "unsafe_but_roundtrips(over-strict)": strict_gap, "examples_unsound": unsound[:3]}
    return not unsound
