"""C10 — ungrouping grouped notes restores the original note stream."""
from fractions import Fraction
import core, gen
from core import frac, unfrac
from adapters import c09


def impl_ungroup(groups, policy):
    from simfile.notes.group import ungroup_notes, OrphanedNotes, NoteWithTail
    from simfile.timing import Beat
    def mk(g):
        if g[0] == "n": return gen.mknote(g[1])
        n = gen.mknote(g[1])
        return NoteWithTail(beat=n.beat, column=n.column, note_type=n.note_type, tail_beat=Beat(unfrac(g[2])), player=n.player, keysound_index=n.keysound_index)
    try:
        return {"ok": [gen.jnote(n) for n in ungroup_notes([[mk(g) for g in grp] for grp in groups], orphaned_notes=OrphanedNotes[policy])]}
    except Exception as e:
        return {"err": core.exc_name(e)}


def run(ctx):
    rng = ctx.rng
    res0, jobs = c09.run(ctx, for_c10=True)
    res = core.Result()
    res.exhaustive = res0.exhaustive
    res.rule = ("C09's streams (tails without keysound index, heads may carry one) x same-beat modes x join x group policies x "
                "the three ungroup policies; hand-built grouped sequences with a note inside a hold; corpus charts. Compared: "
                "ungroup(group(stream)) with the surviving notes the spec names, and impl vs model on ungroup itself. "
                "non-trivial: grouping succeeded and the stream has a joined hold; distinct by hash")
    reqs, meta = [], []
    raised = []
    for kind, notes, o in jobs:
        notes = [[n[0], n[1], n[2], n[3], None if n[2] == "3" else n[4]] for n in notes]
        g = c09.impl_group(notes, o)
        if "ok" not in g:
            # grouping refused the stream: that is only right when the documented rules refuse it too (an orphan under a
            # RAISE policy) — asked of the Lean spec below
            res.count("group-raised"); raised.append((notes, o, g)); continue
        pol = rng.choice(c09.POLICIES)
        meta.append((notes, o, g["ok"], pol))
        reqs.append({"op": "group.ungroup", "groups": g["ok"], "policy": pol})
        reqs.append({"op": "spec.survivors", "notes": notes, "opts": o})
    resp = ctx.lean.eval_sharded(reqs, shards=16)
    rresp = ctx.lean.eval_sharded([{"op": "spec.group", "notes": n_, "opts": o_} for n_, o_, _ in raised[:4000]], shards=16)
    for (n_, o_, g_), sp in zip(raised, rresp):
        res.traces += 1
        if "ok" in sp:
            res.violation({"notes": n_[:80], "opts": o_}, "group_notes refused a stream the documented rules accept (so the round trip is lost)", impl=g_)
    for i, (notes, o, groups, pol) in enumerate(meta):
        model, surv = resp[2 * i], resp[2 * i + 1]
        impl = impl_ungroup(groups, pol)
        case = {"notes": notes[:80], "opts": o, "ungroup_policy": pol}
        joined = any(g[0] == "t" for grp in groups for g in grp)
        res.case(case, nontrivial=joined)
        res.traces += 1
        if "ok" not in impl:
            res.violation(case, "ungroup raised on the output of group_notes", impl=impl); continue
        if o["same_beat"] == "JOIN_BY_NOTE_TYPE":
            beats = [unfrac(n[0]) for n in impl["ok"]]
            if sorted(map(str, impl["ok"])) != sorted(map(str, surv)) or any(a > b for a, b in zip(beats, beats[1:])):
                res.violation(case, "per-type round trip: not the same notes with non-decreasing beats", impl=impl["ok"][:20], expect=surv[:20])
        elif impl["ok"] != surv:
            res.violation(case, "group/ungroup round trip does not restore the stream", impl=_fd(impl["ok"], surv))
        if impl != model:
            res.tie_break("group.ungroup", case, str(impl)[:400], str(model)[:400])
    # hand-built grouped sequences with a note inside a hold -------------------------------------------
    hreqs, hmeta = [], []
    for i in range(ctx.scale(200, 3000)):
        col = rng.randrange(0, 3)
        hb = Fraction(rng.randrange(0, 8)); tb = hb + rng.randrange(2, 6)
        head = [frac(hb), col, rng.choice("24"), 0, rng.choice([None, 4, 0])]
        seq = [["t", head, frac(tb)]]
        inside = []
        for _ in range(rng.randrange(1, 4)):
            b = hb + Fraction(rng.randrange(1, int(tb - hb) * 2), 2)
            if b >= tb: continue
            c = rng.choice([col, col, (col + 1) % 3])
            n = [frac(b), c, rng.choice("1ML"), 0, None]
            if n not in inside: inside.append(n)
        inside.sort(key=lambda n: (unfrac(n[0]), n[1]))
        after = [[frac(tb + 1), col, "1", 0, None]]
        groups = [[x] for x in seq] + [[["n", n]] for n in inside] + [[["n", n]] for n in after]
        if rng.random() < .35:
            # a joined hold/roll lying inside the joined hold on its own column (or on a neighbouring column)
            ib = hb + Fraction(1, 2); ie = ib + Fraction(1, 2)
            icol = rng.choice([col, col, (col + 1) % 3])
            nested = ["t", [frac(ib), icol, rng.choice("24"), 0, None], frac(ie)]
            if ie < tb and not any(unfrac(n[0]) in (ib, ie) and n[1] == icol for n in inside):
                items = sorted([["n", n] for n in inside] + [nested], key=lambda g: (unfrac(g[1][0]), g[1][1]))
                groups = [[x] for x in seq] + [[g] for g in items] + [[["n", n]] for n in after]
                hmeta_nested = (icol == col)
                pol = rng.choice(c09.POLICIES)
                hmeta.append((groups, pol, col, inside, head, tb, nested))
                hreqs.append({"op": "group.ungroup", "groups": groups, "policy": pol})
                continue
        pol = rng.choice(c09.POLICIES)
        hmeta.append((groups, pol, col, inside, head, tb, None))
        hreqs.append({"op": "group.ungroup", "groups": groups, "policy": pol})
    hresp = ctx.lean.eval_sharded(hreqs)
    for (groups, pol, col, inside, head, tb, nested), model in zip(hmeta, hresp):
        impl = impl_ungroup(groups, pol)
        case = {"groups": groups, "policy": pol}
        if nested is not None:
            # direct: every item lying inside the outer hold on its column follows the option; the nested hold's tail is still produced
            res.case(case, nontrivial=True); res.traces += 1
            split_plain = [n for n in inside if n[1] == col]
            nested_splits = nested[1][1] == col
            if (split_plain or nested_splits) and pol == "RAISE_EXCEPTION":
                ok = impl == {"err": "OrphanedNoteException"}
            else:
                keep = [n for n in inside if not (n[1] == col and pol == "DROP_ORPHAN")]
                nh = nested[1]; ntail = [nested[2], nh[1], "3", 0, None]
                heads = [] if (nested_splits and pol == "DROP_ORPHAN") else [nh]
                # a plain note lying inside the NESTED hold on its column is also a splitting note
                inner = [n for n in keep if n[1] == nh[1] and unfrac(nh[0]) < unfrac(n[0]) < unfrac(nested[2])]
                if inner and pol == "RAISE_EXCEPTION":
                    ok = impl == {"err": "OrphanedNoteException"}
                else:
                    if pol == "DROP_ORPHAN": keep = [n for n in keep if n not in inner]
                    exp = sorted([head[:2] + [head[2], 0, head[4]]] + keep + heads + [ntail, [frac(tb), col, "3", 0, None], [frac(tb + 1), col, "1", 0, None]],
                                 key=lambda n: (unfrac(n[0]), n[1]))
                    ok = impl.get("ok") == exp
            if not ok:
                res.violation(case, "a joined hold lying inside a joined hold is not handled as the option says", impl=impl)
            elif impl != model:
                res.tie_break("group.ungroup(nested hold)", case, impl, model)
            continue
        splitting = [n for n in inside if n[1] == col]
        res.case(case, nontrivial=bool(splitting)); res.traces += 1
        if splitting and pol == "RAISE_EXCEPTION":
            ok = impl == {"err": "OrphanedNoteException"}
        else:
            keep = [n for n in inside if not (n[1] == col and pol == "DROP_ORPHAN")]
            exp = sorted([head[:2] + [head[2], 0, head[4]]] + keep + [[frac(tb), col, "3", 0, None], [frac(tb + 1), col, "1", 0, None]],
                         key=lambda n: (unfrac(n[0]), n[1]))
            ok = impl.get("ok") == exp
        if not ok:
            res.violation(case, "note inside a joined hold not handled as the option says", impl=impl)
        elif impl != model:
            res.tie_break("group.ungroup(hand-built)", case, impl, model)
    res.assumptions = ["heapq with pairwise distinct positions is modelled as sorted insertion"]
    return res


def _fd(a, b):
    for i, (x, y) in enumerate(zip(a, b)):
        if x != y: return {"index": i, "impl": x, "expected": y}
    return {"len_impl": len(a), "len_expected": len(b)}
