"""C18 — attribute and key views of a simfile or chart never disagree."""
import itertools
from collections import OrderedDict
import core, gen, objs

SIX = ["STEPSTYPE", "DESCRIPTION", "DIFFICULTY", "METER", "RADARVALUES", "NOTES"]


def targets():
    from simfile.sm import SMSimfile, SMChart
    from simfile.ssc import SSCSimfile, SSCChart
    return [("SMSimfile", SMSimfile, "stops", "STOPS", "FREEZES"), ("SMSimfile", SMSimfile, "bgchanges", "BGCHANGES", "ANIMATIONS"),
            ("SSCSimfile", SSCSimfile, "bgchanges", "BGCHANGES", "ANIMATIONS"), ("SSCSimfile", SSCSimfile, "stops", "STOPS", "FREEZES"),
            ("SSCChart", SSCChart, "notes", "NOTES", "NOTES2"), ("SMChart", SMChart, "notes", "NOTES", "NOTES2")]


def alphabet(kind, attr, K, A):
    U, low = "FOO", K.lower()
    ops = [["getattr", attr], ["setattr", attr, "x"], ["setattr", attr, ""], ["delattr", attr], ["items"]]
    for k in (K, A, U, low):
        ops += [["getkey", k], ["setkey", k, "y"], ["setkey", k, ""], ["contains", k]]
    for k in (K, A, U):
        ops.append(["delkey", k])
    # the rest of the OrderedDict interface (outside the property's own alphabet; the model covers it as VOpX)
    ops += [["clear"], ["setdefault", K, "z"], ["setdefault", U, "z"], ["move_to_end", K, True], ["move_to_end", U, False]]
    if kind == "SMChart":
        ops += [["pop", K], ["popitem"], ["update", "FOO", "1"], ["update", K, "1"], ["setattr", "meter", "9"], ["getkey", "METER"]]
    return ops


def make(cls, kind, init):
    obj = cls()
    if kind == "SMChart":
        obj = cls.blank() if init != "empty" else cls()
        return obj
    for k, v in init:
        obj[k] = v
    return obj


def apply_impl(obj, op):
    """one operation on the real object -> canonical output"""
    try:
        t = op[0]
        if t == "getattr": return ["value", getattr(obj, op[1])]
        if t == "setattr": setattr(obj, op[1], op[2]); return ["done"]
        if t == "delattr": delattr(obj, op[1]); return ["done"]
        if t == "getkey": return ["value", obj[op[1]]]
        if t == "setkey": obj[op[1]] = op[2]; return ["done"]
        if t == "delkey": del obj[op[1]]; return ["done"]
        if t == "contains": return ["bool", op[1] in obj]
        if t == "items": return ["items", [[k, v] for k, v in obj.items()]]
        if t == "pop": return ["value", obj.pop(op[1], None)]
        if t == "popitem":
            k, v = obj.popitem(); return ["items", [[k, v]]]
        if t == "update": obj.update({op[1]: op[2]}); return ["done"]
        if t == "clear": obj.clear(); return ["done"]
        if t == "setdefault": return ["value", obj.setdefault(op[1], op[2])]
        if t == "move_to_end": obj.move_to_end(op[1], last=op[2]); return ["done"]
    except KeyError: return ["KeyError"]
    except NotImplementedError: return ["NotImplementedError"]
    except AttributeError: return ["AttributeError"]
    except Exception as e: return ["other:" + type(e).__name__]


def ref_step(kind, d, op, table):
    """the plain dictionary model the property speaks of (independent of the Lean model)"""
    t = op[0]
    def eff(attr):
        K, A = table[attr]
        return A if (K not in d and A is not None and A in d) else K
    sm = kind == "SMChart"
    if t == "getattr": return ["value", d.get(eff(op[1]))]
    if t == "setattr":
        k = eff(op[1])
        if sm and k not in SIX: return ["KeyError"]
        d[k] = op[2]; return ["done"]
    if t == "delattr":
        if sm: return ["NotImplementedError"]
        k = eff(op[1])
        if k not in d: return ["KeyError"]
        del d[k]; return ["done"]
    if t == "getkey":
        if sm:
            return ["value", d.get(op[1])] if op[1] in SIX else ["KeyError"]
        return ["value", d[op[1]]] if op[1] in d else ["KeyError"]
    if t == "setkey":
        if sm and op[1] not in SIX: return ["KeyError"]
        d[op[1]] = op[2]; return ["done"]
    if t == "delkey":
        if sm: return ["NotImplementedError"]
        if op[1] not in d: return ["KeyError"]
        del d[op[1]]; return ["done"]
    if t == "contains": return ["bool", op[1] in d]
    if t == "items": return ["items", [[k, v] for k, v in d.items()]]
    if sm and t in ("pop", "popitem", "update", "clear"): return ["NotImplementedError"]
    if t == "clear": d.clear(); return ["done"]
    if t == "setdefault":
        if op[1] in d:
            return (["value", d.get(op[1])] if op[1] in SIX else ["KeyError"]) if sm else ["value", d[op[1]]]
        if sm and op[1] not in SIX: return ["KeyError"]
        d[op[1]] = op[2]; return ["value", op[2]]
    if t == "move_to_end":
        if op[1] not in d: return ["KeyError"]
        d.move_to_end(op[1], last=op[2]); return ["done"]
    if t == "pop": return ["value", d.pop(op[1], None)]
    if t == "popitem":
        if not d: return ["KeyError"]
        k, v = d.popitem(); return ["items", [[k, v]]]
    if t == "update": d[op[1]] = op[2]; return ["done"]


def run(ctx):
    rng = ctx.rng
    res = core.Result()
    depth = 3 if ctx.thorough or ctx.widen else 2
    res.rule = ("all operation sequences of length %d over the alphabet {get/set/del via attribute; get/set/contains via standard "
                "key, alias key, unrelated key and the lower-case spelling; del via the first three; items} x values {'x'/'y', ''} "
                "from 5 initial mappings (empty, key, alias, key+alias, alias+key), per object kind and aliased property "
                "(SM stops/FREEZES, bgchanges/ANIMATIONS on both simfile kinds, SSC notes/NOTES2, SM chart six fields with "
                "pop/popitem/update) + random histories up to 200 operations over all known properties; each history is run on a "
                "real object, on a plain dictionary model (direct) and on the Lean model (tie). non-trivial: the history writes or "
                "deletes; distinct by hash" % depth)
    histories = []
    for kind, cls, attr, K, A in targets():
        ops = alphabet(kind, attr, K, A)
        inits = [("empty", [])] if kind == "SMChart" else []
        inits += [("blank", "blank")] if kind == "SMChart" else [("empty", []), ("key", [(K, "k")]), ("alias", [(A, "a")]),
                                                                  ("key+alias", [(K, "k"), (A, "a")]), ("alias+key", [(A, "a"), (K, "k")])]
        for iname, init in inits:
            for d in range(1, depth + 1):
                seqs = itertools.product(ops, repeat=d)
                if d == depth and not (ctx.thorough or ctx.widen) and depth == 2:
                    pass
                for seq in seqs:
                    histories.append((kind, cls, iname, init, list(seq)))
    # random longer histories over all known properties
    for _ in range(ctx.scale(150, 2000)):
        kind, cls, attr, K, A = rng.choice(targets())
        table = attr_table(cls)
        attrs = list(table)
        seq = []
        for _ in range(rng.choice([10, 40, 200])):
            a = rng.choice(attrs); Kk, Aa = table[a]
            k = rng.choice([Kk, Kk, Aa or Kk, "FOO", Kk.lower()])
            seq.append(rng.choice([["getattr", a], ["setattr", a, rng.choice(["v", ""])], ["delattr", a], ["getkey", k], ["setkey", k, rng.choice(["w", ""])],
                                   ["delkey", k], ["contains", k], ["items"], ["pop", k], ["update", k, "u"],
                                   ["setdefault", k, "s"], ["move_to_end", k, rng.random() < .5]] + ([["clear"]] if rng.random() < .1 else [])))
        histories.append((kind, cls, "blank-random", "blankobj", seq))
    # re-insertion histories: every known property of a blank simfile is deleted and set again (it then comes last in the
    # mapping, and serialization follows the mapping's order), also an unrelated key that another format knows
    for kind, cls, attr, K, A in targets():
        if not kind.endswith("Simfile") or attr != "bgchanges": continue
        table = attr_table(cls)
        for a, (Kk, Aa) in table.items():
            histories.append((kind, cls, "blank-reinsert", "blankobj", [["delattr", a], ["setattr", a, "x"], ["items"]]))
            histories.append((kind, cls, "blank-reinsert", "blankobj", [["pop", Kk], ["setkey", Kk, "y"], ["items"]]))
        for foreign in ("VERSION", "FOO", "NOTEDATA2"):
            histories.append((kind, cls, "blank-reinsert", "blankobj", [["setkey", foreign, "0.83"], ["items"]]))
    reqs, metas = [], []
    eqreqs, eqmetas, eq_budget = [], [], ctx.scale(3000, 30000)
    for kind, cls, iname, init, seq in histories:
        if init == "blankobj":
            obj = cls.blank() if hasattr(cls, "blank") else cls()
        elif kind == "SMChart":
            obj = cls() if iname == "empty" else cls.blank()
        else:
            obj = cls()
            for k, v in init: obj[k] = v
        start = [[k, dict.__getitem__(obj, k)] for k in OrderedDict.__iter__(obj)]
        table = attr_table(cls)
        ref = OrderedDict((k, v) for k, v in start)
        outs, refouts = [], []
        for op in seq:
            outs.append(apply_impl(obj, op))
            refouts.append(ref_step(kind, ref, op, table))
        final = [[k, dict.__getitem__(obj, k)] for k in OrderedDict.__iter__(obj)]
        case = {"kind": kind, "init": start if len(start) < 8 else iname, "ops": seq if len(seq) <= 12 else seq[:12] + ["…%d more" % (len(seq) - 12)]}
        res.case(case, nontrivial=any(o[0] in ("setattr", "setkey", "delattr", "delkey", "pop", "popitem", "update", "clear", "setdefault", "move_to_end") for o in seq))
        res.traces += 1; res.count("kind_" + kind)
        if outs != refouts or final != [[k, v] for k, v in ref.items()]:
            i = next((i for i, (a, b) in enumerate(zip(outs, refouts)) if a != b), None)
            res.violation(dict(case, ops=seq[:(i + 1) if i is not None else len(seq)][-12:]), "attribute/key views disagree with the dictionary model",
                          step=i, impl=str(outs[i] if i is not None else final)[:300], expected=str(refouts[i] if i is not None else list(ref.items()))[:300])
            continue
        moved = any(o[0] == "move_to_end" for o in seq)      # move_to_end reorders the mapping (it removes and adds nothing)
        if kind == "SMChart" and iname != "empty" and ((sorted(k for k, _ in final) != sorted(SIX)) if moved else ([k for k, _ in final] != SIX)):
            res.violation(case, "SM chart no longer exposes exactly its six fields", impl=[k for k, _ in final]); continue
        if kind == "SMChart" and iname != "empty" and all(isinstance(v, str) and not any(ch in v for ch in ":;\\/#") for _, v in final):
            # the serialized chart shows the six fields in the documented order, whatever the order of the mapping
            fd = dict((k, v) for k, v in final)
            exp = "#NOTES:" + "".join("\n     %s:" % fd[k] for k in SIX[:5]) + "\n%s\n;" % fd["NOTES"]
            res.count("smchart_serialization_checked")
            if str(obj) != exp:
                res.violation(case, "the serialized SM chart does not show the six fields in the documented order", impl=str(obj)[:200], expected=exp[:200]); continue
        # equality and serialization see exactly the mapping's content
        if kind != "SMChart" and hasattr(cls, "blank") and len(seq) <= 3 and kind.endswith("Simfile"):
            other = cls()
            for k, v in final: other[k] = v
            other.charts = []
            try:
                obj.charts
            except AttributeError:
                obj.charts = []
            if not (obj == other) or str(obj) != str(other):
                res.violation(case, "equality / serialization do not see exactly the mapping's content"); continue
        if kind != "SMChart" and all(isinstance(v, str) for _, v in final):
            # ... and nothing less: a mapping with one more item at the end, without its last item, with one value changed, or with
            # two neighbouring items exchanged is a different mapping, so the objects compare unequal (== False, != True, both ways)
            variants = [("one more item at the end", final + [["ZZEXTRA", ""]]), ("one more alias item at the end", final + [["ZZEXTRA2", "v"]])]
            if final:
                variants.append(("last item removed", final[:-1]))
                j = rng.randrange(len(final))
                variants.append(("one value changed", final[:j] + [[final[j][0], final[j][1] + "~"]] + final[j + 1:]))
                variants.append(("first item removed", final[1:]))
            if len(final) > 1:
                j = rng.randrange(len(final) - 1)
                variants.append(("two neighbouring items exchanged", final[:j] + [final[j + 1], final[j]] + final[j + 2:]))
            bad = None
            for what, items in variants:
                o2 = cls()
                for k, v in items: dict.__setitem__(o2, k, v) if False else OrderedDict.__setitem__(o2, k, v)
                if kind.endswith("Simfile"):
                    o2.charts = []
                    try: obj.charts
                    except AttributeError: obj.charts = []
                try:
                    verdicts = [obj == o2, o2 == obj, not (obj != o2), not (o2 != obj)]
                except Exception as e:
                    verdicts = [core.exc_name(e)]
                if len(eqreqs) < eq_budget and rng.random() < .2:
                    # tie: the model's step-by-step __eq__ (Model/Equality.lean) on the same pair, and on the object against itself
                    enc = lambda its: [[k, v] for k, v in its]
                    eqreqs.append({"op": "views.eq", "kind": kind if kind.endswith("Simfile") else "plain", "a": enc(final), "b": enc(items)})
                    eqmetas.append((case, what, verdicts[0]))
                    eqreqs.append({"op": "views.eq", "kind": kind if kind.endswith("Simfile") else "plain", "a": enc(final), "b": enc(final)})
                    eqmetas.append((case, "the same mapping", True))
                if verdicts != [False] * 4:
                    bad = (what, items, verdicts); break
            res.count("inequality_checked")
            if bad:
                res.violation(case, "objects whose mappings differ (%s) do not compare unequal" % bad[0], impl=str(bad[2]), other=str(bad[1])[:300]); continue
        if kind.endswith("Simfile") and all(k == k.upper() and k.strip() == k for k, _ in final) and all(isinstance(v, str) for _, v in final):
            # serialization sees exactly the mapping's content, in the mapping's order: the text parses back to the same item list
            try:
                obj.charts
            except AttributeError:
                obj.charts = []
            try:
                back = [[k, v] for k, v in cls(string=str(obj)).items()]
            except Exception as e:
                back = core.exc_name(e)
            res.count("serialization_order_checked")
            if back != final:
                res.violation(case, "the serialization does not parse back to the mapping's items in the mapping's order", impl=str(back)[:300], expected=str(final)[:300]); continue
        if kind == "SSCChart" and all(k == k.upper() and k.strip() == k and k != "NOTEDATA" for k, _ in final) \
                and all(isinstance(v, str) and not any(ch in v for ch in "#/\\") for _, v in final) \
                and ("NOTES" in dict(final) or "NOTES2" in dict(final)):
            # an SSC chart's serialization shows exactly its mapping: every item, the note data (NOTES, or NOTES2 when only the
            # alias is stored) written last *under its own key*
            nk = "NOTES2" if ("NOTES" not in dict(final) and "NOTES2" in dict(final)) else "NOTES"
            try:
                back = [[k, v] for k, v in cls.from_str(str(obj)).items()]
            except Exception as e:
                back = core.exc_name(e)
            exp_items = [[k, v] for k, v in final if k != nk] + [[nk, dict(final)[nk]]]
            res.count("sscchart_serialization_checked")
            if "NOTES" in dict(final) and "NOTES2" in dict(final):
                # from_str stops at the first NOTES/NOTES2 parameter; the simfile loader reads the whole chart
                try:
                    from simfile.ssc import SSCSimfile
                    back = [[k, v] for k, v in SSCSimfile(string=str(obj)).charts[0].items()]
                except Exception as e:
                    back = core.exc_name(e)
            if back != exp_items:
                res.violation(case, "the serialized SSC chart does not parse back to the mapping's items (note data last, under its own key)",
                              impl=str(back)[:300], expected=str(exp_items)[:300]); continue
        reqs.append({"op": "views.run", "kind": kind, "d": start, "ops": seq}); metas.append((case, outs, final))
    resp = ctx.lean.eval_sharded(reqs, shards=16)
    for (case, outs, final), m in zip(metas, resp):
        if m["outs"] != outs or m["d"] != final:
            res.tie_break("views.run", case, str(outs)[-300:], str(m["outs"])[-300:])
    for (case, what, impl_eq), m in zip(eqmetas, ctx.lean.eval_sharded(eqreqs, shards=16)):
        if m != impl_eq:
            res.tie_break("views.eq", dict(case, other=what), impl_eq, m)
    res.stats["equality_pairs_tied"] = len(eqreqs)
    res.stats["histories"] = len(histories); res.stats["depth"] = depth
    res.assumptions = ["OrderedDict is CPython's; the model is an association list with the same update/append/delete rules"]
    return res


_TABLES = {}


DOCUMENTED_ALIASES = {("SMSimfile", "stops"): "FREEZES", ("SMSimfile", "bgchanges"): "ANIMATIONS",
                      ("SSCSimfile", "bgchanges"): "ANIMATIONS", ("SSCChart", "notes"): "NOTES2"}


def attr_table(cls):
    """attr -> (key, alias): the standard key is read from the class (closure cells of item_property); the alias is the
    DOCUMENTED one (FREEZES for SM stops, ANIMATIONS for background changes, NOTES2 for SSC note data) and nothing else,
    so that a changed alias table in the code shows up as a disagreement with the dictionary model"""
    if cls not in _TABLES:
        import gen_tables
        _TABLES[cls] = {a: (k, DOCUMENTED_ALIASES.get((cls.__name__, a))) for a, k, al in gen_tables.item_props(cls)}
    return _TABLES[cls]
