"""C08 — notes written to note data read back identically, in canonical form."""
from fractions import Fraction
import core, gen
from core import frac, unfrac
from math import gcd


def impl_encode(notes, cols, history=0):
    from simfile.notes import NoteData
    try:
        nd = NoteData.from_notes([gen.mknote(j) for j in notes], cols)
        out = {"ok": str(nd), "cols": nd.columns, "back": [gen.jnote(n) for n in nd]}
        # the stream is any iterable of notes: a one-shot iterator, a generator and a tuple give the same text as the list
        out["as_iterator"] = str(NoteData.from_notes(iter([gen.mknote(j) for j in notes]), cols))
        out["as_generator"] = str(NoteData.from_notes((gen.mknote(j) for j in notes), cols))
        out["as_tuple"] = str(NoteData.from_notes(tuple(gen.mknote(j) for j in notes), cols))
        if history:
            # a history on the written object: peek at the first notes, then read everything, then rebuild from the object itself
            nd2 = NoteData.from_notes([gen.mknote(j) for j in notes], cols)
            it = iter(nd2)
            for _ in range(history):
                next(it, None)
            del it
            out["after_partial"] = [gen.jnote(n) for n in nd2]
            out["rebuilt"] = str(NoteData.from_notes(nd2, nd2.columns))
            out["copy"] = [gen.jnote(n) for n in NoteData(nd2)]
        return out
    except Exception as e:
        return {"err": core.exc_name(e)}


def canonical_ok(text, notes, cols):
    """the 'every measure present, skipped ones blank, minimal row count' clause, recomputed independently"""
    players = text.split("&\n") if text else [""]
    maxp = max([n[3] for n in notes], default=0)
    if len(players) != maxp + 1: return "player sections: %d, expected %d" % (len(players), maxp + 1)
    for p, sec in enumerate(players):
        mine = [n for n in notes if n[3] == p]
        last = max([int(unfrac(n[0]) // 4) for n in mine], default=0)
        ms = sec.split(",\n")
        if len(ms) != last + 1: return "player %d: %d measures, expected %d" % (p, len(ms), last + 1)
        for m, mt in enumerate(ms):
            here = [n for n in mine if int(unfrac(n[0]) // 4) == m]
            q = 1
            for n in here:
                d = unfrac(n[0]).denominator
                q = q * d // gcd(q, d)
            rows = mt.split("\n")
            if rows[-1] != "": return "measure does not end with a newline"
            rows = rows[:-1]
            if len(rows) != 4 * q: return "player %d measure %d: %d rows, expected %d" % (p, m, len(rows), 4 * q)
    return None


def run(ctx):
    rng = ctx.rng
    res = core.Result()
    res.rule = ("position-sorted streams (players subset of {0,1,2} with gaps, beats k/d with d from the usual grids and random "
                "<= 1000, skipped measures, all types, keysounds) + the empty stream + notes of corpus charts and of C07-style "
                "charts; compared: from_notes text, its columns, iterating it back, canonical shape, second-pass stability. "
                "non-trivial: >= 2 notes with different denominators or a skipped measure/player; distinct by hash")
    cases = [(4, [])]
    for i in range(ctx.scale(400, 6000)):
        players = rng.choice([(0,), (0,), (0, 1), (1,), (0, 2), (0, 1, 2), (2,)])
        denoms = rng.choice([[1, 2, 4], [1, 2, 3, 4, 6, 8, 12, 16, 48], [1, 3, 5, 7], [4, 96, 192], [rng.randrange(1, 1000), 4, 1]])
        cols, notes = gen.note_stream(rng, cols=rng.randrange(1, 17), players=players, max_beat=rng.choice([4, 8, 24]),
                                      n=rng.choice([1, 2, 5, 12, 30]), denoms=denoms)
        cases.append((cols, notes))
    # notes of decorated charts and of the corpus
    charts = [gen.dchart(rng, max_measures=3, big_rows=False) for _ in range(ctx.scale(60, 600))]
    specs = ctx.lean.eval_sharded([{"op": "spec.notes_of", "chart": c} for c in charts])
    for s in specs:
        if s["wf"]: cases.append((s["cols"], s["notes"]))
    from simfile.notes import NoteData
    for p, i, t in gen.corpus_charts():
        nd = NoteData(t)
        cases.append((nd.columns, [gen.jnote(n) for n in nd]))
    models = ctx.lean.eval_sharded([{"op": "notes.encode", "notes": ns, "cols": c} for c, ns in cases])
    for (cols, notes), model in zip(cases, models):
        case = {"cols": cols, "notes": notes if len(notes) <= 60 else notes[:60] + ["... %d more" % (len(notes) - 60)]}
        dens = {unfrac(n[0]).denominator for n in notes}
        res.case(case, nontrivial=len(notes) >= 2 and (len(dens) > 1 or len({n[3] for n in notes}) > 1))
        res.traces += 1
        impl = impl_encode(notes, cols, history=rng.choice([0, 1, 1, 2, 4]))
        if "ok" not in impl:
            res.violation(case, "from_notes raised on a valid stream", impl=impl); continue
        if "after_partial" in impl:
            res.count("object_histories")
            if impl["after_partial"] != notes or impl["copy"] != notes:
                res.violation(case, "reading the written note data again after a partial read gives different notes",
                              impl=_first_diff(impl["after_partial"], notes)); continue
            if impl["rebuilt"] != impl["ok"]:
                res.violation(case, "rebuilding from the note data object after a partial read changes the text"); continue
        shapes = [k for k in ("as_iterator", "as_generator", "as_tuple") if impl.get(k) != impl["ok"]]
        if shapes:
            res.violation(dict(case, stream_given=shapes[0]), "the same notes given as another kind of iterable are written differently",
                          impl=str(impl.get(shapes[0]))[:300], expected=impl["ok"][:300]); continue
        if impl["back"] != notes:
            res.violation(case, "notes do not read back identically", impl=_first_diff(impl["back"], notes)); continue
        if impl["cols"] != cols:
            res.violation(case, "column count differs", impl=impl["cols"]); continue
        why = canonical_ok(impl["ok"], notes, cols)
        if why:
            res.violation(case, "not canonical: " + why, text=impl["ok"][:400]); continue
        # the stream may be a NoteData object itself (it is an iterable of notes), also one whose own text is not canonical:
        # every row followed by a blank row, a blank measure appended - the same notes, so the same canonical text comes out
        blank = "0" * cols + "\n"
        loose = "&\n".join(",\n".join("".join(r + "\n" + blank for r in m.split("\n")[:-1]) for m in sec.split(",\n")) for sec in impl["ok"].split("&\n"))
        loose += ",\n" + blank * 4
        try:
            nd3 = NoteData(loose)
            if [gen.jnote(n) for n in nd3] == notes:
                res.count("noncanonical_object_as_stream")
                via_obj = str(NoteData.from_notes(nd3, cols))
                if via_obj != impl["ok"]:
                    res.violation(dict(case, stream="a NoteData object whose text has doubled rows and a trailing blank measure"),
                                  "from_notes of a note data object is not the canonical text of its notes", impl=via_obj[:300], expected=impl["ok"][:300]); continue
        except Exception as e:
            res.violation(case, "from_notes of a note data object raised", impl=core.exc_name(e)); continue
        again = impl_encode(impl["back"], impl["cols"])
        if again.get("ok") != impl["ok"]:
            res.violation(case, "re-encoding the decoded notes changes the text")
        if model.get("ok") != impl["ok"]:
            res.tie_break("notes.encode", case, impl["ok"][:300], str(model)[:300])
    res.stats["empty_stream"] = impl_encode([], 4).get("ok")
    if impl_encode([], 4).get("ok") != "0000\n0000\n0000\n0000\n":
        res.violation({"cols": 4, "notes": []}, "empty stream does not give one blank measure", impl=impl_encode([], 4))
    res.assumptions = ["math.gcd / itertools.groupby semantics are modelled (lcm, maximal runs)"]
    return res


def _first_diff(a, b):
    for i, (x, y) in enumerate(zip(a, b)):
        if x != y: return {"index": i, "impl": x, "expected": y}
    return {"len_impl": len(a), "len_expected": len(b)}
