"""C11 — beat -> time matches the exact timeline for all event interleavings (also serves C12/C13 generators)."""
import itertools, math, os
from decimal import Decimal
from fractions import Fraction
import core, gen
from core import frac, unfrac

TOL = 1e-9
GRID = [Fraction(0), Fraction(1, 2), Fraction(1), Fraction(3, 2), Fraction(2), Fraction(3)]
KINDS = ["bpms", "stops", "delays", "warps"]
LENS = {"bpms": [Decimal(60), Decimal(240)], "stops": [Decimal("0.5"), Decimal(1)], "delays": [Decimal("0.25"), Decimal(1)],
        "warps": [Decimal("0.5"), Decimal("1.5")]}


def grid_timings(thorough, seed, widen=False):
    """all placements of up to four events on the small grid (exhaustive in the thorough tier)"""
    opts = [(k, b) for k in KINDS for b in GRID if not (k == "bpms" and b == 0)]
    out = []
    idx = 0
    for n in range(0, 5):
        # thorough: every placement of up to three events, and every 12th placement of four (the full 4-event grid
        # takes ~45 min per property; it can be requested with VERIF_FULL_GRID=1)
        if thorough:
            step = 1 if (n <= 3 or os.environ.get("VERIF_FULL_GRID") == "1") else 12
        else:
            step = 211 if not widen else 37
        for combo in itertools.combinations(opts, n):
            for lens in itertools.product((0, 1), repeat=n):
                idx += 1
                if idx % step != seed % step: continue
                td = {"bpms": [(Fraction(0), Decimal(120))], "stops": [], "delays": [], "warps": [], "offset": Decimal(0)}
                for (k, b), li in zip(combo, lens):
                    td[k].append((b, LENS[k][li]))
                for k in KINDS: td[k].sort()
                out.append(td)
    return out, idx


def probes_for(td, rng, n_random=12, hi=None):
    from simfile.timing import Beat
    pts = set()
    for k in KINDS:
        for b, v in td[k]:
            pts.add(b)
            if k == "warps": pts.add(b + Fraction(Beat(v)))
    tick = Fraction(1, 48)
    around = set()
    for p in pts:
        around |= {p - tick, p, p + tick}
    hi = hi or (max(pts) + 2 if pts else 4)
    for _ in range(n_random):
        around.add(Fraction(rng.randrange(-96, int(hi * 48) + 96), 48))
        around.add(Fraction(rng.randrange(-1000, int(hi * 1000) + 1000), 1000))
    return sorted(around)


def corpus_timings():
    import simfile
    out = []
    for p in gen.corpus_files():
        try:
            sf = simfile.open(p)
            out.append((p + "#song", gen.td_from_simfile(sf)))
            for i, c in enumerate(sf.charts):
                out.append((p + "#chart%d" % i, gen.td_from_simfile(sf, c)))
        except Exception:
            pass
    return [(n, td) for n, td in out if gen.td_in_domain(td)]


def build_cases(ctx, res):
    rng = ctx.rng
    tds = []
    g, total = grid_timings(ctx.thorough, ctx.seed, ctx.widen)
    res.stats["grid_total"] = total; res.stats["grid_used"] = len(g)
    res.exhaustive = ctx.thorough and os.environ.get("VERIF_FULL_GRID") == "1"
    tds += [("grid", td) for td in g]
    k = 0
    while k < ctx.scale(150, 3000):
        zero = rng.random() < .35
        td = gen.timing(rng, small=rng.random() < .5, zero=zero)
        if zero: res.count("timing_data_with_zero_lengths_allowed")
        if gen.td_in_domain(td, zero_ok=True):
            tds.append(("random", td)); k += 1
    tds += [("corpus:" + n, td) for n, td in corpus_timings()]
    return tds


def engine(td):
    from simfile.timing.engine import TimingEngine
    return TimingEngine(gen.td_impl(td))


def run(ctx):
    from simfile.timing import Beat
    from simfile.timing.engine import EventTag
    rng = ctx.rng
    res = core.Result()
    tag_order = [t.name for t in sorted(EventTag, key=int)]
    tds = build_cases(ctx, res)
    res.rule = ("timing data: placements of <= 4 events on the grid {0,.5,1,1.5,2,3} x 2 lengths (%d of %d%s), random data with up "
                "to 12 events per kind (coincidences forced: pauses at warp start/inside/end, BPM changes in warps, events at 0), "
                "corpus simfiles (thorough: all placements of <= 3 events, every 12th of the 4-event ones unless VERIF_FULL_GRID=1); probes: every event beat and warp end, +-1 tick, random on/off-grid and negative beats, x 7 tags. "
                "impl float vs the property's exact rational timeline (|d| <= 1e-9 s) and vs the Lean model; monotonicity, offset "
                "shift and redundant-BPM insertion on the impl. non-trivial: >= 2 events of different kinds; distinct by hash of "
                "the timing data" % (res.stats["grid_used"], res.stats["grid_total"], ", exhaustive" if ctx.thorough else ""))
    reqs, metas = [], []
    for kind, td in tds:
        pr = probes_for(td, rng, n_random=4 if kind == "grid" else 14)
        if len(pr) > 60: pr = sorted(rng.sample(pr, 60))
        plist = [["time_at", frac(b), t] for b in pr for t in gen.TAGS] + [["bpm_at", frac(b), "BPM"] for b in pr]
        # Lean spec on a few small beats (validates the Python transcription of the spec)
        small = [b for b in pr if b <= 8][:3]
        plist += [["spec_time", frac(b), t] for b in small for t in ("STOP", "DELAY_END", "WARP")]
        # the proved float-error bound (Props/C11Float.time_error, u = 2^-53) for every probed beat under two tags
        plist += [["err_time", frac(b), t] for b in pr for t in ("STOP", "STOP_END")]
        reqs.append({"op": "engine.probe", "td": gen.td_json(td), "probes": plist})
        metas.append((kind, td, pr, small))
    resp = ctx.lean.eval_sharded(reqs, shards=16)
    for (kind, td, pr, small), out in zip(metas, resp):
        case = {"kind": kind, "td": gen.td_show(td)}
        nkinds = sum(1 for k in KINDS if len(td[k]) > (1 if k == "bpms" else 0))
        res.case(case, nontrivial=nkinds >= 2)
        res.count("kind_" + kind.split(":")[0])
        try:
            e = engine(td)
        except Exception as ex:
            res.violation(case, "TimingEngine raised on timing data inside the domain", impl=core.exc_name(ex)); continue
        spec = gen.TimeSpec(td, tag_order)
        i = 0
        bad = None
        times = {}
        for b in pr:
            for t in gen.TAGS:
                model = unfrac(out[i]); i += 1
                try:
                    got = float(e.time_at(Beat(b), EventTag[t]))
                except Exception as ex:
                    bad = ("time_at raised", str(b), t, core.exc_name(ex)); break
                times[(b, t)] = got
                exp = spec.time(b, t)
                res.traces += 1
                if abs(got - float(exp)) > TOL:
                    bad = ("time_at differs from the exact timeline", str(b), t, got, float(exp)); break
                if abs(got - float(model)) > TOL:
                    res.tie_break("engine.time_at", dict(case, beat=str(b), tag=t), got, float(model))
            if bad: break
        if bad:
            res.violation(case, bad[0], beat=bad[1], tag=bad[2], impl=bad[3], spec=bad[4] if len(bad) > 4 else None); continue
        for b in pr:
            model = unfrac(out[i]); i += 1
            got = Fraction(e.bpm_at(Beat(b)))
            exp = spec.bpm_on(b) if b >= 0 else spec.bpms[0][1]
            if got != exp:
                res.violation(case, "bpm_at is not the last BPM change at or before the beat", beat=str(b), impl=str(got), spec=str(exp)); break
            if got != model:
                res.tie_break("engine.bpm_at", dict(case, beat=str(b)), str(got), str(model))
        for b in small:
            for t in ("STOP", "DELAY_END", "WARP"):
                lean_spec = unfrac(out[i]); i += 1
                if lean_spec != spec.time(b, t):
                    res.tie_break("spec.time (Lean spec vs its Python transcription)", dict(case, beat=str(b), tag=t), str(spec.time(b, t)), str(lean_spec))
        # the float engine stays within the proved bound of the exact timeline (C11F.time_error): the impl's double is an
        # exact rational, so this comparison is exact
        for b in pr:
            for t in ("STOP", "STOP_END"):
                bound = unfrac(out[i]); i += 1
                dev = abs(Fraction(times[(b, t)]) - spec.time(b, t))
                res.count("float_bound_checked")
                if bound > 0:
                    res.stats["float_max_deviation_over_bound"] = max(res.stats.get("float_max_deviation_over_bound", 0.0), float(dev / bound))
                    res.stats["float_max_bound_s"] = max(res.stats.get("float_max_bound_s", 0.0), float(bound))
                if dev > bound: res.count("float_above_proved_bound")
                # the bound is proved for the operation order of today's expression; an algebraically equal expression with another
                # order of the same roundings can exceed it by a small factor, a real loss of precision exceeds it by orders of
                # magnitude: the correspondence is called broken beyond four times the bound (still ~1e-11 s, far inside 1e-9 s)
                if dev > 4 * bound:
                    res.tie_break("engine.float_bound (impl deviates from the exact timeline by more than 4 x errTimeAt)",
                                  dict(case, beat=str(b), tag=t), float(dev), float(bound))
        # monotone in (beat, tag)
        order = sorted(times, key=lambda k: (k[0], tag_order.index(k[1])))
        for a, b2 in zip(order, order[1:]):
            if times[b2] < times[a] - TOL:
                res.violation(case, "time decreases as (beat, tag) increases", at=[str(a), str(b2)], impl=[times[a], times[b2]]); break
        # offset shift
        d = Decimal(rng.randrange(-5000, 5000)) / 1000
        td2 = dict(td); td2["offset"] = td["offset"] + d
        e2 = engine(td2)
        for (b, t) in order[:: max(1, len(order) // 25)]:
            if abs(float(e2.time_at(Beat(b), EventTag[t])) - (times[(b, t)] - float(d))) > TOL:
                res.violation(case, "changing the offset by d does not change every time by -d", d=str(d), beat=str(b), tag=t); break
        # redundant BPM change
        xs = [Fraction(rng.randrange(1, 48 * 4), 48) for _ in range(3)]
        td3 = dict(td); td3["bpms"] = list(td["bpms"])
        for x in xs:
            if all(b != x for b, _ in td3["bpms"]):
                cur = [v for b, v in sorted(td3["bpms"]) if b <= x][-1]
                td3["bpms"].append((x, cur)); td3["bpms"].sort()
        e3 = engine(td3)
        for (b, t) in order[:: max(1, len(order) // 25)]:
            if abs(float(e3.time_at(Beat(b), EventTag[t])) - times[(b, t)]) > TOL or e3.bpm_at(Beat(b)) != e.bpm_at(Beat(b)):
                res.violation(case, "inserting a BPM change that repeats the BPM in force changes an answer", inserted=[str(x) for x in xs], beat=str(b), tag=t); break
    # from the text of a simfile: the declared timing (BPMS / STOPS or the legacy FREEZES key / DELAYS / WARPS / OFFSET, at song
    # level or in an SSC chart of a split-timing version) -> loads -> TimingData -> TimingEngine, against the exact timeline of the
    # *declared* values (so that a loader or an alias that loses an event list is visible)
    import simfile as _sf
    from simfile.timing import TimingData
    from simfile.timing.engine import TimingEngine
    def bv(l): return ",\n".join("%.3f=%s" % (float(b), v) for b, v in l)
    n_text = 0
    for kind, td in tds:
        if n_text >= ctx.scale(60, 600): break
        if kind == "grid" and rng.random() < .8: continue
        if any((Fraction(b) * 1000).denominator != 1 for k in KINDS for b, _ in td[k]): continue      # beats must survive the 3-decimal text
        if any((Fraction(str(v)) * 1000).denominator != 1 for k in ("warps",) for _, v in td[k]): continue
        n_text += 1
        form = rng.choice(["sm-stops", "sm-freezes", "sm-freezes", "ssc-song", "ssc-chart"])
        if form.startswith("sm"):
            td = dict(td, delays=[], warps=[])               # the SM format has neither
            if not td["stops"]: td["stops"] = [(Fraction(rng.randrange(0, 192), 48), Decimal(rng.randrange(1, 4000)) / 1000)]
        body = "#OFFSET:%s;\n#BPMS:%s;\n" % (td["offset"], bv(td["bpms"]))
        if form == "sm-freezes": body += "#FREEZES:%s;\n" % bv(td["stops"])
        else: body += "#STOPS:%s;\n" % bv(td["stops"])
        if not form.startswith("sm"): body += "#DELAYS:%s;\n#WARPS:%s;\n" % (bv(td["delays"]), bv(td["warps"]))
        notes = "0000\n0000\n0000\n0000\n"
        if form.startswith("sm"):
            text = "#TITLE:t;\n" + body + "#NOTES:\n dance-single:\n :\n Easy:\n 1:\n :\n" + notes + ";\n"
        elif form == "ssc-song":
            text = "#VERSION:0.83;\n#TITLE:t;\n" + body + "#NOTEDATA:;\n#STEPSTYPE:dance-single;\n#NOTES:\n" + notes + ";\n"
        else:
            text = "#VERSION:0.83;\n#TITLE:t;\n#OFFSET:9.000;\n#BPMS:0.000=77.000;\n#STOPS:1.000=3.000;\n#NOTEDATA:;\n#STEPSTYPE:dance-single;\n" + body + "#NOTES:\n" + notes + ";\n"
        case = {"from_text": form, "td": gen.td_show(td)}
        res.case(case); res.count("from_text_" + form)
        try:
            sfo = _sf.loads(text)
            e = TimingEngine(TimingData(sfo, sfo.charts[0]) if form == "ssc-chart" else TimingData(sfo))
        except Exception as ex:
            res.violation(case, "loading the declared timing raised", impl=core.exc_name(ex), text=text[:400]); continue
        spec = gen.TimeSpec(td, tag_order)
        for b in probes_for(td, rng, n_random=3)[::2]:
            for t in ("STOP", "STOP_END", "WARP"):
                got = float(e.time_at(Beat(b), EventTag[t])); exp = spec.time(b, t)
                res.traces += 1
                if abs(got - float(exp)) > TOL:
                    res.violation(case, "time_at of the engine built from the simfile text differs from the exact timeline of the declared timing",
                                  beat=str(b), tag=t, impl=got, spec=float(exp), text=text[:400]); break
            else: continue
            break
    res.assumptions = ["IEEE-754 arithmetic: Model/EngineF.lean makes every rounding of time_until/advance/time_at explicit and C11F.time_error bounds |time_atF - time_at| by errTimeAt under the standard model (u = 2^-53); the impl's doubles are checked against that bound exactly on every run (stats float_*), and against the exact timeline within 1e-9 s",
                       "heapq.merge / bisect are modelled (merge of sorted lists, Python's bisect loop verbatim)"]
    return res
