"""C13 — hittability and note timing follow the warp rules exactly."""
from fractions import Fraction
import core, gen
from core import frac, unfrac
from adapters import c11

TOL = 1e-9
OPTS = ["TAP_TO_FAKE", "DROP_NOTE", "KEEP_NOTE"]


def run(ctx):
    from simfile.timing import Beat
    from simfile.timing.engine import EventTag
    from simfile.notes import NoteData
    from simfile.notes.timed import time_notes, UnhittableNotes
    rng = ctx.rng
    res = core.Result()
    tag_order = [t.name for t in sorted(EventTag, key=int)]
    tds = c11.build_cases(ctx, res)
    res.rule = ("C11's timing data; hittable on every tick from one tick before the first event to one after the last warp end "
                "(capped), impl vs the warp rule vs the Lean model; time_notes over generated note data (routine and keysounded) "
                "and corpus charts x 3 options: same order, same fields, fakes differ in type only. non-trivial: a warp with a "
                "pause or note inside; distinct by hash")
    reqs, metas = [], []
    charts = gen.corpus_charts()
    for kind, td in tds:
        pts = [b for k in c11.KINDS for b, _ in td[k]] + [b + Fraction(Beat(v)) for b, v in td["warps"]]
        lo = max(Fraction(0), min(pts) - Fraction(1, 24)) if pts else Fraction(0)
        hi = min(max(pts) + Fraction(1, 24), lo + 12) if pts else Fraction(1)
        ticks = [lo + Fraction(k, 48) for k in range(int((hi - lo) * 48) + 1)]
        if len(ticks) > 150: ticks = sorted(rng.sample(ticks, 150))
        ticks += [Fraction(rng.randrange(0, 3000), 1000) for _ in range(3)]
        pl = [["hittable", frac(b), "STOP"] for b in ticks]
        reqs.append({"op": "engine.probe", "td": gen.td_json(td), "probes": pl})
        # notes
        if kind.startswith("corpus") or rng.random() < .25:
            text = rng.choice(charts)[2] if rng.random() < .3 else None
            if text is None:
                ch = gen.dchart(rng, max_cols=6, max_players=3, max_measures=3, density=.3, big_rows=False)
                text = None; chart = ch
            else:
                chart = None
            opt = rng.choice(OPTS)
            metas.append((kind, td, ticks, (text, chart, opt)))
        else:
            metas.append((kind, td, ticks, None))
    # render the generated charts
    rend_idx = [i for i, m in enumerate(metas) if m[3] and m[3][1] is not None]
    rend = ctx.lean.eval_sharded([{"op": "spec.render", "chart": metas[i][3][1]} for i in rend_idx])
    for i, t in zip(rend_idx, rend):
        k, td, ticks, (_, chart, opt) = metas[i]
        metas[i] = (k, td, ticks, (t, None, opt))
    nreqs, nidx, sreqs, sidx = [], [], [], []
    for i, (kind, td, ticks, nt) in enumerate(metas):
        if nt:
            try:
                notes = [gen.jnote(n) for n in NoteData(nt[0])]
            except Exception:
                notes = []
            nreqs.append({"op": "engine.time_notes", "td": gen.td_json(td), "opt": nt[2], "notes": notes}); nidx.append(i)
            small = [n for n in notes if unfrac(n[0]) <= 12][:40]
            if small and len(sreqs) < ctx.scale(60, 600):
                sreqs.append({"op": "spec.time_notes", "td": gen.td_json(td), "opt": nt[2], "notes": small}); sidx.append((i, small))
                nreqs.append({"op": "engine.time_notes", "td": gen.td_json(td), "opt": nt[2], "notes": small}); nidx.append(("small", i))
    resp = ctx.lean.eval_sharded(reqs, shards=16)
    nresp = dict(zip(nidx, ctx.lean.eval_sharded(nreqs, shards=16)))
    for i, ((kind, td, ticks, nt), out) in enumerate(zip(metas, resp)):
        case = {"kind": kind, "td": gen.td_show(td)}
        res.case(case, nontrivial=bool(td["warps"]))
        try:
            e = c11.engine(td)
        except Exception as ex:
            res.violation(case, "TimingEngine raised", impl=core.exc_name(ex)); continue
        spec = gen.TimeSpec(td, tag_order)
        for b, m in zip(ticks, out):
            try:
                got = bool(e.hittable(Beat(b)))
            except Exception as ex:
                res.violation(case, "hittable raised", beat=str(b), impl=core.exc_name(ex)); break
            res.traces += 1
            if got != spec.hittable(b):
                res.violation(case, "hittable differs from 'inside the warp union and no stop/delay on that beat'", beat=str(b), impl=got); break
            if got != m:
                res.tie_break("engine.hittable", dict(case, beat=str(b)), got, m)
        if nt:
            text, _, opt = nt
            nd = NoteData(text)
            src = list(nd)
            try:
                got = list(time_notes(nd, gen.td_impl(td), UnhittableNotes[opt]))
            except Exception as ex:
                res.violation(case, "time_notes raised", impl=core.exc_name(ex)); continue
            ms = nresp[i]
            exp = []
            for n in src:
                t = float(spec.time(Fraction(n.beat), "STOP"))
                if spec.hittable(Fraction(n.beat)) or opt == "KEEP_NOTE":
                    exp.append((t, gen.jnote(n)))
                elif opt == "TAP_TO_FAKE" and n.note_type.value == "1":
                    j = gen.jnote(n); j[2] = "F"; exp.append((t, j))
            gj = [(float(t.time), gen.jnote(t.note)) for t in got]
            res.count("notes_timed", len(src)); res.count("unhittable", len(src) - sum(1 for n in src if spec.hittable(Fraction(n.beat))))
            res.case({"time_notes": case, "opt": opt, "notes": len(src)}, nontrivial=any(not spec.hittable(Fraction(n.beat)) for n in src))
            if [g[1] for g in gj] != [x[1] for x in exp] or any(abs(a[0] - b[0]) > TOL for a, b in zip(gj, exp)):
                res.violation(dict(case, opt=opt, text=text[:300]), "time_notes output differs from the rule (order, fields, fakes differ in type only)",
                              impl=str(gj[:6]), expect=str(exp[:6]))
            else:
                mm = [(float(unfrac(t)), n) for t, n in ms]
                if [g[1] for g in gj] != [x[1] for x in mm] or any(abs(a[0] - b[0]) > TOL for a, b in zip(gj, mm)):
                    res.tie_break("engine.time_notes", dict(case, opt=opt), str(gj[:6]), str(mm[:6]))
    # end to end: the text of a simfile → loads → TimingData(simfile, chart) → time_notes, against the composed Lean models
    import simfile as _sf
    e2e_jobs = []
    for path in gen.corpus_files():
        with open(path, encoding="utf-8", newline="") as fh:
            text = fh.read()
        try:
            sfo = _sf.loads(text)
        except Exception:
            continue
        if len(text) > 40000 and not ctx.thorough:
            continue                      # the 100 kB corpus file is left to the thorough tier
        cis = list(range(len(sfo.charts)))
        if not ctx.thorough: cis = cis[:3]
        for ci in cis:
            e2e_jobs.append((path, text, ci, rng.choice(OPTS)))
    # generated SSC texts with split timing, warps around pauses and routine / keysounded charts
    for _ in range(ctx.scale(25, 300)):
        td = gen.timing(rng, small=True, max_beat=8)
        if not gen.td_in_domain(td): continue
        from simfile.timing import Beat as _Beat
        fmt = lambda l: ",\n".join("%s=%s" % (_Beat(b), v) for b, v in l)
        sh = {"bpms": fmt(td["bpms"]), "stops": fmt(td["stops"]), "delays": fmt(td["delays"]), "warps": fmt(td["warps"]), "offset": str(td["offset"])}
        ch = gen.dchart(rng, max_cols=4, max_players=2, max_measures=2, density=.3, big_rows=False, deco=False)
        e2e_jobs.append(("generated", (sh, ch), 0, rng.choice(OPTS)))
    rendered = ctx.lean.eval_sharded([{"op": "spec.render", "chart": j[1][1]} for j in e2e_jobs if j[0] == "generated"])
    ri = 0; ereqs = []; emeta = []
    for path, payload, ci, opt in e2e_jobs:
        if path == "generated":
            sh, _ = payload; notes_text = rendered[ri]; ri += 1
            chart_timing = rng.random() < .5
            head = "#VERSION:0.83;\n#TITLE:g;\n#OFFSET:%s;\n#BPMS:%s;\n#STOPS:%s;\n#DELAYS:%s;\n#WARPS:%s;\n" % (
                sh["offset"], sh["bpms"], sh["stops"], sh["delays"], sh["warps"])
            chart = "#NOTEDATA:;\n#STEPSTYPE:dance-single;\n" + ("#BPMS:0.000=150.000;\n#OFFSET:0.250;\n" if chart_timing else "") + "#NOTES:\n" + notes_text + ";\n"
            text = head + chart
        else:
            text = payload
        try:
            sfo = _sf.loads(text)
            c = sfo.charts[ci]
            from simfile.timing import TimingData
            got = [(float(t.time), gen.jnote(t.note)) for t in time_notes(NoteData(c), TimingData(sfo, c), UnhittableNotes[opt])]
        except Exception as ex:
            got = core.exc_name(ex)
        ereqs.append({"op": "e2e.time_notes", "text": text, "chart": ci, "opt": opt}); emeta.append((path, ci, opt, got, text))
    eresp = ctx.lean.eval_sharded(ereqs, shards=16)
    for (path, ci, opt, got, text), m in zip(emeta, eresp):
        res.count("e2e_text_to_timed_notes")
        case = {"e2e": path, "chart": ci, "opt": opt, "text": text if len(text) < 1500 else text[:600] + "…"}
        if isinstance(got, str):
            if "ok" in m:
                res.tie_break("e2e.time_notes (impl raised, composed model did not)", case, got, "ok")
            continue
        if "ok" not in m:
            res.tie_break("e2e.time_notes (composed model failed: %s)" % m.get("err"), case, "ok", m); continue
        mm = [(float(unfrac(t)), n) for t, n in m["ok"]]
        if [g[1] for g in got] != [x[1] for x in mm] or any(abs(a[0] - b[0]) > TOL for a, b in zip(got, mm)):
            res.tie_break("e2e.time_notes (text → loads → TimingData → time_notes, composed Lean models)", case, str(got[:4]), str(mm[:4]))
    sresp = ctx.lean.eval_sharded(sreqs, shards=16)
    for (i, small), sp in zip(sidx, sresp):
        if nresp[("small", i)] != sp:
            res.tie_break("engine.time_notes: Lean model vs Lean spec", {"td": gen.td_show(metas[i][1]), "notes": small[:10]}, "model", "spec")
        res.count("lean_model_vs_spec_time_notes")
    res.assumptions = ["float arithmetic not modelled (times compared within 1e-9 s)"]
    return res
