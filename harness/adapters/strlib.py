"""Correspondence of Model/Str.lean (Python string routines on List Char) with CPython's str methods.
These routines are part of the trusted base of several properties (C01-C04, C07, C08, C14, C15, C19, C20); the stream
runs inside the checks that rely on them. A disagreement is a tie break of the check that ran it."""
import itertools

SPACES = [chr(c) for c in list(range(9, 14)) + list(range(28, 33)) + [0x85, 0xA0, 0x1680] + list(range(0x2000, 0x200B)) + [0x2028, 0x2029, 0x202F, 0x205F, 0x3000]]
BREAKS = ["\n", "\r", "\x0b", "\x0c", "\x1c", "\x1d", "\x1e", "\x85", " ", " "]
ALPHA = ["a", "B", "z", "0", ":", ";", "#", "=", ",", ".", "/", "\\", "&", "[", "]", " ", "\t", "\n", "\r", "\x0b", "\x1c", "\x1f", "\x85", "\xa0", " ",
         " ", "　", "漢", "か", "😀", "_", "-"]


def validate(ctx, res, routines=("split", "strip", "splitlines", "upper", "lower", "partition", "rpartition", "join", "endswith")):
    rng = ctx.rng
    strings = [""]
    # exhaustive small cases: every pair of the 29 space characters around a letter (strip), every pair of line boundaries (splitlines)
    if "strip" in routines:
        for a in SPACES:
            for b in SPACES:
                strings.append(a + "x" + b)
        strings += [a + b for a in SPACES for b in SPACES[:6]]
    if "splitlines" in routines:
        for a, b in itertools.product(BREAKS, repeat=2):
            strings += ["p" + a + b + "q", a + b, "p" + a + "q" + b]
    for _ in range(ctx.scale(600, 8000)):
        strings.append("".join(rng.choice(ALPHA) for _ in range(rng.randrange(0, 12))))
    reqs, exp = [], []
    for s in strings:
        if "strip" in routines: reqs.append({"op": "str.strip", "s": s}); exp.append(("strip", s, s.strip()))
        if "splitlines" in routines: reqs.append({"op": "str.splitlines", "s": s}); exp.append(("splitlines", s, s.splitlines()))
        if "upper" in routines and all(ord(c) < 128 or c.upper() == c for c in s): reqs.append({"op": "str.upper", "s": s}); exp.append(("upper", s, s.upper()))
        if "lower" in routines and all(ord(c) < 128 or c.lower() == c for c in s): reqs.append({"op": "str.lower", "s": s}); exp.append(("lower", s, s.lower()))
        for sep in (":", ",", "=", "&", "."):
            if "split" in routines and rng.random() < .4: reqs.append({"op": "str.split", "s": s, "sep": sep}); exp.append(("split " + sep, s, s.split(sep)))
            if "partition" in routines and rng.random() < .2:
                a, m, b = s.partition(sep); reqs.append({"op": "str.partition", "s": s, "sep": sep}); exp.append(("partition " + sep, s, [a, m == sep, b]))
            if "rpartition" in routines and rng.random() < .2:
                a, m, b = s.rpartition(sep); reqs.append({"op": "str.rpartition", "s": s, "sep": sep}); exp.append(("rpartition " + sep, s, [a, m == sep, b]))
        if "endswith" in routines and rng.random() < .3:
            p = rng.choice([".sm", ".ssc", "bn", "-cd", s[-2:], ""]); reqs.append({"op": "str.endswith", "s": s, "p": p}); exp.append(("endswith " + p, s, s.endswith(p)))
    if "join" in routines:
        for _ in range(ctx.scale(150, 2000)):
            parts = ["".join(rng.choice(ALPHA) for _ in range(rng.randrange(0, 4))) for _ in range(rng.randrange(0, 5))]
            sep = rng.choice([":", ",\n", "", "&\n"])
            reqs.append({"op": "str.join", "sep": sep, "parts": parts}); exp.append(("join", parts, sep.join(parts)))
    out = ctx.lean.eval_sharded(reqs)
    bad = 0
    for (what, arg, e), m in zip(exp, out):
        if m != e:
            bad += 1
            res.tie_break("strlib." + what.split()[0] + " (Model/Str.lean vs CPython)", {"routine": what, "arg": arg}, e, m)
    res.stats["strlib"] = {"routines": list(routines), "calls_compared": len(reqs), "disagreements": bad}
