#!/bin/bash
# Runs the repo's pinned suite (guard off) and prints failing test ids, ignoring the known-flaky one.
cd /repo && /venv/bin/python -m pytest -q -p no:cacheprovider -rf --timeout=900 2>&1 | grep -E "^FAILED|^ERROR|passed|failed" | grep -v "test_predefined_assets" 
