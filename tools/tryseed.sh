#!/bin/bash
# tools/tryseed.sh <seeded-name> <pid> [tier]: apply a stored seeded change to /repo, run one check, undo
cd "$(dirname "$0")/.."
git -C /repo apply "$PWD/seeded/$1/patch.diff" || exit 2
./check "$2" --tier "${3:-quick}" 2>&1 | grep -v conda | grep "VIOLATION\|OK\|FAILED" | cut -c1-260
git -C /repo apply -R "$PWD/seeded/$1/patch.diff" 2>/dev/null; git -C /repo checkout -- . ; git -C /repo status --short | head -3
