#!/bin/bash
# tools/wave8.sh <pid> [...]: validate and try the eighth-wave seeded change delivered in /tmp/mut8/<pid>, store as seeded/<pid>h
cd "$(dirname "$0")/.."
for p in "$@"; do
  /venv/bin/python tools/seedtest.py ${p}h $p --src=/tmp/mut8/$p 2>&1 | grep -v conda | cut -c1-700
done
