#!/bin/bash
# usage: tools/sweep.sh <tier> <seed> [<seed> ...]   — runs every check on the current tree, prints one line per run
cd "$(dirname "$0")/.."
tier=$1; shift
./check --setup > /dev/null 2>&1 || echo "SETUP FAILED"
for seed in "$@"; do
  for i in $(seq -w 1 20); do
    p=C$i
    s=$(date +%s)
    out=$(VERIF_SEED=$seed timeout 7200 ./check $p --tier $tier 2>&1); rc=$?
    echo "seed=$seed $p rc=$rc $(( $(date +%s) - s ))s :: $(echo "$out" | grep -E "VIOLATION|INFRA" | head -2 | tr '\n' ' ') $(echo "$out" | tail -1)"
  done
done
