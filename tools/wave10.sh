#!/bin/bash
# tools/wave10.sh <pid> [...]: validate and try the tenth-wave seeded change delivered in /tmp/mut10/<pid>, store as seeded/<pid>j
cd "$(dirname "$0")/.."
for p in "$@"; do
  /venv/bin/python tools/seedtest.py ${p}j $p --src=/tmp/mut10/$p 2>&1 | grep -v conda | cut -c1-700
done
