#!/venv/bin/python
"""tools/codetie.py [patch.diff ...]: for each patch, apply it to a scratch worktree of /repo, run the code translator and the
generated-code tie for every property, print one line per function that is not 'proved', undo. Without arguments: current /repo."""
import json, os, subprocess, sys
sys.path.insert(0, os.path.join(os.path.dirname(os.path.abspath(__file__)), "..", "harness"))
W = "/tmp/codetie-repo"


def run(label):
    import importlib, core
    importlib.reload(core)
    seen, lines = set(), []
    for pid in ["C%02d" % i for i in range(1, 21)]:
        ct = core.code_tie(pid, 1)
        for f in ct["functions"]:
            if f["lean"] in seen: continue
            seen.add(f["lean"])
            if not f["status"].startswith("proved"):
                lines.append("  %-28s %s %s" % (f["lean"].split(".")[-1], f["status"], (f.get("input") or f.get("reason") or "")[:200]))
    print("%s: %d functions, %d not proved" % (label, len(seen), len(lines)))
    print("\n".join(lines))


if len(sys.argv) == 1:
    run("/repo")
else:
    subprocess.run("git -C /repo worktree remove --force %s 2>/dev/null; rm -rf %s; git -C /repo worktree add -q --detach %s HEAD" % (W, W, W), shell=True)
    os.environ["VERIF_REPO"] = W
    for p in sys.argv[1:]:
        r = subprocess.run("git -C %s checkout -q -- . && git -C %s apply %s" % (W, W, os.path.abspath(p)), shell=True, stderr=subprocess.DEVNULL)
        if r.returncode != 0:
            print("%s: does not apply to HEAD" % p); continue
        run(p)
    subprocess.run("git -C /repo worktree remove --force %s; rm -rf %s" % (W, W), shell=True)
    del os.environ["VERIF_REPO"]
    subprocess.run(["/venv/bin/python", os.path.join(os.path.dirname(os.path.abspath(__file__)), "..", "harness", "gen_code.py")], stdout=subprocess.DEVNULL)
