#!/bin/bash
# tools/wave5.sh <pid> [...]: validate and try the seventh-wave seeded change delivered in /tmp/mut7/<pid>, store as seeded/<pid>f
cd "$(dirname "$0")/.."
for p in "$@"; do
  /venv/bin/python tools/seedtest.py ${p}g $p --src=/tmp/mut7/$p 2>&1 | grep -v conda | cut -c1-700
done
