#!/usr/bin/env python3
"""Validates a seeded change delivered in /tmp/mut/<name> (patch.diff, demo.py, meta.json) and runs the checks against it.

 1. in a fresh scratch worktree of /repo: demo passes on HEAD, patch applies, pinned suite passes, demo fails with the patch;
 2. stores it as /verif/seeded/<name>/;
 3. applies the patch to /repo, runs the given checks (quick tier), records verdicts in meta.json, reverts /repo.
usage: seedtest.py <name> <property id> [more property ids ...] [--src DIR]
"""
import json, os, shutil, subprocess, sys, time

V = "/verif"


def sh(cmd, cwd=None, env=None, timeout=3600):
    e = dict(os.environ); e.update(env or {})
    p = subprocess.run(cmd, shell=True, cwd=cwd, env=e, stdout=subprocess.PIPE, stderr=subprocess.STDOUT, timeout=timeout)
    return p.returncode, "\n".join(l for l in p.stdout.decode("utf-8", "replace").split("\n") if "conda.cli.condarc" not in l)


def main():
    args = [a for a in sys.argv[1:] if not a.startswith("--")]
    name, pids = args[0], args[1:]
    src = "/tmp/mut/" + name
    for a in sys.argv[1:]:
        if a.startswith("--src="): src = a[6:]
    dst = os.path.join(V, "seeded", name)
    os.makedirs(dst, exist_ok=True)
    for f in ("patch.diff", "demo.py", "meta.json"):
        if os.path.abspath(src) != os.path.abspath(dst):
            shutil.copy(os.path.join(src, f), os.path.join(dst, f))
    meta = json.load(open(os.path.join(dst, "meta.json")))
    val = "/tmp/val-" + name
    sh("git -C /repo worktree remove --force %s" % val); shutil.rmtree(val, ignore_errors=True)
    rc, out = sh("git -C /repo worktree add -q --detach %s HEAD" % val)
    report = {"validated_at": time.strftime("%Y-%m-%d %H:%M:%S")}
    try:
        env = {"PYTHONPATH": val}
        rc0, o0 = sh("/venv/bin/python %s/demo.py" % dst, cwd=val, env=env)
        rca, oa = sh("git apply %s/patch.diff" % dst, cwd=val)
        rcs, os_ = sh("/venv/bin/python -m pytest -q -p no:cacheprovider -rf 2>&1 | grep -E '^FAILED|passed|failed' | grep -v test_predefined_assets", cwd=val, env=env)
        rc1, o1 = sh("/venv/bin/python %s/demo.py" % dst, cwd=val, env=env)
        failed = [l for l in os_.split("\n") if l.startswith("FAILED")]
        report.update({"demo_on_head_exit": rc0, "patch_applies": rca == 0, "suite_failures_with_patch": failed, "suite_summary": os_.strip().split("\n")[-1],
                       "demo_with_patch_exit": rc1, "demo_with_patch_output": o1[-400:]})
        ok = rc0 == 0 and rca == 0 and not failed and rc1 == 1
        report["valid"] = ok
    finally:
        sh("git -C /repo worktree remove --force %s" % val); shutil.rmtree(val, ignore_errors=True)
    print("validation:", json.dumps(report)[:600])
    if report.get("valid"):
        rc, out = sh("git -C /repo status --short")
        if out.strip():
            print("refusing: /repo is dirty:", out); return 2
        rc, out = sh("git -C /repo apply %s/patch.diff" % dst)
        verdicts = {}
        try:
            for pid in pids:
                t0 = time.time()
                rc, out = sh("./check %s --tier quick" % pid, cwd=V, timeout=3000)
                vline = [l for l in out.split("\n") if l.startswith("VIOLATION")]
                verdicts[pid] = {"exit": rc, "violation_line": vline[0] if vline else None, "seconds": round(time.time() - t0, 1),
                                 "last": out.strip().split("\n")[-1][:300]}
                rp = vline[0].split("replay=")[1].split()[0] if vline else None
                if rp and os.path.exists(os.path.join(V, rp)):
                    r = json.load(open(os.path.join(V, rp)))
                    verdicts[pid]["replay_kind"] = r.get("kind")
                    v = r.get("violation") or {}
                    verdicts[pid]["what"] = v.get("what") or (r.get("no_longer_checks") or [None])[0]
                print(pid, json.dumps(verdicts[pid])[:500])
        finally:
            sh("git -C /repo apply -R %s/patch.diff" % dst); sh("git -C /repo checkout -- .")
            sh("/venv/bin/python harness/gen_tables.py", cwd=V, env={"PYTHONPATH": "/repo"})
            # the evidence files must describe the unchanged tree: regenerate them
            for pid in pids:
                sh("./check %s --tier quick" % pid, cwd=V, timeout=3000)
        report["checks"] = verdicts
        report["detected_by"] = [p for p, v in verdicts.items() if v["exit"] == 1]
    meta["verif"] = report
    json.dump(meta, open(os.path.join(dst, "meta.json"), "w"), indent=1)
    rc, out = sh("git -C /repo status --short")
    print("repo clean:", not out.strip())


if __name__ == "__main__":
    sys.exit(main())
