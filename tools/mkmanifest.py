#!/usr/bin/env python3
"""Writes MANIFEST.json from props_index.json + the per-property texts below. A property is claimed
as soon as it has an adapter (harness/adapters/cNN.py) and an entry in props_index.json."""
import json, os
V = os.path.dirname(os.path.dirname(os.path.abspath(__file__)))
idx = json.load(open(os.path.join(V, "props_index.json")))
TEXT = {
 "C14": ("4.14", "Theorems (all beats, unbounded grid): exact construction, rounding lands on the 1/48 grid within 1/96, every rational within half a tick of n/48 rounds to n/48, the three-decimal text of every tick reads back as that tick (with 1/10000 slack for the float conversion). Tie: impl vs Lean model on rounding, str(), BeatValues; direct: typed exact arithmetic, str/from_str on every tick of a range, BeatValues and TimingData round trips.",
         "float(Fraction), '%.3f' and Decimal are CPython's (checked on the grid, not proved); 'result is again a Beat' is observed on every operator, not a theorem."),
}
checks, na = [], []
for i in range(1, 21):
    pid = "C%02d" % i
    if pid in idx and os.path.exists(os.path.join(V, "harness", "adapters", pid.lower() + ".py")):
        ref, text, note = TEXT.get(pid, ("4.%d" % i, idx[pid].get("text", ""), idx[pid].get("note", "")))
        checks.append({
            "property_id": pid,
            "quick_cmd": "./check %s --tier quick" % pid,
            "thorough_cmd": "./check %s --tier thorough" % pid,
            "evidence_file": "evidence/%s.json" % pid,
            "replay_cmd_template": "./check %s --replay {path}" % pid,
            "engine": "lean4-model+correspondence",
            "level_claimed": {"category": "proof", "text": text, "design_ref": "DESIGN.md §" + ref},
            "level_note": note or "Lean kernel; axioms ⊆ {propext, Classical.choice, Quot.sound}; gen_tables.py; the correspondence harness; CPython/msdparser/PyFilesystem as executed.",
            "technique": "Lean 4 theorems about an executable model + differential correspondence with the Python implementation",
        })
    else:
        na.append({"property_id": pid, "reason": "check not built yet in this round (planned: DESIGN.md §4.%d); not a claim that the technique cannot apply" % i})
m = {
 "version": 1,
 "setup_cmd": "./check --setup",
 "hooks": {"guard": "GARCIA_SIMFILE_VERIF", "enable": "no hooks: the checks drive the public API (filesystem= parameter for recording and fault injection)",
           "baseline_off_cmd": "cd /repo && /venv/bin/python -m pytest -ra -q -p no:cacheprovider --timeout=900 --continue-on-collection-errors",
           "source_commits": [], "add_only": True},
 "engines": [{"name": "lean4-model+correspondence", "path": "lean/ + harness/", "serves_properties": [c["property_id"] for c in checks],
              "kind_free_text": "Lean 4.33 project (generated tables, hand-written executable models, specs, theorems) tied to /repo by harness/gen_tables.py and by differential runs of the model driver against the Python implementation"}],
 "checks": checks,
 "not_applicable": na,
 "notes": "Fix commits in /repo and findings: known_findings.json. Approach: DESIGN.md.",
}
json.dump(m, open(os.path.join(V, "MANIFEST.json"), "w"), indent=1, ensure_ascii=False)
print("claimed:", [c["property_id"] for c in checks])
