#!/usr/bin/env python3
"""Writes MANIFEST.json from props_index.json + the per-property texts below. A property is claimed
as soon as it has an adapter (harness/adapters/cNN.py) and an entry in props_index.json."""
import json, os
V = os.path.dirname(os.path.dirname(os.path.abspath(__file__)))
idx = json.load(open(os.path.join(V, "props_index.json")))
TEXT = {
 "C01": ("4.1", "Theorems (all SM simfiles in the stated domain, all sizes and values): serialize→load round trip on parameters and through any tokenizer satisfying the msdparser contract, stable re-serialization, SM auto-detection, chart parameter shape, multi-value components. Tie: objects built through the real API by random edit scripts, real serializer/tokenizer vs the Lean model; direct: strict re-parse, deep equality, text stability, shape clauses.",
         "msdparser is a hypothesis (Msd.Contract + safeDoc), validated by its own stream; its escaping gaps are known findings."),
 "C02": ("4.2", "Theorems: SSC round trip up to notesLast (note data moved last), equality when charts already end with their note data, nothing dropped whatever values coincide, stable re-serialization, SSC auto-detection, stand-alone chart round trip (one of NOTES/NOTES2). Tie and direct as C01, with shared string objects and empty/one-character note data.",
         "msdparser contract as C01; object identity is visible to the harness only."),
 "C03": ("4.3", "Theorems (arbitrary parameter lists): key upper-casing, first position/last value, multi-value vs first component vs key-only, SM charts and the <6 components error, SSC chart membership by nearest preceding NOTEDATA, the format rule, lenient/strict behaviour of load. Tie: 13 entry points x strict x generated/corpus/mutated texts against the model applied to the real tokenizer's output.",
         "parse_msd is the trusted base; the plumbing of the entry points (rewind, tee, file objects) is tied by the correspondence only."),
 "C04": ("4.4", "Theorems: whatever loads is in the serializer's domain, load→save→load is the identity (SSC: notesLast), a second save is a no-op; through any tokenizer satisfying the contract. Direct: performed with the real loader on generated, corpus and mutated texts.",
         "msdparser contract; SSC charts without note data and escaping gaps are outside the domain."),
 "C05": ("4.5", "Theorems about the mutate model: first decodable encoding, clash refused before any call, effect on the file map (output, backup, every other path unchanged), write order. Tie: filesystem call log and directory snapshot on native and in-memory filesystems; direct: bytes decoded with the detected codec and re-loaded.",
         "codecs, text-mode I/O and the filesystem are parameters of the model (call-granularity); partial w.r.t. the runtime."),
 "C06": ("4.6", "Theorems for every fault index k (unbounded): body exceptions and unsaveable simfiles cause no write-side call; a failing open keeps the input; with a backup requested the input is intact or the backup complete. Tie: every k-th write-side call failed on the real code, every exception class at every script position.",
         "call-granularity faults; a failing open('w') is assumed not to truncate; OS crashes not modelled."),
 "C07": ("4.7", "Theorems: decode(render c) = notesOf c for every well-formed decorated chart, column count, strict (player, beat, column) order, operator agreement. Tie: rendered charts and corpus charts decoded by impl, Lean model and Lean spec; operators on note pairs.",
         "Python str.split/strip/splitlines modelled in Model/Str.lean; '&' must sit on its own line (explicit hypothesis)."),
 "C08": ("4.8", "Theorems about the encoder model (empty stream, rows per measure, …) and decode∘encode where proved; tie: from_notes text, columns, read-back, canonical shape and second-pass stability on generated streams and corpus notes.",
         "gcd/groupby modelled; see evidence for which clauses are theorems and which are tied only."),
 "C09": ("4.9", "Theorems: group_notes model = declarative neighbour-classification spec for every option combination and every stream of distinct notes; counting functions = documented counts. Tie: exhaustive 2x4x5 grid (thorough), random streams, corpus charts x all 54 option combinations.",
         "which orphan an exception names is not observed."),
 "C10": ("4.10", "Theorems: ungroup∘group restores the surviving notes (see evidence for the proved range); tie: C09 streams x ungroup policies, hand-built sequences with a note inside a hold.",
         "heapq with distinct keys modelled as sorted insertion."),
 "C11": ("4.11", "Theorems (all timing data in the domain, all beats, all tags): the engine model equals the declarative timeline (tick sum outside the warp union + pauses passed), monotone, offset shift, bpm_at, redundant BPM changes change nothing; under floating-point arithmetic (every float operation a rounding satisfying the standard model) the engine stays within the computable bound errTimeAt of that timeline (C11F.time_error). The engine's functions are also translated from their Python source on every run and proved equal to the model (DESIGN §11). Tie: impl floats vs exact rationals within 1e-9 s and, exactly, within the proved bound, on grid placements (exhaustive in thorough), random and corpus timing data, and from simfile text (STOPS / FREEZES / SSC chart timing).",
         "IEEE-754: proved under the standard model with u = 2^-53 (a hypothesis about CPython's doubles, checked on every run); bisect/heapq.merge modelled verbatim."),
 "C12": ("4.12", "Theorems about the repaired beat_at (search on state times) and the counter-example for the old algorithm; tie: symbolic boundary queries, pauses, dyadic times; direct: inversion, pauses, closeness, WARP tag, monotonicity, independence on the impl.",
         "float rounding in beats_until not modelled; half-tick ties reported separately."),
 "C13": ("4.13", "Theorems: hittable = 'inside the warp union and no pause on that beat'; time_notes = the documented map. Tie: every tick around every event; generated routine/keysounded note data and corpus charts x 3 options.",
         "float arithmetic not modelled."),
 "C14": ("4.14", "Theorems (all beats, unbounded grid): exact construction, rounding lands on the 1/48 grid within 1/96, every rational within half a tick of n/48 rounds to n/48, the three-decimal text of every tick reads back as that tick (with 1/10000 slack for the float conversion). Tie: impl vs Lean model on rounding, str(), BeatValues; direct: typed exact arithmetic, str/from_str on every tick of a range, BeatValues and TimingData round trips.",
         "float(Fraction), '%.3f' and Decimal are CPython's (checked on the grid, not proved); 'result is again a Beat' is observed on every operator, not a theorem."),
 "C15": ("4.15", "Theorems: the source rule as an iff over all simfiles/charts (3^11 is a ∀), single source, offset default, displayed-BPM rule; the eleven properties and the 0.7 threshold pinned against the generated tables; timing_source and TimingData.__init__ translated from the source on every run and proved equal to the model (GenProps.source_rule, single_source). Tie/direct: enumerated configurations with marker values (SM simfiles carrying VERSION included), displayed BPM with warps over BPM segments, call-order histories.",
         "float()/Decimal() on plain decimal literals only."),
 "C16": ("4.16", "Theorems: every source property and chart kept, negative values refused, no invalid properties for SSC targets (generated table). Direct on the impl: timing and notes equal through the library's readers, nothing modified or shared, reload equality.",
         "aliasing/unmodified clauses are observed by the harness, not proved (value-semantics model)."),
 "C17": ("4.17", "Theorems: should-copy decision table for all behaviour mappings, first offending property, warps refused, totality on the claimed domain; defaults pinned against the generated tables. Direct: documented policy transcribed independently; all 1024 total mappings in thorough.",
         "chart keys outside the table and COPY_ANYWAY on chart kinds are known findings (bare KeyError)."),
 "C18": ("4.18", "Theorems over arbitrary operation histories: attribute = standard key or alias exactly when…, set/get, delete of absent, other keys and order unaffected, WF invariant, SM chart keeps its six keys and refuses add/remove; equality (C18Eq): BaseSimfile.__eq__ modelled step by step as CPython evaluates it holds exactly between objects of the same class, the same item list and equal charts (never a mapping and a proper prefix of it). Tie: all op sequences to a bounded depth from 5 initial mappings per kind/alias + long random histories against a dictionary model and the Lean model; generated (object, variant) pairs compared under == / != with the equality model (views.eq).",
         "OrderedDict (__eq__ included) is CPython's."),
 "C19": ("4.19", "Theorems: first listed .sm/.ssc by case-insensitive suffix, duplicate iff two of a kind, SSC preferred, pack = exactly the immediate sub-directories containing a simfile. Tie: random trees on native and in-memory filesystems with the real listing order; loader options observed at simfile.open.",
         "listdir/isdir are the filesystem's."),
 "C20": ("4.20", "Theorems: named file first (case-insensitive), else first listed pattern match, None iff none, answers are listing entries, music by extension, pack banner by extension priority; presets pinned to the modelled regex fragment. Direct: membership, existence, stability.",
         "Python re trusted for lit/^lit/lit$; which of several matches is not claimed."),
}
checks, na = [], []
for i in range(1, 21):
    pid = "C%02d" % i
    if pid in idx and idx[pid].get("theorems") and os.path.exists(os.path.join(V, "harness", "adapters", pid.lower() + ".py")):
        ref, text, note = TEXT.get(pid, ("4.%d" % i, idx[pid].get("text", ""), idx[pid].get("note", "")))
        checks.append({
            "property_id": pid,
            "quick_cmd": "./check %s --tier quick" % pid,
            "thorough_cmd": "./check %s --tier thorough" % pid,
            "evidence_file": "evidence/%s.json" % pid,
            "replay_cmd_template": "./check %s --replay {path}" % pid,
            "engine": "lean4-model+correspondence",
            "level_claimed": {"category": "proof", "text": text, "design_ref": "DESIGN.md §" + ref},
            "level_note": note or "Lean kernel; axioms ⊆ {propext, Classical.choice, Quot.sound}; gen_tables.py; the correspondence harness; CPython/msdparser/PyFilesystem as executed.",
            "technique": "Lean 4 theorems about an executable model; the model is tied to /repo by generated tables, by functions translated from the Python source on every run and proved equal to the model (DESIGN §11), and by differential correspondence with the Python implementation",
        })
    else:
        na.append({"property_id": pid, "reason": "model and correspondence check exist (./check %s runs them) but no property theorem has been merged yet, so no proof-level claim is made in this commit (DESIGN.md §4.%d)" % (pid, i)})
m = {
 "version": 1,
 "setup_cmd": "./check --setup",
 "hooks": {"guard": "GARCIA_SIMFILE_VERIF", "enable": "no hooks: the checks drive the public API (filesystem= parameter for recording and fault injection)",
           "baseline_off_cmd": "cd /repo && /venv/bin/python -m pytest -ra -q -p no:cacheprovider --timeout=900 --continue-on-collection-errors",
           "source_commits": [], "add_only": True},
 "engines": [{"name": "lean4-model+correspondence", "path": "lean/ + harness/", "serves_properties": [c["property_id"] for c in checks],
              "kind_free_text": "Lean 4.33 project (generated tables, generated function definitions, hand-written executable models, specs, theorems) tied to /repo by harness/gen_tables.py, harness/gen_code.py (translated functions proved equal to the model) and by differential runs of the model driver against the Python implementation"}],
 "checks": checks,
 "not_applicable": na,
 "notes": "Fix commits in /repo and findings: known_findings.json. Approach: DESIGN.md.",
}
json.dump(m, open(os.path.join(V, "MANIFEST.json"), "w"), indent=1, ensure_ascii=False)
print("claimed:", [c["property_id"] for c in checks])
