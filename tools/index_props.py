#!/usr/bin/env python3
"""Rebuilds props_index.json: every `theorem` declared in lean/Simfile/Props/Cnn.lean (namespace Simfile.Cnn)."""
import json, os, re
V = os.path.dirname(os.path.dirname(os.path.abspath(__file__)))
P = os.path.join(V, "lean", "Simfile", "Props")
# property theorems that live in their own module: the msdparser contract (discharges the hypothesis of C01/C02/C04)
# and the strict/lenient tokenizer theorems (C03's last clause)
EXTRA = {"C01": ["MsdContract", "C01More", "C01Reach"], "C02": ["C02More", "C02Reach"], "C03": ["MsdLenient", "C03Entry", "C03Text"], "C04": ["C04More"], "C05": ["C05Concrete", "C05Data"], "C06": ["C06Data"], "C07": ["C07Any"], "C08": ["C08Any"], "C09": ["C09More"], "C10": ["C10More"], "C11": ["C11Wide", "C11Float"], "C12": ["C12Wide"], "C13": ["C13More", "C13Float"], "C14": ["C14More"], "C15": ["C15More"], "C16": ["C16More"], "C17": ["C17More"], "C18": ["C18More", "C18Eq"], "C19": ["C19Tree"], "C20": ["C20Session", "C20Tree"]}


def theorems_of(fn):
    text = open(os.path.join(P, fn), encoding="utf-8").read()
    ns = []
    names = []
    for line in text.split("\n"):
        mm = re.match(r"\s*namespace\s+(\S+)", line)
        if mm: ns.append(mm.group(1)); continue
        mm = re.match(r"\s*end\s+(\S+)", line)
        if mm and ns and ns[-1].split(".")[-1] == mm.group(1).split(".")[-1]: ns.pop(); continue
        mm = re.match(r"\s*(?:protected\s+)?theorem\s+(\S+)", line)      # private theorems are not auditable by name
        if mm: names.append(".".join(ns + [mm.group(1)]))
    return names


idx = {}
for fn in sorted(os.listdir(P)):
    m = re.match(r"(C\d+)\.lean$", fn)
    if not m: continue
    pid = m.group(1)
    names = theorems_of(fn)
    extra = [e for e in EXTRA.get(pid, []) if os.path.exists(os.path.join(P, e + ".lean"))]
    for e in extra: names += theorems_of(e + ".lean")
    idx[pid] = {"module": "Simfile.Props." + pid, "extra_modules": ["Simfile.Props." + e for e in extra], "theorems": names}
    continue
    text = ""
    ns = []
    for line in text.split("\n"):
        mm = re.match(r"\s*namespace\s+(\S+)", line)
        if mm: ns.append(mm.group(1)); continue
        mm = re.match(r"\s*end\s+(\S+)", line)
        if mm and ns and ns[-1].split(".")[-1] == mm.group(1).split(".")[-1]: ns.pop(); continue
        mm = re.match(r"\s*(?:protected\s+|private\s+)?theorem\s+(\S+)", line)
        if mm: names.append(".".join(ns + [mm.group(1)]))
    idx[pid] = {"module": "Simfile.Props." + pid, "theorems": names}
json.dump(idx, open(os.path.join(V, "props_index.json"), "w"), indent=1)
print({k: len(v["theorems"]) for k, v in idx.items()})
