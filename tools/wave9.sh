#!/bin/bash
# tools/wave9.sh <pid> [...]: validate and try the ninth-wave seeded change delivered in /tmp/mut9/<pid>, store as seeded/<pid>i
cd "$(dirname "$0")/.."
for p in "$@"; do
  /venv/bin/python tools/seedtest.py ${p}i $p --src=/tmp/mut9/$p 2>&1 | grep -v conda | cut -c1-700
done
