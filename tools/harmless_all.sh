#!/bin/bash
# tools/harmless_all.sh: every stored behaviour-preserving rewrite (seeded/harmless/h*.diff, seeded/harmless2/g*.diff) against the checks of
# the properties anchored in the files it touches (at most $MAXC per rewrite, default 3); a VIOLATION here is a false alarm
cd "$(dirname "$0")/.."
export MAXC=${MAXC:-3}
for d in seeded/harmless/h*.diff seeded/harmless2/g*.diff; do
  pids=$(/venv/bin/python - "$d" <<'P'
import json,re,sys
files=set(re.findall(r'^\+\+\+ b/(\S+)', open(sys.argv[1]).read(), re.M))
out=[]
for l in open('properties.jsonl'):
    p=json.loads(l)
    if files & set(p['anchors']['files']): out.append(p['id'])
import random
random.Random(len(files)*7+len(out)).shuffle(out)
print(" ".join(sorted(out[:int(__import__('os').environ.get('MAXC','3'))])))
P
)
  [ -z "$pids" ] && { echo "$d: no anchored property"; continue; }
  tools/harmless.sh "$PWD/$d" $pids 2>&1 | grep -v conda
done
