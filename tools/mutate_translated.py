#!/venv/bin/python
"""tools/mutate_translated.py [max]: single-token mutants of the functions the code translator covers (comparison operators, boolean
operators, enum members, small integer constants, True/False), each as a patch under /tmp/tmut/; then tools/codetie.py tells for each
mutant whether the translated tie refutes it inside Lean ('differs'), loses the proof but finds no difference, or keeps the proof
(equivalent mutant). A measure of the Lean-side input generators (GenDiff), independent of the Python-side correspondence."""
import ast, json, os, re, subprocess, sys, random
V = os.path.dirname(os.path.dirname(os.path.abspath(__file__)))
st = json.load(open(os.path.join(V, "lean", "Simfile", "Gen", "code_status.json")))
OUT = "/tmp/tmut"
os.makedirs(OUT, exist_ok=True)
SWAPS = [(r"<=", "<"), (r"(?<![<>=!])<(?![=<])", "<="), (r">=", ">"), (r"(?<![<>=!-])>(?![=>])", ">="), (r"==", "!="), (r"!=", "=="),
         (r"\band\b", "or"), (r"\bor\b", "and"), (r"\bnot in\b", "in"), (r"\bis None\b", "is not None"), (r"\bis not None\b", "is None"),
         (r"\bTrue\b", "False"), (r"\bFalse\b", "True"), (r"\bSTOP_END\b", "DELAY_END"), (r"\bDELAY\b", "STOP"), (r"\bWARP_END\b", "WARP"),
         (r"\bbisect_left\b", "bisect"), (r"- 1\b", "- 2"), (r"\b60\b", "30"), (r"\[1:\]", "[2:]"), (r"\bHOLD_HEAD\b", "ROLL_HEAD"),
         (r"\bKEEP_NOTE\b", "DROP_NOTE"), (r"\bTAP\b", "MINE"), (r"\.lower\(\)", ".upper()"), (r"\bIGNORE\b", "ERROR"), (r"\bNOTES2\b", "NOTES"),
         (r"\bsm_path\b", "ssc_path"), (r"\bhead\b", "NoteType.HOLD_HEAD"), (r"same_beat_minimum=2", "same_beat_minimum=3")]
rng = random.Random(1)
muts = []
for name, e in sorted(st.items()):
    path = os.path.join("/repo", e["file"])
    src = open(path, encoding="utf-8").read()
    tree = ast.parse(src)
    node = tree
    ok = True
    for part in e["function"].split("."):
        nxt = [n for n in getattr(node, "body", []) if isinstance(n, (ast.FunctionDef, ast.ClassDef)) and n.name == part]
        if not nxt: ok = False; break
        node = nxt[0]
    if not ok: continue
    lines = src.split("\n")
    lo = node.body[0].lineno - 1
    if isinstance(node.body[0], ast.Expr) and isinstance(getattr(node.body[0], "value", None), ast.Constant) and isinstance(node.body[0].value.value, str):
        lo = node.body[0].end_lineno      # skip the docstring
    hi = node.end_lineno
    for i in range(lo, hi):
        code = lines[i].split("#")[0]
        for pat, rep in SWAPS:
            for m in re.finditer(pat, code):
                new = lines[:]
                new[i] = lines[i][:m.start()] + rep + lines[i][m.end():]
                muts.append((name, e["file"], i + 1, pat, "\n".join(new)))
rng.shuffle(muts)
limit = int(sys.argv[1]) if len(sys.argv) > 1 else 40
W = "/tmp/tmut/wt"
subprocess.run("git -C /repo worktree remove --force %s 2>/dev/null; rm -rf %s; git -C /repo worktree add -q --detach %s HEAD" % (W, W, W), shell=True)
kept = []
for k, (name, file, line, pat, text) in enumerate(muts):
    if len(kept) >= limit: break
    try:
        ast.parse(text)
    except SyntaxError:
        continue
    open(os.path.join(W, file), "w", encoding="utf-8").write(text)
    d = subprocess.run("git -C %s diff" % W, shell=True, capture_output=True, text=True).stdout
    subprocess.run("git -C %s checkout -q -- ." % W, shell=True)
    if not d.strip(): continue
    p = os.path.join(OUT, "m%03d_%s_L%d.diff" % (len(kept), name, line))
    open(p, "w").write(d)
    kept.append(p)
subprocess.run("git -C /repo worktree remove --force %s" % W, shell=True)
print("\n".join(kept))
