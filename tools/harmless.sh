#!/bin/bash
# applies a behaviour-preserving patch to /repo, runs the given checks (quick), reverts; prints verdicts
patch=$1; shift
cd /repo && git status --short | grep -q . && { echo "repo dirty"; exit 2; }
git apply "$patch" || { echo "patch does not apply"; exit 2; }
cd /verif
for p in "$@"; do
  out=$(./check $p --tier quick 2>&1); rc=$?
  echo "$(basename $patch) $p rc=$rc :: $(echo "$out" | grep -E "VIOLATION|INFRA" | head -1) $(echo "$out" | tail -1 | cut -c1-160)"
done
git -C /repo checkout -- . ; PYTHONPATH=/repo /venv/bin/python harness/gen_tables.py > /dev/null
