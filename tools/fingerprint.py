#!/venv/bin/python
"""(run with /venv/bin/python: token streams differ between Python versions)
Fingerprints of the source files each property is anchored in (AST with docstrings removed). A differing
fingerprint never raises an alarm: it only makes the property's check search deeper on that run."""
import sys
if sys.version_info[:2] != (3, 12) and __name__ == "__main__":
    sys.exit("run with /venv/bin/python (the harness interpreter): AST dumps differ between Python versions")

import ast, hashlib, json, os, sys
V = os.path.dirname(os.path.dirname(os.path.abspath(__file__)))


def fp(path):
    """hash of the token stream without comments and blank lines (independent of the Python version that computes it)"""
    import io, tokenize
    try:
        src = open(path, encoding="utf-8").read()
        toks = []
        for t in tokenize.generate_tokens(io.StringIO(src).readline):
            if t.type in (tokenize.COMMENT, tokenize.NL): continue
            toks.append((tokenize.tok_name.get(t.type, str(t.type)) if t.type in (tokenize.INDENT, tokenize.DEDENT, tokenize.NEWLINE) else "", t.string if t.type not in (tokenize.INDENT, tokenize.DEDENT, tokenize.NEWLINE) else ""))
    except Exception as e:
        return "unreadable:" + type(e).__name__
    return hashlib.sha1(repr(toks).encode()).hexdigest()


def current():
    out = {}
    for l in open(os.path.join(V, "properties.jsonl")):
        p = json.loads(l)
        out[p["id"]] = {f: fp(os.path.join("/repo", f)) for f in p["anchors"]["files"] if f.startswith("simfile/")}
    # every source file of the package (tests aside): a property often depends on helper modules outside its anchor files
    allf = {}
    for root, dirs, files in os.walk("/repo/simfile"):
        dirs[:] = [d for d in dirs if d not in ("tests", "__pycache__")]
        for fn in files:
            if fn.endswith(".py"):
                rel = os.path.relpath(os.path.join(root, fn), "/repo")
                allf[rel] = fp(os.path.join(root, fn))
    out["_all"] = allf
    return out


if __name__ == "__main__":
    json.dump(current(), open(os.path.join(V, "fingerprints.json"), "w"), indent=1, sort_keys=True)
    print("fingerprints written")
