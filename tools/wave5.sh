#!/bin/bash
# tools/wave5.sh <pid> [...]: validate and try the fifth-wave seeded change delivered in /tmp/mut5/<pid>, store as seeded/<pid>e
cd "$(dirname "$0")/.."
for p in "$@"; do
  /venv/bin/python tools/seedtest.py ${p}e $p --src=/tmp/mut5/$p 2>&1 | grep -v conda | cut -c1-700
done
