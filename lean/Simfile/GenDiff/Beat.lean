import Simfile.GenDiff.Rand
import Simfile.Gen.Code.Beat
open Simfile Simfile.GenDiff

def main (args : List String) : IO Unit := do
  let seed := (args.getD 0 "0").toNat!
  let n := (args.getD 1 "2000").toNat!
  let outs := [
    trials "roundToTick" seed n (do
      let q ← rat
      -- exact half ticks are where a rounding rule shows
      let c ← below 3; let h ← below 400
      let q := if c = 0 then ((h : Nat) : Rat) / 96 - 2 else q
      pure (if GenCode.roundToTick q ≠ Simfile.roundToTick q then some (showRat q) else none)) ]
  for o in outs do for l in o do IO.println l
  IO.println s!"DONE Beat {n}"
