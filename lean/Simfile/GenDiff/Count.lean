import Simfile.GenDiff.Rand
import Simfile.Gen.Code.Count
open Simfile Simfile.GenDiff

instance : Inhabited SameBeat := ⟨.joinAll⟩
instance : Inhabited Orphan := ⟨.raise⟩
instance : Inhabited (List Char) := ⟨[]⟩

def sortedNotes : G (List Note) := do
  -- rows of a 4-column chart, one cell kind per column and row
  let rows ← below 10
  let mut out : List Note := []
  for r in [0:rows] do
    for c in [0:4] do
      if (← below 3) = 0 then
        out := { beat := ((r : Nat) : Rat) / 2, column := c, ntype := ← noteChar } :: out
  pure out.reverse

def main (args : List String) : IO Unit := do
  let seed := (args.getD 0 "0").toNat!
  let n := (args.getD 1 "2000").toNat! / 4
  let incl : G (List Char) := pick [defaultNoteTypes, allNoteTypes, [cTAP], [cHOLD, cTAIL], [cMINE, cTAP, cLIFT]]
  let mode : G SameBeat := pick [.keepSeparate, .joinByType, .joinAll]
  let orph : G Orphan := pick [.raise, .keep, .drop]
  let sh (ns : List Note) := "[" ++ ", ".intercalate (ns.map showNote) ++ "]"
  let outs := [
    trials "countSteps" seed n (do
      let ns ← sortedNotes; let i ← incl; let m ← mode; let k ← below 4
      pure (if !exEq (GenCode.countSteps ns i m k) (Simfile.countSteps ns i m k) then some s!"{sh ns} incl={i} mode={repr m} min={k}" else none)),
    trials "countJumps" seed n (do
      let ns ← sortedNotes; let i ← incl; let m ← mode
      pure (if !exEq (GenCode.countJumps ns i m) (Simfile.countSteps ns i m 2) then some s!"{sh ns} incl={i} mode={repr m}" else none)),
    trials "countHands" seed n (do
      let ns ← sortedNotes; let i ← incl; let m ← mode; let k ← below 4
      pure (if !exEq (GenCode.countHands ns i m k) (Simfile.countSteps ns i m k) then some s!"{sh ns} incl={i} mode={repr m} min={k}" else none)),
    trials "countMines" seed n (do
      let ns ← sortedNotes
      pure (if GenCode.countMines ns ≠ Simfile.countMines ns then some (sh ns) else none)),
    trials "countHoldsOrRolls" seed n (do
      let ns ← sortedNotes; let h ← pick [cHOLD, cROLL]; let a ← orph; let b ← orph
      pure (if !exEq (GenCode.countHoldsOrRolls ns h a b) (Simfile.countHoldsOrRolls ns h a b) then some s!"{sh ns} head={h} {repr a} {repr b}" else none)),
    trials "countHolds" seed n (do
      let ns ← sortedNotes; let a ← orph; let b ← orph
      pure (if !exEq (GenCode.countHolds ns a b) (Simfile.countHoldsOrRolls ns cHOLD a b) then some s!"{sh ns} {repr a} {repr b}" else none)),
    trials "countRolls" seed n (do
      let ns ← sortedNotes; let a ← orph; let b ← orph
      pure (if !exEq (GenCode.countRolls ns a b) (Simfile.countHoldsOrRolls ns cROLL a b) then some s!"{sh ns} {repr a} {repr b}" else none)),
    trials "countGrouped" seed n (do
      let ns ← sortedNotes; let k ← below 4
      let g : List (List GNote) := (ns.map fun x => [GNote.plain x, GNote.plain x].take ((x.column % 2) + 1))
      pure (if GenCode.countGrouped g k ≠ Simfile.countGrouped g k then some s!"{sh ns} min={k}" else none)) ]
  for o in outs do for l in o do IO.println l
  IO.println s!"DONE Count {8 * n}"
