import Simfile.GenDiff.RandObj
import Simfile.Gen.Code.Dir
open Simfile Simfile.GenDiff

def fname : G Str := do
  let parts ← listOf 3 (pick (["a", "song", ".sm", ".ssc", ".SM", ".Ssc", ".png", ".JPG", ".jpeg", ".old", ".", "bn", ".gif", ".bmp", ""].map String.toList))
  pure parts.flatten

def main (args : List String) : IO Unit := do
  let seed := (args.getD 0 "0").toNat!
  let n := (args.getD 1 "2000").toNat!
  let outs := [
    trials "scanDir" seed n (do
      let l ← listOf 6 fname; let ign ← coin
      pure (if !exEq (GenCode.scanDir none none l ign) (Simfile.scanDir l ign) then some s!"{l.map String.ofList} ignore_duplicate={ign}" else none)),
    trials "packBanner" seed n (do
      let l ← listOf 5 fname; let nm ← pick ["pack".toList, "a".toList]
      let present ← listOf 3 (do pure (nm ++ (← pick T.imageExts)))
      let be : Str → Bool := fun s => present.contains s
      pure (if GenCode.packBanner l nm be ≠ Simfile.packBanner l nm be then some s!"{l.map String.ofList} name={String.ofList nm} beside={present.map String.ofList}" else none)) ]
  for o in outs do for l in o do IO.println l
  IO.println s!"DONE Dir {2 * n}"
