import Simfile.GenDiff.Rand
import Simfile.Gen.Code.Convert
open Simfile Simfile.GenDiff

instance : Inhabited Str := ⟨[]⟩
instance : Inhabited (Option Str) := ⟨none⟩

def main (args : List String) : IO Unit := do
  let seed := (args.getD 0 "0").toNat!
  let n := (args.getD 1 "2000").toNat!
  let tables := [T.invalidSMSimfile, T.invalidSMChart, T.invalidSSCSimfile, T.invalidSSCChart]
  let outs := [
    trials "shouldCopy" seed n (do
      let inv ← pick tables
      let keys := (inv.map (·.2)).flatten ++ ["TITLE".toList, "NOTES".toList, "BPMS".toList]
      let k ← pick keys
      let v ← pick [none, some [], some " ".toList, some (defaultProperty k), some (' ' :: defaultProperty k ++ [' ']), some "x".toList, some "0.000=2".toList]
      let kinds := (T.invalidPropertyBehaviors.map (·.1))
      let beh ← (kinds.filterMapM fun kd => do
        if (← below 2) = 0 then pure none else pure (some (kd, ← pick [bCOPY, bIGNORE, bUNLESS, bERROR])))
      pure (if !exEq (GenCode.shouldCopy k v inv beh) (Simfile.shouldCopy k v inv beh) then
        some s!"key={String.ofList k} value={v.map String.ofList} behaviours={beh}" else none)) ]
  for o in outs do for l in o do IO.println l
  IO.println s!"DONE Convert {n}"
