import Simfile.GenDiff.RandObj
import Simfile.Gen.Code.SerializeSSC
open Simfile Simfile.GenDiff

def sscChart : G SSCChart := do
  let d ← dict 6
  -- make sure the chart has its note data (the case the translated tie covers)
  let c : SSCChart := ⟨d⟩
  let d := if (d.get? (notesKey c)).isSome then d else d ++ [(notesKey c, some "0000".toList)]
  pure ⟨d⟩

def main (args : List String) : IO Unit := do
  let seed := (args.getD 0 "0").toNat!
  let n := (args.getD 1 "2000").toNat! / 2
  let outs := [
    trials "serSSCChart" seed n (do
      let c ← sscChart
      pure (if !exEq (Simfile.serSSCChart c) (.ok (GenCode.serSSCChart c)) then some (showDict c.props) else none)),
    trials "serSSC" seed n (do
      let s : SSCSimfile := { props := ← dict 6, charts := ← listOf 3 sscChart }
      pure (if !exEq (Simfile.serSSC s) (.ok (GenCode.serSSC s)) then
        some s!"props={showDict s.props} charts={" ".intercalate (s.charts.map fun c => showDict c.props)}" else none)),
    trials "serSSCCharts" seed n (do
      let cs ← listOf 3 sscChart
      let s : SSCSimfile := { props := [], charts := cs }
      pure (if !exEq (Simfile.serSSC s) (.ok ([Item.text nl] ++ GenCode.serSSCCharts cs)) then
        some (" ".intercalate (cs.map fun c => showDict c.props)) else none)) ]
  for o in outs do for l in o do IO.println l
  IO.println s!"DONE SerializeSSC {3 * n}"
