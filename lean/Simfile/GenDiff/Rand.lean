/-
Deterministic input generators for the Lean-side comparison of generated definitions (Gen/Code) with the model
functions. Used only when an equality theorem of Props/GenEq no longer builds: the comparison then searches for an
input on which the translated code and the model differ (a search, not a proof).
-/
import Simfile.Model.Engine
import Simfile.Model.Group
namespace Simfile.GenDiff
open Simfile

abbrev G := StateM Nat

def next : G Nat := do
  let s ← get
  let s' := (s * 6364136223846793005 + 1442695040888963407) % 18446744073709551616
  set s'
  pure (s' / 8589934592)

def below (n : Nat) : G Nat := do pure ((← next) % (max n 1))
def pick {α} [Inhabited α] (xs : List α) : G α := do pure (xs.getD (← below xs.length) default)
def coin : G Bool := do pure ((← below 2) = 0)

/-- small rationals, many of them on the tick grid, some negative, some zero -/
def rat : G Rat := do
  let neg ← below 4
  let n : Int := Int.ofNat (← below 400) - (if neg = 0 then 200 else 0)
  let d ← pick [1, 1, 2, 3, 4, 48, 48, 96, 7, 10, 1000]
  pure ((n : Rat) / (d : Rat))

def posRat : G Rat := do
  let n ← below 400
  let d ← pick [1, 1, 2, 4, 48, 10]
  pure (((n + 1 : Nat) : Rat) / (d : Rat))

instance : Inhabited Tag := ⟨.bpm⟩

def tag : G Tag := pick Tag.all

def tstate : G TState := do
  pure { beat := ← rat, value := ← posRat, tag := ← tag, time := ← rat, bpm := ← posRat, warp := ← coin }

def tevent : G TEvent := do pure { beat := ← rat, value := ← posRat, tag := ← tag }

def listOf {α} (n : Nat) (g : G α) : G (List α) := do
  let k ← below (n + 1)
  let mut out := []
  for _ in [0:k] do out := (← g) :: out
  pure out

/-- strictly increasing tick-aligned beats starting at `start` -/
def beats (n : Nat) (start : Nat) : G (List Rat) := do
  let k ← below (n + 1)
  let mut out := []
  let mut cur := start
  let atStart ← below 3
  let mut first := true
  for _ in [0:k] do
    -- the first event sits on beat `start` itself one time in three (events on beat 0 are where the clamps matter)
    let step ← below 96
    cur := if first && atStart = 0 then cur else cur + 1 + step
    first := false
    out := ((cur : Rat) / 48) :: out
  pure out.reverse

def timingData : G TimingData := do
  let b0 ← posRat
  let bs ← beats 3 1
  let bpms ← bs.mapM fun b => do pure (b, ← posRat)
  let stops ← (← beats 3 0).mapM fun b => do pure (b, ← posRat)
  let delays ← (← beats 2 0).mapM fun b => do pure (b, ← posRat)
  let warps ← (← beats 3 0).mapM fun b => do pure (b, ← posRat)
  pure { bpms := (0, b0) :: bpms, stops := stops, delays := delays, warps := warps, offset := ← rat }

instance : Inhabited Char := ⟨'1'⟩
def noteChar : G Char := pick [cTAP, cHOLD, cTAIL, cROLL, cMINE, cLIFT, cFAKE]

def note : G Note := do
  let ks ← below 4
  let off ← below 5
  let kv ← below 3
  pure { beat := (((← below 200) : Nat) : Rat) / 48 * (if off = 0 then 7 else 1), column := ← below 4, ntype := ← noteChar,
         player := ← below 2, keysound := if ks = 0 then some kv else none }

def showRat (q : Rat) : String := s!"{q.num}/{q.den}"
def showState (s : TState) : String :=
  s!"state(beat={showRat s.beat}, value={showRat s.value}, tag={String.ofList s.tag.name}, time={showRat s.time}, bpm={showRat s.bpm}, warp={s.warp})"
def showEvent (e : TEvent) : String := s!"event(beat={showRat e.beat}, value={showRat e.value}, tag={String.ofList e.tag.name})"
def showPairs (l : List (Rat × Rat)) : String := ",".intercalate (l.map fun p => s!"{showRat p.1}={showRat p.2}")
def showTD (td : TimingData) : String :=
  s!"timing(bpms=[{showPairs td.bpms}], stops=[{showPairs td.stops}], delays=[{showPairs td.delays}], warps=[{showPairs td.warps}], offset={showRat td.offset})"
def showNote (n : Note) : String := s!"note(beat={showRat n.beat}, col={n.column}, type={n.ntype}, player={n.player}, ks={n.keysound})"

def exEq {ε α} [DecidableEq ε] [DecidableEq α] : Except ε α → Except ε α → Bool
  | .ok a, .ok b => a = b
  | .error a, .error b => a = b
  | _, _ => false

/-- runs `n` trials of `trial` (which returns a description of a disagreement, if any) -/
def trials (name : String) (seed n : Nat) (trial : G (Option String)) : List String := Id.run do
  let mut st := seed * 2654435761 + 12345
  let mut out : List String := []
  for _ in [0:n] do
    let (r, st') := trial.run st
    st := st'
    if let some d := r then
      if out.length < 3 then out := s!"DISAGREE {name} {d}" :: out
  pure out.reverse

end Simfile.GenDiff
