import Simfile.GenDiff.RandObj
import Simfile.Gen.Code.Serialize
open Simfile Simfile.GenDiff

def main (args : List String) : IO Unit := do
  let seed := (args.getD 0 "0").toNat!
  let n := (args.getD 1 "2000").toNat! / 2
  let showChart (c : SMChart) := s!"chart(fields={showDict c.fields}, extra={c.extradata.map (·.map String.ofList)})"
  let outs := [
    trials "serSMChart" seed n (do
      let c ← smChart
      pure (if GenCode.serSMChart c ≠ [Item.param (smChartParam c)] then some (showChart c) else none)),
    trials "serSMCharts" seed n (do
      let cs ← listOf 3 smChart
      pure (if GenCode.serSMCharts cs ≠ (cs.flatMap fun c => [Item.param (smChartParam c), Item.text nl]) then
        some (" ".intercalate (cs.map showChart)) else none)),
    trials "serSM" seed n (do
      let s : SMSimfile := { props := ← dict 6, charts := ← listOf 2 smChart }
      pure (if GenCode.serSM s ≠ Simfile.serSM s then some s!"props={showDict s.props} charts={" ".intercalate (s.charts.map showChart)}" else none)) ]
  for o in outs do for l in o do IO.println l
  IO.println s!"DONE Serialize {3 * n}"
