import Simfile.GenDiff.Rand
import Simfile.Gen.Code.Timed
open Simfile Simfile.GenDiff

instance : Inhabited Unhittable := ⟨.tapToFake⟩

def main (args : List String) : IO Unit := do
  let seed := (args.getD 0 "0").toNat!
  let n := (args.getD 1 "2000").toNat! / 8
  let outs := [
    trials "timeNotes" seed n (do
      let td ← timingData; let ns ← listOf 12 note; let o ← pick [Unhittable.tapToFake, .dropNote, .keepNote]
      pure (if GenCode.timeNotes ns td o ≠ Simfile.timeNotes td o ns then
        some s!"{showTD td} option={repr o} notes=[{", ".intercalate (ns.map showNote)}]" else none)) ]
  for o in outs do for l in o do IO.println l
  IO.println s!"DONE Timed {n}"
