import Simfile.GenDiff.RandObj
import Simfile.Gen.Code.Source
open Simfile Simfile.GenDiff

instance : Inhabited (Option Str) := ⟨none⟩
instance : Inhabited Kind := ⟨.smSimfile⟩

def srcDict (n : Nat) : G Dict := do
  let ks := ["VERSION", "BPMS", "STOPS", "DELAYS", "WARPS", "OFFSET", "LABELS", "FAKES", "SPEEDS", "FOO"].map String.toList
  let vs : List (Option Str) := [none, some [], some "0.7".toList, some "0.69".toList, some "0.83".toList, some "abc".toList,
    some "0.000=120.000".toList, some "0.000=120.000,4.000=60.5".toList, some "1.5".toList, some "-0.250".toList, some "x=y".toList]
  let m ← below (n + 1)
  let mut d : Dict := []
  for _ in [0:m] do
    d := Dict.set d (← pick ks) (← pick vs)
  pure d

def src (kinds : List Kind) : G Src := do pure { kind := ← pick kinds, d := ← srcDict 6 }

def showSrc (s : Src) : String := s!"{repr s.kind} {showDict s.d}"

def main (args : List String) : IO Unit := do
  let seed := (args.getD 0 "0").toNat!
  let n := (args.getD 1 "2000").toNat!
  let gen : G (Src × Option Src) := do
    let s ← src [.sscSimfile, .sscSimfile, .smSimfile]
    let c ← src [.sscChart, .sscChart, .smChart]
    pure (s, if (← below 5) = 0 then none else some c)
  let outs := [
    trials "timingSource" seed n (do
      let (s, c) ← gen
      pure (if !exEq (GenCode.timingSource s c) ((Simfile.timingSource s c).map some) then some s!"sim={showSrc s} chart={c.map showSrc}" else none)),
    trials "timingDataInit" seed n (do
      let (s, c) ← gen
      let show' : Except SErr TDStrings → String := fun r => match r with | .ok t => toString (repr t) | .error e => "error " ++ toString (repr e)
      pure (if show' (GenCode.timingDataInit s c) ≠ show' (Simfile.timingData s c) then some s!"sim={showSrc s} chart={c.map showSrc}" else none)) ]
  for o in outs do for l in o do IO.println l
  IO.println s!"DONE Source {2 * n}"
