import Simfile.GenDiff.Rand
import Simfile.Gen.Code.NoteOrder
open Simfile Simfile.GenDiff

def main (args : List String) : IO Unit := do
  let seed := (args.getD 0 "0").toNat!
  let n := (args.getD 1 "2000").toNat!
  let pair : G (Note × Note) := do
    let a ← note; let b ← note
    let b := if (← below 3) = 0 then { b with beat := a.beat } else b
    let b := if (← below 3) = 0 then { b with player := a.player } else b
    pure (a, b)
  let outs := [
    trials "comparable" seed n (do let a ← note; pure (if GenCode.comparable a ≠ a.key then some (showNote a) else none)),
    trials "noteLt" seed n (do let (a, b) ← pair; pure (if GenCode.noteLt a b ≠ a.lt b then some s!"{showNote a} {showNote b}" else none)),
    trials "noteGt" seed n (do let (a, b) ← pair; pure (if GenCode.noteGt a b ≠ a.gt b then some s!"{showNote a} {showNote b}" else none)),
    trials "noteLe" seed n (do let (a, b) ← pair; pure (if GenCode.noteLe a b ≠ a.le b then some s!"{showNote a} {showNote b}" else none)),
    trials "noteGe" seed n (do let (a, b) ← pair; pure (if GenCode.noteGe a b ≠ a.ge b then some s!"{showNote a} {showNote b}" else none)) ]
  for o in outs do for l in o do IO.println l
  IO.println s!"DONE NoteOrder {5 * n}"
