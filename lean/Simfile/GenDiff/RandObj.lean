import Simfile.GenDiff.Rand
import Simfile.Model.Objects
namespace Simfile.GenDiff
open Simfile

instance : Inhabited Str := ⟨[]⟩

def key : G Str := pick (["TITLE", "ARTIST", "ATTACKS", "DISPLAYBPM", "BPMS", "FOO", "NOTES2", "CREDIT", "NOTES", "STEPSTYPE", "METER"].map String.toList)
def value : G (Option Str) := do
  let k ← below 8
  if k = 0 then pure none else
  let parts ← listOf 4 (pick (["a", ":", "b:c", "", "\\", ";", "60", "\n", " "].map String.toList))
  pure (some parts.flatten)

def dict (n : Nat) : G Dict := do
  let kvs ← listOf n (do pure ((← key), (← value)))
  -- keep the first occurrence of every key (a dictionary)
  pure (kvs.foldl (fun d kv => if d.any (·.1 = kv.1) then d else d ++ [kv]) [])

def smChart : G SMChart := do
  let full ← below 6
  let fields : Dict ← (if full = 0 then dict 3 else do
    let vs ← T.smChartProperties.mapM fun k => do pure (k, ← value)
    pure vs)
  let ex ← below 3
  let extra ← listOf 2 (pick (["x", "", "a:b"].map String.toList))
  pure { fields := fields, extradata := if ex = 0 then some extra else none }

def showOpt (v : Option Str) : String := match v with | none => "None" | some s => (String.ofList s).quote
def showDict (d : Dict) : String := "{" ++ ", ".intercalate (d.map fun kv => s!"{(String.ofList kv.1).quote}: {showOpt kv.2}") ++ "}"

end Simfile.GenDiff
