import Simfile.GenDiff.Rand
import Simfile.Gen.Code.Ext
open Simfile Simfile.GenDiff

instance : Inhabited Str := ⟨[]⟩

def main (args : List String) : IO Unit := do
  let seed := (args.getD 0 "0").toNat!
  let n := (args.getD 1 "2000").toNat!
  let frag : G Str := pick [".sm".toList, ".ssc".toList, ".SM".toList, ".Ssc".toList, "a".toList, "song".toList, ".".toList, ".png".toList,
                            ".JPG".toList, ".jpeg".toList, ".ogg".toList, ".Mp3".toList, "sm".toList, ".old".toList, "".toList, "B".toList]
  let outs := [
    trials "extMatch" seed n (do
      let name := (← listOf 4 frag).flatten
      let exts ← pick [T.simfileExts, T.imageExts, T.audioExts, [".sm".toList], [".png".toList, ".jpeg".toList]]
      pure (if GenCode.extMatch name exts ≠ Simfile.extMatch name exts then some s!"name={String.ofList name} exts={exts.map String.ofList}" else none)) ]
  for o in outs do for l in o do IO.println l
  IO.println s!"DONE Ext {n}"
