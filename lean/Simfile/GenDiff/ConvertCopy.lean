import Simfile.GenDiff.RandObj
import Simfile.Gen.Code.ConvertCopy
open Simfile Simfile.GenDiff

instance : Inhabited (List (Nat × List Str)) := ⟨[]⟩

def main (args : List String) : IO Unit := do
  let seed := (args.getD 0 "0").toNat!
  let n := (args.getD 1 "2000").toNat!
  let tables := [T.invalidSMSimfile, T.invalidSMChart, T.invalidSSCSimfile, T.invalidSSCChart]
  let outs := [
    trials "copyProperties" seed n (do
      let inv ← pick tables
      let keys := (inv.map (·.2)).flatten ++ T.smChartProperties ++ ["TITLE".toList, "FOO".toList]
      let src ← listOf 6 (do
        let k ← pick keys
        let v ← pick [none, some [], some (defaultProperty k), some "x".toList]
        pure (k, v))
      let out ← dict 3
      let smc ← coin
      let kinds := (T.invalidPropertyBehaviors.map (·.1))
      let beh ← (kinds.filterMapM fun kd => do
        if (← below 2) = 0 then pure none else pure (some (kd, ← pick [bCOPY, bIGNORE, bUNLESS, bERROR])))
      pure (if !exEq (GenCode.copyProperties smc inv src out beh) (Simfile.copyProperties smc src out inv beh) then
        some s!"smChartTarget={smc} source={showDict src} output={showDict out} behaviours={beh}" else none)) ]
  for o in outs do for l in o do IO.println l
  IO.println s!"DONE ConvertCopy {n}"
