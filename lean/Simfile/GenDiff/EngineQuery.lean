import Simfile.GenDiff.Rand
import Simfile.Gen.Code.EngineQuery
open Simfile Simfile.GenDiff

def main (args : List String) : IO Unit := do
  let seed := (args.getD 0 "0").toNat!
  let n := (args.getD 1 "2000").toNat! / 4
  let outs := [
    trials "timeAt" seed n (do
      let td ← timingData; let e := mkEngine td; let b ← rat; let g ← tag
      pure (if GenCode.timeAt e b g ≠ e.timeAt b g then some s!"{showTD td} beat={showRat b} tag={String.ofList g.name}" else none)),
    trials "bpmAt" seed n (do
      let td ← timingData; let e := mkEngine td; let b ← rat
      pure (if GenCode.bpmAt e b ≠ e.bpmAt b then some s!"{showTD td} beat={showRat b}" else none)),
    trials "hittable" seed n (do
      let td ← timingData; let e := mkEngine td; let b ← rat
      pure (if GenCode.hittable e b ≠ e.hittable b then some s!"{showTD td} beat={showRat b}" else none)),
    trials "beatAt" seed n (do
      let td ← timingData; let e := mkEngine td; let t ← rat; let g ← tag
      -- also ask exactly at state times, where the two searches differ
      let c ← below 2; let i ← below e.ss.length
      let t := if c = 0 then (e.ss.getD i e.init).time else t
      pure (if GenCode.beatAt e t g ≠ e.beatAt t g then some s!"{showTD td} time={showRat t} tag={String.ofList g.name}" else none)) ]
  for o in outs do for l in o do IO.println l
  IO.println s!"DONE EngineQuery {4 * n}"
