import Simfile.GenDiff.RandObj
import Simfile.Gen.Code.Views
open Simfile Simfile.GenDiff

instance : Inhabited (Option Str) := ⟨none⟩

def main (args : List String) : IO Unit := do
  let seed := (args.getD 0 "0").toNat!
  let n := (args.getD 1 "2000").toNat!
  let k6 : G Str := pick (T.smChartProperties ++ ["notes".toList, "FOO".toList, "NOTES2".toList])
  let outs := [
    trials "nameOrAlias" seed n (do
      let d ← dict 5; let nm ← key; let al ← pick [none, some "NOTES2".toList, some "FOO".toList, some "CREDIT".toList]
      pure (if GenCode.nameOrAlias nm al d ≠ Simfile.nameOrAlias d nm al then some s!"{showDict d} name={String.ofList nm} alias={al.map String.ofList}" else none)),
    trials "smChartSetItem" seed n (do
      let d ← dict 5; let k ← k6
      pure (if !exEq (GenCode.smChartSetItem d k "v".toList) (Simfile.setItem true d k (some "v".toList)) then some s!"{showDict d} key={String.ofList k}" else none)),
    trials "smChartGetItem" seed n (do
      let d ← dict 5; let k ← k6
      let g := match GenCode.smChartGetItem d k with | .ok v => (d, VOut.value v) | .error _ => (d, VOut.keyError)
      pure (if g ≠ vstep .smChart d (.getKey k) then some s!"{showDict d} key={String.ofList k}" else none)) ]
  for o in outs do for l in o do IO.println l
  IO.println s!"DONE Views {3 * n}"
