import Simfile.GenDiff.RandObj
import Simfile.Gen.Code.Load
open Simfile Simfile.GenDiff

def comp : G Str := do
  let parts ← listOf 3 (pick (["a", ":", " ", "x y", "", "\n", "1.5", "　"].map String.toList))
  pure parts.flatten

def param : G Param := do
  let k ← pick (["TITLE", "title", "NOTES", "notes", "NOTEDATA", "notedata", "ATTACKS", "DisplayBPM", "NOTES2", "VERSION", "BPMS", " NOTES"].map String.toList)
  let n ← pick [0, 1, 1, 1, 2, 3, 6, 6, 7, 8]
  let cs ← (List.range n).mapM fun _ => comp
  pure ⟨k :: cs⟩

def showParam (p : Param) : String := "#" ++ ":".intercalate (p.comps.map fun c => (String.ofList c).quote) ++ ";"

def main (args : List String) : IO Unit := do
  let seed := (args.getD 0 "0").toNat!
  let n := (args.getD 1 "2000").toNat! / 2
  let sh (ps : List Param) := " ".intercalate (ps.map showParam)
  let outs := [
    trials "smChartFromMsd" seed n (do
      let k ← pick [0, 3, 5, 6, 6, 6, 7, 9]
      let vs ← (List.range k).mapM fun _ => comp
      pure (if !exEq (GenCode.smChartFromMsd [] none vs) (Simfile.smChartFromMsd vs) then some s!"{vs.map String.ofList}" else none)),
    trials "loadSM" seed n (do
      let ps ← listOf 7 param
      pure (if !exEq (GenCode.loadSM [] [] ps) (Simfile.loadSM ps) then some (sh ps) else none)),
    trials "loadSSC" seed n (do
      let ps ← listOf 9 param
      pure (if GenCode.loadSSC [] [] ps ≠ Simfile.loadSSC ps then some (sh ps) else none)),
    trials "loadSSCChart" seed n (do
      let ps ← listOf 7 param
      let ps := if (← below 3) = 0 then ps else ⟨["NOTEDATA".toList, []]⟩ :: ps
      pure (if !exEq (GenCode.loadSSCChart [] ps) (Simfile.loadSSCChart ps) then some (sh ps) else none)) ]
  for o in outs do for l in o do IO.println l
  IO.println s!"DONE Load {4 * n}"
