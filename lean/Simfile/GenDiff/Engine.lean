import Simfile.GenDiff.Rand
import Simfile.Gen.Code.Engine
open Simfile Simfile.GenDiff

def main (args : List String) : IO Unit := do
  let seed := (args.getD 0 "0").toNat!
  let n := (args.getD 1 "2000").toNat!
  let outs := [
    trials "taggedEventLt" seed n (do
      let a ← tevent; let b ← tevent
      let b := if (← below 3) = 0 then { b with beat := a.beat } else b
      pure (if GenCode.taggedEventLt a b ≠ a.lt b then some s!"{showEvent a} {showEvent b}" else none)),
    trials "timeUntil" seed n (do
      let s ← tstate; let b ← rat; let g ← tag
      pure (if GenCode.timeUntil s b g ≠ s.timeUntil b g then some s!"{showState s} beat={showRat b} tag={String.ofList g.name}" else none)),
    trials "beatsUntil" seed n (do
      let s ← tstate; let t ← rat
      pure (if GenCode.beatsUntil s t ≠ s.beatsUntil t then some s!"{showState s} time={showRat t}" else none)),
    trials "advance" seed n (do
      let s ← tstate; let e ← tevent
      pure (if GenCode.advance s e ≠ Simfile.advance s e then some s!"{showState s} {showEvent e}" else none)) ]
  for o in outs do for l in o do IO.println l
  IO.println s!"DONE Engine {4 * n}"
