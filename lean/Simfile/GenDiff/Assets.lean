import Simfile.GenDiff.RandObj
import Simfile.Gen.Code.Assets
open Simfile Simfile.GenDiff

def aname : G Str := do
  let parts ← listOf 3 (pick (["banner", "bn", "bg", "Background", "jk_", "-cd", " disc", "x", ".png", ".PNG", ".ogg", ".Mp3", ".", "song", " title", "albumart", ""].map String.toList))
  pure parts.flatten

instance : Inhabited (Str × List Str × List Str × Bool) := ⟨([], [], [], false)⟩

def main (args : List String) : IO Unit := do
  let seed := (args.getD 0 "0").toNat!
  let n := (args.getD 1 "2000").toNat!
  let outs := [
    trials "assetMatches" seed n (do
      let e ← pick T.assetDefinitions
      let nm ← aname
      let exp := Simfile.assetMatches e.1 nm
      pure (if exp ≠ some (GenCode.assetMatches e.2.1 e.2.2.1 e.2.2.2 nm) then some s!"kind={String.ofList e.1} name={String.ofList nm}" else none)),
    trials "caseInsensitive" seed n (do
      let l ← listOf 5 aname
      let f ← aname
      let f := if (← below 2) = 0 then upper (l.getD 0 f) else f
      let c ← pick [some l, some l, none]
      pure (if GenCode.caseInsensitive c f ≠ Simfile.caseInsensitive c f then some s!"listing={c.map (·.map String.ofList)} file={String.ofList f}" else none)) ]
  for o in outs do for l in o do IO.println l
  IO.println s!"DONE Assets {2 * n}"
