import Simfile.GenDiff.Rand
import Simfile.Gen.Code.Coalesce
open Simfile Simfile.GenDiff

def main (args : List String) : IO Unit := do
  let seed := (args.getD 0 "0").toNat!
  let n := (args.getD 1 "2000").toNat!
  let outs := [
    trials "coalesceWarps" seed n (do
      -- sorted tick-aligned starts, lengths that make warps nest, touch, overlap or stay apart
      let bs ← beats 6 0
      let ws ← bs.mapM fun b => do
        let k ← below 6
        let r ← below 200
        let len : Rat := if k = 0 then 1/48 else if k = 1 then 1/3 else if k = 2 then 4 else ((r : Nat) : Rat) / 48 + 1/96
        pure (b, len)
      let m := Simfile.coalesceWarps ws
      pure (if GenCode.coalesceWarps ws ≠ [(m.1, Tag.warp), (m.2, Tag.warpEnd)] then some (showPairs ws) else none)) ]
  for o in outs do for l in o do IO.println l
  IO.println s!"DONE Coalesce {n}"
