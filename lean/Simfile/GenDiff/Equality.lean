import Simfile.GenDiff.RandObj
import Simfile.Gen.Code.Equality
open Simfile Simfile.GenDiff

instance : Inhabited Kind := ⟨.smSimfile⟩

def main (args : List String) : IO Unit := do
  let seed := (args.getD 0 "0").toNat!
  let n := (args.getD 1 "2000").toNat!
  let obj : G EqObj := do pure { kind := ← pick [.smSimfile, .sscSimfile], items := ← dict 4, charts := ← listOf 2 (dict 3) }
  let outs := [
    trials "simfileEq" seed n (do
      let a ← obj
      -- the other object: the same, a prefix, one more item, a changed chart, or an unrelated one
      let b ← (do
        let r ← below 5
        if r = 0 then pure a
        else if r = 1 then pure { a with items := a.items.dropLast }
        else if r = 2 then pure { a with items := a.items ++ [("ZZ".toList, some [])] }
        else if r = 3 then pure { a with charts := a.charts.dropLast }
        else obj)
      pure (if GenCode.simfileEq a b ≠ Simfile.simfileEq a b then some s!"a={showDict a.items} b={showDict b.items}" else none)) ]
  for o in outs do for l in o do IO.println l
  IO.println s!"DONE Equality {n}"
