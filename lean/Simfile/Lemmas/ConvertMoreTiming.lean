/-
When exactly the timing data of an SM → SSC conversion result equals the source's (C16More): field by field.
-/
import Simfile.Lemmas.ConvertTiming
namespace Simfile.CT
open Simfile Simfile.O Simfile.V Simfile.S Simfile.Cv

/-- reading one key from `template + source` agrees with reading it from the source exactly when the source has
the key or the template's value reads like a missing property -/
theorem read_key_iff {α} (f : Option Str → α) (tmpl src : Dict) (k : Str) (hwf : Dict.WF src) :
    f ((setAll tmpl src).get? k).join = f (src.get? k).join ↔
      k ∈ Dict.keys src ∨ f (tmpl.get? k).join = f none := by
  by_cases hk : k ∈ Dict.keys src
  · rw [get?_setAll_of_key_WF tmpl src k hwf hk]; simp [hk]
  · rw [get?_setAll_of_not_key tmpl src k hk, (get?_eq_none_iff src k).mpr hk]
    simp only [hk, false_or]
    rfl

theorem TDStrings.ext_iff' (a b : TDStrings) :
    a = b ↔ a.bpms = b.bpms ∧ a.stops = b.stops ∧ a.delays = b.delays ∧ a.warps = b.warps ∧ a.offset = b.offset := by
  cases a; cases b; simp

/-- the stops condition, exactly: the source has STOPS; or neither STOPS nor FREEZES and the template's STOPS reads
empty; or FREEZES only, and the template's STOPS happens to read like the source's FREEZES -/
def StopsAgree (tmpl src : Dict) : Prop :=
  kSTOPS ∈ Dict.keys src ∨
  (kFREEZES ∉ Dict.keys src ∧ beatValuesFromStr (tmpl.get? kSTOPS).join = some []) ∨
  (kSTOPS ∉ Dict.keys src ∧ kFREEZES ∈ Dict.keys src ∧
    beatValuesFromStr (tmpl.get? kSTOPS).join = beatValuesFromStr (src.get? kFREEZES).join)

theorem stops_iff (tmpl src : Dict) (hwf : Dict.WF src) :
    beatValuesFromStr ((setAll tmpl src).get? kSTOPS).join =
        beatValuesFromStr (src.get? (nameOrAlias src kSTOPS (some kFREEZES))).join ↔ StopsAgree tmpl src := by
  unfold StopsAgree
  by_cases hs : kSTOPS ∈ Dict.keys src
  · rw [nameOrAlias_key src _ _ ((contains_iff src kSTOPS).mpr hs), get?_setAll_of_key_WF tmpl src _ hwf hs]
    simp [hs]
  · rw [get?_setAll_of_not_key tmpl src _ hs]
    by_cases hf : kFREEZES ∈ Dict.keys src
    · rw [nameOrAlias_alias src _ _ ((contains_false_iff src kSTOPS).mpr hs) ((contains_iff src kFREEZES).mpr hf)]
      simp [hs, hf]
    · rw [nameOrAlias_neither src _ _ (by intro al e; cases e; exact (contains_false_iff src kFREEZES).mpr hf),
        (get?_eq_none_iff src kSTOPS).mpr hs]
      simp only [hs, hf, not_false_eq_true, true_and, false_or, false_and, or_false]
      rfl

/-- the five fields of `template + source` read as SSC equal those of the source read as SM, exactly when -/
theorem tdOf_setAll_iff (tmpl src : Dict) (hwf : Dict.WF src) :
    tdOf ⟨.sscSimfile, setAll tmpl src⟩ = tdOf ⟨.smSimfile, src⟩ ↔
      (kBPMS ∈ Dict.keys src ∨ beatValuesFromStr (tmpl.get? kBPMS).join = some []) ∧
      StopsAgree tmpl src ∧
      (kDELAYS ∈ Dict.keys src ∨ beatValuesFromStr (tmpl.get? kDELAYS).join = some []) ∧
      (kWARPS ∈ Dict.keys src ∨ beatValuesFromStr (tmpl.get? kWARPS).join = some []) ∧
      (kOFFSET ∈ Dict.keys src ∨ offsetOf (tmpl.get? kOFFSET).join = some 0) := by
  rw [tdOf_ssc, tdOf_sm, TDStrings.ext_iff']
  simp only []
  rw [read_key_iff beatValuesFromStr tmpl src kBPMS hwf, read_key_iff beatValuesFromStr tmpl src kDELAYS hwf,
    read_key_iff beatValuesFromStr tmpl src kWARPS hwf, read_key_iff offsetOf tmpl src kOFFSET hwf,
    stops_iff tmpl src hwf]
  rfl

/-- the stops read from either side when the source spells them FREEZES only -/
theorem stops_freezes_only (tmpl src : Dict) (hs : kSTOPS ∉ Dict.keys src) (hf : kFREEZES ∈ Dict.keys src) :
    (tdOf ⟨.sscSimfile, setAll tmpl src⟩).stops = beatValuesFromStr (tmpl.get? kSTOPS).join ∧
    (tdOf ⟨.smSimfile, src⟩).stops = beatValuesFromStr (src.get? kFREEZES).join := by
  rw [tdOf_ssc, tdOf_sm]
  simp only []
  rw [get?_setAll_of_not_key tmpl src _ hs,
    nameOrAlias_alias src _ _ ((contains_false_iff src kSTOPS).mpr hs) ((contains_iff src kFREEZES).mpr hf)]
  exact ⟨rfl, rfl⟩

theorem neutral_iff (tmpl src : Dict) :
    Neutral tmpl src ↔
      (kBPMS ∈ Dict.keys src ∨ beatValuesFromStr (tmpl.get? kBPMS).join = some []) ∧
      (kSTOPS ∈ Dict.keys src ∨ (kFREEZES ∉ Dict.keys src ∧ beatValuesFromStr (tmpl.get? kSTOPS).join = some [])) ∧
      (kDELAYS ∈ Dict.keys src ∨ beatValuesFromStr (tmpl.get? kDELAYS).join = some []) ∧
      (kWARPS ∈ Dict.keys src ∨ beatValuesFromStr (tmpl.get? kWARPS).join = some []) ∧
      (kOFFSET ∈ Dict.keys src ∨ offsetOf (tmpl.get? kOFFSET).join = some 0) :=
  ⟨fun h => ⟨h.bpms, h.stops, h.delays, h.warps, h.offset⟩, fun ⟨a, b, c, d, e⟩ => ⟨a, b, c, d, e⟩⟩

end Simfile.CT
