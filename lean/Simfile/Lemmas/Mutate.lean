/-
Helper definitions and lemmas for C05 / C06 (Simfile.Model.Mutate).
-/
import Simfile.Model.Mutate
namespace Simfile
namespace Mut

/-! ### vocabulary -/

/-- the backup name, when given, differs from the input name and from the output name as written -/
def NoClash (c : MutateCfg) : Prop :=
  ∀ b, given c.backup = some b → b ≠ c.input ∧ some b ≠ c.output

instance (c : MutateCfg) : Decidable (NoClash c) := by
  unfold NoClash
  cases h : given c.backup with
  | none => exact isTrue (by intro b hb; cases hb)
  | some b0 =>
    by_cases h2 : b0 ≠ c.input ∧ some b0 ≠ c.output
    · exact isTrue (by intro b hb; cases hb; exact h2)
    · exact isFalse (fun hh => h2 (hh b0 rfl))

/-- write-side filesystem calls: everything except open-for-reading -/
def writeSide : FsOp → Bool
  | .openR _ _ => false
  | _ => true

/-- the path an op acts on -/
def opPath : FsOp → Str
  | .openR p _ => p
  | .openW p _ => p
  | .write p => p
  | .close p => p

/-- the paths of a file map -/
def paths (fs : List (Str × Content)) : List Str := fs.map (·.1)

/-- replace (or create) the entry of `p` -/
def setFile (fs : List (Str × Content)) (p : Str) (v : Content) : List (Str × Content) :=
  (fs.filter (·.1 ≠ p)) ++ [(p, v)]

/-! ### `given` -/

theorem given_eq_some {x : Option Str} {s : Str} (h : given x = some s) : x = some s := by
  unfold given at h
  split at h
  · exact h
  · cases h

theorem given_some_ne_nil {x : Option Str} {s : Str} (h : given x = some s) : s ≠ [] := by
  unfold given at h
  split at h
  · cases h; simp
  · cases h

theorem given_none : given none = none := rfl
theorem given_nil : given (some []) = none := rfl
theorem given_cons (c : Char) (cs : Str) : given (some (c :: cs)) = some (c :: cs) := rfl

theorem given_eq_none_iff (x : Option Str) : given x = none ↔ x = none ∨ x = some [] := by
  rcases x with _ | (_ | ⟨c, cs⟩) <;> simp [given]

theorem outPath_of_none {c : MutateCfg} (h : given c.output = none) : c.outPath = c.input := by
  simp [MutateCfg.outPath, h]

theorem outPath_of_some {c : MutateCfg} {o : Str} (h : given c.output = some o) : c.outPath = o := by
  simp [MutateCfg.outPath, h]

/-- without a clash the backup path differs from the path that is written -/
theorem backup_ne_outPath {c : MutateCfg} (hnc : NoClash c) {b : Str} (hb : given c.backup = some b) :
    b ≠ c.outPath := by
  obtain ⟨h1, h2⟩ := hnc b hb
  cases ho : given c.output with
  | none => rw [outPath_of_none ho]; exact h1
  | some o =>
    rw [outPath_of_some ho]
    intro hbo
    apply h2
    rw [given_eq_some ho, hbo]

/-! ### detection -/

theorem detect_nil : detectEncoding [] = none := rfl

theorem detect_cons (e : Str) (ok : Bool) (rest : List (Str × Bool)) :
    detectEncoding ((e, ok) :: rest) = if ok then some e else detectEncoding rest := by
  cases ok <;> simp [detectEncoding]

theorem detect_some_iff (tries : List (Str × Bool)) (e : Str) :
    detectEncoding tries = some e ↔
      ∃ pre post, tries = pre ++ (e, true) :: post ∧ ∀ x ∈ pre, x.2 = false := by
  induction tries with
  | nil => simp [detect_nil]
  | cons x rest ih =>
    obtain ⟨e0, ok⟩ := x
    rw [detect_cons]
    cases ok with
    | true =>
      simp only [if_true]
      constructor
      · intro h
        cases h
        exact ⟨[], rest, rfl, by simp⟩
      · rintro ⟨pre, post, h, hpre⟩
        cases pre with
        | nil => simp at h; rw [h.1]
        | cons y pre =>
          simp only [List.cons_append, List.cons.injEq] at h
          have := hpre y (by simp)
          rw [← h.1] at this
          simp at this
    | false =>
      simp only [Bool.false_eq_true, if_false]
      rw [ih]
      constructor
      · rintro ⟨pre, post, h, hpre⟩
        refine ⟨(e0, false) :: pre, post, by simp [h], ?_⟩
        intro x hx
        rcases List.mem_cons.mp hx with rfl | hx
        · rfl
        · exact hpre x hx
      · rintro ⟨pre, post, h, hpre⟩
        cases pre with
        | nil => simp at h
        | cons y pre =>
          simp only [List.cons_append, List.cons.injEq] at h
          exact ⟨pre, post, h.2, fun x hx => hpre x (by simp [hx])⟩

theorem detect_none_iff (tries : List (Str × Bool)) :
    detectEncoding tries = none ↔ ∀ x ∈ tries, x.2 = false := by
  induction tries with
  | nil => simp [detect_nil]
  | cons x rest ih =>
    obtain ⟨e0, ok⟩ := x
    rw [detect_cons]
    cases ok <;> simp [ih]

/-! ### scripts -/

theorem readOps_all_openR (input : Str) (tries : List (Str × Bool)) :
    ∀ op ∈ readOps input tries, ∃ e, op = FsOp.openR input e := by
  induction tries with
  | nil => simp [readOps]
  | cons x rest ih =>
    obtain ⟨e0, ok⟩ := x
    intro op hop
    simp only [readOps, List.mem_cons] at hop
    rcases hop with rfl | hop
    · exact ⟨e0, rfl⟩
    · cases ok
      · exact ih op (by simpa using hop)
      · simp at hop

theorem readOps_not_writeSide (input : Str) (tries : List (Str × Bool)) :
    ∀ op ∈ readOps input tries, writeSide op = false := by
  intro op hop
  obtain ⟨e, rfl⟩ := readOps_all_openR input tries op hop
  rfl

theorem saveOps_some {c : MutateCfg} {b : Str} (hb : given c.backup = some b) (enc : Str) :
    saveOps c enc = [FsOp.openW b enc, FsOp.write b, FsOp.close b] ++
      [FsOp.openW c.outPath enc, FsOp.write c.outPath, FsOp.close c.outPath] := by
  simp [saveOps, hb]

theorem saveOps_none {c : MutateCfg} (hb : given c.backup = none) (enc : Str) :
    saveOps c enc = [FsOp.openW c.outPath enc, FsOp.write c.outPath, FsOp.close c.outPath] := by
  simp [saveOps, hb]

/-! ### `mutate` -/

theorem mutate_of_noClash {c : MutateCfg} (hnc : NoClash c) (tries : List (Str × Bool)) (body : Body)
    (problem : SaveProblem) : mutate c tries body problem = mutate.go c tries body problem := by
  unfold mutate
  split
  · rename_i b hb
    obtain ⟨h1, h2⟩ := hnc b hb
    simp [h1, h2]
  · rfl

theorem mutate_of_clash {c : MutateCfg} {b : Str} (hb : given c.backup = some b)
    (h : b = c.input ∨ some b = c.output) (tries : List (Str × Bool)) (body : Body) (problem : SaveProblem) :
    mutate c tries body problem = (.valueError, []) := by
  unfold mutate
  rw [hb]
  simp [h]

/-! ### lookups in updated maps -/

theorem lookup_setFile_self (fs : List (Str × Content)) (p : Str) (v : Content) :
    lookupContent (setFile fs p v) p = some v := by
  unfold lookupContent setFile
  rw [List.find?_append]
  have : List.find? (fun x => decide (x.1 = p)) (List.filter (fun x => decide (x.1 ≠ p)) fs) = none := by
    rw [List.find?_eq_none]
    intro x hx
    have := (List.mem_filter.mp hx).2
    simpa using this
  rw [this]
  simp

theorem lookup_setFile_ne (fs : List (Str × Content)) {p q : Str} (v : Content) (h : q ≠ p) :
    lookupContent (setFile fs p v) q = lookupContent fs q := by
  unfold lookupContent setFile
  rw [List.find?_append]
  have h1 : List.find? (fun x => decide (x.1 = q)) [(p, v)] = none := by
    simp [List.find?, Ne.symm h]
  rw [h1, Option.or_none, List.find?_filter]
  congr 2
  funext x
  by_cases hx : x.1 = q
  · simp [hx, h]
  · simp [hx]

theorem paths_setFile (fs : List (Str × Content)) (p : Str) (v : Content) :
    ∀ q ∈ paths (setFile fs p v), q ∈ paths fs ∨ q = p := by
  intro q hq
  simp only [paths, setFile, List.map_append, List.mem_append, List.mem_map] at hq
  rcases hq with ⟨x, hx, rfl⟩ | ⟨x, hx, rfl⟩
  · left
    exact List.mem_map.mpr ⟨x, (List.mem_filter.mp hx).1, rfl⟩
  · right
    simp at hx
    rw [hx]

/-- an updated map has exactly one entry for the updated path -/
theorem paths_setFile_mem (fs : List (Str × Content)) (p : Str) (v : Content) : p ∈ paths (setFile fs p v) := by
  simp [paths, setFile]

/-! ### `applyOp`, `runWrites` -/

theorem applyOp_openR (fs b p e) : applyOp fs b (.openR p e) = fs := rfl
theorem applyOp_close (fs b p) : applyOp fs b (.close p) = fs := rfl
theorem applyOp_openW (fs b p e) : applyOp fs b (.openW p e) = setFile fs p .truncated := rfl
theorem applyOp_write (fs b p) : applyOp fs b (.write p) = setFile fs p (.written (b = some p)) := rfl

theorem lookup_applyOp_ne (fs : List (Str × Content)) (b : Option Str) (op : FsOp) (q : Str)
    (h : writeSide op = true → opPath op ≠ q) : lookupContent (applyOp fs b op) q = lookupContent fs q := by
  cases op with
  | openR p e => rfl
  | close p => rfl
  | openW p e =>
    rw [applyOp_openW]
    exact lookup_setFile_ne _ _ (Ne.symm (h rfl))
  | write p =>
    rw [applyOp_write]
    exact lookup_setFile_ne _ _ (Ne.symm (h rfl))

theorem paths_applyOp (fs : List (Str × Content)) (b : Option Str) (op : FsOp) :
    ∀ q ∈ paths (applyOp fs b op), q ∈ paths fs ∨ (writeSide op = true ∧ opPath op = q) := by
  intro q hq
  cases op with
  | openR p e => exact Or.inl hq
  | close p => exact Or.inl hq
  | openW p e =>
    rw [applyOp_openW] at hq
    rcases paths_setFile _ _ _ q hq with h | h
    · exact Or.inl h
    · exact Or.inr ⟨rfl, h.symm⟩
  | write p =>
    rw [applyOp_write] at hq
    rcases paths_setFile _ _ _ q hq with h | h
    · exact Or.inl h
    · exact Or.inr ⟨rfl, h.symm⟩

theorem runWrites_nil (fs b k) : runWrites fs b [] k = fs := by
  cases k with
  | none => rfl
  | some k => cases k <;> rfl

theorem runWrites_cons_none (fs b op rest) :
    runWrites fs b (op :: rest) none = runWrites (applyOp fs b op) b rest none := rfl

theorem runWrites_openR (fs b p e rest k) :
    runWrites fs b (.openR p e :: rest) k = runWrites fs b rest k := by
  cases k with
  | none => rfl
  | some k => cases k <;> rfl

theorem runWrites_openW_zero (fs b p e rest) : runWrites fs b (.openW p e :: rest) (some 0) = fs := rfl
theorem runWrites_write_zero (fs b p rest) :
    runWrites fs b (.write p :: rest) (some 0) = setFile fs p .truncated := rfl
theorem runWrites_close_zero (fs b p rest) : runWrites fs b (.close p :: rest) (some 0) = fs := rfl

theorem runWrites_succ (fs b op rest k) (h : writeSide op = true) :
    runWrites fs b (op :: rest) (some (k + 1)) = runWrites (applyOp fs b op) b rest (some k) := by
  cases op with
  | openR p e => cases h
  | _ => rfl

/-- the frame property: a path no write-side call acts on keeps its content, whatever the fault -/
theorem runWrites_frame (b : Option Str) (q : Str) (ops : List FsOp) :
    (∀ op ∈ ops, writeSide op = true → opPath op ≠ q) →
    ∀ (fs : List (Str × Content)) (k : Option Nat),
      lookupContent (runWrites fs b ops k) q = lookupContent fs q := by
  induction ops with
  | nil => intro _ fs k; rw [runWrites_nil]
  | cons op rest ih =>
    intro h fs k
    have hrest : ∀ op ∈ rest, writeSide op = true → opPath op ≠ q := fun o ho => h o (by simp [ho])
    have hop : writeSide op = true → opPath op ≠ q := h op (by simp)
    cases hw : writeSide op with
    | false =>
      cases op with
      | openR p e => rw [runWrites_openR]; exact ih hrest fs k
      | _ => cases hw
    | true =>
      cases k with
      | none =>
        rw [runWrites_cons_none, ih hrest, lookup_applyOp_ne _ _ _ _ hop]
      | some k =>
        cases k with
        | succ k =>
          rw [runWrites_succ _ _ _ _ _ hw, ih hrest, lookup_applyOp_ne _ _ _ _ hop]
        | zero =>
          cases op with
          | openR p e => cases hw
          | openW p e => rfl
          | close p => rfl
          | write p =>
            rw [runWrites_write_zero]
            exact lookup_setFile_ne _ _ (Ne.symm (hop rfl))

/-- no stray files: every path of the final map was there before or is the path of a write-side call -/
theorem runWrites_paths (b : Option Str) (ops : List FsOp) :
    ∀ (fs : List (Str × Content)) (k : Option Nat), ∀ q ∈ paths (runWrites fs b ops k),
      q ∈ paths fs ∨ ∃ op ∈ ops, writeSide op = true ∧ opPath op = q := by
  induction ops with
  | nil => intro fs k q hq; rw [runWrites_nil] at hq; exact Or.inl hq
  | cons op rest ih =>
    intro fs k q hq
    have lift : (q ∈ paths (applyOp fs b op) ∨ ∃ o ∈ rest, writeSide o = true ∧ opPath o = q) →
        q ∈ paths fs ∨ ∃ o ∈ op :: rest, writeSide o = true ∧ opPath o = q := by
      rintro (h | ⟨o, ho, h⟩)
      · rcases paths_applyOp _ _ _ q h with h | h
        · exact Or.inl h
        · exact Or.inr ⟨op, by simp, h⟩
      · exact Or.inr ⟨o, by simp [ho], h⟩
    cases hw : writeSide op with
    | false =>
      cases op with
      | openR p e =>
        rw [runWrites_openR] at hq
        rcases ih fs k q hq with h | ⟨o, ho, h⟩
        · exact Or.inl h
        · exact Or.inr ⟨o, by simp [ho], h⟩
      | _ => cases hw
    | true =>
      cases k with
      | none =>
        rw [runWrites_cons_none] at hq
        exact lift (ih _ _ q hq)
      | some k =>
        cases k with
        | succ k =>
          rw [runWrites_succ _ _ _ _ _ hw] at hq
          exact lift (ih _ _ q hq)
        | zero =>
          cases op with
          | openR p e => cases hw
          | openW p e => exact Or.inl hq
          | close p => exact Or.inl hq
          | write p =>
            rw [runWrites_write_zero] at hq
            rcases paths_setFile _ _ _ q hq with h | h
            · exact Or.inl h
            · exact Or.inr ⟨FsOp.write p, by simp, rfl, h.symm⟩

/-- calls that are not write-side are invisible -/
theorem runWrites_skip (b : Option Str) (pre : List FsOp) (h : ∀ op ∈ pre, writeSide op = false)
    (fs : List (Str × Content)) (rest : List FsOp) (k : Option Nat) :
    runWrites fs b (pre ++ rest) k = runWrites fs b rest k := by
  induction pre with
  | nil => rfl
  | cons op pre ih =>
    have := h op (by simp)
    cases op with
    | openR p e =>
      rw [List.cons_append, runWrites_openR]
      exact ih (fun o ho => h o (by simp [ho]))
    | _ => cases this

theorem runWrites_no_write (b : Option Str) (ops : List FsOp) (h : ∀ op ∈ ops, writeSide op = false)
    (fs : List (Str × Content)) (k : Option Nat) : runWrites fs b ops k = fs := by
  have := runWrites_skip b ops h fs [] k
  rw [List.append_nil] at this
  rw [this, runWrites_nil]

theorem runWrites_readOps (fs b input tries rest k) :
    runWrites fs b (readOps input tries ++ rest) k = runWrites fs b rest k :=
  runWrites_skip b _ (readOps_not_writeSide input tries) fs rest k

theorem runWrites_append_none (b : Option Str) (o1 o2 : List FsOp) :
    ∀ fs, runWrites fs b (o1 ++ o2) none = runWrites (runWrites fs b o1 none) b o2 none := by
  induction o1 with
  | nil => intro fs; rfl
  | cons op o1 ih => intro fs; simp only [List.cons_append, runWrites_cons_none, ih]

/-- number of write-side calls of a script -/
def nWrites (ops : List FsOp) : Nat := (ops.filter writeSide).length

/-- a fault inside the first block: the second block is never reached -/
theorem runWrites_append_lt (b : Option Str) (o1 o2 : List FsOp) :
    ∀ (fs : List (Str × Content)) (k : Nat), k < nWrites o1 →
      runWrites fs b (o1 ++ o2) (some k) = runWrites fs b o1 (some k) := by
  induction o1 with
  | nil => intro fs k h; simp [nWrites] at h
  | cons op o1 ih =>
    intro fs k h
    cases hw : writeSide op with
    | false =>
      cases op with
      | openR p e =>
        rw [List.cons_append, runWrites_openR, runWrites_openR]
        apply ih
        simpa [nWrites, writeSide] using h
      | _ => cases hw
    | true =>
      cases k with
      | zero =>
        cases op with
        | openR p e => cases hw
        | _ => rfl
      | succ k =>
        rw [List.cons_append, runWrites_succ _ _ _ _ _ hw, runWrites_succ _ _ _ _ _ hw]
        apply ih
        simp only [nWrites, List.filter_cons, hw, if_true, List.length_cons] at h
        simp only [nWrites]
        omega

/-- a fault after the first block: the first block runs fault-free -/
theorem runWrites_append_ge (b : Option Str) (o1 o2 : List FsOp) :
    ∀ (fs : List (Str × Content)) (k : Nat), nWrites o1 ≤ k →
      runWrites fs b (o1 ++ o2) (some k) =
        runWrites (runWrites fs b o1 none) b o2 (some (k - nWrites o1)) := by
  induction o1 with
  | nil => intro fs k _; simp [nWrites, runWrites_nil]
  | cons op o1 ih =>
    intro fs k h
    cases hw : writeSide op with
    | false =>
      cases op with
      | openR p e =>
        rw [List.cons_append, runWrites_openR, runWrites_openR]
        have e : nWrites (FsOp.openR p e :: o1) = nWrites o1 := by simp [nWrites, writeSide]
        rw [e] at h ⊢
        exact ih fs k h
      | _ => cases hw
    | true =>
      have e : nWrites (op :: o1) = nWrites o1 + 1 := by simp [nWrites, hw]
      rw [e] at h ⊢
      cases k with
      | zero => omega
      | succ k =>
        rw [List.cons_append, runWrites_succ _ _ _ _ _ hw, runWrites_cons_none, ih _ k (by omega)]
        congr 2
        omega

/-! ### the save script: two blocks of three calls -/

/-- open / write / close of one file -/
def block (p enc : Str) : List FsOp := [FsOp.openW p enc, FsOp.write p, FsOp.close p]

theorem saveOps_some' {c : MutateCfg} {b : Str} (hb : given c.backup = some b) (enc : Str) :
    saveOps c enc = block b enc ++ block c.outPath enc := saveOps_some hb enc

theorem saveOps_none' {c : MutateCfg} (hb : given c.backup = none) (enc : Str) :
    saveOps c enc = block c.outPath enc := saveOps_none hb enc

theorem nWrites_block (p enc : Str) : nWrites (block p enc) = 3 := rfl

theorem block_writeSide (p enc : Str) : ∀ op ∈ block p enc, writeSide op = true := by
  intro op h
  simp only [block, List.mem_cons, List.not_mem_nil, or_false] at h
  rcases h with rfl | rfl | rfl <;> rfl

theorem block_path (p enc : Str) : ∀ op ∈ block p enc, opPath op = p := by
  intro op h
  simp only [block, List.mem_cons, List.not_mem_nil, or_false] at h
  rcases h with rfl | rfl | rfl <;> rfl

theorem run_block_none (fs : List (Str × Content)) (b : Option Str) (p enc : Str) :
    runWrites fs b (block p enc) none =
      setFile (setFile fs p .truncated) p (.written (b = some p)) := rfl

theorem lookup_run_block_none (fs : List (Str × Content)) (b : Option Str) (p enc : Str) :
    lookupContent (runWrites fs b (block p enc) none) p = some (.written (b = some p)) := by
  rw [run_block_none, lookup_setFile_self]

/-- a block leaves every other path alone, whatever the fault -/
theorem lookup_run_block_ne (fs : List (Str × Content)) (b : Option Str) (p enc : Str) (k : Option Nat)
    {q : Str} (h : p ≠ q) : lookupContent (runWrites fs b (block p enc) k) q = lookupContent fs q := by
  apply runWrites_frame
  intro op hop _
  rw [block_path p enc op hop]
  exact h

theorem saveOps_writeSide (c : MutateCfg) (enc : Str) : ∀ op ∈ saveOps c enc, writeSide op = true := by
  intro op hop
  cases hb : given c.backup with
  | none =>
    rw [saveOps_none' hb] at hop
    exact block_writeSide _ _ op hop
  | some b =>
    rw [saveOps_some' hb, List.mem_append] at hop
    rcases hop with h | h <;> exact block_writeSide _ _ op h

theorem saveOps_path (c : MutateCfg) (enc : Str) :
    ∀ op ∈ saveOps c enc, opPath op = c.outPath ∨ given c.backup = some (opPath op) := by
  intro op hop
  cases hb : given c.backup with
  | none =>
    rw [saveOps_none' hb] at hop
    exact Or.inl (block_path _ _ op hop)
  | some b =>
    rw [saveOps_some' hb, List.mem_append] at hop
    rcases hop with h | h
    · right; rw [block_path _ _ op h]
    · left; exact block_path _ _ op h

theorem filter_writeSide_script (input : Str) (tries : List (Str × Bool)) (c : MutateCfg) (enc : Str) :
    (readOps input tries ++ saveOps c enc).filter writeSide = saveOps c enc := by
  rw [List.filter_append]
  have h1 : (readOps input tries).filter writeSide = [] := by
    rw [List.filter_eq_nil_iff]
    intro op hop
    simp [readOps_not_writeSide input tries op hop]
  have h2 : (saveOps c enc).filter writeSide = saveOps c enc := by
    rw [List.filter_eq_self]
    exact saveOps_writeSide c enc
  rw [h1, h2, List.nil_append]

/-- position lemma: in `pre ++ post`, an element with a property no element of `post` has sits in `pre` -/
theorem idx_lt_of_not_post {α} (pre post : List α) (P : α → Prop) (hpost : ∀ y ∈ post, ¬ P y)
    {i : Nat} {x : α} (hi : (pre ++ post)[i]? = some x) (hx : P x) : i < pre.length := by
  by_cases h : i < pre.length
  · exact h
  · exfalso
    rw [List.getElem?_append_right (by omega)] at hi
    exact hpost x (List.mem_of_getElem? hi) hx

theorem idx_ge_of_not_pre {α} (pre post : List α) (P : α → Prop) (hpre : ∀ y ∈ pre, ¬ P y)
    {i : Nat} {x : α} (hi : (pre ++ post)[i]? = some x) (hx : P x) : pre.length ≤ i := by
  by_cases h : i < pre.length
  · exfalso
    rw [List.getElem?_append_left h] at hi
    exact hpre x (List.mem_of_getElem? hi) hx
  · omega

/-! ### pairwise distinct paths are preserved -/

theorem nodup_setFile (fs : List (Str × Content)) (p : Str) (v : Content) (h : (paths fs).Nodup) :
    (paths (setFile fs p v)).Nodup := by
  unfold paths setFile
  rw [List.map_append, List.nodup_append]
  refine ⟨?_, by simp, ?_⟩
  · exact List.Nodup.sublist (List.Sublist.map _ List.filter_sublist) h
  · intro a ha b hb
    simp only [List.map_cons, List.map_nil, List.mem_singleton] at hb
    subst hb
    obtain ⟨x, hx, rfl⟩ := List.mem_map.mp ha
    simpa using (List.mem_filter.mp hx).2

theorem nodup_applyOp (fs : List (Str × Content)) (b : Option Str) (op : FsOp) (h : (paths fs).Nodup) :
    (paths (applyOp fs b op)).Nodup := by
  cases op with
  | openR p e => exact h
  | close p => exact h
  | openW p e => exact nodup_setFile _ _ _ h
  | write p => exact nodup_setFile _ _ _ h

theorem nodup_runWrites (b : Option Str) (ops : List FsOp) :
    ∀ (fs : List (Str × Content)) (k : Option Nat), (paths fs).Nodup → (paths (runWrites fs b ops k)).Nodup := by
  induction ops with
  | nil => intro fs k h; rw [runWrites_nil]; exact h
  | cons op rest ih =>
    intro fs k h
    cases hw : writeSide op with
    | false =>
      cases op with
      | openR p e => rw [runWrites_openR]; exact ih fs k h
      | _ => cases hw
    | true =>
      cases k with
      | none => rw [runWrites_cons_none]; exact ih _ _ (nodup_applyOp _ _ _ h)
      | some k =>
        cases k with
        | succ k => rw [runWrites_succ _ _ _ _ _ hw]; exact ih _ _ (nodup_applyOp _ _ _ h)
        | zero =>
          cases op with
          | openR p e => cases hw
          | openW p e => exact h
          | close p => exact h
          | write p => rw [runWrites_write_zero]; exact nodup_setFile _ _ _ h

theorem readOps_all_false (input : Str) (tries : List (Str × Bool)) (hall : ∀ x ∈ tries, x.2 = false) :
    readOps input tries = tries.map fun x => FsOp.openR input x.1 := by
  induction tries with
  | nil => rfl
  | cons x rest ih =>
    obtain ⟨e0, ok⟩ := x
    have h0 : ok = false := hall (e0, ok) (by simp)
    subst h0
    simp [readOps, ih (fun x hx => hall x (by simp [hx]))]

theorem not_noClash {c : MutateCfg} (h : ¬ NoClash c) :
    ∃ b, given c.backup = some b ∧ (b = c.input ∨ some b = c.output) := by
  cases hb : given c.backup with
  | none => exact absurd (fun b hb' => by rw [hb] at hb'; cases hb') h
  | some b =>
    refine ⟨b, rfl, ?_⟩
    by_cases h1 : b = c.input
    · exact Or.inl h1
    · by_cases h2 : some b = c.output
      · exact Or.inr h2
      · exfalso
        apply h
        intro b' hb'
        rw [hb] at hb'
        cases hb'
        exact ⟨h1, h2⟩

end Mut
end Simfile
