/-
SM → SSC → SM with default arguments, on every SM source: exactly when it succeeds, and what comes back.
Lemmas behind `C17More.there_and_back_iff` / `there_and_back_weak`.
-/
import Simfile.Lemmas.ConvertMore
import Simfile.Lemmas.ConvertTiming
namespace Simfile.Cv
open Simfile Simfile.O Simfile.V Simfile.CT

/-! ### items of `setAll` -/

theorem mem_setAll_of_mem_WF (d0 src : Dict) (kv : Str × Option Str) (hwf : Dict.WF src) (h : kv ∈ src) :
    kv ∈ setAll d0 src :=
  mem_of_get? _ _ _ (get?_setAll_of_mem_WF d0 src kv hwf h)

/-- an item of the result whose key is a source key is a source item -/
theorem mem_src_of_mem_setAll (d0 src : Dict) (x : Str × Option Str) (hwf0 : Dict.WF d0) (hwf : Dict.WF src)
    (h : x ∈ setAll d0 src) (hk : x.1 ∈ Dict.keys src) : x ∈ src := by
  have h1 : (setAll d0 src).get? x.1 = some x.2 := get?_of_mem_WF _ x.1 x.2 (WF_setAll _ _ hwf0) h
  rw [get?_setAll_of_key_WF d0 src x.1 hwf hk] at h1
  exact mem_of_get? _ _ _ h1

theorem forall_setAll_iff (d0 src : Dict) (P : Str × Option Str → Prop) (hwf0 : Dict.WF d0) (hwf : Dict.WF src)
    (h0 : ∀ x ∈ d0, P x) : (∀ x ∈ setAll d0 src, P x) ↔ ∀ x ∈ src, P x := by
  constructor
  · intro h x hx; exact h x (mem_setAll_of_mem_WF d0 src x hwf hx)
  · intro h x hx
    rcases mem_setAll _ _ _ hx with hk | hd
    · exact h x (mem_src_of_mem_setAll d0 src x hwf0 hwf hx hk)
    · exact h0 x hd

/-! ### table facts -/

/-- no default behaviour is COPY_ANYWAY: with default behaviours, copied = not listed -/
theorem default_never_copy : (∀ e ∈ T.invalidSMSimfile, behaviourOf [] e.1 ≠ bCOPY) ∧
    (∀ e ∈ T.invalidSMChart, behaviourOf [] e.1 ≠ bCOPY) := by decide

theorem copied_default_sim (k : Str) : copied T.invalidSMSimfile [] k = true ↔ listedIn T.invalidSMSimfile k = none := by
  unfold copied
  cases h : listedIn T.invalidSMSimfile k with
  | none => simp
  | some e => simpa using default_never_copy.1 e (listedIn_some _ _ _ h).1

theorem copied_default_chart (k : Str) : copied T.invalidSMChart [] k = true ↔ listedIn T.invalidSMChart k = none := by
  unfold copied
  cases h : listedIn T.invalidSMChart k with
  | none => simp
  | some e => simpa using default_never_copy.2 e (listedIn_some _ _ _ h).1

theorem blank_ssc_props_clean : ∀ kv ∈ T.blankSSCSimfile, itemProblem false T.invalidSMSimfile [] kv = none := by
  decide +kernel

theorem blank_ssc_chart_clean : ∀ kv ∈ T.blankSSCChart, itemProblem true T.invalidSMChart [] kv = none := by
  decide +kernel

/-- the blank SM simfile holds no SSC-only key -/
theorem blank_sm_not_listed : ∀ k ∈ Dict.keys T.blankSMSimfile, listedIn T.invalidSMSimfile k = none := by
  decide +kernel

theorem blank_ssc_warps_value : Dict.get? T.blankSSCSimfile ['W','A','R','P','S'] = some (some []) := by
  decide +kernel

/-! ### the SSC simfile `sm_to_ssc` makes, then `ssc_to_sm` -/

/-- the result of `sm_to_ssc(sm)` (default arguments) -/
def sscOf (sm : AnySimfile) : AnySimfile :=
  { isSSC := true, props := setAll T.blankSSCSimfile sm.props,
    charts := sm.charts.map fun c => (setAll T.blankSSCChart c.1, none) }

theorem convert_toSSC_default (sm : AnySimfile) (hw : convertWarps sm = .ok ()) :
    convert sm true none none [] = .ok (sscOf sm) := convert_toSSC sm none none [] hw

/-- the WARPS value of the SM source is a non-empty string -/
def smHasWarps (sm : AnySimfile) : Prop := ∃ x xs, (sm.props.get? ['W','A','R','P','S']).join = some (x :: xs)

theorem hasWarps_sscOf (sm : AnySimfile) (hwf : Dict.WF sm.props) : hasWarps (sscOf sm) ↔ smHasWarps sm := by
  unfold hasWarps smHasWarps sscOf
  simp only []
  by_cases hk : ['W','A','R','P','S'] ∈ Dict.keys sm.props
  · rw [get?_setAll_of_key_WF _ _ _ hwf hk]
  · rw [get?_setAll_of_not_key _ _ _ hk, blank_ssc_warps_value, (get?_eq_none_iff _ _).mpr hk]
    simp

theorem firstProblem_sscOf (sm : AnySimfile) (hwf : Dict.WF sm.props) (hc : ∀ c ∈ sm.charts, Dict.WF c.1) :
    firstProblem (sscOf sm) [] = none ↔
      (∀ x ∈ sm.props, itemProblem false T.invalidSMSimfile [] x = none) ∧
      ∀ c ∈ sm.charts, ∀ x ∈ c.1, itemProblem true T.invalidSMChart [] x = none := by
  rw [firstProblem_eq_none_iff]
  unfold sscOf
  simp only [List.mem_map, forall_exists_index, and_imp, forall_apply_eq_imp_iff₂]
  rw [forall_setAll_iff _ _ _ blank_wf.1 hwf blank_ssc_props_clean]
  refine and_congr_right fun _ => ?_
  constructor
  · intro h c hcm; exact (forall_setAll_iff _ _ _ blank_wf.2.1 (hc c hcm) blank_ssc_chart_clean).mp (h c hcm)
  · intro h c hcm; exact (forall_setAll_iff _ _ _ blank_wf.2.1 (hc c hcm) blank_ssc_chart_clean).mpr (h c hcm)

/-- the chart `ssc_to_sm` (default arguments) makes of the SSC chart made of an SM chart -/
def backOf (c : Dict × Option (List Str)) : Dict × Option (List Str) :=
  chartOut none [] (setAll T.blankSSCChart c.1, none)

/-- the result of `ssc_to_sm(sm_to_ssc(sm))` when it succeeds -/
def backSim (sm : AnySimfile) : AnySimfile :=
  { isSSC := false,
    props := setAll T.blankSMSimfile
      ((setAll T.blankSSCSimfile sm.props).filter fun kv => copied T.invalidSMSimfile [] kv.1),
    charts := sm.charts.map backOf }

/-- SM → SSC → SM, default arguments: exactly when both steps succeed -/
theorem round_trip_iff (sm : AnySimfile) (hwf : Dict.WF sm.props) (hc : ∀ c ∈ sm.charts, Dict.WF c.1) :
    (∃ ssc sm', convert sm true none none [] = .ok ssc ∧ convert ssc false none none [] = .ok sm') ↔
      convertWarps sm = .ok () ∧ ¬ smHasWarps sm ∧
      (∀ x ∈ sm.props, itemProblem false T.invalidSMSimfile [] x = none) ∧
      ∀ c ∈ sm.charts, ∀ x ∈ c.1, itemProblem true T.invalidSMChart [] x = none := by
  constructor
  · rintro ⟨ssc, sm', h1, h2⟩
    have hw : convertWarps sm = .ok () := by
      rw [convert_eq] at h1
      cases hw : convertWarps sm with
      | error e => rw [hw] at h1; cases h1
      | ok u => rfl
    rw [convert_toSSC_default sm hw] at h1
    cases h1
    obtain ⟨h3, h4⟩ := (convert_ssc_ok_iff (sscOf sm) none none [] rfl).mp ⟨sm', h2⟩
    exact ⟨hw, fun h => h3 ((hasWarps_sscOf sm hwf).mpr h), (firstProblem_sscOf sm hwf hc).mp h4⟩
  · rintro ⟨hw, h3, h4⟩
    obtain ⟨sm', h2⟩ := (convert_ssc_ok_iff (sscOf sm) none none [] rfl).mpr
      ⟨fun h => h3 ((hasWarps_sscOf sm hwf).mp h), (firstProblem_sscOf sm hwf hc).mpr h4⟩
    exact ⟨_, sm', convert_toSSC_default sm hw, h2⟩

/-- and then the result is `backSim sm` -/
theorem round_trip_result (sm ssc sm' : AnySimfile) (h1 : convert sm true none none [] = .ok ssc)
    (h2 : convert ssc false none none [] = .ok sm') : ssc = sscOf sm ∧ sm' = backSim sm := by
  have hw : convertWarps sm = .ok () := by
    rw [convert_eq] at h1
    cases hw : convertWarps sm with
    | error e => rw [hw] at h1; cases h1
    | ok u => rfl
  rw [convert_toSSC_default sm hw] at h1
  cases h1
  refine ⟨rfl, ?_⟩
  have hw2 : convertWarps (sscOf sm) = .ok () := by
    rw [convert_eq] at h2
    cases hw2 : convertWarps (sscOf sm) with
    | error e => rw [hw2] at h2; cases h2
    | ok u => rfl
  rw [convert_back_eq _ none none [] hw2] at h2
  cases hp : firstProblem (sscOf sm) [] with
  | some e => rw [hp] at h2; cases h2
  | none =>
    rw [hp] at h2
    simp only [Except.ok.injEq] at h2
    rw [← h2]
    unfold backSim sscOf
    simp only [List.map_map]
    rfl

/-! ### reading `backSim` -/

/-- a property that is not SSC-only comes back with its value -/
theorem backSim_get_of_not_listed (sm : AnySimfile) (hwf : Dict.WF sm.props) (kv : Str × Option Str)
    (hm : kv ∈ sm.props) (hl : listedIn T.invalidSMSimfile kv.1 = none) :
    (backSim sm).props.get? kv.1 = some kv.2 :=
  get?_setAll_filter_of_mem _ _ (copied T.invalidSMSimfile []) kv (WF_setAll _ _ blank_wf.1)
    (mem_setAll_of_mem_WF _ _ kv hwf hm) ((copied_default_sim kv.1).mpr hl)

/-- an SSC-only key does not come back at all -/
theorem backSim_get_of_listed (sm : AnySimfile) (k : Str) (e : Nat × List Str)
    (hl : listedIn T.invalidSMSimfile k = some e) : (backSim sm).props.get? k = none := by
  have hc : copied T.invalidSMSimfile [] k = false := by
    cases h : copied T.invalidSMSimfile [] k with
    | false => rfl
    | true => rw [(copied_default_sim k).mp h] at hl; cases hl
  unfold backSim
  simp only []
  rw [get?_setAll_filter_of_not _ _ (copied T.invalidSMSimfile []) k (Or.inl hc), get?_eq_none_iff]
  intro hk
  rw [blank_sm_not_listed k hk] at hl; cases hl

/-- a chart field among the six comes back with its value -/
theorem backOf_get_of_six (c : Dict × Option (List Str)) (hwf : Dict.WF c.1) (kv : Str × Option Str)
    (hm : kv ∈ c.1) (hs : kv.1 ∈ T.smChartProperties) : (backOf c).1.get? kv.1 = some kv.2 :=
  get?_setAll_filter_of_mem _ _ (copied T.invalidSMChart []) kv (WF_setAll _ _ blank_wf.2.1)
    (mem_setAll_of_mem_WF _ _ kv hwf hm) (copied_six [] kv.1 hs)

/-- the chart that comes back has exactly the six keys, when the source chart is clean -/
theorem backOf_keys (c : Dict × Option (List Str)) (hwf : Dict.WF c.1)
    (hcl : ∀ x ∈ c.1, itemProblem true T.invalidSMChart [] x = none) :
    Dict.keys (backOf c).1 = T.smChartProperties := by
  unfold backOf chartOut
  show Dict.keys (setAll T.blankSMChart _) = _
  rw [Cv.keys_setAll_of_subset, blank_sm_chart_keys]
  intro k hk
  rw [blank_sm_chart_keys]
  obtain ⟨x, hx, rfl⟩ := List.mem_map.mp hk
  obtain ⟨hx, hcp⟩ := List.mem_filter.mp hx
  have := (forall_setAll_iff _ _ (fun x => itemProblem true T.invalidSMChart [] x = none) blank_wf.2.1 hwf
    blank_ssc_chart_clean).mpr hcl x hx
  exact ((itemProblem_none_iff _ _ _ _).mp this).2 rfl hcp

theorem backOf_extradata (c : Dict × Option (List Str)) : (backOf c).2 = none := rfl

end Simfile.Cv
