/-
Lemmas for C10: ungroup_notes after group_notes.
-/
import Simfile.Lemmas.GroupRuns
namespace Simfile.Ungroup
open Simfile

/-- unless rows are regrouped by type, the groups concatenated are the joined stream -/
theorem rows_flatten (mode : SameBeat) (hmode : mode ≠ .joinByType) (S : List GNote) :
    ((groupRuns GNote.beat S).flatMap fun (_, row) => addRow mode row).flatten = S := by
  cases mode with
  | joinByType => exact absurd rfl hmode
  | keepSeparate =>
    rw [Runs.keepSeparate_rows]
    induction S with
    | nil => rfl
    | cons g S ih => simp [ih]
  | joinAll =>
    have : ((groupRuns GNote.beat S).flatMap fun (_, row) => addRow .joinAll row).flatten
        = (groupRuns GNote.beat S).flatMap (·.2) := by
      generalize groupRuns GNote.beat S = rs
      induction rs with
      | nil => rfl
      | cons r rs ih =>
        simp only [addRow] at ih
        simp [addRow, ih]
    rw [this, Runs.groupRuns_flatten]

/-- a stream without holds passes through `ungroup_notes` unchanged -/
theorem ungroup_plain (p : Orphan) (F : List Note) (out : List Note) :
    (F.map GNote.plain).foldlM (ungroupStep p) { pending := [], out := out } =
      .ok { pending := [], out := out ++ F } := by
  induction F generalizing out with
  | nil => simp [pure, Except.pure]
  | cons n F ih =>
    simp only [List.map_cons, List.foldlM_cons, ungroupStep, popReached, checkOrphan, List.any_nil,
      Bool.false_eq_true, if_false, bind, Except.bind, pure, Except.pure, List.append_nil]
    rw [ih]
    simp

end Simfile.Ungroup
