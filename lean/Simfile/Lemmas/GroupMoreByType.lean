/-
Lemmas for C09 (round 2): `add_row` under JOIN_BY_NOTE_TYPE as a closed formula, the rows phase on a
stream with non-decreasing beats, and the order of the groups.
-/
import Simfile.Lemmas.GroupMoreRows
namespace Simfile.GroupMore
open Simfile

/-! ### `add_row`, JOIN_BY_NOTE_TYPE: the types in order of first occurrence -/

theorem addTypes_eq : ∀ (l : List GNote) (T : List Char),
    Ungroup.addTypes T l = T ++ ((l.map GNote.ntype).filter fun t => !T.contains t).eraseDups := by
  intro l
  induction l with
  | nil => intro T; simp [Ungroup.addTypes]
  | cons g l ih =>
    intro T
    have hstep : Ungroup.addTypes T (g :: l) =
        Ungroup.addTypes (if T.contains g.ntype then T else T ++ [g.ntype]) l := rfl
    rw [hstep]
    by_cases hc : T.contains g.ntype = true
    · rw [if_pos hc, ih T]
      simp only [List.map_cons, List.filter_cons, hc, Bool.not_true, Bool.false_eq_true, if_false]
    · rw [if_neg hc, ih (T ++ [g.ntype])]
      have hc' : T.contains g.ntype = false := by simpa using hc
      simp only [List.map_cons, List.filter_cons, hc', Bool.not_false, if_true, List.eraseDups_cons,
        List.filter_filter, List.append_assoc, List.cons_append, List.nil_append]
      congr 3
      apply List.filter_congr
      intro x _
      by_cases hx : x = g.ntype <;> by_cases hT : x ∈ T <;> simp [hx, hT]

/-- `add_row` for JOIN_BY_NOTE_TYPE: one group per note type, types in order of first occurrence,
each group being all notes of the row with that type (in row order) -/
theorem addRow_byType_eq (row : List GNote) :
    addRow .joinByType row =
      (row.map GNote.ntype).eraseDups.map fun t => row.filter fun h => h.ntype = t := by
  have h := Ungroup.addRow_byType_foldl row row []
  simp only [List.map_nil] at h
  simp only [addRow, h, addTypes_eq]
  simp

/-- the first note of every type, in order of first occurrence of the types -/
def firsts (l : List GNote) : List GNote :=
  (l.map GNote.ntype).eraseDups.filterMap fun t => l.find? fun h => h.ntype = t

theorem firsts_addRow (row : List GNote) :
    (addRow .joinByType row).filterMap List.head? = firsts row := by
  rw [addRow_byType_eq, List.filterMap_map]
  unfold firsts
  apply List.filterMap_congr
  intro t _
  simp [Function.comp, List.head?_filter]

theorem firsts_sublist (l : List GNote) : (firsts l).Sublist l := by
  match l with
  | [] => simp [firsts]
  | a :: as =>
    have hlen : (as.filter fun h => !decide (h.ntype = a.ntype)).length < as.length + 1 :=
      Nat.lt_succ_of_le (List.length_filter_le _ _)
    have ih := firsts_sublist (as.filter fun h => !decide (h.ntype = a.ntype))
    have hE : ((as.map GNote.ntype).filter fun b => !b == a.ntype) =
        (as.filter fun h => !decide (h.ntype = a.ntype)).map GNote.ntype := by
      rw [List.filter_map]
      congr 1
    have : firsts (a :: as) = a :: firsts (as.filter fun h => !decide (h.ntype = a.ntype)) := by
      unfold firsts
      rw [List.map_cons, List.eraseDups_cons, List.filterMap_cons, hE]
      simp only [List.find?_cons, decide_true]
      congr 1
      apply List.filterMap_congr
      intro t ht
      have ht' := List.mem_eraseDups.mp ht
      obtain ⟨h, hh, rfl⟩ := List.mem_map.mp ht'
      have hne : ¬ h.ntype = a.ntype := by
        have := (List.mem_filter.mp hh).2
        simpa using this
      have hne' : ¬ a.ntype = h.ntype := fun e => hne e.symm
      simp only [hne', decide_false]
      rw [List.find?_filter]
      congr 1
      funext x
      by_cases hx : x.ntype = h.ntype
      · simp [hx, hne]
      · simp [hx]
    rw [this]
    exact List.Sublist.cons_cons a (ih.trans List.filter_sublist)
termination_by l.length

theorem addRow_byType_ne_nil (row : List GNote) : ∀ g ∈ addRow .joinByType row, g ≠ [] := by
  rw [addRow_byType_eq]
  intro g hg
  obtain ⟨t, ht, rfl⟩ := List.mem_map.mp hg
  obtain ⟨h, hh, rfl⟩ := List.mem_map.mp (List.mem_eraseDups.mp ht)
  intro e
  have : h ∈ row.filter fun x => x.ntype = h.ntype := List.mem_filter.mpr ⟨hh, by simp⟩
  rw [e] at this
  simp at this

theorem addRow_byType_mem (row : List GNote) :
    ∀ g ∈ addRow .joinByType row, ∃ t, g = row.filter fun h => h.ntype = t := by
  rw [addRow_byType_eq]
  intro g hg
  obtain ⟨t, _, rfl⟩ := List.mem_map.mp hg
  exact ⟨t, rfl⟩

/-! ### the rows phase in general position (beats in any order) -/

theorem sublist_flatMap {α β} (l : List α) (f g : α → List β) (h : ∀ a ∈ l, (f a).Sublist (g a)) :
    (l.flatMap f).Sublist (l.flatMap g) := by
  induction l with
  | nil => simp
  | cons a l ih =>
    simp only [List.flatMap_cons]
    exact List.Sublist.append (h a (by simp)) (ih fun b hb => h b (by simp [hb]))

theorem run_sublist {α κ} [DecidableEq κ] (key : α → κ) (l : List α) :
    ∀ r ∈ groupRuns key l, r.2.Sublist l := by
  intro r hr
  have h := Runs.groupRuns_flatten key l
  rw [List.flatMap_def] at h
  have : r.2 ∈ (groupRuns key l).map (·.2) := List.mem_map.mpr ⟨r, hr, rfl⟩
  have := List.sublist_flatten_of_mem this
  rwa [h] at this

theorem rows_byType_perm (items : List GNote) : (rows .joinByType items).flatten.Perm items :=
  (Ungroup.rows_perm_beats .joinByType items).1

theorem rows_byType_ne_nil (items : List GNote) : ∀ g ∈ rows .joinByType items, g ≠ [] := by
  intro g hg
  rw [rows_eq] at hg
  obtain ⟨r, _, hg⟩ := List.mem_flatMap.mp hg
  exact addRow_byType_ne_nil _ g hg

theorem rows_byType_const (items : List GNote) :
    ∀ g ∈ rows .joinByType items, ∀ x ∈ g, ∀ y ∈ g, x.beat = y.beat ∧ x.ntype = y.ntype := by
  intro g hg x hx y hy
  rw [rows_eq] at hg
  obtain ⟨r, hr, hg⟩ := List.mem_flatMap.mp hg
  obtain ⟨t, rfl⟩ := addRow_byType_mem _ g hg
  obtain ⟨hx1, hx2⟩ := List.mem_filter.mp hx
  obtain ⟨hy1, hy2⟩ := List.mem_filter.mp hy
  refine ⟨?_, ?_⟩
  · rw [Ungroup.groupRuns_key _ _ r hr x hx1, Ungroup.groupRuns_key _ _ r hr y hy1]
  · have a : x.ntype = t := by simpa using hx2
    have b : y.ntype = t := by simpa using hy2
    rw [a, b]

theorem rows_byType_sublist (items : List GNote) : ∀ g ∈ rows .joinByType items, g.Sublist items := by
  intro g hg
  rw [rows_eq] at hg
  obtain ⟨r, hr, hg⟩ := List.mem_flatMap.mp hg
  obtain ⟨t, rfl⟩ := addRow_byType_mem _ g hg
  exact List.filter_sublist.trans (run_sublist _ _ r hr)

theorem filterMap_flatMap' {α β γ} (l : List α) (f : α → List β) (g : β → Option γ) :
    (l.flatMap f).filterMap g = l.flatMap fun a => (f a).filterMap g := by
  induction l with
  | nil => rfl
  | cons a l ih => simp [List.filterMap_append, ih]

/-- the first members of the groups, in group order, form a subsequence of the stream: groups are
emitted in the order in which their first member occurs -/
theorem rows_byType_firsts (items : List GNote) :
    ((rows .joinByType items).filterMap List.head?).Sublist items := by
  rw [rows_eq, filterMap_flatMap']
  have h := Runs.groupRuns_flatten GNote.beat items
  conv => rhs; rw [← h]
  apply sublist_flatMap
  intro r _
  rw [firsts_addRow]
  exact firsts_sublist _

/-! ### streams with non-decreasing beats -/

theorem rows_sorted (mode : SameBeat) (items : List GNote) (hs : (items.map GNote.beat).Pairwise (· ≤ ·)) :
    rows mode items =
      (items.map GNote.beat).eraseDups.flatMap fun b => addRow mode (items.filter fun x => x.beat = b) := by
  rw [rows_eq, Runs.groupRuns_sorted GNote.beat items hs, List.flatMap_map]

theorem rows_joinAll_sorted (items : List GNote) (hs : (items.map GNote.beat).Pairwise (· ≤ ·)) :
    rows .joinAll items = (items.map GNote.beat).eraseDups.map fun b => items.filter fun x => x.beat = b := by
  rw [rows_sorted _ _ hs]
  generalize (items.map GNote.beat).eraseDups = E
  induction E with
  | nil => rfl
  | cons b E ih =>
    simp only [List.flatMap_cons, List.map_cons, addRow] at ih ⊢
    rw [ih]; rfl

theorem rows_byType_sorted (items : List GNote) (hs : (items.map GNote.beat).Pairwise (· ≤ ·)) :
    rows .joinByType items =
      (items.map GNote.beat).eraseDups.flatMap fun b =>
        ((items.filter fun x => x.beat = b).map GNote.ntype).eraseDups.map fun t =>
          items.filter fun x => x.beat = b ∧ x.ntype = t := by
  rw [rows_sorted _ _ hs]
  apply List.flatMap_congr
  intro b _
  rw [addRow_byType_eq]
  apply List.map_congr_left
  intro t _
  rw [List.filter_filter]
  apply List.filter_congr
  intro x _
  simp [Bool.and_comm]

/-- the distinct beats of a stream with non-decreasing beats are strictly increasing -/
theorem beats_strict (items : List GNote) (hs : (items.map GNote.beat).Pairwise (· ≤ ·)) :
    (items.map GNote.beat).eraseDups.Pairwise (· < ·) := by
  have h1 : (items.map GNote.beat).eraseDups.Pairwise (· ≤ ·) := hs.sublist (eraseDups_sublist _)
  have h2 : (items.map GNote.beat).eraseDups.Pairwise (· ≠ ·) := nodup_eraseDups _
  exact (h1.and h2).imp fun {a b} h => Rat.lt_of_le_of_ne h.1 h.2

theorem rows_joinAll_strict (items : List GNote) (hs : (items.map GNote.beat).Pairwise (· ≤ ·)) :
    (rows .joinAll items).Pairwise fun g g' => ∀ x ∈ g, ∀ y ∈ g', x.beat < y.beat := by
  rw [rows_joinAll_sorted _ hs, List.pairwise_map]
  refine (beats_strict items hs).imp ?_
  intro a b hab x hx y hy
  have hx' : x.beat = a := by simpa using (List.mem_filter.mp hx).2
  have hy' : y.beat = b := by simpa using (List.mem_filter.mp hy).2
  rw [hx', hy']; exact hab

/-- groups come with non-decreasing beats, and two groups of one beat carry different note types -/
theorem rows_byType_order (items : List GNote) (hs : (items.map GNote.beat).Pairwise (· ≤ ·)) :
    (rows .joinByType items).Pairwise fun g g' =>
      ∀ x ∈ g, ∀ y ∈ g', x.beat ≤ y.beat ∧ (x.beat = y.beat → x.ntype ≠ y.ntype) := by
  rw [rows_byType_sorted _ hs, List.pairwise_flatMap]
  constructor
  · intro b _
    rw [List.pairwise_map]
    refine (nodup_eraseDups _).imp ?_
    intro t t' htt x hx y hy
    have hx' := (List.mem_filter.mp hx).2
    have hy' := (List.mem_filter.mp hy).2
    simp only [decide_eq_true_eq] at hx' hy'
    refine ⟨by rw [hx'.1, hy'.1], fun _ => ?_⟩
    rw [hx'.2, hy'.2]; exact htt
  · refine (beats_strict items hs).imp ?_
    intro b b' hbb g hg g' hg' x hx y hy
    obtain ⟨t, _, rfl⟩ := List.mem_map.mp hg
    obtain ⟨t', _, rfl⟩ := List.mem_map.mp hg'
    have hx' := (List.mem_filter.mp hx).2
    have hy' := (List.mem_filter.mp hy).2
    simp only [decide_eq_true_eq] at hx' hy'
    rw [hx'.1, hy'.1]
    exact ⟨Rat.le_of_lt hbb, fun e => absurd (e ▸ hbb) Rat.lt_irrefl⟩

/-- every group is the complete class of its beat and type -/
theorem rows_byType_complete (items : List GNote) (hs : (items.map GNote.beat).Pairwise (· ≤ ·)) :
    ∀ g ∈ rows .joinByType items, ∀ x ∈ g,
      g = items.filter fun y => y.beat = x.beat ∧ y.ntype = x.ntype := by
  rw [rows_byType_sorted _ hs]
  intro g hg x hx
  obtain ⟨b, _, hg⟩ := List.mem_flatMap.mp hg
  obtain ⟨t, _, rfl⟩ := List.mem_map.mp hg
  have hx' := (List.mem_filter.mp hx).2
  simp only [decide_eq_true_eq] at hx'
  rw [hx'.1, hx'.2]

theorem rows_joinAll_complete (items : List GNote) (hs : (items.map GNote.beat).Pairwise (· ≤ ·)) :
    ∀ g ∈ rows .joinAll items, ∀ x ∈ g, g = items.filter fun y => y.beat = x.beat := by
  rw [rows_joinAll_sorted _ hs]
  intro g hg x hx
  obtain ⟨b, _, rfl⟩ := List.mem_map.mp hg
  have hx' := (List.mem_filter.mp hx).2
  simp only [decide_eq_true_eq] at hx'
  rw [hx']

end Simfile.GroupMore
