/-
Timing data and note data of an SM → SSC conversion result, read through the library's own accessor rules (C16).
-/
import Simfile.Lemmas.Convert
import Simfile.Lemmas.Source
namespace Simfile.CT
open Simfile Simfile.O Simfile.V Simfile.S Simfile.Cv

def kSTOPS : Str := ['S','T','O','P','S']
def kFREEZES : Str := ['F','R','E','E','Z','E','S']
def kDELAYS : Str := ['D','E','L','A','Y','S']
def kWARPS : Str := ['W','A','R','P','S']
def kOFFSET : Str := ['O','F','F','S','E','T']

/-- the five keys `TimingData` is built from -/
def timingKeys : List Str := [kBPMS, kSTOPS, kDELAYS, kWARPS, kOFFSET]

/-! ### `Dict.set` folded over a source: where a value comes from -/

/-- with distinct source keys, a source key reads in the result as it reads in the source -/
theorem get?_setAll_of_key_WF (d0 source : Dict) (k : Str) (hwf : Dict.WF source) (hk : k ∈ Dict.keys source) :
    (setAll d0 source).get? k = source.get? k := by
  obtain ⟨kv, hkv, rfl⟩ := List.mem_map.mp hk
  rw [get?_setAll_of_mem_WF d0 source kv hwf hkv, get?_of_mem_WF source kv.1 kv.2 hwf hkv]

/-- a key the source does not have reads as in the start dictionary -/
theorem get?_setAll_of_not_key (d0 source : Dict) (k : Str) (hk : k ∉ Dict.keys source) :
    (setAll d0 source).get? k = d0.get? k := by
  apply get?_setAll_of_not_mem
  intro kv hkv e
  exact hk (e ▸ List.mem_map.mpr ⟨kv, hkv, rfl⟩)

/-- whatever is stored in the result is an item of the source or the start dictionary's value (no `WF` needed) -/
theorem get?_setAll_origin (d0 source : Dict) (k : Str) (v : Option Str)
    (h : (setAll d0 source).get? k = some v) : (k, v) ∈ source ∨ d0.get? k = some v := by
  induction source generalizing d0 with
  | nil => exact Or.inr h
  | cons kv rest ih =>
    rw [setAll_cons] at h
    rcases ih _ h with h' | h'
    · exact Or.inl (List.mem_cons_of_mem _ h')
    · by_cases e : k = kv.1
      · subst e
        rw [get?_set_self] at h'
        cases h'
        exact Or.inl List.mem_cons_self
      · rw [get?_set_ne _ _ _ _ e] at h'
        exact Or.inr h'

/-- every key of the result is a key of the start dictionary or of the source -/
theorem mem_keys_setAll (d0 source : Dict) (k : Str) (h : k ∈ Dict.keys (setAll d0 source)) :
    k ∈ Dict.keys d0 ∨ k ∈ Dict.keys source := by
  induction source generalizing d0 with
  | nil => exact Or.inl h
  | cons kv rest ih =>
    rw [setAll_cons] at h
    rcases ih _ h with h' | h'
    · rw [keys_set] at h'
      split at h'
      · exact Or.inl h'
      · rcases List.mem_append.mp h' with h'' | h''
        · exact Or.inl h''
        · simp only [List.mem_singleton] at h''
          exact Or.inr (by rw [keys_cons, h'']; exact List.mem_cons_self)
    · exact Or.inr (by rw [keys_cons]; exact List.mem_cons_of_mem _ h')

/-- a source whose keys all exist in the start dictionary leaves the key order unchanged -/
theorem keys_setAll_of_subset (d0 source : Dict) (h : ∀ k ∈ Dict.keys source, k ∈ Dict.keys d0) :
    Dict.keys (setAll d0 source) = Dict.keys d0 := by
  induction source generalizing d0 with
  | nil => rfl
  | cons kv rest ih =>
    have hk : kv.1 ∈ Dict.keys d0 := h kv.1 (by rw [keys_cons]; exact List.mem_cons_self)
    rw [setAll_cons, ih, keys_set_of_mem d0 kv.1 kv.2 hk]
    intro k hk'
    rw [keys_set_of_mem d0 kv.1 kv.2 hk]
    exact h k (by rw [keys_cons]; exact List.mem_cons_of_mem _ hk')

/-! ### the timing attributes, per simfile table -/

theorem bpms_table (ssc : Bool) :
    (propsTable (if ssc then .sscSimfile else .smSimfile)).find? (·.1 = ['b','p','m','s']) =
      some (['b','p','m','s'], kBPMS, none) := by cases ssc <;> decide +kernel
theorem delays_table (ssc : Bool) :
    (propsTable (if ssc then .sscSimfile else .smSimfile)).find? (·.1 = ['d','e','l','a','y','s']) =
      some (['d','e','l','a','y','s'], kDELAYS, none) := by cases ssc <;> decide +kernel
theorem stops_table_sm : (propsTable .smSimfile).find? (·.1 = ['s','t','o','p','s']) =
    some (['s','t','o','p','s'], kSTOPS, some kFREEZES) := by decide +kernel
theorem stops_table_ssc : (propsTable .sscSimfile).find? (·.1 = ['s','t','o','p','s']) =
    some (['s','t','o','p','s'], kSTOPS, none) := by decide +kernel

theorem attrGet_bpms_sm (d : Dict) : attrGet .smSimfile d ['b','p','m','s'] = (d.get? kBPMS).join :=
  attrGet_of_find .smSimfile d _ _ none (bpms_table false)
theorem attrGet_bpms_ssc (d : Dict) : attrGet .sscSimfile d ['b','p','m','s'] = (d.get? kBPMS).join :=
  attrGet_of_find .sscSimfile d _ _ none (bpms_table true)
theorem attrGet_delays_sm (d : Dict) : attrGet .smSimfile d ['d','e','l','a','y','s'] = (d.get? kDELAYS).join :=
  attrGet_of_find .smSimfile d _ _ none (delays_table false)
theorem attrGet_delays_ssc (d : Dict) : attrGet .sscSimfile d ['d','e','l','a','y','s'] = (d.get? kDELAYS).join :=
  attrGet_of_find .sscSimfile d _ _ none (delays_table true)
theorem attrGet_stops_ssc (d : Dict) : attrGet .sscSimfile d ['s','t','o','p','s'] = (d.get? kSTOPS).join :=
  attrGet_of_find .sscSimfile d _ _ none stops_table_ssc

/-- the SM alias rule for `stops` -/
theorem attrGet_stops_sm (d : Dict) :
    attrGet .smSimfile d ['s','t','o','p','s'] = (d.get? (nameOrAlias d kSTOPS (some kFREEZES))).join :=
  attrGet_of_find .smSimfile d _ _ _ stops_table_sm

theorem attrGet_stops_sm_of_key (d : Dict) (h : kSTOPS ∈ Dict.keys d) :
    attrGet .smSimfile d ['s','t','o','p','s'] = (d.get? kSTOPS).join := by
  rw [attrGet_stops_sm, nameOrAlias_key d _ _ ((contains_iff d kSTOPS).mpr h)]

/-- neither STOPS nor FREEZES: the attribute is `None` -/
theorem attrGet_stops_sm_of_neither (d : Dict) (h : kSTOPS ∉ Dict.keys d) (h' : kFREEZES ∉ Dict.keys d) :
    attrGet .smSimfile d ['s','t','o','p','s'] = none := by
  rw [attrGet_stops_sm, nameOrAlias_neither d _ _
    (by intro al e; cases e; exact (contains_false_iff d kFREEZES).mpr h'),
    (get?_eq_none_iff d kSTOPS).mpr h]
  rfl

/-- STOPS absent, FREEZES present: the alias is read -/
theorem attrGet_stops_sm_of_alias (d : Dict) (h : kSTOPS ∉ Dict.keys d) (h' : kFREEZES ∈ Dict.keys d) :
    attrGet .smSimfile d ['s','t','o','p','s'] = (d.get? kFREEZES).join := by
  rw [attrGet_stops_sm, nameOrAlias_alias d _ _ ((contains_false_iff d kSTOPS).mpr h)
    ((contains_iff d kFREEZES).mpr h')]

/-! ### `timingData` without a chart -/

/-- the offset rule of `TimingData.__init__` -/
def offsetOf : Option Str → Option Rat
  | some (x :: xs) => parseDecimal (x :: xs)
  | _ => some 0

/-- the five fields read from one object -/
def tdOf (s : Src) : TDStrings :=
  { bpms := beatValuesFromStr (attrGet s.kind s.d ['b','p','m','s']),
    stops := beatValuesFromStr (attrGet s.kind s.d ['s','t','o','p','s']),
    delays := beatValuesFromStr (attrGet s.kind s.d ['d','e','l','a','y','s']),
    warps := beatValuesFromStr ((s.d.get? kWARPS).join),
    offset := offsetOf (attrGet s.kind s.d ['o','f','f','s','e','t']) }

theorem timingData_of_source (sim : Src) (chart : Option Src) (s : Src) (h : timingSource sim chart = .ok s) :
    timingData sim chart = .ok (tdOf s) := by
  unfold timingData
  rw [h]
  simp only [bind, Except.bind, pure, Except.pure, tdOf, offsetOf, kWARPS]
  rfl

theorem useChart_none (sim : Src) : useChart sim none = .ok false := by
  obtain ⟨kind, d⟩ := sim
  cases kind <;> rfl

theorem timingData_none (sim : Src) : timingData sim none = .ok (tdOf sim) :=
  timingData_of_source sim none sim (timingSource_of_false sim none (useChart_none sim))

theorem timingData_of_not_chart (sim : Src) (chart : Option Src) (h : useChart sim chart = .ok false) :
    timingData sim chart = timingData sim none := by
  rw [timingData_of_source sim chart sim (timingSource_of_false sim chart h), timingData_none]

/-- the five fields of an SSC simfile, by key -/
theorem tdOf_ssc (d : Dict) :
    tdOf ⟨.sscSimfile, d⟩ =
      { bpms := beatValuesFromStr (d.get? kBPMS).join,
        stops := beatValuesFromStr (d.get? kSTOPS).join,
        delays := beatValuesFromStr (d.get? kDELAYS).join,
        warps := beatValuesFromStr (d.get? kWARPS).join,
        offset := offsetOf (d.get? kOFFSET).join } := by
  unfold tdOf
  simp only [attrGet_bpms_ssc, attrGet_stops_ssc, attrGet_delays_ssc, attrGet_offset]
  rfl

/-- the five fields of an SM simfile: by key, `stops` through the alias rule -/
theorem tdOf_sm (d : Dict) :
    tdOf ⟨.smSimfile, d⟩ =
      { bpms := beatValuesFromStr (d.get? kBPMS).join,
        stops := beatValuesFromStr (d.get? (nameOrAlias d kSTOPS (some kFREEZES))).join,
        delays := beatValuesFromStr (d.get? kDELAYS).join,
        warps := beatValuesFromStr (d.get? kWARPS).join,
        offset := offsetOf (d.get? kOFFSET).join } := by
  unfold tdOf
  simp only [attrGet_bpms_sm, attrGet_stops_sm, attrGet_delays_sm, attrGet_offset]
  rfl

/-! ### the start dictionary is neutral for the keys the source lacks -/

/-- for each of the five timing keys: the source has the key, or the start dictionary's value under it reads like a
missing property (and, for STOPS, the source has no FREEZES alias either) -/
structure Neutral (tmpl src : Dict) : Prop where
  bpms : kBPMS ∈ Dict.keys src ∨ beatValuesFromStr (tmpl.get? kBPMS).join = some []
  stops : kSTOPS ∈ Dict.keys src ∨
    (kFREEZES ∉ Dict.keys src ∧ beatValuesFromStr (tmpl.get? kSTOPS).join = some [])
  delays : kDELAYS ∈ Dict.keys src ∨ beatValuesFromStr (tmpl.get? kDELAYS).join = some []
  warps : kWARPS ∈ Dict.keys src ∨ beatValuesFromStr (tmpl.get? kWARPS).join = some []
  offset : kOFFSET ∈ Dict.keys src ∨ offsetOf (tmpl.get? kOFFSET).join = some 0

theorem Neutral.of_all_keys (tmpl src : Dict) (h : ∀ k ∈ timingKeys, k ∈ Dict.keys src) : Neutral tmpl src :=
  ⟨Or.inl (h _ (by simp [timingKeys])), Or.inl (h _ (by simp [timingKeys])), Or.inl (h _ (by simp [timingKeys])),
   Or.inl (h _ (by simp [timingKeys])), Or.inl (h _ (by simp [timingKeys]))⟩

theorem bv_none : beatValuesFromStr none = some [] := rfl

theorem read_key (f : Option Str → α) (tmpl src : Dict) (k : Str) (hwf : Dict.WF src)
    (h : k ∈ Dict.keys src ∨ f (tmpl.get? k).join = f none) :
    f ((setAll tmpl src).get? k).join = f (src.get? k).join := by
  by_cases hk : k ∈ Dict.keys src
  · rw [get?_setAll_of_key_WF tmpl src k hwf hk]
  · rcases h with h | h
    · exact absurd h hk
    · rw [get?_setAll_of_not_key tmpl src k hk, (get?_eq_none_iff src k).mpr hk, h]
      rfl

/-- the key fact of C16/timing: the result of folding `Dict.set` over the source, read as an SSC simfile, gives the
same five fields as the source read as an SM simfile -/
theorem tdOf_setAll (tmpl src : Dict) (hwf : Dict.WF src) (hn : Neutral tmpl src) :
    tdOf ⟨.sscSimfile, setAll tmpl src⟩ = tdOf ⟨.smSimfile, src⟩ := by
  rw [tdOf_ssc, tdOf_sm]
  have hb := read_key beatValuesFromStr tmpl src kBPMS hwf hn.bpms
  have hd := read_key beatValuesFromStr tmpl src kDELAYS hwf hn.delays
  have hw := read_key beatValuesFromStr tmpl src kWARPS hwf hn.warps
  have ho := read_key offsetOf tmpl src kOFFSET hwf hn.offset
  have hs : beatValuesFromStr ((setAll tmpl src).get? kSTOPS).join =
      beatValuesFromStr (src.get? (nameOrAlias src kSTOPS (some kFREEZES))).join := by
    rcases hn.stops with h | ⟨h1, h2⟩
    · rw [nameOrAlias_key src _ _ ((contains_iff src kSTOPS).mpr h)]
      exact read_key beatValuesFromStr tmpl src kSTOPS hwf (Or.inl h)
    · rw [nameOrAlias_neither src _ _ (by intro al e; cases e; exact (contains_false_iff src kFREEZES).mpr h1)]
      exact read_key beatValuesFromStr tmpl src kSTOPS hwf (Or.inr h2)
  rw [hb, hd, hw, ho, hs]

/-! ### the generated blank SSC objects -/

/-- the blank SSC simfile is neutral for every timing key except BPMS ("0.000=60.000") -/
theorem blank_neutral :
    beatValuesFromStr (Dict.get? T.blankSSCSimfile kSTOPS).join = some [] ∧
    beatValuesFromStr (Dict.get? T.blankSSCSimfile kDELAYS).join = some [] ∧
    beatValuesFromStr (Dict.get? T.blankSSCSimfile kWARPS).join = some [] ∧
    offsetOf (Dict.get? T.blankSSCSimfile kOFFSET).join = some 0 := by
  refine ⟨by decide +kernel, by decide +kernel, by decide +kernel, by decide +kernel⟩

theorem blank_bpms_not_neutral : beatValuesFromStr (Dict.get? T.blankSSCSimfile kBPMS).join ≠ some [] := by
  decide +kernel

/-- no chart-timing key of a dictionary has a non-empty value -/
def NoChartTiming (d : Dict) : Prop := ∀ key ∈ T.chartTimingProperties, truthy (d.get? key).join = false

instance (d : Dict) : Decidable (NoChartTiming d) := by unfold NoChartTiming; infer_instance

/-- the generated blank SSC chart has no chart-timing key at all -/
theorem blankChart_no_timing_keys : ∀ key ∈ T.chartTimingProperties, key ∉ Dict.keys T.blankSSCChart := by
  decide +kernel

theorem blankChart_noChartTiming : NoChartTiming T.blankSSCChart := by
  intro key hk
  rw [(get?_eq_none_iff _ _).mpr (blankChart_no_timing_keys key hk)]
  rfl

/-- none of the six SM chart fields is a chart-timing key -/
theorem smChartProperties_disjoint : ∀ key ∈ T.chartTimingProperties, key ∉ T.smChartProperties := by
  decide +kernel

/-- a converted chart has no non-empty chart-timing value when neither the template nor the source items have -/
theorem noChartTiming_setAll (tmpl src : Dict) (ht : NoChartTiming tmpl)
    (hs : ∀ kv ∈ src, kv.1 ∈ T.chartTimingProperties → truthy kv.2 = false) :
    NoChartTiming (setAll tmpl src) := by
  intro key hk
  cases hg : (setAll tmpl src).get? key with
  | none => rfl
  | some v =>
    rcases get?_setAll_origin tmpl src key v hg with h | h
    · exact hs (key, v) h hk
    · have := ht key hk
      rw [h] at this
      exact this

/-- `timing_source` on an SSC chart without chart-timing values: the simfile, or the version error -/
theorem useChart_of_noChartTiming (sim : Src) (hsim : sim.kind = .sscSimfile) (d : Dict) (h : NoChartTiming d) :
    useChart sim (some ⟨.sscChart, d⟩) = (versionOK (versionString sim)).map fun _ => false := by
  obtain ⟨kind, sd⟩ := sim
  simp only at hsim
  subst hsim
  have hany : (T.chartTimingProperties.any fun key => truthy (attrGet .sscChart d (chartAttrOfKey key))) = false := by
    rw [List.any_eq_false]
    intro key hk
    rw [attrGet_chartTiming d key hk, h key hk]
    simp
  unfold useChart
  simp only [ne_eq, not_true_eq_false, if_false]
  show (do
    let ok ← versionOK (versionString ⟨.sscSimfile, sd⟩)
    if !ok then pure false
    else pure (T.chartTimingProperties.any fun key => truthy (attrGet .sscChart d (chartAttrOfKey key)))) = _
  rw [hany]
  cases versionOK (versionString ⟨.sscSimfile, sd⟩) with
  | error e => rfl
  | ok b => cases b <;> rfl

/-- the version of the blank SSC simfile passes the split-timing test -/
theorem blank_version_ok : versionOK (versionString ⟨.sscSimfile, T.blankSSCSimfile⟩) = .ok true := by
  decide +kernel

theorem version_attr (d : Dict) : attrGet .sscSimfile d ['v','e','r','s','i','o','n'] = (d.get? kVERSION).join :=
  attrGet_of_find .sscSimfile d _ _ none (by decide +kernel)

theorem versionString_congr (d d' : Dict) (h : d.get? kVERSION = d'.get? kVERSION) :
    versionString ⟨.sscSimfile, d⟩ = versionString ⟨.sscSimfile, d'⟩ := by
  unfold versionString
  simp only [version_attr, h]

/-! ### the conversion result as an SSC simfile object -/

/-- an `AnySimfile` read as an SSC simfile (chart extradata is an SM-only notion) -/
def asSSC (a : AnySimfile) : SSCSimfile := ⟨a.props, a.charts.map fun c => ⟨c.1⟩⟩

theorem blankSim_keys : Dict.WF T.blankSSCSimfile ∧
    ∀ k ∈ Dict.keys T.blankSSCSimfile, upper k = k ∧ k ≠ kNOTEDATA := by
  refine ⟨?_, ?_⟩
  · unfold Dict.WF; decide +kernel
  · decide +kernel

theorem blankChart_keys : Dict.WF T.blankSSCChart ∧
    (∀ k ∈ Dict.keys T.blankSSCChart, upper k = k ∧ k ≠ kNOTEDATA) ∧
    (∀ k ∈ T.smChartProperties, k ∈ Dict.keys T.blankSSCChart) ∧
    (Dict.keys T.blankSSCChart).getLast? = some kNOTES ∧
    (∃ n, Dict.get? T.blankSSCChart kNOTES = some (some n)) := by
  refine ⟨?_, ?_, ?_, ?_, ?_⟩
  · unfold Dict.WF; decide +kernel
  · decide +kernel
  · decide +kernel
  · decide +kernel
  · exact ⟨_, rfl⟩

end Simfile.CT
