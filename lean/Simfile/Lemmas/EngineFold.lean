/-
C11 helper: generic lemmas on the two folds of the spec ("value of the last row selected",
"sum of the rows selected"), and the key-indexed versions `bpmBefore`, `warpBefore`, `pausedK`
of `Spec.bpmOn`, `Spec.inWarp`, `Spec.paused`.
-/
import Simfile.Lemmas.EngineEvents
import Simfile.Lemmas.EngineSpec
namespace Simfile

/-! ### last selected value -/

def foldSel (P : Rat → Prop) [DecidablePred P] (init : Rat) (l : List (Rat × Rat)) : Rat :=
  l.foldl (fun cur e => if P e.1 then e.2 else cur) init

theorem foldSel_cons (P : Rat → Prop) [DecidablePred P] (init : Rat) (e : Rat × Rat) (l : List (Rat × Rat)) :
    foldSel P init (e :: l) = foldSel P (if P e.1 then e.2 else init) l := rfl

theorem foldSel_congr {P Q : Rat → Prop} [DecidablePred P] [DecidablePred Q] :
    ∀ (l : List (Rat × Rat)) (init : Rat), (∀ e ∈ l, P e.1 ↔ Q e.1) → foldSel P init l = foldSel Q init l := by
  intro l
  induction l with
  | nil => intro _ _; rfl
  | cons e l ih =>
    intro init h
    rw [foldSel_cons, foldSel_cons]
    have he := h e List.mem_cons_self
    have : (if P e.1 then e.2 else init) = (if Q e.1 then e.2 else init) := by
      by_cases hp : P e.1
      · rw [if_pos hp, if_pos (he.1 hp)]
      · rw [if_neg hp, if_neg (fun hq => hp (he.2 hq))]
    rw [this]
    exact ih _ (fun e' he' => h e' (List.mem_cons_of_mem _ he'))

theorem foldSel_none {P : Rat → Prop} [DecidablePred P] :
    ∀ (l : List (Rat × Rat)) (init : Rat), (∀ e ∈ l, ¬ P e.1) → foldSel P init l = init := by
  intro l
  induction l with
  | nil => intro _ _; rfl
  | cons e l ih =>
    intro init h
    rw [foldSel_cons, if_neg (h e List.mem_cons_self)]
    exact ih _ (fun e' he' => h e' (List.mem_cons_of_mem _ he'))

theorem foldSel_mem {P : Rat → Prop} [DecidablePred P] (β v : Rat) :
    ∀ (l : List (Rat × Rat)) (init : Rat), l.Pairwise (fun a b => a.1 < b.1) → (β, v) ∈ l →
      (∀ e ∈ l, P e.1 ↔ e.1 ≤ β) → foldSel P init l = v := by
  intro l
  induction l with
  | nil => intro _ _ h; exact absurd h List.not_mem_nil
  | cons e l ih =>
    intro init hpw hmem hP
    rw [List.pairwise_cons] at hpw
    rw [foldSel_cons]
    rcases List.mem_cons.1 hmem with heq | hin
    · subst heq
      rw [if_pos ((hP _ List.mem_cons_self).2 le_rfl)]
      apply foldSel_none
      intro e' he' hpe
      have h1 := (hP e' (List.mem_cons_of_mem _ he')).1 hpe
      have h2 := hpw.1 e' he'
      simp only at h1 h2
      linarith
    · exact ih _ hpw.2 hin (fun e' he' => hP e' (List.mem_cons_of_mem _ he'))

theorem foldSel_head (P : Rat → Prop) [DecidablePred P] (l : List (Rat × Rat)) (hne : l ≠ []) :
    foldSel P (l.headD (0, 0)).2 l = foldSel P (l.headD (0, 0)).2 l.tail := by
  cases l with
  | nil => exact absurd rfl hne
  | cons e l =>
    rw [foldSel_cons]
    simp

/-! ### sum of the selected values -/

def foldSum (P : Rat → Prop) [DecidablePred P] (l : List (Rat × Rat)) (a : Rat) : Rat :=
  l.foldl (fun acc d => if P d.1 then acc + d.2 else acc) a

theorem foldSum_cons (P : Rat → Prop) [DecidablePred P] (a : Rat) (d : Rat × Rat) (l : List (Rat × Rat)) :
    foldSum P (d :: l) a = foldSum P l (if P d.1 then a + d.2 else a) := rfl

theorem foldSum_congr {P Q : Rat → Prop} [DecidablePred P] [DecidablePred Q] :
    ∀ (l : List (Rat × Rat)) (a : Rat), (∀ d ∈ l, P d.1 ↔ Q d.1) → foldSum P l a = foldSum Q l a := by
  intro l
  induction l with
  | nil => intro _ _; rfl
  | cons d l ih =>
    intro a h
    rw [foldSum_cons, foldSum_cons]
    have hd := h d List.mem_cons_self
    have : (if P d.1 then a + d.2 else a) = (if Q d.1 then a + d.2 else a) := by
      by_cases hp : P d.1
      · rw [if_pos hp, if_pos (hd.1 hp)]
      · rw [if_neg hp, if_neg (fun hq => hp (hd.2 hq))]
    rw [this]
    exact ih _ (fun d' hd' => h d' (List.mem_cons_of_mem _ hd'))

theorem foldSum_shift {P : Rat → Prop} [DecidablePred P] (v : Rat) :
    ∀ (l : List (Rat × Rat)) (a : Rat), foldSum P l (a + v) = foldSum P l a + v := by
  intro l
  induction l with
  | nil => intro _; rfl
  | cons d l ih =>
    intro a
    rw [foldSum_cons, foldSum_cons]
    by_cases hp : P d.1
    · rw [if_pos hp, if_pos hp, ← ih]; congr 1; ring
    · rw [if_neg hp, if_neg hp, ih]

theorem foldSum_none {P : Rat → Prop} [DecidablePred P] :
    ∀ (l : List (Rat × Rat)) (a : Rat), (∀ d ∈ l, ¬ P d.1) → foldSum P l a = a := by
  intro l
  induction l with
  | nil => intro _ _; rfl
  | cons d l ih =>
    intro a h
    rw [foldSum_cons, if_neg (h d List.mem_cons_self)]
    exact ih _ (fun d' hd' => h d' (List.mem_cons_of_mem _ hd'))

/-- selecting exactly one more row adds its value -/
theorem foldSum_add_one {P Q : Rat → Prop} [DecidablePred P] [DecidablePred Q] (β v : Rat) :
    ∀ (l : List (Rat × Rat)) (a : Rat), l.Pairwise (fun a b => a.1 < b.1) → (β, v) ∈ l →
      (∀ d ∈ l, d.1 ≠ β → (P d.1 ↔ Q d.1)) → ¬ P β → Q β → foldSum Q l a = foldSum P l a + v := by
  intro l
  induction l with
  | nil => intro _ _ h; exact absurd h List.not_mem_nil
  | cons d l ih =>
    intro a hpw hmem hPQ hP hQ
    rw [List.pairwise_cons] at hpw
    rw [foldSum_cons, foldSum_cons]
    rcases List.mem_cons.1 hmem with heq | hin
    · subst heq
      rw [if_pos hQ, if_neg hP, foldSum_shift]
      congr 1
      apply (foldSum_congr l a _).symm
      intro d' hd'
      apply hPQ d' (List.mem_cons_of_mem _ hd')
      have := hpw.1 d' hd'
      simp only at this
      exact ne_of_gt this
    · have hne : d.1 ≠ β := by
        have := hpw.1 _ hin
        simp only at this
        exact ne_of_lt this
      have hd := hPQ d List.mem_cons_self hne
      have : (if Q d.1 then a + d.2 else a) = (if P d.1 then a + d.2 else a) := by
        by_cases hp : P d.1
        · rw [if_pos hp, if_pos (hd.1 hp)]
        · rw [if_neg hp, if_neg (fun hq => hp (hd.2 hq))]
      rw [this]
      exact ih _ hpw.2 hin (fun d' hd' => hPQ d' (List.mem_cons_of_mem _ hd')) hP hQ

/-- two members of a pairwise-related list are equal or related one way or the other -/
theorem pairwise_trichotomy {α} {R : α → α → Prop} {l : List α} (h : l.Pairwise R) {a b : α}
    (ha : a ∈ l) (hb : b ∈ l) : a = b ∨ R a b ∨ R b a := by
  induction l with
  | nil => exact absurd ha List.not_mem_nil
  | cons x l ih =>
    rw [List.pairwise_cons] at h
    rcases List.mem_cons.1 ha with rfl | ha'
    · rcases List.mem_cons.1 hb with rfl | hb'
      · exact Or.inl rfl
      · exact Or.inr (Or.inl (h.1 b hb'))
    · rcases List.mem_cons.1 hb with rfl | hb'
      · exact Or.inr (Or.inr (h.1 a ha'))
      · exact ih h.2 ha' hb'

/-- two rows of a strictly sorted list on the same beat are the same row -/
theorem row_unique {l : List (Rat × Rat)} (hpw : (l.map (·.1)).Pairwise (· < ·)) {β v v' : Rat}
    (h1 : (β, v) ∈ l) (h2 : (β, v') ∈ l) : v = v' := by
  rw [List.pairwise_map] at hpw
  rcases pairwise_trichotomy hpw h1 h2 with h | h | h
  · exact (Prod.mk.inj h).2
  · exact absurd h (lt_irrefl _)
  · exact absurd h (lt_irrefl _)

/-! ### key-indexed versions of the spec's three ingredients -/

/-- the BPM in force just after the events with key ≤ κ -/
def bpmBefore (td : TimingData) (κ : K) : Rat :=
  foldSel (fun β => key β .bpm ≤ κ) (td.bpms.headD (0, 0)).2 td.bpms.tail

/-- inside a coalesced warp segment just after the events with key ≤ κ -/
def warpBefore (td : TimingData) (κ : K) : Prop :=
  ∃ s ∈ segs td.warps, key s.1 .warp ≤ κ ∧ κ < key s.2 .warpEnd

/-- total of the pauses ended by the events with key ≤ κ -/
def pausedK (td : TimingData) (κ : K) : Rat :=
  foldSum (fun β => key β .delayEnd ≤ κ) td.delays 0 + foldSum (fun β => key β .stopEnd ≤ κ) td.stops 0

theorem bpmOn_eq_foldSel (td : TimingData) (x : Rat) :
    Spec.bpmOn td x = foldSel (fun β => β ≤ x) (td.bpms.headD (0, 0)).2 td.bpms := rfl

theorem bpmOn_eq_before (td : TimingData) (hd : C11.Dom td) (x : Rat) (g : Tag) (hg : 2 ≤ g.val) :
    Spec.bpmOn td x = bpmBefore td (key x g) := by
  rw [bpmOn_eq_foldSel, foldSel_head _ _ hd.bpms_ne]
  apply foldSel_congr
  intro e _
  rw [key_le, val_bpm]
  constructor
  · intro h
    rcases lt_or_eq_of_le h with h | h
    · exact Or.inl h
    · exact Or.inr ⟨h, hg⟩
  · rintro (h | h)
    · exact le_of_lt h
    · exact le_of_eq h.1

theorem paused_eq_K (td : TimingData) (b : Rat) (g : Tag) : Spec.paused td b g = pausedK td (key b g) := by
  unfold Spec.paused pausedK
  congr 1
  · exact foldSum_congr (P := fun β => Spec.keyLE (β, .delayEnd) (b, g) = true) _ _
      (fun d _ => keyLE_iff _ _ _ _)
  · exact foldSum_congr (P := fun β => Spec.keyLE (β, .stopEnd) (b, g) = true) _ _
      (fun d _ => keyLE_iff _ _ _ _)

theorem inWarp_iff_before (td : TimingData) (hd : C11.Dom td) (x : Rat) (g : Tag) (hg : 1 ≤ g.val) :
    Spec.inWarp td x = true ↔ warpBefore td (key x g) := by
  obtain ⟨_, _, h3, _⟩ := segs_spec td.warps hd.warps_pos hd.warps_sorted
  unfold Spec.inWarp warpBefore
  rw [List.any_eq_true]
  simp only [Bool.and_eq_true, decide_eq_true_eq]
  rw [← h3 x]
  constructor
  · rintro ⟨s, hs, h1, h2⟩
    exact ⟨s, hs, key_le.2 (by
      rcases lt_or_eq_of_le h1 with h | h
      · exact Or.inl h
      · exact Or.inr ⟨h, by simp⟩), key_lt.2 (Or.inl h2)⟩
  · rintro ⟨s, hs, h1, h2⟩
    refine ⟨s, hs, beat_le_of_key_le h1, ?_⟩
    rcases key_lt.1 h2 with h | h
    · exact h
    · have := h.2; simp at this; omega

end Simfile
