/-
C11 helper lemmas: the bisect loop returns a boundary index on ANY array; the loop commutes with
`Array.map`; shifting the offset shifts every state time.
-/
import Simfile.Lemmas.EngineBasic
import Mathlib.Tactic.Ring
namespace Simfile

/-- Python's `bisect_right` loop returns a boundary index, sorted input or not. -/
theorem bisectRightLoop_boundary {α} (lt : α → Bool) (a : Array α) :
    ∀ fuel lo hi, lo ≤ hi → hi ≤ a.size → hi - lo < fuel →
      lo ≤ bisectRightLoop lt a fuel lo hi ∧ bisectRightLoop lt a fuel lo hi ≤ hi ∧
      (bisectRightLoop lt a fuel lo hi = lo ∨
        ∃ y, a[bisectRightLoop lt a fuel lo hi - 1]? = some y ∧ lt y = false) ∧
      (bisectRightLoop lt a fuel lo hi = hi ∨
        ∃ y, a[bisectRightLoop lt a fuel lo hi]? = some y ∧ lt y = true) := by
  intro fuel
  induction fuel with
  | zero => intro lo hi _ _ h; omega
  | succ fuel ih =>
    intro lo hi hle hsz hf
    unfold bisectRightLoop
    by_cases hlt : lo < hi
    · simp only [hlt, if_true]
      have hmid1 : lo ≤ (lo + hi) / 2 := by omega
      have hmid2 : (lo + hi) / 2 < hi := by omega
      have hmid3 : (lo + hi) / 2 < a.size := by omega
      have hget : a[(lo + hi) / 2]? = some a[(lo + hi) / 2] := Array.getElem?_eq_getElem hmid3
      rw [hget]
      simp only
      cases hy : lt a[(lo + hi) / 2]
      · simp only [Bool.false_eq_true, if_false]
        obtain ⟨h1, h2, h3, h4⟩ := ih ((lo + hi) / 2 + 1) hi (by omega) hsz (by omega)
        refine ⟨by omega, h2, ?_, h4⟩
        rcases h3 with h3 | h3
        · right
          rw [h3]
          exact ⟨_, by simp, hy⟩
        · exact Or.inr h3
      · simp only [if_true]
        obtain ⟨h1, h2, h3, h4⟩ := ih lo ((lo + hi) / 2) hmid1 (by omega) (by omega)
        refine ⟨h1, by omega, h3, ?_⟩
        rcases h4 with h4 | h4
        · right
          rw [h4]
          exact ⟨_, hget, hy⟩
        · exact Or.inr h4
    · simp only [hlt, if_false]
      exact ⟨le_refl _, by omega, Or.inl trivial, Or.inl (by omega)⟩

/-- the boundary index of the full search, on a list -/
theorem bisect_boundary {α} (lt : α → Bool) (l : List α) :
    let r := bisectRightLoop lt l.toArray (l.toArray.size + 1) 0 l.toArray.size
    r ≤ l.length ∧ (r = 0 ∨ ∃ y, l[r - 1]? = some y ∧ lt y = false) ∧
      (r = l.length ∨ ∃ y, l[r]? = some y ∧ lt y = true) := by
  intro r
  obtain ⟨_, h2, h3, h4⟩ := bisectRightLoop_boundary lt l.toArray (l.toArray.size + 1) 0 l.toArray.size
    (Nat.zero_le _) (le_refl _) (by omega)
  refine ⟨by simpa [r] using h2, ?_, ?_⟩
  · simpa [r] using h3
  · simpa [r] using h4

theorem bisectRightLoop_map {α β} (f : α → β) (lt : β → Bool) (a : Array α) :
    ∀ fuel lo hi, bisectRightLoop lt (a.map f) fuel lo hi = bisectRightLoop (fun x => lt (f x)) a fuel lo hi := by
  intro fuel
  induction fuel with
  | zero => intro lo hi; rfl
  | succ fuel ih =>
    intro lo hi
    unfold bisectRightLoop
    by_cases hlt : lo < hi
    · simp only [hlt, if_true, Array.getElem?_map]
      cases a[(lo + hi) / 2]? with
      | none => rfl
      | some y => simp only [Option.map_some, ih]
    · simp only [hlt, if_false]

/-! ### offset shift -/

def shiftT (d : Rat) (s : TState) : TState := { s with time := s.time - d }

theorem timeUntil_shift (d : Rat) (s : TState) (b : Rat) (g : Tag) :
    (shiftT d s).timeUntil b g = s.timeUntil b g := rfl

theorem advance_shift (d : Rat) (s : TState) (e : TEvent) :
    advance (shiftT d s) e = shiftT d (advance s e) := by
  have h := timeUntil_shift d s e.beat e.tag
  simp only [advance, h]
  simp only [shiftT, TState.mk.injEq, and_true, true_and]
  ring

theorem go_shift (d : Rat) : ∀ (es : List TEvent) (s : TState),
    states.go (shiftT d s) es = (states.go s es).map (shiftT d) := by
  intro es
  induction es with
  | nil => intro s; rfl
  | cons e es ih =>
    intro s
    simp only [states.go, List.map_cons, advance_shift, ih]

theorem initState_shift (td : TimingData) (d : Rat) :
    initState { td with offset := td.offset + d } = shiftT d (initState td) := by
  simp only [initState, shiftT, TState.mk.injEq, and_true, true_and]
  ring

theorem states_shift (td : TimingData) (d : Rat) :
    states { td with offset := td.offset + d } = (states td).map (shiftT d) := by
  have hev : events { td with offset := td.offset + d } = events td := rfl
  unfold states
  rw [hev, initState_shift, go_shift]

theorem priorState_shift (td : TimingData) (d : Rat) (b : Rat) (g : Tag) :
    (mkEngine { td with offset := td.offset + d }).priorState b g =
      shiftT d ((mkEngine td).priorState b g) := by
  simp only [Engine.priorState, mkEngine, states_shift, initState_shift]
  rw [← List.map_toArray, bisectRightLoop_map]
  simp only [shiftT, Array.size_map, Array.getD_eq_getD_getElem?, Array.getElem?_map]
  cases (states td).toArray[bisectRightLoop (fun s => keyLT (b, g) (s.beat, s.tag)) (states td).toArray
    ((states td).toArray.size + 1) 0 (states td).toArray.size - 1]? <;> rfl

theorem timeAt_shift (td : TimingData) (d : Rat) (b : Rat) (g : Tag) :
    timeAt { td with offset := td.offset + d } b g = timeAt td b g - d := by
  simp only [timeAt, Engine.timeAt, priorState_shift, timeUntil_shift]
  simp only [shiftT]
  ring

end Simfile
