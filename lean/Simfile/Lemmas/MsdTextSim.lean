/-
Removing stray text, on the TEXT: lexing and strictly parsing the re-rendered cleaned token list, compared with
lenient parsing of the original text. The comparison needs three side conditions (`removable`), one for each way in
which deleting characters changes how the REST of the text is lexed:
 * the lexer's missing-semicolon recovery looks at the last TEXT token, which may be the deleted one;
 * a comment runs to the end of the line, and the deleted text may have contained that end of line;
 * a lone byte order mark is accepted between parameters, a byte order mark glued to blanks is not.
-/
import Simfile.Lemmas.MsdTextClean
import Simfile.Lemmas.MsdLexRun
import Simfile.Lemmas.StrLemmas
namespace Simfile.MsdP

abbrev bomC : Char := Char.ofNat 0xFEFF

/-- what the token before the current one was (for tokens outside a parameter) -/
inductive Prev | other | stray | comment | bom
deriving DecidableEq, Repr

/-- how a token changes the lexer's recovery flag "the last TEXT token ended in a line break" -/
def flagStep (b : Bool) : Tok → Bool
  | .text s => endsNl s
  | _ => b

/-- The side conditions, as a scan of the token list. `i`: inside a parameter; `p`: the previous token;
`b` / `b'`: the lexer's recovery flag (the last TEXT token ended in a line break) on the original text and on the
cleaned text (where only kept TEXT tokens count).
 * a dropped token does not directly follow a comment or a lone byte order mark;
 * a lone byte order mark does not directly follow a dropped token;
 * whenever a '#' is met inside a parameter (as START by recovery, or as TEXT), the two flags agree. -/
def removable : List Tok → Bool → Prev → Bool → Bool → Bool
  | [], _, _, _, _ => true
  | t :: ts, i, p, b, b' =>
    if (!i && isStray t) = true then
      (p != .comment) && (p != .bom) && removable ts i .stray (flagStep b t) b'
    else match t with
      | .text s =>
        if i then !(decide (s = ['#']) && (b != b')) && removable ts true .other (endsNl s) (endsNl s)
        else if s = [bomC] then (p != .stray) && removable ts false .bom (endsNl s) (endsNl s)
        else removable ts false .other (endsNl s) (endsNl s)
      | .start => !(i && (b != b')) && removable ts true .other b b'
      | .endp => removable ts false .other b b'
      | .comment _ => removable ts i (if i then .other else .comment) b b'
      | .next => removable ts i .other b b'
      | .escape _ => removable ts i .other b b'

theorem strayOk_bom : strayOk [bomC] = true := by decide

theorem removable_drop {t : Tok} (ts : List Tok) (p : Prev) (b b' : Bool) (h : isStray t = true) :
    removable (t :: ts) false p b b' =
      ((p != .comment) && (p != .bom) && removable ts false .stray (flagStep b t) b') := by
  rw [removable.eq_def]
  simp [h]

theorem removable_text_in (s : Str) (ts : List Tok) (p : Prev) (b b' : Bool) :
    removable (.text s :: ts) true p b b' =
      (!(decide (s = ['#']) && (b != b')) && removable ts true .other (endsNl s) (endsNl s)) := by
  rw [removable.eq_def]
  simp [isStray]

theorem removable_text_bom (ts : List Tok) (p : Prev) (b b' : Bool) :
    removable (.text [bomC] :: ts) false p b b' = ((p != .stray) && removable ts false .bom false false) := by
  rw [removable.eq_def]
  simp [isStray, strayOk_bom, show endsNl [bomC] = false from by decide]

theorem removable_text_blank (s : Str) (ts : List Tok) (p : Prev) (b b' : Bool) (h : strayOk s = true)
    (hb : s ≠ [bomC]) :
    removable (.text s :: ts) false p b b' = removable ts false .other (endsNl s) (endsNl s) := by
  rw [removable.eq_def]
  simp [isStray, h, hb]

theorem removable_start (ts : List Tok) (i : Bool) (p : Prev) (b b' : Bool) :
    removable (.start :: ts) i p b b' = (!(i && (b != b')) && removable ts true .other b b') := by
  rw [removable.eq_def]
  simp [isStray]

theorem removable_endp (ts : List Tok) (i : Bool) (p : Prev) (b b' : Bool) :
    removable (.endp :: ts) i p b b' = removable ts false .other b b' := by
  rw [removable.eq_def]
  simp [isStray]

theorem removable_next (ts : List Tok) (i : Bool) (p : Prev) (b b' : Bool) :
    removable (.next :: ts) i p b b' = removable ts i .other b b' := by
  rw [removable.eq_def]
  simp [isStray]

theorem removable_escape_in (c : Char) (ts : List Tok) (p : Prev) (b b' : Bool) :
    removable (.escape c :: ts) true p b b' = removable ts true .other b b' := by
  rw [removable.eq_def]
  simp [isStray]

theorem removable_comment (s : Str) (ts : List Tok) (i : Bool) (p : Prev) (b b' : Bool) :
    removable (.comment s :: ts) i p b b' = removable ts i (if i then .other else .comment) b b' := by
  rw [removable.eq_def]
  simp [isStray]

/-! ### small facts -/

theorem isPlain_of_space {c : Char} (h : pyIsSpace c = true) : isPlain c = true := by
  have h1 : c ≠ '\\' := by rintro rfl; revert h; decide
  have h2 : c ≠ '/' := by rintro rfl; revert h; decide
  have h3 : c ≠ ':' := by rintro rfl; revert h; decide
  have h4 : c ≠ ';' := by rintro rfl; revert h; decide
  have h5 : c ≠ '#' := by rintro rfl; revert h; decide
  simp [isPlain, h1, h2, h3, h4, h5]

theorem space_ne_bom {c : Char} (h : pyIsSpace c = true) : c ≠ bomC := by
  rintro rfl; revert h; decide

theorem endsNl_singleton (c : Char) : endsNl [c] = isNl c := rfl

theorem endsNl_cons_cons (c d : Char) (l : Str) : endsNl (c :: d :: l) = endsNl (d :: l) := by
  simp [endsNl, List.getLast?_cons_cons]

theorem strayOk_of_space {s : Str} (h : ∀ c ∈ s, pyIsSpace c = true) : strayOk s = true := by
  simp only [strayOk, Bool.or_eq_true, List.all_eq_true]
  exact Or.inl (Or.inr h)


/-- a non-empty acceptable text between parameters is blank, or the lone byte order mark -/
theorem strayOk_cases {s : Str} (h : strayOk s = true) (hne : s ≠ []) :
    (∀ c ∈ s, pyIsSpace c = true) ∨ s = [bomC] := by
  simp only [strayOk, Bool.or_eq_true, List.all_eq_true, decide_eq_true_eq, List.isEmpty_iff] at h
  rcases h with (h | h) | h
  · exact absurd h hne
  · exact Or.inl h
  · exact Or.inr h

theorem takeWhile_append_stop {α} {p : α → Bool} (w r : List α) (hw : ∀ x ∈ w, p x = true)
    (hr : ∀ c ∈ r.head?, p c = false) : (w ++ r).takeWhile p = w ∧ (w ++ r).dropWhile p = r := by
  induction w with
  | nil =>
    cases r with
    | nil => simp
    | cons a r =>
      have : p a = false := hr a (by simp)
      simp [this]
  | cons a w ih =>
    have ha : p a = true := hw a (by simp)
    have := ih (fun x hx => hw x (by simp [hx]))
    simp [ha, this]

theorem takeWhile_all {α} {p : α → Bool} (l : List α) : ∀ x ∈ l.takeWhile p, p x = true := by
  induction l with
  | nil => simp
  | cons a l ih =>
    intro x hx
    simp only [List.takeWhile_cons] at hx
    split at hx
    · rcases List.mem_cons.mp hx with rfl | hx
      · assumption
      · exact ih x hx
    · simp at hx

/-! ### more one-step equations of `run` / `go` -/

theorem run_start_in (strict : Bool) (r) (comps : List Str) (c : Str) (out : List Param) :
    run strict (Except.map (Tok.start :: ·) r) ⟨comps, some c, out⟩ =
      run strict r ⟨[], some [], out ++ [⟨comps ++ [c]⟩]⟩ := by
  cases r <;> simp [run, Except.map, parseToks, PState.complete]

theorem run_comment (strict : Bool) (r) (s : Str) (st : PState) :
    run strict (Except.map (Tok.comment s :: ·) r) st = run strict r st := by
  cases r <;> simp [run, Except.map, parseToks]

theorem run_text_out_bad (r) (s : Str) (hs : strayOk s = false) (comps : List Str) (out : List Param) :
    run true (Except.map (Tok.text s :: ·) r) ⟨comps, none, out⟩ =
      match r with
      | .ok _ => some { params := out, strayError := true }
      | .error _ => none := by
  cases r <;> simp [run, Except.map, parseToks, hs]

theorem run_ok (strict : Bool) (ts : List Tok) (st : PState) : run strict (.ok ts) st = some (parseToks strict ts st) := rfl

/-- inside a parameter a run of plain characters is consumed whatever follows -/
theorem go_plainrun_in (strict : Bool) (run : Str) (hrun : ∀ c ∈ run, isPlain c = true) (hne : run ≠ []) (r : Str) :
    ∀ (l : Bool) (comps : List Str) (x : Str) (out : List Param),
    go strict (run ++ r) true l ⟨comps, some x, out⟩ = go strict r true (endsNl run) ⟨comps, some (x ++ run), out⟩ := by
  induction run with
  | nil => exact absurd rfl hne
  | cons c run' ih =>
    intro l comps x out
    rw [List.cons_append, go_plain_in strict (hrun c (by simp))]
    cases run' with
    | nil => simp [endsNl_singleton]
    | cons c' run'' =>
      rw [ih (fun y hy => hrun y (by simp [hy])) (by simp), endsNl_cons_cons]
      simp

/-- outside a parameter, under strict parsing, a blank character can be consumed on its own unless what follows it
is exactly a lone byte order mark -/
theorem go_space_out {c : Char} (hc : pyIsSpace c = true) (cs : Str) (hcs : cs.takeWhile isPlain ≠ [bomC])
    (l : Bool) (comps : List Str) (out : List Param) :
    go true (c :: cs) false l ⟨comps, none, out⟩ = go true cs false (isNl c) ⟨comps, none, out⟩ := by
  unfold go
  rw [lexF_plain (isPlain_of_space hc)]
  cases cs with
  | nil =>
    simp only [List.takeWhile_nil, List.dropWhile_nil]
    rw [run_text_out _ _ _ (strayOk_of_space (by simpa using hc)), endsNl_singleton]
  | cons c' cs' =>
    by_cases hc' : isPlain c' = true
    · rw [lexF_plain hc']
      simp only [List.takeWhile_cons, List.dropWhile_cons, hc', if_true] at hcs ⊢
      rw [endsNl_cons_cons]
      by_cases hall : ∀ y ∈ c' :: cs'.takeWhile isPlain, pyIsSpace y = true
      · rw [run_text_out _ _ _ (strayOk_of_space hall),
          run_text_out _ _ _ (strayOk_of_space (by
            intro y hy
            rcases List.mem_cons.mp hy with rfl | hy
            · exact hc
            · exact hall y hy))]
      · have h1 : strayOk (c' :: cs'.takeWhile isPlain) = false := by
          cases hso : strayOk (c' :: cs'.takeWhile isPlain) with
          | false => rfl
          | true =>
            rcases strayOk_cases hso (by simp) with h | h
            · exact absurd h hall
            · exact absurd h hcs
        have h2 : strayOk (c :: c' :: cs'.takeWhile isPlain) = false := by
          cases hso : strayOk (c :: c' :: cs'.takeWhile isPlain) with
          | false => rfl
          | true =>
            rcases strayOk_cases hso (by simp) with h | h
            · exact absurd (fun y hy => h y (List.mem_cons_of_mem _ hy)) hall
            · simp at h
        rw [run_text_out_bad _ _ h1, run_text_out_bad _ _ h2]
    · simp only [List.takeWhile_cons, List.dropWhile_cons, hc']
      simp only [Bool.false_eq_true, if_false]
      rw [run_text_out _ _ _ (strayOk_of_space (by simpa using hc)), endsNl_singleton]

/-- outside a parameter, under strict parsing, a blank run is consumed whatever follows, unless what follows is
exactly a lone byte order mark -/
theorem go_blank_out (B : Str) (hB : ∀ c ∈ B, pyIsSpace c = true) (hne : B ≠ []) (r : Str)
    (hr : r.takeWhile isPlain ≠ [bomC]) (comps : List Str) (out : List Param) :
    ∀ (l : Bool), go true (B ++ r) false l ⟨comps, none, out⟩ = go true r false (endsNl B) ⟨comps, none, out⟩ := by
  induction B with
  | nil => exact absurd rfl hne
  | cons c B' ih =>
    intro l
    cases B' with
    | nil =>
      rw [List.cons_append, List.nil_append, go_space_out (hB c (by simp)) r hr, endsNl_singleton]
    | cons c' B'' =>
      have hc' : pyIsSpace c' = true := hB c' (by simp)
      rw [List.cons_append, go_space_out (hB c (by simp)) _ (by
        simp only [List.cons_append, List.takeWhile_cons, isPlain_of_space hc', if_true]
        intro h
        simp only [List.cons.injEq] at h
        exact space_ne_bom hc' h.1)]
      rw [ih (fun y hy => hB y (List.mem_cons_of_mem _ hy)) (by simp), endsNl_cons_cons]

/-- a comment is lexed as such when it is followed by a line break or the end of the text -/
theorem lexF_comment (w r : Str) (hw : ∀ x ∈ w, isNl x = false) (hr : ∀ c ∈ r.head?, isNl c = true) (i l : Bool) :
    lexF ('/' :: '/' :: (w ++ r)) i l = (lexF r i l).map (Tok.comment ('/' :: '/' :: w) :: ·) := by
  rw [lexF_cons, if_neg (by decide), if_neg (by decide), if_neg (by decide), if_neg (by decide), if_neg (by decide)]
  have := takeWhile_append_stop (p := fun x => !isNl x) w r (by simpa using hw) (by
    intro c hc; simp [hr c hc])
  simp only [List.takeWhile_cons, List.dropWhile_cons, show (!isNl '/') = true from by decide, if_true, this]

/-! ### what the cleaned text starts with -/

/-- when the first token is kept, the cleaned text starts with the same character -/
theorem head_clean (r : Str) (i b : Bool) (ts : List Tok) (h : lexF r i b = .ok ts)
    (hk : ∀ tok rest, ts = tok :: rest → (!i && isStray tok) = false) :
    (render (cleanToks ts i)).head? = r.head? := by
  cases r with
  | nil => rw [lexF_nil] at h; cases h; rfl
  | cons c cs =>
    obtain ⟨tok, r', i', l', rest, rfl, _, _, hsrc, _, _⟩ := lexF_step c cs i b ts h
    rw [cleanToks_keep rest i (hk tok rest rfl), render_cons]
    cases hs : tok.src with
    | nil => rw [hs] at hsrc; simp at hsrc
    | cons a l => rw [hs] at hsrc; simpa using hsrc

theorem removable_first_kept (ts : List Tok) (i : Bool) (p : Prev) (b b' : Bool) (h : removable ts i p b b' = true)
    (hp : i = true ∨ p = .comment ∨ p = .bom) :
    ∀ tok rest, ts = tok :: rest → (!i && isStray tok) = false := by
  intro tok rest e
  subst e
  cases hx : (!i && isStray tok) with
  | false => rfl
  | true =>
    exfalso
    unfold removable at h
    rw [if_pos hx] at h
    simp only [Bool.and_eq_true, bne_iff_ne, ne_eq] at h
    simp only [Bool.and_eq_true, Bool.not_eq_true'] at hx
    rcases hp with rfl | rfl | rfl
    · exact absurd hx.1 (by decide)
    · exact h.1.1 rfl
    · exact h.1.2 rfl

end Simfile.MsdP
