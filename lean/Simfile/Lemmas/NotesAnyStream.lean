/-
`Any.textNotes` (the value of the decoder on any accepted text): which cell gives which note, strict
sortedness, bounds.
-/
import Simfile.Lemmas.NotesAny
import Mathlib.Data.List.Nodup
namespace Simfile
namespace Any
open Simfile

theorem mem_flatten_enum {α β} (f : Nat × α → List β) (xs : List α) (b : β) :
    b ∈ ((enumFrom 0 xs).map f).flatten ↔ ∃ i x, xs[i]? = some x ∧ b ∈ f (i, x) := by
  simp only [List.mem_flatten, List.mem_map]
  constructor
  · rintro ⟨_, ⟨⟨i, x⟩, hx, rfl⟩, hb⟩
    exact ⟨i, x, by simpa using (mem_enumFrom.mp hx).2, hb⟩
  · rintro ⟨i, x, hx, hb⟩
    exact ⟨_, ⟨(i, x), mem_enumFrom.mpr ⟨Nat.zero_le _, by simpa using hx⟩, rfl⟩, hb⟩

theorem beat_swap (m sub l : Nat) : (m * 4 * sub + l * 4 : Nat) = 4 * m * sub + 4 * l := by
  rw [Nat.mul_comm m 4, Nat.mul_comm l 4]

/-! ### membership -/

theorem mem_lineNotes {cols p m sub l : Nat} {line : Str} {n : Note} :
    n ∈ lineNotes cols p m sub l line ↔
      ∃ cells ks c ch, lineCells cols line = .ok (cells, ks) ∧ cells[c]? = some ch ∧ ch ≠ '0' ∧
        n = ⟨((m * 4 * sub + l * 4 : Nat) : Rat) / (sub : Rat), c, ch, p, ks.getD c none⟩ := by
  unfold lineNotes
  cases h : lineCells cols line with
  | error e =>
    simp only [List.not_mem_nil, false_iff]
    rintro ⟨_, _, _, _, h', _⟩; cases h'
  | ok r =>
    obtain ⟨cells, ks⟩ := r
    simp only [List.mem_filterMap]
    constructor
    · rintro ⟨⟨c, ch⟩, hc, hn⟩
      have hc' := (mem_enumFrom.mp hc).2
      simp only [cellNote] at hn
      split at hn
      · cases hn
      · rename_i hne
        exact ⟨cells, ks, c, ch, rfl, by simpa using hc', hne, by simpa using hn.symm⟩
    · rintro ⟨cells', ks', c, ch, h', hc, hne, rfl⟩
      cases h'
      exact ⟨(c, ch), mem_enumFrom.mpr ⟨Nat.zero_le _, by simpa using hc⟩, by simp [cellNote, hne]⟩

theorem mem_measureNotes {cols p m : Nat} {s : Str} {n : Note} :
    n ∈ measureNotes cols p m s ↔
      ∃ l line, (splitLines s)[l]? = some line ∧ n ∈ lineNotes cols p m (splitLines s).length l line :=
  mem_flatten_enum _ _ _

theorem mem_playerNotes {cols p : Nat} {sec : Str} {n : Note} :
    n ∈ playerNotes cols p sec ↔
      ∃ m mt, (splitOn ',' sec)[m]? = some mt ∧ n ∈ measureNotes cols p m (strip mt) :=
  mem_flatten_enum _ _ _

theorem mem_textNotes {cols : Nat} {t : Str} {n : Note} :
    n ∈ textNotes cols t ↔ ∃ p sec, (splitOn '&' t)[p]? = some sec ∧ n ∈ playerNotes cols p sec :=
  mem_flatten_enum _ _ _

/-! ### attributes -/

theorem lineNotes_attrs {cols p m sub l : Nat} {line : Str} {n : Note} (h : n ∈ lineNotes cols p m sub l line) :
    n.player = p ∧ n.beat = ((4 * m * sub + 4 * l : Nat) : Rat) / (sub : Rat) := by
  obtain ⟨_, _, _, _, _, _, _, rfl⟩ := mem_lineNotes.mp h
  exact ⟨rfl, by simp only [beat_swap]⟩

theorem measureNotes_attrs {cols p m : Nat} {s : Str} {n : Note} (h : n ∈ measureNotes cols p m s) :
    n.player = p ∧ 4 * (m : Rat) ≤ n.beat ∧ n.beat < 4 * ((m : Rat) + 1) := by
  obtain ⟨l, line, hl, hn⟩ := mem_measureNotes.mp h
  have hlt := (List.getElem?_eq_some_iff.mp hl).1
  obtain ⟨h1, h2⟩ := lineNotes_attrs hn
  refine ⟨h1, ?_, ?_⟩
  · rw [h2]; exact Spec.rowBeat_ge _ _ _ (by omega)
  · rw [h2]; exact Spec.rowBeat_lt_next hlt

theorem playerNotes_attrs {cols p : Nat} {sec : Str} {n : Note} (h : n ∈ playerNotes cols p sec) :
    n.player = p ∧ 0 ≤ n.beat := by
  obtain ⟨m, mt, _, hn⟩ := mem_playerNotes.mp h
  obtain ⟨h1, h2, _⟩ := measureNotes_attrs hn
  refine ⟨h1, le_trans ?_ h2⟩
  positivity

/-! ### strict sortedness (holds for every text, accepted or not) -/

theorem lineNotes_sorted (cols p m sub l : Nat) (line : Str) :
    (lineNotes cols p m sub l line).Pairwise (fun a b => keyLt a.key b.key = true) := by
  unfold lineNotes
  split
  · apply pairwise_filterMap_enumFrom
    intro i x j y _ _ hij a ha b hb
    simp only [cellNote] at ha hb
    split at ha
    · cases ha
    split at hb
    · cases hb
    simp only [Option.some.injEq] at ha hb
    subst ha hb
    simp [keyLt_iff, Note.key, hij]
  · exact List.Pairwise.nil

theorem measureNotes_sorted (cols p m : Nat) (s : Str) :
    (measureNotes cols p m s).Pairwise (fun a b => keyLt a.key b.key = true) := by
  unfold measureNotes
  apply pairwise_flatten_enumFrom
  · intro i x _; exact lineNotes_sorted _ _ _ _ _ _
  · intro i x j y hi hj hij a ha b hb
    have hjl := (mem_enumFrom_lt hj).2
    obtain ⟨a1, a2⟩ := lineNotes_attrs ha
    obtain ⟨b1, b2⟩ := lineNotes_attrs hb
    rw [keyLt_iff]
    right
    refine ⟨by simp [Note.key, a1, b1], Or.inl ?_⟩
    simp only [Note.key, a2, b2]
    exact Spec.rowBeat_lt hij (by omega)

theorem playerNotes_sorted (cols p : Nat) (sec : Str) :
    (playerNotes cols p sec).Pairwise (fun a b => keyLt a.key b.key = true) := by
  unfold playerNotes
  apply pairwise_flatten_enumFrom
  · intro i x _; exact measureNotes_sorted _ _ _ _
  · intro i x j y hi hj hij a ha b hb
    obtain ⟨a1, _, a3⟩ := measureNotes_attrs ha
    obtain ⟨b1, b2, _⟩ := measureNotes_attrs hb
    rw [keyLt_iff]
    right
    refine ⟨by simp [Note.key, a1, b1], Or.inl ?_⟩
    simp only [Note.key]
    have : ((i : Rat) + 1) ≤ (j : Rat) := by exact_mod_cast hij
    linarith

theorem textNotes_sorted (cols : Nat) (t : Str) :
    (textNotes cols t).Pairwise (fun a b => keyLt a.key b.key = true) := by
  unfold textNotes
  apply pairwise_flatten_enumFrom
  · intro i x _; exact playerNotes_sorted _ _ _
  · intro i x j y hi hj hij a ha b hb
    obtain ⟨a1, _⟩ := playerNotes_attrs ha
    obtain ⟨b1, _⟩ := playerNotes_attrs hb
    rw [keyLt_iff]
    left
    simp [Note.key, a1, b1, hij]

theorem nodup_of_keyLt {ns : List Note} (h : ns.Pairwise (fun a b => keyLt a.key b.key = true)) :
    (ns.map Note.key).Nodup := by
  rw [List.Nodup, List.pairwise_map]
  apply h.imp
  intro a b hab e
  rw [e, keyLt_irrefl] at hab
  exact absurd hab (by decide)

/-! ### bounds on accepted text -/

theorem lineNotes_bounds {cols p m sub l : Nat} {line : Str} (hok : LineOK cols line) {n : Note}
    (h : n ∈ lineNotes cols p m sub l line) : n.column < cols ∧ isNoteChar n.ntype = true := by
  obtain ⟨cells, ks, c, ch, h1, hc, hne, rfl⟩ := mem_lineNotes.mp h
  obtain ⟨cells', ks', h1', hC⟩ := hok
  rw [h1] at h1'; cases h1'
  have := hC (c, ch) (mem_enumFrom.mpr ⟨Nat.zero_le _, by simpa using hc⟩) hne
  exact ⟨this.2, this.1⟩

theorem textNotes_bounds {cols : Nat} {t : Str} (hacc : Accepts cols t) {n : Note} (h : n ∈ textNotes cols t) :
    0 ≤ n.beat ∧ n.column < cols ∧ isNoteChar n.ntype = true := by
  obtain ⟨p, sec, hp, hn⟩ := mem_textNotes.mp h
  have hb := (playerNotes_attrs hn).2
  obtain ⟨m, mt, hm, hn⟩ := mem_playerNotes.mp hn
  obtain ⟨l, line, hl, hn⟩ := mem_measureNotes.mp hn
  have := lineNotes_bounds (hacc sec (List.mem_of_getElem? hp) mt (List.mem_of_getElem? hm) line
    (List.mem_of_getElem? hl)) hn
  exact ⟨hb, this⟩

/-! ### counting -/

/-- number of non-'0' cells of a line (0 if the line is unreadable) -/
def lineCount (cols : Nat) (line : Str) : Nat :=
  match lineCells cols line with
  | .ok (cells, _) => cells.countP (fun ch => ch != '0')
  | .error _ => 0

/-- number of non-'0' cells of a text -/
def textCount (cols : Nat) (t : Str) : Nat :=
  ((splitOn '&' t).map fun sec =>
    ((splitOn ',' sec).map fun mt => ((splitLines (strip mt)).map (lineCount cols)).sum).sum).sum

theorem length_flatten_enum {α β} (f : Nat × α → List β) (g : α → Nat) (xs : List α) :
    ∀ k, (∀ x ∈ enumFrom k xs, (f x).length = g x.2) →
      (((enumFrom k xs).map f).flatten).length = (xs.map g).sum := by
  induction xs with
  | nil => intro k _; rfl
  | cons x xs ih =>
    intro k h
    simp only [enumFrom_cons, List.map_cons, List.flatten_cons, List.length_append, List.sum_cons]
    rw [h (k, x) (by simp), ih (k + 1) (fun y hy => h y (by simp [hy]))]

theorem length_filterMap_cellNote (p m sub l : Nat) (ks : List (Option Nat)) (cells : Str) : ∀ off,
    ((enumFrom off cells).filterMap (cellNote p m sub l ks)).length = cells.countP (fun ch => ch != '0') := by
  induction cells with
  | nil => intro off; rfl
  | cons ch rest ih =>
    intro off
    rw [enumFrom_cons, List.filterMap_cons, List.countP_cons]
    by_cases h0 : ch = '0'
    · simp [cellNote, h0, ih (off + 1)]
    · simp [cellNote, h0, ih (off + 1)]

theorem length_lineNotes (cols p m sub l : Nat) (line : Str) :
    (lineNotes cols p m sub l line).length = lineCount cols line := by
  unfold lineNotes lineCount
  cases lineCells cols line with
  | error e => rfl
  | ok r => exact length_filterMap_cellNote _ _ _ _ _ _ _

theorem length_textNotes (cols : Nat) (t : Str) : (textNotes cols t).length = textCount cols t := by
  unfold textNotes textCount
  apply length_flatten_enum
  intro x _
  unfold playerNotes
  apply length_flatten_enum
  intro y _
  unfold measureNotes
  apply length_flatten_enum
  intro z _
  exact length_lineNotes _ _ _ _ _ _

end Any
end Simfile
