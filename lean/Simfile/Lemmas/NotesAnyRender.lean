/-
`WFText` covers the old domain: the rendering of every `Spec.WF` chart is `WFText`.
-/
import Simfile.Lemmas.NotesAnyWF
namespace Simfile
namespace Any
open Simfile Simfile.Spec

/-- a line of a rendered measure: blanks, the cells of some row, blanks -/
def RowLine (rows : List DRow) (line : Str) : Prop :=
  ∃ r ∈ rows, ∃ a b, (∀ c ∈ a, pyIsSpace c = true) ∧ (∀ c ∈ b, pyIsSpace c = true) ∧
    line = a ++ cellsText r.cells ++ b

theorem RowLine.tail {r : DRow} {rs : List DRow} {line : Str} (h : RowLine rs line) : RowLine (r :: rs) line := by
  obtain ⟨r', hr', rest⟩ := h
  exact ⟨r', by simp [hr'], rest⟩

/-- the lines of a stripped rendered measure (same induction as `Spec.go_rows`) -/
theorem lines_rows (cols : Nat) (hpos : 0 < cols) (post : Str) (hpost : ∀ c ∈ post, pyIsSpace c = true) :
    ∀ (rs : List DRow) (r : DRow) (lead' : Str), wfRows cols (r :: rs) = true → Inline lead' →
      ∀ line ∈ splitLines (rstrip (lead' ++ cellsText r.cells ++ r.trail ++ r.eol ++
        ((rs.map renderRow).flatten ++ post))), RowLine (r :: rs) line := by
  intro rs
  induction rs with
  | nil =>
    intro r lead' hwf hlead
    simp only [wfRows, wfRow_iff] at hwf
    obtain ⟨hr, heol⟩ := hwf
    have hne : r.cells ≠ [] := by
      intro e; have := hr.len; rw [e] at this; simp at this; omega
    have hsp : ∀ c ∈ r.trail ++ r.eol ++ post, pyIsSpace c = true := by
      intro c hc
      simp only [List.mem_append] at hc
      rcases hc with (hc | hc) | hc
      · exact hr.trail.space c hc
      · rcases heol with he | ⟨_, he⟩
        · exact IsEol.space he c hc
        · rw [he] at hc; simp at hc
      · exact hpost c hc
    have e : lead' ++ cellsText r.cells ++ r.trail ++ r.eol ++ ((List.map renderRow []).flatten ++ post) =
        (lead' ++ cellsText r.cells) ++ (r.trail ++ r.eol ++ post) := by simp
    have hT : rstrip (lead' ++ cellsText r.cells ++ r.trail ++ r.eol ++
        ((List.map renderRow []).flatten ++ post)) = lead' ++ cellsText r.cells := by
      rw [e, rstrip_append_of_getLast (getLast?_lead_cells hne hr.cells), rstrip_all_space hsp]; simp
    have hTne : lead' ++ cellsText r.cells ≠ [] := by
      simp [cellsText_ne_nil hne]
    have hlines : splitLines (lead' ++ cellsText r.cells) = [lead' ++ cellsText r.cells] :=
      splitLines_noLB (noLB_append hlead.noLB (cellsText_noLB hr.cells)) hTne
    rw [hT, hlines]
    intro line hl
    simp only [List.mem_singleton] at hl
    subst hl
    exact ⟨r, by simp, lead', [], hlead.space, by simp, by simp⟩
  | cons r₂ rs' ih =>
    intro r lead' hwf hlead
    have hwf0 := hwf
    rw [wfRows, Bool.and_eq_true, wfRow_iff] at hwf
    · obtain ⟨⟨hr, heol⟩, hwf₂⟩ := hwf
      have heol' : IsEol r.eol := by
        rcases heol with h | ⟨h, _⟩
        · exact h
        · exact absurd h (by decide)
      have hne : r.cells ≠ [] := by
        intro e; have := hr.len; rw [e] at this; simp at this; omega
      have hlead₂ : Inline r₂.lead := by
        cases rs' with
        | nil => simp only [wfRows, wfRow_iff] at hwf₂; exact hwf₂.1.lead
        | cons r₃ rs'' =>
          rw [wfRows, Bool.and_eq_true, wfRow_iff] at hwf₂
          · exact hwf₂.1.1.lead
          · simp
      have ih' := ih r₂ r₂.lead hwf₂ hlead₂
      obtain ⟨ih1, _, _⟩ := go_rows cols 0 0 hpos post hpost rs' r₂ r₂.lead 0 hwf₂ hlead₂
      generalize hB : r₂.lead ++ cellsText r₂.cells ++ r₂.trail ++ r₂.eol ++
        ((rs'.map renderRow).flatten ++ post) = B at ih1 ih'
      have e : lead' ++ cellsText r.cells ++ r.trail ++ r.eol ++
          (((r₂ :: rs').map renderRow).flatten ++ post) =
          (lead' ++ cellsText r.cells) ++ ((r.trail ++ r.eol) ++ B) := by
        rw [← hB]; simp [renderRow_eq]
      have hT : rstrip (lead' ++ cellsText r.cells ++ r.trail ++ r.eol ++
          (((r₂ :: rs').map renderRow).flatten ++ post)) =
          (lead' ++ cellsText r.cells ++ r.trail) ++ r.eol ++ rstrip B := by
        rw [e, rstrip_append_of_getLast (getLast?_lead_cells hne hr.cells),
          rstrip_append_of_rstrip_ne_nil ih1]
        simp
      have hbody : NoLB (lead' ++ cellsText r.cells ++ r.trail) :=
        noLB_append (noLB_append hlead.noLB (cellsText_noLB hr.cells)) hr.trail.noLB
      rw [hT, splitLines_body_eol hbody heol']
      intro line hl
      rcases List.mem_cons.mp hl with rfl | hl
      · exact ⟨r, by simp, lead', r.trail, hlead.space, hr.trail.space, rfl⟩
      · exact (ih' line hl).tail
    · simp

/-- the lines of a stripped rendered well-formed measure -/
theorem lines_renderMeasure (cols : Nat) (hpos : 0 < cols) (me : DMeasure) (h : wfMeasure cols me = true) :
    ∀ line ∈ splitLines (strip (renderMeasure me)), RowLine me.rows line := by
  rw [wfMeasure_iff] at h
  obtain ⟨hpre, hpost, hrows⟩ := h
  obtain ⟨r, rs, hrs⟩ : ∃ r rs, me.rows = r :: rs := by
    cases hm : me.rows with
    | nil => exact absurd hm (wfRows_ne_nil hrows)
    | cons r rs => exact ⟨r, rs, rfl⟩
  rw [hrs] at hrows
  obtain ⟨hr, _, _⟩ := wfRows_head hrows
  have hne : r.cells ≠ [] := by
    intro e; have := hr.len; rw [e] at this; simp at this; omega
  have e : renderMeasure me = (me.pre ++ r.lead) ++ (cellsText r.cells ++
      (r.trail ++ r.eol ++ ((rs.map renderRow).flatten ++ me.post))) := by
    simp [renderMeasure, hrs, renderRow_eq]
  have hws : ∀ c ∈ me.pre ++ r.lead, pyIsSpace c = true := by
    intro c hc
    rcases List.mem_append.mp hc with h | h
    · exact hpre c h
    · exact hr.lead.space c h
  have hstrip : strip (renderMeasure me) = rstrip ([] ++ cellsText r.cells ++ r.trail ++ r.eol ++
      ((rs.map renderRow).flatten ++ me.post)) := by
    rw [e, strip, lstrip_append_left hws,
      lstrip_append_of_head (cellsText_ne_nil hne) (cellsText_trimmed hr.cells).1]
    simp
  rw [hstrip, hrs]
  exact lines_rows cols hpos me.post hpost rs r [] hrows (by intro c hc; simp at hc)

/-! ### a rendered row tokenises into its cells -/

def tokOfCell (c : Cell) : Tok := ⟨c.ch, c.ks.map natDigits⟩

theorem tokText_cells (cells : List Cell) : tokText (cells.map tokOfCell) = cellsText cells := by
  induction cells with
  | nil => rfl
  | cons c cs ih =>
    rw [List.map_cons, tokText_cons, ih, cellsText_cons]
    congr 1
    simp only [tokStr, tokOfCell, cellStr]
    cases c.ks <;> simp [ksStr]

theorem tokIn_cell {c : Cell} (h : WfCell c) : TokIn (tokOfCell c) := by
  have hp := cellChar_props h.cellChar
  refine ⟨hp.2.2.1, hp.2.2.2.1, ?_⟩
  intro ds hds
  simp only [tokOfCell, Option.map_eq_some_iff] at hds
  obtain ⟨k, _, rfl⟩ := hds
  exact ⟨fun x hx => isDigit_of_mem_natDigits hx, by rw [parseNat_natDigits]; rfl⟩

theorem lineOKB_rowLine {cols : Nat} {rows : List DRow} (hrows : ∀ r ∈ rows, WfRowP cols r) {line : Str}
    (h : RowLine rows line) : lineOKB cols line = true := by
  obtain ⟨r, hr, a, b, ha, hb, rfl⟩ := h
  have hw := hrows r hr
  rw [lineOKB_iff]
  refine ⟨r.cells.map tokOfCell, ?_, ?_⟩
  · rw [strip_sandwich ha hb (cellsText_trimmed hw.cells), ← tokText_cells]
    exact tokenize_complete _ (by
      intro tok htok
      simp only [List.mem_map] at htok
      obtain ⟨c, hc, rfl⟩ := htok
      exact tokIn_cell (hw.cells c hc))
  · intro c tok hc
    simp only [List.getElem?_map, Option.map_eq_some_iff] at hc
    obtain ⟨cell, hcell, rfl⟩ := hc
    have hlt : c < cols := by
      have := (List.getElem?_eq_some_iff.mp hcell).1
      rw [hw.len] at this; exact this
    refine ⟨fun hne => ⟨?_, hlt⟩, fun _ => hlt⟩
    rcases hw.cells cell (List.mem_of_getElem? hcell) with ⟨h0, _⟩ | ⟨_, hn⟩
    · exact absurd h0 hne
    · exact hn

theorem wfRowP_of_wfRows {n : Nat} {rows : List DRow} (h : wfRows n rows = true) : ∀ r ∈ rows, WfRowP n r := by
  intro r hr
  obtain ⟨last, hl⟩ := wfRows_all h r hr
  exact ((wfRow_iff n last r).mp hl).1

/-- **every rendering of a `Spec.WF` chart is `WFText`** -/
theorem WFText_render (c : DChart) (h : WF c = true) : WFText (cols c) (render c) = true := by
  rw [WF_iff] at h
  obtain ⟨hpos, hne, hall⟩ := h
  rw [WFText_iff]
  have hsec : splitOn '&' (render c) = c.map renderPlayer := by
    rw [render, splitOn_joinWith (by simpa using hne)]
    intro q hq
    simp only [List.mem_map] at hq
    obtain ⟨ms, hms, rfl⟩ := hq
    exact renderPlayer_no_amp (hall ms hms).2
  rw [hsec]
  intro sec hs
  simp only [List.mem_map] at hs
  obtain ⟨ms, hms, rfl⟩ := hs
  obtain ⟨h1, h2⟩ := hall ms hms
  have hmt : splitOn ',' (renderPlayer ms) = ms.map renderMeasure := by
    rw [renderPlayer, splitOn_joinWith (by simpa using h1)]
    intro q hq
    simp only [List.mem_map] at hq
    obtain ⟨me, hme, rfl⟩ := hq
    exact (renderMeasure_no_sep (h2 me hme)).1
  rw [hmt]
  intro mt hm
  simp only [List.mem_map] at hm
  obtain ⟨me, hme, rfl⟩ := hm
  intro line hl
  have hwm := h2 me hme
  exact lineOKB_rowLine (wfRowP_of_wfRows ((wfMeasure_iff _ _).mp hwm).2.2)
    (lines_renderMeasure (cols c) (by omega) me hwm line hl)

end Any
end Simfile
