/-
The encoder (`pushRow`, `pushMeasure`, `pushPlayer`, `encode`): the blank chart, row counts.
-/
import Simfile.Lemmas.NotesDecode
import Simfile.Lemmas.Round
namespace Simfile
open Simfile

namespace Spec

def zeroCell : Cell := ⟨'0', none⟩

/-- the chart written for an empty stream: one player, one measure, four rows of '0' -/
def blankChart (cols : Nat) : DChart :=
  [[{ rows := List.replicate 4 { cells := List.replicate cols zeroCell } }]]

theorem cellsText_zero (cols : Nat) : cellsText (List.replicate cols zeroCell) = List.replicate cols '0' := by
  induction cols with
  | zero => rfl
  | succ n ih => rw [List.replicate_succ, cellsText_cons, ih]; rfl

theorem render_blankChart (cols : Nat) : render (blankChart cols) = blankRows cols 4 := by
  simp [render, renderPlayer, renderMeasure, blankChart, renderRow_eq, cellsText_zero, blankRows,
    List.replicate_succ]

theorem cols_blankChart (cols : Nat) : Spec.cols (blankChart cols) = cols := by
  simp [Spec.cols, blankChart, List.replicate_succ]

theorem wfRow_zero (cols : Nat) (last : Bool) :
    wfRow cols last { cells := List.replicate cols zeroCell } = true := by
  rw [wfRow_iff]
  refine ⟨⟨by simp, by intro c hc; simp at hc, by intro c hc; simp at hc, ?_⟩, Or.inl (Or.inl rfl)⟩
  intro c hc
  rw [List.eq_of_mem_replicate hc]
  exact Or.inl ⟨rfl, rfl⟩

theorem WF_blankChart (cols : Nat) (h : 0 < cols) : WF (blankChart cols) = true := by
  rw [WF_iff, cols_blankChart]
  refine ⟨h, by simp [blankChart], ?_⟩
  intro ms hms
  simp only [blankChart, List.mem_singleton] at hms
  subst hms
  refine ⟨by simp, ?_⟩
  intro me hme
  simp only [List.mem_singleton] at hme
  subst hme
  simp [wfMeasure, wfRows, List.replicate_succ, wfRow_zero]

theorem notesOfRow_zero (p m sub l cols : Nat) :
    notesOfRow p m sub l { cells := List.replicate cols zeroCell } = [] := by
  rw [List.eq_nil_iff_forall_not_mem]
  intro n hn
  rw [mem_notesOfRow] at hn
  obtain ⟨c, cell, hc, hne, _⟩ := hn
  have := List.eq_of_mem_replicate (List.mem_of_getElem? hc)
  rw [this] at hne
  exact hne rfl

theorem notesOf_blankChart (cols : Nat) : notesOf (blankChart cols) = [] := by
  simp [notesOf, blankChart, Spec.notesOfMeasure, List.replicate_succ, notesOfRow_zero]

end Spec

/-! ### `groupRuns` -/

theorem groupRuns_cons {α κ} [DecidableEq κ] (key : α → κ) (x : α) (xs : List α) :
    groupRuns key (x :: xs) = match groupRuns key xs with
      | (k, run) :: rest => if key x = k then (k, x :: run) :: rest else (key x, [x]) :: (k, run) :: rest
      | [] => [(key x, [x])] := rfl

/-- the runs, concatenated, give the list back -/
theorem groupRuns_flatten {α κ} [DecidableEq κ] (key : α → κ) (l : List α) :
    ((groupRuns key l).map (·.2)).flatten = l := by
  induction l with
  | nil => rfl
  | cons x xs ih =>
    rw [groupRuns_cons]
    cases h : groupRuns key xs with
    | nil => rw [h] at ih; simp at ih; simp [← ih]
    | cons g rest =>
      obtain ⟨k, run⟩ := g
      rw [h] at ih
      simp only
      split
      · simp only [List.map_cons, List.flatten_cons, List.cons_append] at ih ⊢; rw [ih]
      · simp only [List.map_cons, List.flatten_cons, List.cons_append, List.nil_append] at ih ⊢; rw [ih]

/-- every run is non-empty and has the key it is filed under -/
theorem groupRuns_mem {α κ} [DecidableEq κ] (key : α → κ) (l : List α) :
    ∀ g ∈ groupRuns key l, g.2 ≠ [] ∧ ∀ x ∈ g.2, key x = g.1 := by
  induction l with
  | nil => intro g hg; simp [groupRuns] at hg
  | cons x xs ih =>
    rw [groupRuns_cons]
    cases h : groupRuns key xs with
    | nil => intro g hg; simp at hg; subst hg; simp
    | cons g₀ rest =>
      obtain ⟨k, run⟩ := g₀
      rw [h] at ih
      simp only
      split
      · rename_i hk
        intro g hg
        rcases List.mem_cons.mp hg with rfl | hg
        · refine ⟨by simp, ?_⟩
          intro y hy
          rcases List.mem_cons.mp hy with rfl | hy
          · exact hk
          · exact (ih (k, run) (by simp)).2 y hy
        · exact ih g (by simp [hg])
      · intro g hg
        rcases List.mem_cons.mp hg with rfl | hg
        · simp
        · exact ih g hg

theorem groupRuns_run_sublist {α κ} [DecidableEq κ] (key : α → κ) (l : List α) :
    ∀ g ∈ groupRuns key l, g.2.Sublist l := by
  intro g hg
  have := List.sublist_flatten_of_mem (L := (groupRuns key l).map (·.2)) (l := g.2)
    (List.mem_map.mpr ⟨g, hg, rfl⟩)
  rwa [groupRuns_flatten] at this

/-- runs of a list whose keys never decrease have strictly increasing keys -/
theorem groupRuns_keys_sorted {α κ} [DecidableEq κ] (key : α → κ) (R : κ → κ → Prop)
    (htrans : ∀ a b c, R a b → R b c → R a c) (l : List α)
    (h : l.Pairwise (fun a b => key a = key b ∨ R (key a) (key b))) :
    (groupRuns key l).Pairwise (fun g g' => R g.1 g'.1) := by
  induction l with
  | nil => simp [groupRuns]
  | cons x xs ih =>
    rw [List.pairwise_cons] at h
    have ih' := ih h.2
    rw [groupRuns_cons]
    cases hg : groupRuns key xs with
    | nil => simp
    | cons g₀ rest =>
      obtain ⟨k, run⟩ := g₀
      rw [hg] at ih'
      have hmem := groupRuns_mem key xs
      rw [hg] at hmem
      simp only
      split
      · rename_i hk
        rw [List.pairwise_cons] at ih' ⊢
        exact ih'
      · rename_i hk
        rw [List.pairwise_cons]
        refine ⟨?_, ih'⟩
        have hx : R (key x) k := by
          obtain ⟨hne, hall⟩ := hmem (k, run) (by simp)
          obtain ⟨y, hy⟩ := List.exists_mem_of_ne_nil _ hne
          have hyk := hall y hy
          have hsub := groupRuns_run_sublist key xs (k, run) (by rw [hg]; simp)
          rcases h.1 y (hsub.subset hy) with h' | h'
          · exact absurd (h'.trans hyk) hk
          · rwa [hyk] at h'
        intro g' hg'
        rcases List.mem_cons.mp hg' with rfl | hg'
        · exact hx
        · exact htrans _ _ _ hx ((List.pairwise_cons.mp ih').1 g' hg')

/-! ### `pushRow` -/

namespace Spec

def cellOf (n : Note) : Cell := ⟨n.ntype, n.keysound⟩

theorem cellStr_cellOf (n : Note) : cellStr (cellOf n) = noteStr n := rfl

/-- the cells of a row after writing the notes `row` into them -/
def setCells (cells : List Cell) (row : List Note) : List Cell :=
  row.foldl (fun cells n => listSet cells n.column (cellOf n)) cells

def rowCells (cols : Nat) (row : List Note) : List Cell := setCells (List.replicate cols zeroCell) row

theorem setCells_length (cells : List Cell) (row : List Note) : (setCells cells row).length = cells.length := by
  induction row generalizing cells with
  | nil => rfl
  | cons n ns ih => simp only [setCells, List.foldl_cons] at ih ⊢; rw [ih, listSet_length]

theorem rowCells_length (cols : Nat) (row : List Note) : (rowCells cols row).length = cols := by
  simp [rowCells, setCells_length]

theorem listSet_map {α β} (f : α → β) (l : List α) (i : Nat) (v : α) :
    (listSet l i v).map f = listSet (l.map f) i (f v) := by
  induction l generalizing i with
  | nil => rfl
  | cons x xs ih => cases i <;> simp [listSet, ih]

theorem pushRow_fold (row : List Note) : ∀ (cells : List Cell), (∀ n ∈ row, n.column < cells.length) →
    row.foldlM (fun (cells : List Str) n =>
      if cells.length ≤ n.column then Except.error NErr.indexError
      else pure (listSet cells n.column (noteStr n))) (cells.map cellStr) =
    Except.ok ((setCells cells row).map cellStr) := by
  induction row with
  | nil => intro cells _; rfl
  | cons n ns ih =>
    intro cells h
    have hn := h n (by simp)
    rw [List.foldlM_cons]
    simp only [List.length_map]
    rw [if_neg (by omega)]
    have := ih (listSet cells n.column (cellOf n)) (by
      intro x hx; rw [listSet_length]; exact h x (by simp [hx]))
    simp only [pure, Except.pure, bind, Except.bind] at this ⊢
    rw [← cellStr_cellOf, ← listSet_map]
    exact this

theorem map_cellStr_zero (cols : Nat) : (List.replicate cols zeroCell).map cellStr = List.replicate cols ['0'] := by
  simp [zeroCell, cellStr]

/-- the row written for `row` -/
def rowOf (cols : Nat) (row : List Note) : DRow := { cells := rowCells cols row }

theorem pushRow_eq (cols : Nat) (row : List Note) (h : ∀ n ∈ row, n.column < cols) :
    pushRow cols row = .ok (renderRow (rowOf cols row)) := by
  unfold pushRow
  rw [← map_cellStr_zero, pushRow_fold row _ (by simpa using h)]
  simp [bind, Except.bind, pure, Except.pure, renderRow_eq, rowOf, rowCells, cellsText, pushRow.nl']

/-! ### `pushMeasure` -/

def zeroRow (cols : Nat) : DRow := { cells := List.replicate cols zeroCell }

theorem renderRow_zeroRow (cols : Nat) : renderRow (zeroRow cols) = List.replicate cols '0' ++ ['\n'] := by
  simp [renderRow_eq, zeroRow, cellsText_zero]

def rowsText (rows : List DRow) : Str := (rows.map renderRow).flatten

theorem rowsText_append (a b : List DRow) : rowsText (a ++ b) = rowsText a ++ rowsText b := by
  simp [rowsText]

theorem blankRows_eq (cols k : Nat) : blankRows cols k = rowsText (List.replicate k (zeroRow cols)) := by
  simp [blankRows, rowsText, renderRow_zeroRow]

/-- one step of `push_measure` on rows instead of text -/
def measureStep (cols : Nat) (acc : List DRow × Int) (rrow : Int × List Note) : List DRow × Int :=
  (acc.1 ++ List.replicate (rrow.1 - (acc.2 + 1)).toNat (zeroRow cols) ++ [rowOf cols rrow.2], rrow.1)

/-- the denominators' lcm -/
def measureQ (measure : List Note) : Nat := measure.foldl (fun a n => Nat.lcm a n.beat.den) 1

/-- the rows written for a measure, given its runs by row index -/
def measureRows (cols q : Nat) (groups : List (Int × List Note)) : List DRow :=
  (groups.foldl (measureStep cols) ([], -1)).1 ++
    List.replicate (((q * 4 : Nat) : Int) - ((groups.foldl (measureStep cols) ([], -1)).2 + 1)).toNat (zeroRow cols)

theorem pushMeasure_fold (cols : Nat) (groups : List (Int × List Note)) :
    ∀ (rows : List DRow) (last : Int), (∀ g ∈ groups, ∀ n ∈ g.2, n.column < cols) →
    groups.foldlM (fun (acc : Str × Int) (rrow : Int × List Note) => do
      let (out, last) := acc
      let (r, row) := rrow
      let skipped := (r - (last + 1)).toNat
      let rowText ← pushRow cols row
      pure (out ++ blankRows cols skipped ++ rowText, r)) (rowsText rows, last) =
    Except.ok (rowsText (groups.foldl (measureStep cols) (rows, last)).1,
      (groups.foldl (measureStep cols) (rows, last)).2) := by
  induction groups with
  | nil => intro rows last _; rfl
  | cons g gs ih =>
    intro rows last h
    obtain ⟨r, row⟩ := g
    rw [List.foldlM_cons, List.foldl_cons]
    simp only [bind, Except.bind]
    rw [pushRow_eq cols row (h (r, row) (by simp))]
    simp only [pure, Except.pure]
    have e : rowsText rows ++ blankRows cols (r - (last + 1)).toNat ++ renderRow (rowOf cols row) =
        rowsText (measureStep cols (rows, last) (r, row)).1 := by
      simp [measureStep, blankRows_eq, rowsText]
    rw [e]
    exact ih _ _ (fun g hg => h g (by simp [hg]))

theorem pushMeasure_eq (cols : Nat) (measure : List Note) (h : ∀ n ∈ measure, n.column < cols) :
    pushMeasure cols measure = .ok (rowsText (measureRows cols (measureQ measure)
      (groupRuns (rowIndex (measureQ measure)) measure))) := by
  unfold pushMeasure
  have hg : ∀ g ∈ groupRuns (rowIndex (measureQ measure)) measure, ∀ n ∈ g.2, n.column < cols := by
    intro g hg n hn
    exact h n ((groupRuns_run_sublist _ _ g hg).subset hn)
  have := pushMeasure_fold cols _ [] (-1) hg
  simp only [rowsText, List.map_nil, List.flatten_nil] at this
  simp only [measureQ] at this ⊢
  rw [this]
  simp [bind, Except.bind, pure, Except.pure, measureRows, rowsText, blankRows_eq]

/-! ### how many rows -/

theorem measureFold_length (cols : Nat) (N : Int) (groups : List (Int × List Note)) :
    ∀ (rows : List DRow) (last : Int), (rows.length : Int) = last + 1 → (∀ g ∈ groups, last < g.1) →
      groups.Pairwise (fun g g' => g.1 < g'.1) → (∀ g ∈ groups, g.1 < N) → last < N →
      (((groups.foldl (measureStep cols) (rows, last)).1.length : Nat) : Int) =
        (groups.foldl (measureStep cols) (rows, last)).2 + 1 ∧
      (groups.foldl (measureStep cols) (rows, last)).2 < N ∧
      last ≤ (groups.foldl (measureStep cols) (rows, last)).2 := by
  induction groups with
  | nil => intro rows last h _ _ _ hN; exact ⟨h, hN, Int.le_refl _⟩
  | cons g gs ih =>
    intro rows last hlen hgt hpw hN hlast
    rw [List.foldl_cons]
    rw [List.pairwise_cons] at hpw
    have hg := hgt g (by simp)
    have := ih (measureStep cols (rows, last) g).1 (measureStep cols (rows, last) g).2
      (by simp only [measureStep, List.length_append, List.length_replicate, List.length_cons,
            List.length_nil]; push_cast; omega)
      (fun g' hg' => hpw.1 g' hg') hpw.2 (fun g' hg' => hN g' (by simp [hg'])) (hN g (by simp))
    refine ⟨this.1, this.2.1, ?_⟩
    have h3 := this.2.2
    simp only [measureStep] at h3 ⊢
    omega

theorem measureRows_length (cols q : Nat) (groups : List (Int × List Note))
    (hpw : groups.Pairwise (fun g g' => g.1 < g'.1)) (hge : ∀ g ∈ groups, 0 ≤ g.1)
    (hlt : ∀ g ∈ groups, g.1 < ((q * 4 : Nat) : Int)) (hq : 0 < q) :
    (measureRows cols q groups).length = 4 * q := by
  have := measureFold_length cols ((q * 4 : Nat) : Int) groups [] (-1) (by simp)
    (fun g hg => by have := hge g hg; omega) hpw hlt (by omega)
  simp only [measureRows, List.length_append, List.length_replicate]
  omega

theorem measureQ_fold_dvd (l : List Note) : ∀ (a : Nat), a ∣ l.foldl (fun a n => Nat.lcm a n.beat.den) a ∧
    ∀ n ∈ l, n.beat.den ∣ l.foldl (fun a n => Nat.lcm a n.beat.den) a := by
  induction l with
  | nil => intro a; exact ⟨Nat.dvd_refl _, by simp⟩
  | cons x xs ih =>
    intro a
    rw [List.foldl_cons]
    obtain ⟨h1, h2⟩ := ih (Nat.lcm a x.beat.den)
    refine ⟨Nat.dvd_trans (Nat.dvd_lcm_left _ _) h1, ?_⟩
    intro n hn
    rcases List.mem_cons.mp hn with rfl | hn
    · exact Nat.dvd_trans (Nat.dvd_lcm_right _ _) h1
    · exact h2 n hn

theorem measureQ_fold_pos (l : List Note) : ∀ (a : Nat), 0 < a → 0 < l.foldl (fun a n => Nat.lcm a n.beat.den) a := by
  induction l with
  | nil => intro a h; exact h
  | cons x xs ih =>
    intro a h
    rw [List.foldl_cons]
    exact ih _ (Nat.lcm_pos h x.beat.den_pos)

theorem measureQ_pos (l : List Note) : 0 < measureQ l := measureQ_fold_pos l 1 (by decide)

theorem den_dvd_measureQ {l : List Note} {n : Note} (h : n ∈ l) : n.beat.den ∣ measureQ l :=
  (measureQ_fold_dvd l 1).2 n h

/-! ### row indices -/

theorem pyMod_four (b : Rat) : pyMod b 4 = b - 4 * ((measureIndex ⟨b, 0, '0', 0, none⟩ : Int) : Rat) := rfl

theorem pyMod_range (b : Rat) : 0 ≤ pyMod b 4 ∧ pyMod b 4 < 4 := by
  unfold pyMod
  have h1 := floor_le' (b / 4)
  have h2 := lt_floor_add_one' (b / 4)
  constructor
  · have : 4 * (((b / 4).floor : Int) : Rat) ≤ b := by linarith
    linarith
  · have : b < 4 * (((b / 4).floor : Int) : Rat) + 4 := by linarith
    linarith

theorem rowIndex_range (q : Nat) (hq : 0 < q) (n : Note) :
    0 ≤ rowIndex q n ∧ rowIndex q n < ((q * 4 : Nat) : Int) := by
  obtain ⟨h1, h2⟩ := pyMod_range n.beat
  have hq' : (0 : Rat) < (q : Rat) := by exact_mod_cast hq
  unfold rowIndex
  constructor
  · rw [Rat.le_floor_iff]
    push_cast
    exact mul_nonneg h1 (le_of_lt hq')
  · rw [Rat.floor_lt_iff]
    push_cast
    nlinarith

theorem rowIndex_mono (q : Nat) {a b : Note} (hm : measureIndex a = measureIndex b) (h : a.beat ≤ b.beat) :
    rowIndex q a ≤ rowIndex q b := by
  unfold rowIndex
  apply Rat.floor_monotone
  have hq' : (0 : Rat) ≤ (q : Rat) := by exact_mod_cast Nat.zero_le q
  apply mul_le_mul_of_nonneg_right _ hq'
  unfold pyMod
  unfold measureIndex at hm
  rw [hm]
  linarith

theorem rowGroups_props (q : Nat) (hq : 0 < q) (measure : List Note)
    (hsorted : measure.Pairwise (fun a b => a.beat ≤ b.beat))
    (hone : ∀ a ∈ measure, ∀ b ∈ measure, measureIndex a = measureIndex b) :
    (groupRuns (rowIndex q) measure).Pairwise (fun g g' => g.1 < g'.1) ∧
    (∀ g ∈ groupRuns (rowIndex q) measure, 0 ≤ g.1) ∧
    (∀ g ∈ groupRuns (rowIndex q) measure, g.1 < ((q * 4 : Nat) : Int)) := by
  refine ⟨?_, ?_, ?_⟩
  · apply groupRuns_keys_sorted (rowIndex q) (fun (a b : Int) => a < b) (fun a b c => Int.lt_trans)
    have : measure.Pairwise (fun a b => a ∈ measure ∧ b ∈ measure ∧ a.beat ≤ b.beat) := by
      rw [List.pairwise_iff_forall_sublist] at hsorted ⊢
      intro a b hab
      exact ⟨hab.subset (by simp), hab.subset (by simp), hsorted hab⟩
    apply this.imp
    rintro a b ⟨ha, hb, hab⟩
    have := rowIndex_mono q (hone a ha b hb) hab
    omega
  all_goals
    intro g hg
    obtain ⟨hne, hall⟩ := groupRuns_mem _ _ g hg
    obtain ⟨y, hy⟩ := List.exists_mem_of_ne_nil _ hne
    rw [← hall y hy]
  · exact (rowIndex_range q hq y).1
  · exact (rowIndex_range q hq y).2

theorem mem_setCells {cells : List Cell} {row : List Note} {c : Cell} (h : c ∈ setCells cells row) :
    c ∈ cells ∨ ∃ n ∈ row, c = cellOf n := by
  induction row generalizing cells with
  | nil => exact Or.inl h
  | cons n ns ih =>
    simp only [setCells, List.foldl_cons] at h ih
    rcases ih h with h' | ⟨x, hx, hc⟩
    · have : ∀ (l : List Cell) (i : Nat), c ∈ listSet l i (cellOf n) → c ∈ l ∨ c = cellOf n := by
        intro l
        induction l with
        | nil => intro i h; simp [listSet] at h
        | cons y ys ihl =>
          intro i h
          cases i with
          | zero =>
            simp only [listSet, List.mem_cons] at h
            rcases h with h | h
            · exact Or.inr h
            · exact Or.inl (by simp [h])
          | succ j =>
            simp only [listSet, List.mem_cons] at h
            rcases h with h | h
            · exact Or.inl (by simp [h])
            · rcases ihl j h with h | h
              · exact Or.inl (by simp [h])
              · exact Or.inr h
      rcases this _ _ h' with h'' | h''
      · exact Or.inl h''
      · exact Or.inr ⟨n, by simp, h''⟩
    · exact Or.inr ⟨x, by simp [hx], hc⟩

/-- every row written by `push_measure` is a plain row of `cols` cells ending in a line feed -/
def PlainRow (cols : Nat) (r : DRow) : Prop :=
  r.cells.length = cols ∧ r.lead = [] ∧ r.trail = [] ∧ r.eol = ['\n']

theorem plainRow_zero (cols : Nat) : PlainRow cols (zeroRow cols) := by simp [PlainRow, zeroRow]
theorem plainRow_rowOf (cols : Nat) (row : List Note) : PlainRow cols (rowOf cols row) := by
  simp [PlainRow, rowOf, rowCells_length]

/-- a property of all rows written by the fold -/
theorem measureFold_all (cols : Nat) (P : DRow → Prop) (groups : List (Int × List Note))
    (hz : P (zeroRow cols)) (hg : ∀ g ∈ groups, P (rowOf cols g.2)) :
    ∀ (rows : List DRow) (last : Int), (∀ r ∈ rows, P r) →
      ∀ r ∈ (groups.foldl (measureStep cols) (rows, last)).1, P r := by
  induction groups with
  | nil => intro rows last h; exact h
  | cons g gs ih =>
    intro rows last h
    rw [List.foldl_cons]
    apply ih (fun g' hg' => hg g' (by simp [hg']))
    intro r hr
    simp only [List.mem_append, List.mem_replicate, List.mem_singleton] at hr
    rcases hr with (hr | ⟨_, rfl⟩) | rfl
    · exact h r hr
    · exact hz
    · exact hg g (by simp)

theorem measureRows_all (cols q : Nat) (P : DRow → Prop) (groups : List (Int × List Note))
    (hz : P (zeroRow cols)) (hg : ∀ g ∈ groups, P (rowOf cols g.2)) :
    ∀ r ∈ measureRows cols q groups, P r := by
  intro r hr
  simp only [measureRows, List.mem_append, List.mem_replicate] at hr
  rcases hr with hr | ⟨_, rfl⟩
  · exact measureFold_all cols P groups hz hg [] (-1) (by simp) r hr
  · exact hz

theorem noteChar_ne_zero {c : Char} (h : isNoteChar c = true) : c ≠ '0' := by
  have := isNoteChar_mem h
  rintro rfl
  simp at this

theorem wfCell_zero : WfCell zeroCell := Or.inl ⟨rfl, rfl⟩

theorem wfCell_cellOf {n : Note} (h : isNoteChar n.ntype = true) : WfCell (cellOf n) :=
  Or.inr ⟨noteChar_ne_zero h, h⟩

theorem wfCells_rowOf (cols : Nat) (row : List Note) (h : ∀ n ∈ row, isNoteChar n.ntype = true) :
    ∀ c ∈ (rowOf cols row).cells, WfCell c := by
  intro c hc
  rcases mem_setCells hc with h' | ⟨n, hn, rfl⟩
  · rw [List.eq_of_mem_replicate h']; exact wfCell_zero
  · exact wfCell_cellOf (h n hn)

theorem wfCells_zeroRow (cols : Nat) : ∀ c ∈ (zeroRow cols).cells, WfCell c := by
  intro c hc
  rw [List.eq_of_mem_replicate hc]; exact wfCell_zero

/-- the lines of a text made of plain rows -/
theorem splitLines_rowsText (cols : Nat) (rows : List DRow)
    (h : ∀ r ∈ rows, PlainRow cols r ∧ ∀ c ∈ r.cells, WfCell c) :
    splitLines (rowsText rows) = rows.map (fun r => cellsText r.cells) := by
  have := splitLines_rows (rows := rows.map (fun r => (cellsText r.cells, ['\n']))) (last := [])
    (by
      intro x hx
      simp only [List.mem_map] at hx
      obtain ⟨r, hr, rfl⟩ := hx
      exact ⟨cellsText_noLB (h r hr).2, Or.inl rfl⟩)
    (by intro c hc; simp at hc)
  simp only [List.map_map, List.append_nil, if_true] at this
  have e1 : rows.map ((fun x : Str × Str => x.1) ∘ fun r => (cellsText r.cells, ['\n'])) =
      rows.map (fun r => cellsText r.cells) := by
    apply List.map_congr_left; intro r _; rfl
  have e2 : rows.map ((fun r : Str × Str => r.1 ++ r.2) ∘ fun r => (cellsText r.cells, ['\n'])) =
      rows.map renderRow := by
    apply List.map_congr_left
    intro r hr
    obtain ⟨⟨_, h2, h3, h4⟩, _⟩ := h r hr
    simp [renderRow_eq, h2, h3, h4]
  rw [e1, e2] at this
  exact this

/-- `push_measure` writes exactly 4·lcm(denominators) plain rows -/
theorem pushMeasure_rows (cols : Nat) (measure : List Note)
    (hcol : ∀ n ∈ measure, n.column < cols)
    (hsorted : measure.Pairwise (fun a b => a.beat ≤ b.beat))
    (hone : ∀ a ∈ measure, ∀ b ∈ measure, measureIndex a = measureIndex b) :
    ∃ rows : List DRow, pushMeasure cols measure = .ok (rows.map renderRow).flatten ∧
      rows.length = 4 * measureQ measure ∧ (∀ r ∈ rows, PlainRow cols r) ∧
      ((∀ n ∈ measure, isNoteChar n.ntype = true) → ∀ r ∈ rows, ∀ c ∈ r.cells, WfCell c) := by
  obtain ⟨h1, h2, h3⟩ := rowGroups_props (measureQ measure) (measureQ_pos measure) measure hsorted hone
  refine ⟨_, pushMeasure_eq cols measure hcol, measureRows_length cols _ _ h1 h2 h3 (measureQ_pos measure),
    measureRows_all cols _ _ _ (plainRow_zero cols) (fun g _ => plainRow_rowOf cols g.2), ?_⟩
  intro hch
  apply measureRows_all cols _ (fun r => ∀ c ∈ r.cells, WfCell c) _ (wfCells_zeroRow cols)
  intro g hg
  apply wfCells_rowOf
  intro n hn
  exact hch n ((groupRuns_run_sublist _ _ g hg).subset hn)

end Spec

theorem decode_blank (cols : Nat) (h : 0 < cols) : decode (blankRows cols 4) = .ok (cols, []) := by
  have := Spec.decode_render (Spec.blankChart cols) (Spec.WF_blankChart cols h) (by
    simp [C07.firstLineOk, Spec.blankChart])
  rw [Spec.render_blankChart, Spec.cols_blankChart, Spec.notesOf_blankChart] at this
  exact this

end Simfile
