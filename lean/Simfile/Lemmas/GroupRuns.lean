/-
Lemmas for C09: `groupRuns` (itertools.groupby) and the same-beat phase of group_notes.
-/
import Simfile.Spec.Group
/-- equality of results is decidable (used by the concrete examples) -/
instance {ε α} [DecidableEq ε] [DecidableEq α] : DecidableEq (Except ε α) := fun a b =>
  match a, b with
  | .ok x, .ok y => if h : x = y then isTrue (h ▸ rfl) else isFalse (fun e => h (Except.ok.inj e))
  | .error x, .error y => if h : x = y then isTrue (h ▸ rfl) else isFalse (fun e => h (Except.error.inj e))
  | .ok _, .error _ => isFalse (fun e => by cases e)
  | .error _, .ok _ => isFalse (fun e => by cases e)

namespace Simfile.Runs
open Simfile

theorem groupRuns_cons {α κ} [DecidableEq κ] (key : α → κ) (x : α) (xs : List α) :
    groupRuns key (x :: xs) =
      match groupRuns key xs with
      | (k, run) :: rest => if key x = k then (k, x :: run) :: rest else (key x, [x]) :: (k, run) :: rest
      | [] => [(key x, [x])] := rfl

/-- the runs, concatenated, are the list -/
theorem groupRuns_flatten {α κ} [DecidableEq κ] (key : α → κ) (l : List α) :
    (groupRuns key l).flatMap (·.2) = l := by
  induction l with
  | nil => rfl
  | cons x xs ih =>
    rw [groupRuns_cons]
    cases h : groupRuns key xs with
    | nil =>
      rw [h] at ih
      simp at ih
      simp [← ih]
    | cons r rest =>
      rcases r with ⟨k, run⟩
      rw [h] at ih
      by_cases hk : key x = k
      · simp only [hk, if_true]
        rw [← ih]; simp
      · simp only [hk, if_false]
        rw [← ih]; simp

theorem keepSeparate_rows (stream : List GNote) :
    ((groupRuns GNote.beat stream).flatMap fun (_, row) => addRow .keepSeparate row) = stream.map fun g => [g] := by
  have : ((groupRuns GNote.beat stream).flatMap fun (_, row) => addRow .keepSeparate row)
      = ((groupRuns GNote.beat stream).flatMap (·.2)).map fun g => [g] := by
    rw [List.map_flatMap]
    rfl
  rw [this, groupRuns_flatten]

theorem countGrouped_singletons (stream : List GNote) :
    countGrouped (stream.map fun g => [g]) 1 = stream.length := by
  unfold countGrouped
  induction stream with
  | nil => rfl
  | cons g s ih => simp [ih]

theorem filter_cons_ne {α} (key : α → Rat) (x : α) (xs : List α) (b : Rat) (h : key x ≠ b) :
    (x :: xs).filter (fun a => key a = b) = xs.filter (fun a => key a = b) := by
  simp [h]

/-- for a list sorted by key, the maximal runs of equal key are exactly the classes of equal key,
in order of first occurrence -/
theorem groupRuns_sorted {α} (key : α → Rat) (l : List α) (h : (l.map key).Pairwise (· ≤ ·)) :
    groupRuns key l = (l.map key).eraseDups.map fun b => (b, l.filter fun a => key a = b) := by
  induction l with
  | nil => rfl
  | cons x xs ih =>
    simp only [List.map_cons, List.pairwise_cons] at h
    obtain ⟨hx, hxs⟩ := h
    have ih' := ih hxs
    rw [groupRuns_cons, ih']
    cases xs with
    | nil => simp [List.eraseDups_cons]
    | cons y ys =>
      have hxy : key x ≤ key y := hx (key y) (by simp)
      have hE : ((y :: ys).map key).eraseDups =
          key y :: ((ys.map key).filter (fun b => !b == key y)).eraseDups := by
        simp [List.eraseDups_cons]
      have hF1 : ∀ b ∈ ((ys.map key).filter (fun b => !b == key y)).eraseDups, b ≠ key y := by
        intro b hb
        have := (List.mem_filter.mp (List.mem_eraseDups.mp hb)).2
        simpa using this
      rw [List.map_cons (f := key) (a := x), List.eraseDups_cons]
      by_cases hk : key x = key y
      · have hF2 : (((y :: ys).map key).filter (fun b => !b == key x)).eraseDups =
            ((ys.map key).filter (fun b => !b == key y)).eraseDups := by
          simp [hk]
        rw [hF2, hE]
        simp only [List.map_cons, hk, if_true]
        congr 1
        · simp [hk]
        · apply List.map_congr_left
          intro b hb
          have := hF1 b hb
          rw [filter_cons_ne key x _ b (by rw [hk]; exact fun h => this h.symm)]
      · have hnotin : ∀ b ∈ (y :: ys).map key, b ≠ key x := by
          intro b hb hbx
          subst hbx
          simp only [List.map_cons, List.pairwise_cons] at hxs
          have h1 : key y ≤ key x := by
            rcases List.mem_cons.mp hb with h | h
            · rw [h]; exact Rat.le_refl
            · exact hxs.1 _ h
          exact hk (Rat.le_antisymm hxy h1)
        have hF3 : ((y :: ys).map key).filter (fun b => !b == key x) = (y :: ys).map key := by
          apply List.filter_eq_self.mpr
          intro b hb
          simpa using hnotin b hb
        have hcongr : ((y :: ys).map key).eraseDups.map (fun b => (b, (x :: y :: ys).filter fun a => key a = b))
            = ((y :: ys).map key).eraseDups.map (fun b => (b, (y :: ys).filter fun a => key a = b)) := by
          apply List.map_congr_left
          intro b hb
          have := hnotin b (List.mem_eraseDups.mp hb)
          rw [filter_cons_ne key x _ b (fun h => this h.symm)]
        have hnil : (y :: ys).filter (fun a => key a = key x) = [] := by
          apply List.filter_eq_nil_iff.mpr
          intro a ha
          have := hnotin (key a) (List.mem_map.mpr ⟨a, ha, rfl⟩)
          simpa using this
        rw [hF3, List.map_cons (a := key x), hcongr, hE]
        simp only [List.map_cons, hk, if_false]
        congr 1
        rw [List.filter_cons, hnil]
        simp

theorem countGrouped_joinAll (F : List Note) (k : Nat) (hs : (F.map (·.beat)).Pairwise (· ≤ ·)) :
    countGrouped ((groupRuns GNote.beat (F.map .plain)).flatMap fun r => addRow .joinAll r.2) k =
      ((F.map (·.beat)).eraseDups.filter fun b => k ≤ (F.filter (·.beat = b)).length).length := by
  have hmap : (F.map GNote.plain).map GNote.beat = F.map (·.beat) := by
    rw [List.map_map]; rfl
  rw [groupRuns_sorted GNote.beat (F.map .plain) (by rw [hmap]; exact hs), hmap]
  unfold countGrouped
  simp only [addRow, List.flatMap_map, List.filter_map]
  generalize (F.map (·.beat)).eraseDups = E
  induction E with
  | nil => rfl
  | cons b E ih =>
    have hlen : (List.map GNote.plain (List.filter ((fun a_1 => decide (a_1.beat = b)) ∘ GNote.plain) F)).length
        = (List.filter (fun x => decide (x.beat = b)) F).length := by
      rw [List.length_map]; rfl
    simp only [List.flatMap_cons, List.singleton_append, List.filter_cons, hlen]
    split <;> simp [ih]

end Simfile.Runs
