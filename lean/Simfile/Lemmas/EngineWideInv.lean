/-
C12 on the wider domain `Dom0`: `beat_at` inverts `time_at` on tick-aligned beats outside the warp union,
also when stops, delays or warps have length zero (Simfile/Lemmas/EngineBeatInv.lean re-proved from `Dom0`).
What changes: with a zero-length stop on the beat, the state the search selects is the STOP_END state of
that beat (same time as the STOP state, later in the list); it extrapolates by zero ticks.
-/
import Simfile.Lemmas.EngineBeatInv
import Simfile.Lemmas.EngineWideIndex
namespace Simfile.Wide
open Simfile C11

variable {td : TimingData}

/-- the declarative time strictly increases from `(b, STOP)` to any key on a later tick, when `b` is
tick-aligned and outside the warps -/
theorem timeSpec_strict_beat (hd : Dom0 td) {b : Rat} (hb : onGrid b) (h0 : 0 ≤ b)
    (hw : Spec.inWarp td b = false) {c : Rat} (h : Tag) (hc : onGrid c) (hbc : b < c) :
    Spec.timeSpec td b .stop < Spec.timeSpec td c h := by
  have hgap := grid_gap hb hc hbc
  have h1 : Spec.timeSpec td (b + 1 / 48) .warp ≤ Spec.timeSpec td c h := by
    apply timeSpec_mono td hd
    apply key_le.2
    rcases lt_or_eq_of_le hgap with h2 | h2
    · exact Or.inl h2
    · exact Or.inr ⟨h2, by simp⟩
  have h2 : Spec.timeSpec td b .stop < Spec.timeSpec td (b + 1 / 48) .warp := by
    rw [timeSpec_eq, timeSpec_eq, travel_tick hb h0 hw]
    have hp := paused_mono td hd (b₁ := b) (b₂ := b + 1 / 48) (g₁ := .stop) (g₂ := .warp)
      (key_le.2 (Or.inl (by linarith)))
    have hpos : 0 < (1 / 48 : Rat) * 60 / Spec.bpmOn td b := by
      have := bpmOn_pos td hd b
      positivity
    linarith
  linarith

theorem timeSpec_strict_event (hd : Dom0 td) {b : Rat} (hb : onGrid b) (h0 : 0 ≤ b)
    (hw : Spec.inWarp td b = false) {e : TEvent} (he : e ∈ events td) (hk : key b .stop < ekey e) :
    Spec.timeSpec td b .stop < Spec.timeSpec td e.beat e.tag ∨ (e.beat = b ∧ e.tag = .stopEnd) := by
  rcases key_lt.1 hk with h1 | ⟨h1, h2⟩
  · exact Or.inl (timeSpec_strict_beat hd hb h0 hw e.tag (event_beat_ok hd he).2 h1)
  · right
    refine ⟨h1.symm, ?_⟩
    apply Tag.val_inj
    have := Tag.val_le_six e.tag
    simp only [val_stop, val_stopEnd] at *
    omega

/-- from a state that satisfies the invariant, with key at most `(b, STOP)` and nothing in between,
the extrapolation from the declarative time of `(b, STOP)` returns `b` -/
theorem beatsUntil_inverse (hd : Dom0 td) {b : Rat} (hb : onGrid b) (hw : Spec.inWarp td b = false)
    (y : TState) (hinv : StInv td y) (hle : skey y ≤ key b .stop)
    (hsplit : ∀ e ∈ events td, ekey e ≤ skey y ∨ key b .stop < ekey e) :
    y.beat + y.beatsUntil (Spec.timeSpec td b .stop) = b := by
  have hst := step_time hd y hinv b .stop hle (noneBetween_of_split hsplit)
  have hyb : y.beat ≤ b := beat_le_of_key_le hle
  by_cases hp : y.tag = .stop ∨ y.tag = .delay
  · rw [beatsUntil_pause hp, add_zero]
    rcases hp with hp | hp
    · have hev := ev_stopEnd (hinv.stop hp)
      rcases hsplit _ hev with h1 | h1
      · exfalso
        have : skey y < key y.beat .stopEnd := key_lt.2 (Or.inr ⟨rfl, by rw [hp]; simp⟩)
        exact lt_irrefl _ (lt_of_lt_of_le this h1)
      · exact le_antisymm hyb (beat_le_of_key_lt h1)
    · exfalso
      have hev := ev_delayEnd (hinv.delay hp)
      rcases hsplit _ hev with h1 | h1
      · have : skey y < key y.beat .delayEnd := key_lt.2 (Or.inr ⟨rfl, by rw [hp]; simp⟩)
        exact lt_irrefl _ (lt_of_lt_of_le this h1)
      · rcases key_lt.1 h1 with h2 | h2
        · simp only at h2; linarith
        · have := h2.2; simp at this
  · rw [beatsUntil_run hp]
    have hwarp : y.warp = false := by
      have h1 := inWarp_iff_before td hd b .stop (by simp)
      have h2 := warpBefore_congr td hle (fun e he _ hh => by
        rcases hsplit e he with h3 | h3
        · exact lt_irrefl _ (lt_of_lt_of_le hh.1 h3)
        · exact lt_irrefl _ (lt_of_le_of_lt hh.2 h3))
      have h3 := hinv.warp
      rw [← h2, ← h3] at h1
      cases hyw : y.warp
      · rfl
      · rw [h1.2 hyw] at hw; cases hw
    have hbpm : 0 < y.bpm := by rw [hinv.bpm]; exact bpmBefore_pos hd _
    have hadd : ¬ ((y.tag = .stop ∨ y.tag = .delay) ∧ ((.stop : Tag) = .stopEnd ∨ (.stop : Tag) = .delayEnd)) :=
      fun h => hp h.1
    unfold TState.timeUntil at hst
    rw [hwarp, if_neg hadd] at hst
    simp only [Bool.false_eq_true, if_false, add_zero] at hst
    have : (Spec.timeSpec td b .stop - y.time) / 60 * y.bpm = b - y.beat := by
      rw [← hst]
      field_simp
      ring
    rw [this, roundToTick_grid (onGrid_sub hb hinv.grid)]
    ring

/-- 5. `beat_at` inverts the declarative time on tick-aligned beats outside the warps -/
theorem beatAt_timeSpec (hd : Dom0 td) {b : Rat} (hb : onGrid b) (hw : Spec.inWarp td b = false) :
    beatAt td (Spec.timeSpec td b .stop) .stop = b := by
  obtain ⟨k, y, hy, hsel, ha, hbb⟩ := priorByTime_sel hd (Spec.timeSpec td b .stop) .stop
  have hdec : decide ((.stop : Tag) = .warp) = false := by decide
  rw [hdec] at ha hbb
  rw [beatAt_eq, hsel]
  by_cases hneg : b < 0
  · -- before beat 0 only the initial state qualifies
    have ht : Spec.timeSpec td b .stop = -td.offset + b * 60 / (td.bpms.headD (0, 0)).2 := by
      rw [timeSpec_eq, paused_eq_K, pausedK_low hd (key_lt.2 (Or.inl hneg))]
      unfold travel
      rw [if_pos hneg]; ring
    have hhp := head_pos td hd
    have hlt : Spec.timeSpec td b .stop < (initState td).time := by
      rw [ht]
      show _ < -td.offset
      have : b * 60 / (td.bpms.headD (0, 0)).2 < 0 := by
        apply div_neg_of_neg_of_pos _ hhp
        linarith
      linarith
    have hk0 : k = 0 := by
      rcases ha with ha | ha
      · exact ha
      · exfalso
        have h1 : y.time ≤ _ := ha
        have h2 := times_le hd (Nat.zero_le k) (states_zero td) hy
        linarith
    subst hk0
    rw [states_zero] at hy
    obtain rfl := Option.some.inj hy
    rw [beatsUntil_run (by simp [initState]), ht]
    show 0 + roundToTick ((-td.offset + b * 60 / (td.bpms.headD (0, 0)).2 - -td.offset) / 60 *
      (td.bpms.headD (0, 0)).2) = b
    have : (-td.offset + b * 60 / (td.bpms.headD (0, 0)).2 - -td.offset) / 60 * (td.bpms.headD (0, 0)).2 = b := by
      field_simp
      ring
    rw [this, roundToTick_grid hb, zero_add]
  · have h0 : 0 ≤ b := not_lt.1 hneg
    -- every event at or before the key (b, STOP) has its state at or before index k
    have hsplit_idx : ∀ j (hj : j < (events td).length), ekey (events td)[j] ≤ key b .stop → j + 1 ≤ k := by
      intro j hj hle
      obtain ⟨z, hz, hzinv, hzb, hzt, _, _⟩ := states_event hd j hj
      by_contra hc
      have h1 : _ < z.time := hbb (j + 1) z (by omega) hz
      rw [hzinv.time, hzb, hzt] at h1
      have h2 := timeSpec_mono td hd (b₁ := (events td)[j].beat) (g₁ := (events td)[j].tag) hle
      linarith
    cases k with
    | zero =>
      rw [states_zero] at hy
      obtain rfl := Option.some.inj hy
      have hnone : ∀ e ∈ events td, key b .stop < ekey e := by
        intro e he
        obtain ⟨j, hj, rfl⟩ := event_index he
        by_contra hc
        have := hsplit_idx j hj (not_lt.1 hc)
        omega
      have hk0 : key 0 .bpm ≤ key b .stop := by
        apply key_le.2
        rcases lt_or_eq_of_le h0 with h | h
        · exact Or.inl h
        · exact Or.inr ⟨h, by simp⟩
      have hinv : StInv td (initState td) := init_inv hd (fun e he hle =>
        lt_irrefl _ (lt_of_lt_of_le (lt_of_le_of_lt hk0 (hnone e he)) hle))
      exact beatsUntil_inverse hd hb hw _ hinv hk0 (fun e he => Or.inr (hnone e he))
    | succ i =>
      obtain ⟨hi, hinv, hyb, hyt, _, hyk⟩ := states_pos hd i y hy
      have hyt' : y.time ≤ Spec.timeSpec td b .stop := by
        rcases ha with ha | ha
        · omega
        · exact ha
      by_cases hle : skey y ≤ key b .stop
      swap
      · -- the STOP_END state of a zero-length stop on beat `b`
        have h1 := not_le.1 hle
        rw [hyk] at h1
        rcases timeSpec_strict_event hd hb h0 hw (List.getElem_mem hi) h1 with hlt | ⟨hbe, hte⟩
        · rw [hinv.time, hyb, hyt] at hyt'
          linarith
        · have hyb' : y.beat = b := by rw [hyb, hbe]
          have hyt2 : y.tag = .stopEnd := by rw [hyt, hte]
          have hge : Spec.timeSpec td b .stop ≤ y.time := by
            rw [hinv.time, hyb', hyt2]
            exact timeSpec_mono td hd (key_le.2 (Or.inr ⟨rfl, by simp⟩))
          have heq : y.time = Spec.timeSpec td b .stop := le_antisymm hyt' hge
          rw [beatsUntil_run (by rw [hyt2]; simp), heq, sub_self, zero_div, zero_mul, roundToTick_zero,
            add_zero, hyb']
      apply beatsUntil_inverse hd hb hw y hinv hle
      intro e he
      obtain ⟨j, hj, rfl⟩ := event_index he
      by_cases hc : key b .stop < ekey (events td)[j]
      · exact Or.inr hc
      · left
        have := hsplit_idx j hj (not_lt.1 hc)
        rw [hyk]
        exact events_key_le hd hj hi (by omega)

end Simfile.Wide
