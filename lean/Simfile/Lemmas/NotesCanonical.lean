/-
Canonical form of encoder output: decoded charts are streams; the shape (players, measures, rows) of
the chart behind `encode`.
-/
import Simfile.Lemmas.NotesRoundTrip
namespace Simfile
open Simfile

namespace Spec

/-! ### the notes of a well-formed chart form a stream -/

theorem mem_notesOf {c : DChart} {n : Note} (h : n ∈ notesOf c) :
    ∃ (p : Nat) (ms : List DMeasure) (m : Nat) (me : DMeasure),
      c[p]? = some ms ∧ ms[m]? = some me ∧ n ∈ Spec.notesOfMeasure p m me := by
  simp only [notesOf, List.mem_flatten, List.mem_map] at h
  obtain ⟨l, ⟨⟨p, ms⟩, hp, rfl⟩, hn⟩ := h
  simp only [List.mem_flatten, List.mem_map] at hn
  obtain ⟨_, ⟨⟨m, me⟩, hm, rfl⟩, hn⟩ := hn
  rw [mem_enumFrom] at hp hm
  exact ⟨p, ms, m, me, by simpa using hp.2, by simpa using hm.2, hn⟩

theorem notesOf_streamOK (c : DChart) (h : WF c = true) : StreamOK (cols c) (notesOf c) := by
  have hwf := (WF_iff c).mp h
  refine ⟨notesOf_sorted c, ?_, ?_, ?_⟩
  · intro n hn
    obtain ⟨p, ms, m, me, _, _, hn⟩ := mem_notesOf hn
    rw [mem_notesOfMeasure] at hn
    obtain ⟨l, r, _, hn⟩ := hn
    rw [(notesOfRow_attrs hn).2]
    exact div_nonneg (Nat.cast_nonneg _) (Nat.cast_nonneg _)
  all_goals
    intro n hn
    obtain ⟨p, ms, m, me, hp, hm, hn⟩ := mem_notesOf hn
    have hme := (hwf.2.2 ms (List.mem_of_getElem? hp)).2 me (List.mem_of_getElem? hm)
    rw [wfMeasure_iff] at hme
    rw [mem_notesOfMeasure] at hn
    obtain ⟨l, r, hl, hn⟩ := hn
    obtain ⟨last, hr⟩ := wfRows_all hme.2.2 r (List.mem_of_getElem? hl)
    rw [wfRow_iff] at hr
    rw [mem_notesOfRow] at hn
    obtain ⟨k, cell, hk, hne, rfl⟩ := hn
  · have := (List.getElem?_eq_some_iff.mp hk).1
    rw [hr.1.len] at this
    exact this
  · rcases hr.1.cells cell (List.mem_of_getElem? hk) with h0 | h0
    · exact absurd h0.1 hne
    · exact h0.2

theorem keyLe_of_keyLt {ns : List Note} (h : ns.Pairwise (fun a b => keyLt a.key b.key = true)) :
    ns.Pairwise (fun a b => keyLe a.key b.key = true) :=
  h.imp (fun hab => by rw [keyLe_eq, hab]; rfl)

theorem nodup_of_keyLt {ns : List Note} (h : ns.Pairwise (fun a b => keyLt a.key b.key = true)) :
    (ns.map Note.key).Nodup := by
  rw [List.Nodup, List.pairwise_map]
  apply h.imp
  intro a b hab e
  rw [e, keyLt_irrefl] at hab
  exact absurd hab (by decide)

/-! ### more about the generic fold -/

section Generic
variable {β : Type} (blank : β) (mk : List Note → β)

/-- the last index filed is the largest key -/
theorem stepFold_final (groups : List (Int × List Note)) :
    ∀ (xs : List β) (last : Int), groups.Pairwise (fun g g' => g.1 < g'.1) →
      (groups = [] ∧ (groups.foldl (stepFold blank mk) (xs, last)).2 = last) ∨
      ((∃ g ∈ groups, g.1 = (groups.foldl (stepFold blank mk) (xs, last)).2) ∧
        ∀ g ∈ groups, g.1 ≤ (groups.foldl (stepFold blank mk) (xs, last)).2) := by
  induction groups with
  | nil => intro xs last _; exact Or.inl ⟨rfl, rfl⟩
  | cons g gs ih =>
    intro xs last hpw
    rw [List.pairwise_cons] at hpw
    rw [List.foldl_cons]
    right
    have := ih (stepFold blank mk (xs, last) g).1 (stepFold blank mk (xs, last) g).2 hpw.2
    simp only [stepFold] at this ⊢
    rcases this with ⟨rfl, h2⟩ | ⟨⟨g', hg', h2⟩, h3⟩
    · simp only [List.foldl_nil] at h2 ⊢
      exact ⟨⟨g, by simp, rfl⟩, by simp⟩
    · refine ⟨⟨g', by simp [hg'], h2⟩, ?_⟩
      intro x hx
      rcases List.mem_cons.mp hx with rfl | hx
      · have := hpw.1 g' hg'; omega
      · exact h3 x hx

/-- what was there stays there -/
theorem stepFold_prefix (groups : List (Int × List Note)) :
    ∀ (xs : List β) (last : Int) (i : Nat), i < xs.length →
      (groups.foldl (stepFold blank mk) (xs, last)).1[i]? = xs[i]? := by
  induction groups with
  | nil => intro xs last i _; rfl
  | cons g gs ih =>
    intro xs last i hi
    rw [List.foldl_cons]
    have := ih (stepFold blank mk (xs, last) g).1 (stepFold blank mk (xs, last) g).2 i (by
      simp only [stepFold, List.length_append]; omega)
    simp only [stepFold] at this ⊢
    rw [this, List.append_assoc, List.getElem?_append_left hi]

/-- the item of a run sits at the run's key -/
theorem stepFold_get_key (groups : List (Int × List Note)) :
    ∀ (xs : List β) (last : Int), (xs.length : Int) = last + 1 → (∀ g ∈ groups, last < g.1) →
      groups.Pairwise (fun g g' => g.1 < g'.1) →
      ∀ g ∈ groups, (groups.foldl (stepFold blank mk) (xs, last)).1[g.1.toNat]? = some (mk g.2) := by
  induction groups with
  | nil => intro xs last _ _ _ g hg; simp at hg
  | cons g₀ gs ih =>
    intro xs last hlen hgt hpw g hg
    rw [List.pairwise_cons] at hpw
    have hg₀ := hgt g₀ (by simp)
    rw [List.foldl_cons]
    have hlen' : (((stepFold blank mk (xs, last) g₀).1.length : Nat) : Int) = g₀.1 + 1 := by
      simp only [stepFold, List.length_append, List.length_replicate, List.length_cons, List.length_nil]
      push_cast; omega
    rcases List.mem_cons.mp hg with rfl | hg
    · have := stepFold_prefix blank mk gs (stepFold blank mk (xs, last) g).1
        (stepFold blank mk (xs, last) g).2 g.1.toNat (by omega)
      simp only [stepFold] at this ⊢
      rw [this]
      have hidx : g.1.toNat = (xs ++ List.replicate (g.1 - (last + 1)).toNat blank).length := by
        simp only [List.length_append, List.length_replicate]; omega
      rw [hidx, List.getElem?_append_right (Nat.le_refl _)]
      simp
    · have := ih (stepFold blank mk (xs, last) g₀).1 (stepFold blank mk (xs, last) g₀).2 hlen'
        (fun g' hg' => hpw.1 g' hg') hpw.2 g hg
      simp only [stepFold] at this ⊢
      exact this

/-- indices without a run hold the blank item -/
theorem stepFold_get_blank (groups : List (Int × List Note)) :
    ∀ (xs : List β) (last : Int), (xs.length : Int) = last + 1 → (∀ g ∈ groups, last < g.1) →
      groups.Pairwise (fun g g' => g.1 < g'.1) →
      ∀ i : Nat, xs.length ≤ i → (i : Int) ≤ (groups.foldl (stepFold blank mk) (xs, last)).2 →
      (∀ g ∈ groups, g.1 ≠ (i : Int)) →
      (groups.foldl (stepFold blank mk) (xs, last)).1[i]? = some blank := by
  induction groups with
  | nil => intro xs last hlen _ _ i hi hle _; simp only [List.foldl_nil] at hle; omega
  | cons g₀ gs ih =>
    intro xs last hlen hgt hpw i hi hle hne
    rw [List.pairwise_cons] at hpw
    have hg₀ := hgt g₀ (by simp)
    have hne₀ := hne g₀ (by simp)
    rw [List.foldl_cons] at hle ⊢
    have hlen' : (((stepFold blank mk (xs, last) g₀).1.length : Nat) : Int) = g₀.1 + 1 := by
      simp only [stepFold, List.length_append, List.length_replicate, List.length_cons, List.length_nil]
      push_cast; omega
    by_cases hlt : (i : Int) < g₀.1
    · have := stepFold_prefix blank mk gs (stepFold blank mk (xs, last) g₀).1
        (stepFold blank mk (xs, last) g₀).2 i (by omega)
      simp only [stepFold] at this ⊢
      rw [this, List.getElem?_append_left (by
        simp only [List.length_append, List.length_replicate]; omega),
        List.getElem?_append_right hi, List.getElem?_replicate]
      rw [if_pos (by omega)]
    · have := ih (stepFold blank mk (xs, last) g₀).1 (stepFold blank mk (xs, last) g₀).2 hlen'
        (fun g' hg' => hpw.1 g' hg') hpw.2 i (by omega) hle (fun g' hg' => hne g' (by simp [hg']))
      simp only [stepFold] at this ⊢
      exact this

end Generic

theorem foldl_max_eq {l : List Nat} {M : Nat} : ∀ {a : Nat}, (∀ x ∈ l, x ≤ M) → a ≤ M → (M ∈ l ∨ M = a) →
    l.foldl max a = M := by
  induction l with
  | nil => intro a _ _ h; rcases h with h | h; simp at h; exact h.symm
  | cons x xs ih =>
    intro a hM ha hmem
    rw [List.foldl_cons]
    have hx := hM x (by simp)
    apply ih (fun y hy => hM y (by simp [hy])) (Nat.max_le.mpr ⟨ha, hx⟩)
    rcases hmem with h | h
    · rcases List.mem_cons.mp h with rfl | h
      · right; omega
      · left; exact h
    · right; omega

/-! ### runs of a list with increasing keys are its filters -/

theorem runs_filter {α κ} [DecidableEq κ] (key : α → κ) (L : List (κ × List α))
    (hkey : ∀ g ∈ L, ∀ x ∈ g.2, key x = g.1) (hpw : L.Pairwise (fun a b => a.1 ≠ b.1)) :
    ∀ g ∈ L, ((L.map (·.2)).flatten).filter (fun x => decide (key x = g.1)) = g.2 := by
  induction L with
  | nil => intro g hg; simp at hg
  | cons h t ih =>
    intro g hg
    rw [List.pairwise_cons] at hpw
    simp only [List.map_cons, List.flatten_cons, List.filter_append]
    rcases List.mem_cons.mp hg with rfl | hg
    · have h1 : g.2.filter (fun x => decide (key x = g.1)) = g.2 := by
        rw [List.filter_eq_self]
        intro x hx; simpa using hkey g (by simp) x hx
      have h2 : ((t.map (·.2)).flatten).filter (fun x => decide (key x = g.1)) = [] := by
        rw [List.filter_eq_nil_iff]
        intro x hx
        simp only [List.mem_flatten, List.mem_map] at hx
        obtain ⟨_, ⟨g', hg', rfl⟩, hx⟩ := hx
        have := hkey g' (by simp [hg']) x hx
        simp only [decide_eq_true_eq]
        rw [this]
        exact Ne.symm (hpw.1 g' hg')
      rw [h1, h2, List.append_nil]
    · have h1 : h.2.filter (fun x => decide (key x = g.1)) = [] := by
        rw [List.filter_eq_nil_iff]
        intro x hx
        simp only [decide_eq_true_eq]
        rw [hkey h (by simp) x hx]
        exact hpw.1 g hg
      rw [h1, List.nil_append]
      exact ih (fun g' hg' => hkey g' (by simp [hg'])) hpw.2 g hg

theorem groupRuns_filter {α κ} [DecidableEq κ] (key : α → κ) (l : List α)
    (hpw : (groupRuns key l).Pairwise (fun a b => a.1 ≠ b.1)) :
    ∀ g ∈ groupRuns key l, l.filter (fun x => decide (key x = g.1)) = g.2 := by
  intro g hg
  have := runs_filter key (groupRuns key l) (fun g' hg' => (groupRuns_mem key l g' hg').2) hpw g hg
  rwa [groupRuns_flatten] at this

theorem groupRuns_key_of_mem {α κ} [DecidableEq κ] (key : α → κ) (l : List α) {x : α} (hx : x ∈ l) :
    ∃ g ∈ groupRuns key l, g.1 = key x := by
  rw [← groupRuns_flatten key l] at hx
  simp only [List.mem_flatten, List.mem_map] at hx
  obtain ⟨_, ⟨g, hg, rfl⟩, hx⟩ := hx
  exact ⟨g, hg, ((groupRuns_mem key l g hg).2 x hx).symm⟩

theorem groupRuns_eq_nil {α κ} [DecidableEq κ] (key : α → κ) (l : List α) :
    groupRuns key l = [] ↔ l = [] := by
  constructor
  · intro e
    have := groupRuns_flatten key l
    rw [e] at this
    simpa using this.symm
  · rintro rfl; rfl

/-! ### the shape of the written chart -/

def maxPlayer (ns : List Note) : Nat := (ns.map (·.player)).foldl max 0

def notesOfPlayer (ns : List Note) (p : Nat) : List Note := ns.filter (fun n => decide (n.player = p))

/-- index of the last measure with a note among `pn` (0 if there is none) -/
def lastMeasureOf (pn : List Note) : Nat := (pn.map (fun n => (measureIndex n).toNat)).foldl max 0

def lastMeasure (ns : List Note) (p : Nat) : Nat := lastMeasureOf (notesOfPlayer ns p)

def inMeasure (pn : List Note) (m : Nat) : List Note := pn.filter (fun n => decide (measureIndex n = (m : Int)))

/-- the notes of player `p` in measure `m` -/
def notesAt (ns : List Note) (p m : Nat) : List Note := inMeasure (notesOfPlayer ns p) m

/-- the chart written by `from_notes` -/
def canon (ns : List Note) (cols : Nat) : DChart := mkChart (chartOf cols ns)

theorem measureOf_length {cols p M : Nat} {measure : List Note} (h : MeasureOK cols p M measure) :
    (measureOf cols measure).length = 4 * measureQ measure := by
  obtain ⟨h1, h2, h3⟩ := h.groups
  exact measureRows_length cols _ _ h1 h2 h3 (measureQ_pos measure)

theorem measureOf_nil_length (cols : Nat) : (measureOf cols []).length = 4 * measureQ [] := by
  rw [measureOf_nil]; simp [blankRowsL, measureQ]

theorem playerOf_shape {cols p : Nat} {pn : List Note} (h : PlayerOK cols p pn) (hne : pn ≠ []) :
    (playerOf cols pn).length = lastMeasureOf pn + 1 ∧
    ∀ m ≤ lastMeasureOf pn, (playerOf cols pn)[m]? = some (measureOf cols (inMeasure pn m)) ∧
      (measureOf cols (inMeasure pn m)).length = 4 * measureQ (inMeasure pn m) := by
  obtain ⟨h1, h2, h3⟩ := h.groups
  have hgne : groupRuns measureIndex pn ≠ [] := fun e => hne ((groupRuns_eq_nil _ _).mp e)
  obtain ⟨hlen, _, _⟩ := stepFold_length (blankRowsL cols) (measureOf cols) _ [] (-1) (by simp) h2 h1
  have hfin := stepFold_final (blankRowsL cols) (measureOf cols) (groupRuns measureIndex pn) [] (-1) h1
  rcases hfin with ⟨e, _⟩ | ⟨⟨gL, hgL, hL⟩, hmax⟩
  · exact absurd e hgne
  rw [playerOf, playerStep]
  generalize hF : (groupRuns measureIndex pn).foldl (stepFold (blankRowsL cols) (measureOf cols)) ([], -1) = F
    at hlen hL hmax
  have hF' : playerOf cols pn = F.1 := by rw [playerOf, playerStep, hF]
  have hL0 : 0 ≤ F.2 := by have := h2 gL hgL; omega
  have hlast : lastMeasureOf pn = F.2.toNat := by
    apply foldl_max_eq
    · intro x hx
      simp only [List.mem_map] at hx
      obtain ⟨n, hn, rfl⟩ := hx
      obtain ⟨g, hg, hk⟩ := groupRuns_key_of_mem measureIndex pn hn
      have := hmax g hg
      omega
    · exact Nat.zero_le _
    · left
      obtain ⟨hne', hall⟩ := groupRuns_mem _ _ gL hgL
      obtain ⟨y, hy⟩ := List.exists_mem_of_ne_nil _ hne'
      simp only [List.mem_map]
      refine ⟨y, (groupRuns_run_sublist _ _ gL hgL).subset hy, ?_⟩
      rw [hall y hy, hL]
  refine ⟨by omega, ?_⟩
  intro m hm
  have hdist : (groupRuns measureIndex pn).Pairwise (fun a b => a.1 ≠ b.1) :=
    h1.imp (fun hab => by omega)
  by_cases hex : ∃ g ∈ groupRuns measureIndex pn, g.1 = (m : Int)
  · obtain ⟨g, hg, hgm⟩ := hex
    have hget := stepFold_get_key (blankRowsL cols) (measureOf cols) _ [] (-1) (by simp) h2 h1 g hg
    rw [hF] at hget
    have hfilt := groupRuns_filter measureIndex pn hdist g hg
    have hm' : g.1.toNat = m := by omega
    have hin : inMeasure pn m = g.2 := by rw [inMeasure, ← hgm]; exact hfilt
    rw [hin, ← hm', hget]
    exact ⟨rfl, measureOf_length (h3 g hg)⟩
  · have hget := stepFold_get_blank (blankRowsL cols) (measureOf cols) _ [] (-1) (by simp) h2 h1 m
      (by simp) (by rw [hF]; omega) (fun g hg e => hex ⟨g, hg, e⟩)
    rw [hF] at hget
    have hin : inMeasure pn m = [] := by
      rw [inMeasure, List.filter_eq_nil_iff]
      intro n hn
      simp only [decide_eq_true_eq]
      intro e
      obtain ⟨g, hg, hk⟩ := groupRuns_key_of_mem measureIndex pn hn
      exact hex ⟨g, hg, by rw [hk, e]⟩
    rw [hin, hget, measureOf_nil]
    exact ⟨rfl, by simp [blankRowsL, measureQ]⟩

theorem blankPlayer_shape (cols : Nat) :
    (blankPlayer cols).length = lastMeasureOf [] + 1 ∧
    ∀ m ≤ lastMeasureOf [], (blankPlayer cols)[m]? = some (measureOf cols (inMeasure [] m)) ∧
      (measureOf cols (inMeasure [] m)).length = 4 * measureQ (inMeasure [] m) := by
  refine ⟨rfl, ?_⟩
  intro m hm
  have : m = 0 := by simpa [lastMeasureOf] using hm
  subst this
  simp only [inMeasure, List.filter_nil, measureOf_nil]
  exact ⟨rfl, by simp [blankRowsL, measureQ]⟩

/-- players of the written chart: one per index up to the largest player; absent players are blank -/
theorem chartOf_shape {cols : Nat} {ns : List Note} (h : StreamOK cols ns) :
    (chartOf cols ns).length = maxPlayer ns + 1 ∧
    ∀ p ≤ maxPlayer ns, (chartOf cols ns)[p]? =
      some (if notesOfPlayer ns p = [] then blankPlayer cols else playerOf cols (notesOfPlayer ns p)) := by
  obtain ⟨h1, h2⟩ := h.groups
  obtain ⟨h1', h2'⟩ := h.groups'
  by_cases hns : ns = []
  · subst hns
    refine ⟨rfl, ?_⟩
    intro p hp
    have : p = 0 := by simpa [maxPlayer] using hp
    subst this
    rfl
  have hgne : groupRuns (fun n : Note => n.player) ns ≠ [] := fun e => hns ((groupRuns_eq_nil _ _).mp e)
  obtain ⟨hlen, _, hlt⟩ := stepFold_length (blankPlayer cols) (playerOf cols) _ [] (-1) (by simp) h2' h1'
  have hfin := stepFold_final (blankPlayer cols) (playerOf cols)
    ((groupRuns (fun n : Note => n.player) ns).map fun g => ((g.1 : Int), g.2)) [] (-1) h1'
  rcases hfin with ⟨e, _⟩ | ⟨⟨gL, hgL, hL⟩, hmax⟩
  · exact absurd (List.map_eq_nil_iff.mp e) hgne
  have hlt' := hlt (by simpa using hgne)
  have hchart : chartOf cols ns = (((groupRuns (fun n : Note => n.player) ns).map
      fun g => ((g.1 : Int), g.2)).foldl (stepFold (blankPlayer cols) (playerOf cols)) ([], -1)).1 := by
    rw [chartOf, chartStep_foldl, if_neg (by omega)]
  rw [hchart]
  generalize hF : ((groupRuns (fun n : Note => n.player) ns).map
      fun g => ((g.1 : Int), g.2)).foldl (stepFold (blankPlayer cols) (playerOf cols)) ([], -1) = F
    at hlen hL hmax hlt'
  have hlast : maxPlayer ns = F.2.toNat := by
    apply foldl_max_eq
    · intro x hx
      simp only [List.mem_map] at hx
      obtain ⟨n, hn, rfl⟩ := hx
      obtain ⟨g, hg, hk⟩ := groupRuns_key_of_mem (fun n : Note => n.player) ns hn
      have := hmax ((g.1 : Int), g.2) (List.mem_map.mpr ⟨g, hg, rfl⟩)
      simp only at this hk
      omega
    · exact Nat.zero_le _
    · left
      simp only [List.mem_map] at hgL
      obtain ⟨g, hg, rfl⟩ := hgL
      obtain ⟨hne', hall⟩ := groupRuns_mem _ _ g hg
      obtain ⟨y, hy⟩ := List.exists_mem_of_ne_nil _ hne'
      simp only [List.mem_map]
      refine ⟨y, (groupRuns_run_sublist _ _ g hg).subset hy, ?_⟩
      have := hall y hy
      simp only at this hL
      omega
  refine ⟨by omega, ?_⟩
  intro p hp
  have hdist : (groupRuns (fun n : Note => n.player) ns).Pairwise (fun a b => a.1 ≠ b.1) :=
    h1.imp (fun hab => by omega)
  by_cases hex : ∃ g ∈ groupRuns (fun n : Note => n.player) ns, g.1 = p
  · obtain ⟨g, hg, hgp⟩ := hex
    have hget := stepFold_get_key (blankPlayer cols) (playerOf cols) _ [] (-1) (by simp) h2' h1'
      ((g.1 : Int), g.2) (List.mem_map.mpr ⟨g, hg, rfl⟩)
    rw [hF] at hget
    simp only [Int.toNat_natCast] at hget
    have hfilt := groupRuns_filter (fun n : Note => n.player) ns hdist g hg
    have hin : notesOfPlayer ns p = g.2 := by rw [notesOfPlayer, ← hgp]; exact hfilt
    rw [hin, if_neg (groupRuns_mem _ _ g hg).1, ← hgp, hget]
  · have hget := stepFold_get_blank (blankPlayer cols) (playerOf cols) _ [] (-1) (by simp) h2' h1' p
      (by simp) (by rw [hF]; omega) (by
        intro g hg e
        simp only [List.mem_map] at hg
        obtain ⟨g', hg', rfl⟩ := hg
        simp only at e
        exact hex ⟨g', hg', by omega⟩)
    rw [hF] at hget
    have hin : notesOfPlayer ns p = [] := by
      rw [notesOfPlayer, List.filter_eq_nil_iff]
      intro n hn
      simp only [decide_eq_true_eq]
      intro e
      obtain ⟨g, hg, hk⟩ := groupRuns_key_of_mem (fun n : Note => n.player) ns hn
      exact hex ⟨g, hg, by rw [hk]; exact e⟩
    rw [hin, if_pos rfl, hget]

theorem playerOK_filter {cols : Nat} {ns : List Note} (h : StreamOK cols ns) (p : Nat) :
    PlayerOK cols p (notesOfPlayer ns p) := by
  have hsub : (notesOfPlayer ns p).Sublist ns := List.filter_sublist
  refine ⟨h.sorted.sublist hsub, ?_, fun n hn => h.nonneg n (hsub.subset hn),
    fun n hn => h.column n (hsub.subset hn), fun n hn => h.char n (hsub.subset hn)⟩
  intro n hn
  simpa [notesOfPlayer] using (List.mem_filter.mp hn).2

theorem mkChart_length (P : List (List (List DRow))) : (mkChart P).length = P.length := by
  have := congrArg List.length (mkChart_rows P)
  simpa using this

theorem mkChart_get {P : List (List (List DRow))} {p : Nat} {ms : List DMeasure}
    (h : (mkChart P)[p]? = some ms) : P[p]? = some (ms.map (·.rows)) := by
  have := congrArg (fun l => l[p]?) (mkChart_rows P)
  simp only [List.getElem?_map, h, Option.map_some] at this
  exact this.symm

/-- the shape of the chart written for a stream: players 0..maxPlayer, for each of them measures
0..lastMeasure, each measure `4·lcm` rows, namely the rows written for the notes that fall into it
(a blank measure of four rows when there are none) -/
theorem canon_shape {cols : Nat} {ns : List Note} (h : StreamOK cols ns) :
    (canon ns cols).length = maxPlayer ns + 1 ∧
    ∀ p ≤ maxPlayer ns, ∃ ms, (canon ns cols)[p]? = some ms ∧ ms.length = lastMeasure ns p + 1 ∧
      ∀ m ≤ lastMeasure ns p, ∃ me, ms[m]? = some me ∧ me.rows = measureOf cols (notesAt ns p m) ∧
        me.rows.length = 4 * measureQ (notesAt ns p m) := by
  obtain ⟨hlen, hget⟩ := chartOf_shape h
  refine ⟨by rw [canon, mkChart_length, hlen], ?_⟩
  intro p hp
  have hlt : p < (canon ns cols).length := by rw [canon, mkChart_length, hlen]; omega
  obtain ⟨ms, hms⟩ : ∃ ms, (canon ns cols)[p]? = some ms := ⟨_, List.getElem?_eq_getElem hlt⟩
  have hP := mkChart_get hms
  rw [hget p hp] at hP
  simp only [Option.some.injEq] at hP
  have hshape : (ms.map (·.rows)).length = lastMeasure ns p + 1 ∧
      ∀ m ≤ lastMeasure ns p, (ms.map (·.rows))[m]? = some (measureOf cols (notesAt ns p m)) ∧
        (measureOf cols (notesAt ns p m)).length = 4 * measureQ (notesAt ns p m) := by
    rw [← hP, lastMeasure]
    simp only [notesAt]
    by_cases hnil : notesOfPlayer ns p = []
    · rw [if_pos hnil, hnil]; exact blankPlayer_shape cols
    · rw [if_neg hnil]; exact playerOf_shape (playerOK_filter h p) hnil
  refine ⟨ms, hms, by simpa using hshape.1, ?_⟩
  intro m hm
  obtain ⟨h1, h2⟩ := hshape.2 m hm
  rw [List.getElem?_map] at h1
  cases hme : ms[m]? with
  | none => rw [hme] at h1; simp at h1
  | some me =>
    rw [hme] at h1
    simp only [Option.map_some, Option.some.injEq] at h1
    exact ⟨me, rfl, h1, by rw [h1]; exact h2⟩

/-! ### the same on the text -/

theorem splitOn_amp_render {c : DChart} (h : WF c = true) : splitOn '&' (render c) = c.map renderPlayer := by
  rw [WF_iff] at h
  obtain ⟨_, hne, hall⟩ := h
  rw [render, splitOn_joinWith (by simpa using hne)]
  intro q hq
  simp only [List.mem_map] at hq
  obtain ⟨ms, hms, rfl⟩ := hq
  exact renderPlayer_no_amp (hall ms hms).2

theorem splitOn_comma_renderPlayer {n : Nat} {ms : List DMeasure} (hne : ms ≠ [])
    (h : ∀ me ∈ ms, wfMeasure n me = true) : splitOn ',' (renderPlayer ms) = ms.map renderMeasure := by
  rw [renderPlayer, splitOn_joinWith (by simpa using hne)]
  intro q hq
  simp only [List.mem_map] at hq
  obtain ⟨me, hme, rfl⟩ := hq
  exact (renderMeasure_no_sep (h me hme)).1

/-- a rendered measure, stripped, has one line per row -/
theorem lines_renderMeasure {cols : Nat} (hpos : 0 < cols) {me : DMeasure} (h : wfMeasure cols me = true) :
    (splitLines (strip (renderMeasure me))).length = me.rows.length := by
  rw [wfMeasure_iff] at h
  obtain ⟨hpre, hpost, hrows⟩ := h
  obtain ⟨r, rs, hrs⟩ : ∃ r rs, me.rows = r :: rs := by
    cases hm : me.rows with
    | nil => exact absurd hm (wfRows_ne_nil hrows)
    | cons r rs => exact ⟨r, rs, rfl⟩
  rw [hrs] at hrows
  obtain ⟨hr, _, _⟩ := wfRows_head hrows
  have hne : r.cells ≠ [] := by
    intro e; have := hr.len; rw [e] at this; simp at this; omega
  have e : renderMeasure me = (me.pre ++ r.lead) ++ (cellsText r.cells ++
      (r.trail ++ r.eol ++ ((rs.map renderRow).flatten ++ me.post))) := by
    simp [renderMeasure, hrs, renderRow_eq]
  have hws : ∀ c ∈ me.pre ++ r.lead, pyIsSpace c = true := by
    intro c hc
    rcases List.mem_append.mp hc with h | h
    · exact hpre c h
    · exact hr.lead.space c h
  have hstrip : strip (renderMeasure me) = rstrip ([] ++ cellsText r.cells ++ r.trail ++ r.eol ++
      ((rs.map renderRow).flatten ++ me.post)) := by
    rw [e, strip, lstrip_append_left hws,
      lstrip_append_of_head (cellsText_ne_nil hne) (cellsText_trimmed hr.cells).1]
    simp
  obtain ⟨_, g2, _⟩ := go_rows cols 0 0 hpos me.post hpost rs r [] 0 hrows (by intro c hc; simp at hc)
  rw [hstrip, g2, hrs]
  simp

theorem canonical_text {cols : Nat} (hpos : 0 < cols) {ns : List Note} (h : StreamOK cols ns) :
    ∃ t, encode ns cols = .ok t ∧ (splitOn '&' t).length = maxPlayer ns + 1 ∧
      ∀ p ≤ maxPlayer ns, ∃ sec, (splitOn '&' t)[p]? = some sec ∧
        (splitOn ',' sec).length = lastMeasure ns p + 1 ∧
        ∀ m ≤ lastMeasure ns p, ∃ mt, (splitOn ',' sec)[m]? = some mt ∧
          (splitLines (strip mt)).length = 4 * measureQ (notesAt ns p m) := by
  obtain ⟨hne, hgood⟩ := chartOf_good h
  have hwf : WF (canon ns cols) = true := WF_mkChart hpos hne hgood
  have hcols : Spec.cols (canon ns cols) = cols := cols_mkChart hne hgood
  have henc : encode ns cols = .ok (render (canon ns cols)) := by
    rw [canon, render_mkChart _ (fun pl hpl => (hgood pl hpl).1)]
    exact encode_eq h
  obtain ⟨s1, s2⟩ := canon_shape h
  refine ⟨_, henc, ?_, ?_⟩
  · rw [splitOn_amp_render hwf, List.length_map, s1]
  · intro p hp
    obtain ⟨ms, hms, hlen, hrowsAll⟩ := s2 p hp
    have hmem := List.mem_of_getElem? hms
    obtain ⟨hmsne, hmswf⟩ := ((WF_iff _).mp hwf).2.2 ms hmem
    rw [hcols] at hmswf
    refine ⟨renderPlayer ms, ?_, ?_, ?_⟩
    · rw [splitOn_amp_render hwf, List.getElem?_map, hms]; rfl
    · rw [splitOn_comma_renderPlayer hmsne hmswf, List.length_map, hlen]
    · intro m hm
      obtain ⟨me, hme, _, hrl⟩ := hrowsAll m hm
      refine ⟨renderMeasure me, ?_, ?_⟩
      · rw [splitOn_comma_renderPlayer hmsne hmswf, List.getElem?_map, hme]; rfl
      · rw [lines_renderMeasure hpos (hmswf me (List.mem_of_getElem? hme)), hrl]

theorem canon_spec {cols : Nat} (hpos : 0 < cols) {ns : List Note} (h : StreamOK cols ns) :
    encode ns cols = .ok (render (canon ns cols)) ∧ WF (canon ns cols) = true ∧
      Spec.cols (canon ns cols) = cols ∧ notesOf (canon ns cols) = ns := by
  obtain ⟨hne, hgood⟩ := chartOf_good h
  refine ⟨?_, WF_mkChart hpos hne hgood, cols_mkChart hne hgood, ?_⟩
  · rw [canon, render_mkChart _ (fun pl hpl => (hgood pl hpl).1)]
    exact encode_eq h
  · rw [canon, notesOf_eq_semList, mkChart_rows]
    exact chartOf_notes h

theorem foldl_max_spec (l : List Nat) : ∀ (a : Nat), a ≤ l.foldl max a ∧ (∀ x ∈ l, x ≤ l.foldl max a) ∧
    (l.foldl max a ∈ l ∨ l.foldl max a = a) := by
  induction l with
  | nil => intro a; simp
  | cons x xs ih =>
    intro a
    rw [List.foldl_cons]
    obtain ⟨h1, h2, h3⟩ := ih (max a x)
    refine ⟨by omega, ?_, ?_⟩
    · intro y hy
      rcases List.mem_cons.mp hy with rfl | hy
      · omega
      · exact h2 y hy
    · rcases h3 with h | h
      · left; simp [h]
      · rw [h]
        rcases Nat.le_total a x with hax | hax
        · left; simp [Nat.max_eq_right hax]
        · right; exact Nat.max_eq_left hax

/-- `lastMeasure ns p` is the measure index ⌊beat/4⌋ of the last note of player `p` -/
theorem lastMeasure_spec (ns : List Note) (p : Nat) :
    (∀ n ∈ ns, n.player = p → (n.beat / 4).floor.toNat ≤ lastMeasure ns p) ∧
    ((∃ n ∈ ns, n.player = p) → ∃ n ∈ ns, n.player = p ∧ (n.beat / 4).floor.toNat = lastMeasure ns p) ∧
    ((∀ n ∈ ns, n.player ≠ p) → lastMeasure ns p = 0) := by
  obtain ⟨_, h2, h3⟩ := foldl_max_spec ((notesOfPlayer ns p).map (fun n => (measureIndex n).toNat)) 0
  refine ⟨?_, ?_, ?_⟩
  · intro n hn hp
    apply h2
    simp only [List.mem_map]
    exact ⟨n, by simp [notesOfPlayer, hn, hp], rfl⟩
  · rintro ⟨n, hn, hp⟩
    rcases h3 with h | h
    · simp only [List.mem_map] at h
      obtain ⟨y, hy, hy2⟩ := h
      simp only [notesOfPlayer, List.mem_filter, decide_eq_true_eq] at hy
      exact ⟨y, hy.1, hy.2, hy2⟩
    · refine ⟨n, hn, hp, ?_⟩
      have := h2 ((measureIndex n).toNat) (by
        simp only [List.mem_map]
        exact ⟨n, by simp [notesOfPlayer, hn, hp], rfl⟩)
      simp only [lastMeasure, lastMeasureOf]
      rw [h] at this ⊢
      simp only [measureIndex] at this
      omega
  · intro hnone
    have : notesOfPlayer ns p = [] := by
      rw [notesOfPlayer, List.filter_eq_nil_iff]
      intro n hn; simpa using hnone n hn
    simp [lastMeasure, lastMeasureOf, this]

end Spec

end Simfile
