/-
C11 helper (L1, second half): the invariant of appendix A.2 for every state of the machine.
-/
import Simfile.Lemmas.EngineFold
import Simfile.Lemmas.EngineTravel
namespace Simfile
open C11

/-- key of a state -/
def skey (s : TState) : K := key s.beat s.tag

/-! ### small facts on keys -/

theorem le_congr_of_none {k κ κ' : K} (hle : κ ≤ κ') (h : ¬ (κ < k ∧ k ≤ κ')) : k ≤ κ ↔ k ≤ κ' := by
  constructor
  · intro h1; exact le_trans h1 hle
  · intro h1
    by_contra hk
    exact h ⟨not_le.1 hk, h1⟩

theorem key_squeeze {b c : Rat} {g g0 g1 : Tag} (h1 : key c g0 ≤ key b g) (h2 : key b g ≤ key c g1) :
    b = c ∧ g0.val ≤ g.val ∧ g.val ≤ g1.val := by
  rw [key_le] at h1 h2
  rcases h1 with a | ⟨a1, a2⟩ <;> rcases h2 with b' | ⟨b1, b2⟩
  · linarith
  · linarith
  · linarith
  · exact ⟨b1, a2, b2⟩

/-! ### events by tag -/

variable {td : TimingData}

theorem events_warp {e : TEvent} (he : e ∈ events td) (ht : e.tag = .warp) :
    ∃ sg ∈ segs td.warps, sg.1 = e.beat := by
  rcases (mem_events td e).1 he with ⟨_, h⟩ | ⟨h, _⟩ | ⟨h, _⟩ | ⟨h, _⟩ | ⟨h, _⟩ | ⟨h, _⟩ | ⟨h, _⟩
  · obtain ⟨sg, hsg, heq⟩ := List.mem_map.1 h
    exact ⟨sg, hsg, (Prod.mk.inj heq).1⟩
  all_goals (rw [ht] at h; cases h)

theorem events_warpEnd {e : TEvent} (he : e ∈ events td) (ht : e.tag = .warpEnd) :
    ∃ sg ∈ segs td.warps, sg.2 = e.beat := by
  rcases (mem_events td e).1 he with ⟨h, _⟩ | ⟨_, h⟩ | ⟨h, _⟩ | ⟨h, _⟩ | ⟨h, _⟩ | ⟨h, _⟩ | ⟨h, _⟩
  · rw [ht] at h; cases h
  · obtain ⟨sg, hsg, heq⟩ := List.mem_map.1 h
    exact ⟨sg, hsg, (Prod.mk.inj heq).1⟩
  all_goals (rw [ht] at h; cases h)

theorem events_bpm {e : TEvent} (he : e ∈ events td) (ht : e.tag = .bpm) :
    (e.beat, e.value) ∈ td.bpms.tail := by
  have := (mem_events td e).1 he
  simpa [ht] using this

theorem events_delay {e : TEvent} (he : e ∈ events td) (ht : e.tag = .delay) :
    (e.beat, e.value) ∈ td.delays := by
  have := (mem_events td e).1 he
  simpa [ht] using this

theorem events_delayEnd {e : TEvent} (he : e ∈ events td) (ht : e.tag = .delayEnd) :
    (e.beat, e.value) ∈ td.delays := by
  have := (mem_events td e).1 he
  simpa [ht] using this

theorem events_stop {e : TEvent} (he : e ∈ events td) (ht : e.tag = .stop) :
    (e.beat, e.value) ∈ td.stops := by
  have := (mem_events td e).1 he
  simpa [ht] using this

theorem events_stopEnd {e : TEvent} (he : e ∈ events td) (ht : e.tag = .stopEnd) :
    (e.beat, e.value) ∈ td.stops := by
  have := (mem_events td e).1 he
  simpa [ht] using this

theorem ev_warp {sg : Rat × Rat} (h : sg ∈ segs td.warps) : (⟨sg.1, 0, .warp⟩ : TEvent) ∈ events td := by
  rw [mem_events]; left
  exact ⟨rfl, List.mem_map.2 ⟨sg, h, rfl⟩⟩

theorem ev_warpEnd {sg : Rat × Rat} (h : sg ∈ segs td.warps) : (⟨sg.2, 0, .warpEnd⟩ : TEvent) ∈ events td := by
  rw [mem_events]; right; left
  exact ⟨rfl, List.mem_map.2 ⟨sg, h, rfl⟩⟩

theorem ev_bpm {β v : Rat} (h : (β, v) ∈ td.bpms.tail) : (⟨β, v, .bpm⟩ : TEvent) ∈ events td := by
  rw [mem_events]; right; right; left; exact ⟨rfl, h⟩

theorem ev_delay {β v : Rat} (h : (β, v) ∈ td.delays) : (⟨β, v, .delay⟩ : TEvent) ∈ events td := by
  rw [mem_events]; right; right; right; left; exact ⟨rfl, h⟩

theorem ev_delayEnd {β v : Rat} (h : (β, v) ∈ td.delays) : (⟨β, v, .delayEnd⟩ : TEvent) ∈ events td := by
  rw [mem_events]; right; right; right; right; left; exact ⟨rfl, h⟩

theorem ev_stop {β v : Rat} (h : (β, v) ∈ td.stops) : (⟨β, v, .stop⟩ : TEvent) ∈ events td := by
  rw [mem_events]; right; right; right; right; right; left; exact ⟨rfl, h⟩

theorem ev_stopEnd {β v : Rat} (h : (β, v) ∈ td.stops) : (⟨β, v, .stopEnd⟩ : TEvent) ∈ events td := by
  rw [mem_events]; right; right; right; right; right; right; exact ⟨rfl, h⟩

/-! ### facts from the domain -/

theorem segs_facts (hd : Dom td) :
    (segs td.warps).Pairwise (fun a b => a.2 < b.1) ∧ (∀ s ∈ segs td.warps, s.1 < s.2) ∧
    (∀ s ∈ segs td.warps, 0 ≤ s.1 ∧ onGrid s.1 ∧ onGrid s.2) := by
  obtain ⟨h1, h2, _, h4⟩ := segs_spec td.warps hd.warps_pos hd.warps_sorted
  refine ⟨h1, h2, ?_⟩
  intro s hs
  obtain ⟨⟨w, hw, e1⟩, ⟨w', hw', e2⟩⟩ := h4 s hs
  have g1 := hd.warps_grid w hw
  have g2 := hd.warps_grid w' hw'
  refine ⟨e1 ▸ g1.1, e1 ▸ g1.2, e2 ▸ onGrid_add g2.2 (onGrid_roundToTick _)⟩

theorem tail_beats_pos (hd : Dom td) : ∀ e ∈ td.bpms.tail, 0 < e.1 := by
  have h1 := hd.bpms_head
  have h2 := hd.bpms_sorted
  cases hb : td.bpms with
  | nil => intro e he; simp at he
  | cons x l =>
    rw [hb] at h1 h2
    simp only [List.headD_cons] at h1
    rw [List.map_cons, List.pairwise_cons] at h2
    intro e he
    have := h2.1 e.1 (List.mem_map.2 ⟨e, he, rfl⟩)
    rw [h1] at this
    exact this

theorem tail_sorted (hd : Dom td) : td.bpms.tail.Pairwise (fun a b => a.1 < b.1) := by
  have := hd.bpms_sorted
  rw [List.pairwise_map] at this
  exact this.tail

theorem event_beat_ok (hd : Dom td) {e : TEvent} (he : e ∈ events td) : 0 ≤ e.beat ∧ onGrid e.beat := by
  obtain ⟨_, s2, s3⟩ := segs_facts hd
  cases ht : e.tag
  · obtain ⟨sg, hsg, h⟩ := events_warp he ht
    rw [← h]; exact ⟨(s3 sg hsg).1, (s3 sg hsg).2.1⟩
  · obtain ⟨sg, hsg, h⟩ := events_warpEnd he ht
    rw [← h]; exact ⟨le_of_lt (lt_of_le_of_lt (s3 sg hsg).1 (s2 sg hsg)), (s3 sg hsg).2.2⟩
  · exact hd.bpms_grid _ (List.mem_of_mem_tail (events_bpm he ht))
  · exact hd.delays_grid _ (events_delay he ht)
  · exact hd.delays_grid _ (events_delayEnd he ht)
  · exact hd.stops_grid _ (events_stop he ht)
  · exact hd.stops_grid _ (events_stopEnd he ht)

/-! ### congruence: nothing relevant between two keys -/

theorem bpmBefore_congr (td : TimingData) {κ κ' : K} (hle : κ ≤ κ')
    (hno : ∀ e ∈ events td, e.tag = .bpm → ¬ (κ < ekey e ∧ ekey e ≤ κ')) :
    bpmBefore td κ = bpmBefore td κ' := by
  unfold bpmBefore
  apply foldSel_congr
  intro e he
  exact le_congr_of_none hle (hno _ (ev_bpm (β := e.1) (v := e.2) he) rfl)

theorem warpBefore_congr (td : TimingData) {κ κ' : K} (hle : κ ≤ κ')
    (hno : ∀ e ∈ events td, (e.tag = .warp ∨ e.tag = .warpEnd) → ¬ (κ < ekey e ∧ ekey e ≤ κ')) :
    warpBefore td κ ↔ warpBefore td κ' := by
  unfold warpBefore
  have key1 : ∀ s ∈ segs td.warps, (key s.1 .warp ≤ κ ∧ κ < key s.2 .warpEnd) ↔
      (key s.1 .warp ≤ κ' ∧ κ' < key s.2 .warpEnd) := by
    intro s hs
    have h1 := le_congr_of_none hle (hno _ (ev_warp hs) (Or.inl rfl))
    have h2 := le_congr_of_none hle (hno _ (ev_warpEnd hs) (Or.inr rfl))
    simp only [ekey] at h1 h2
    rw [h1, ← not_le, ← not_le, h2]
  constructor
  · rintro ⟨s, hs, h⟩; exact ⟨s, hs, (key1 s hs).1 h⟩
  · rintro ⟨s, hs, h⟩; exact ⟨s, hs, (key1 s hs).2 h⟩

theorem pausedK_congr (td : TimingData) {κ κ' : K} (hle : κ ≤ κ')
    (hno : ∀ e ∈ events td, (e.tag = .delayEnd ∨ e.tag = .stopEnd) → ¬ (κ < ekey e ∧ ekey e ≤ κ')) :
    pausedK td κ = pausedK td κ' := by
  unfold pausedK
  congr 1
  · apply foldSum_congr
    intro d hd'
    exact le_congr_of_none hle (hno _ (ev_delayEnd (β := d.1) (v := d.2) hd') (Or.inl rfl))
  · apply foldSum_congr
    intro d hd'
    exact le_congr_of_none hle (hno _ (ev_stopEnd (β := d.1) (v := d.2) hd') (Or.inr rfl))

end Simfile
