/-
Lemmas for the text round trip of beats and `BeatValues` (C14):
`parseDecimal (beatToStr x) = some (round3 x)`, and splitting/stripping the rows of a printed table.
-/
import Simfile.Lemmas.StrLemmas
import Simfile.Lemmas.StrO
import Simfile.Lemmas.Round
import Mathlib.Tactic.Ring
import Mathlib.Tactic.Push
namespace Simfile

/-! ### `parseDecimal` in a form that can be rewritten -/

def signBody (mant : Str) : Int × Str :=
  match mant with
  | '-' :: r => ((-1 : Int), r)
  | '+' :: r => (1, r)
  | r => (1, r)

def decimalOfParts (sign : Int) (ip : Str) (hasDot : Bool) (fp : Str) (hasE : Bool) (ex : Str) : Option Rat :=
  if ip.isEmpty ∧ fp.isEmpty then none
  else if hasDot = false ∧ ip.isEmpty then none
  else
    match (if ip.isEmpty then some 0 else parseNat ip), (if fp.isEmpty then some 0 else parseNat fp),
          (if hasE then parseInt ex else some 0) with
    | some i, some f, some e =>
      some ((sign : Rat) * ((i : Rat) + (f : Rat) / ((10 ^ fp.length : Nat) : Rat)) * pow10 e)
    | _, _, _ => none

def parseDecimal' (s0 : Str) : Option Rat :=
  let p := partition 'e' ((strip s0).map (fun c => if c = 'E' then 'e' else c))
  let sb := signBody p.1
  let q := partition '.' sb.2
  decimalOfParts sb.1 q.1 q.2.1 q.2.2 p.2.1 p.2.2

theorem parseDecimal_eq (s : Str) : parseDecimal s = parseDecimal' s := rfl

theorem parseDecimal_of_parts (s mant ex : Str) (hasE : Bool) (sign : Int) (body ip fp : Str) (hasDot : Bool)
    (h1 : partition 'e' ((strip s).map (fun c => if c = 'E' then 'e' else c)) = (mant, hasE, ex))
    (h2 : signBody mant = (sign, body))
    (h3 : partition '.' body = (ip, hasDot, fp)) :
    parseDecimal s = decimalOfParts sign ip hasDot fp hasE ex := by
  rw [parseDecimal_eq]
  simp only [parseDecimal', h1, h2, h3]

/-! ### digit characters -/

def IsDig (s : Str) : Prop := ∀ c ∈ s, c.isDigit = true

theorem isDigit_iff (c : Char) : c.isDigit = true ↔ 48 ≤ c.toNat ∧ c.toNat ≤ 57 := by
  simp only [Char.isDigit, Bool.and_eq_true, decide_eq_true_eq, ge_iff_le, UInt32.le_iff_toNat_le]
  rfl

theorem not_space_of_isDigit {c : Char} (h : c.isDigit = true) : pyIsSpace c = false := by
  rw [isDigit_iff] at h
  simp only [pyIsSpace, Bool.or_eq_false_iff, Bool.and_eq_false_iff, decide_eq_false_iff_not]
  omega

theorem ne_of_isDigit {c d : Char} (h : c.isDigit = true) (hd : d.isDigit = false) : c ≠ d := by
  rintro rfl; rw [h] at hd; cases hd

theorem IsDig.not_mem {s : Str} (h : IsDig s) {d : Char} (hd : d.isDigit = false) : d ∉ s :=
  fun hm => ne_of_isDigit (h d hm) hd rfl

theorem isDig_natDigits (n : Nat) : IsDig (natDigits n) := fun _ h => isDigit_of_mem_natDigits h

theorem isDig_pad3 (n : Nat) : IsDig (pad3 n) := by
  intro c hc
  simp only [pad3, List.mem_append, List.mem_replicate] at hc
  rcases hc with ⟨_, rfl⟩ | hc
  · rfl
  · exact isDigit_of_mem_natDigits hc

theorem pad3_ne_nil (n : Nat) : pad3 n ≠ [] := by
  simp [pad3, natDigits_ne_nil]

theorem length_natDigits_le {n : Nat} (h : n < 1000) : (natDigits n).length ≤ 3 := by
  rw [natDigits_eq, Nat.length_toDigits_le_iff (by decide) (by decide)]; exact h

theorem length_pad3 {n : Nat} (h : n < 1000) : (pad3 n).length = 3 := by
  have := length_natDigits_le h
  simp only [pad3, List.length_append, List.length_replicate]
  omega

theorem foldl_parseStep_zeros (k : Nat) : (List.replicate k '0').foldl parseStep (some 0) = some 0 := by
  induction k with
  | zero => rfl
  | succ k ih => rw [List.replicate_succ, List.foldl_cons]; exact ih

theorem parseNat_pad3 (n : Nat) : parseNat (pad3 n) = some n := by
  rw [parseNat_eq_foldl (pad3_ne_nil n), pad3, List.foldl_append, foldl_parseStep_zeros, natDigits_eq,
    foldl_parseStep_toDigits]

/-! ### `sign digits . digits` -/

/-- a plain signed decimal `[-]ip.fp` reads as its value -/
theorem parseDecimal_plain (neg : Bool) (ip fp : Str) (hi : IsDig ip) (hf : IsDig fp) (hine : ip ≠ []) :
    parseDecimal ((if neg then ['-'] else []) ++ ip ++ '.' :: fp) =
      decimalOfParts (if neg then -1 else 1) ip true fp false [] := by
  -- every character is a digit, '-' or '.'
  have hch : ∀ c ∈ (if neg then ['-'] else []) ++ ip ++ '.' :: fp, c.isDigit = true ∨ c = '-' ∨ c = '.' := by
    intro c hc
    simp only [List.mem_append, List.mem_cons] at hc
    rcases hc with (hc | hc) | rfl | hc
    · cases neg <;> simp at hc; exact Or.inr (Or.inl hc)
    · exact Or.inl (hi c hc)
    · exact Or.inr (Or.inr rfl)
    · exact Or.inl (hf c hc)
  have hns : ∀ c ∈ (if neg then ['-'] else []) ++ ip ++ '.' :: fp, pyIsSpace c = false := by
    intro c hc
    rcases hch c hc with h | rfl | rfl
    · exact not_space_of_isDigit h
    · decide
    · decide
  have hstrip : strip ((if neg then ['-'] else []) ++ ip ++ '.' :: fp) =
      (if neg then ['-'] else []) ++ ip ++ '.' :: fp := by
    apply strip_of_trimmed
    constructor
    · intro c hc; exact hns c (List.mem_of_mem_head? hc)
    · intro c hc; exact hns c (List.mem_of_mem_getLast? hc)
  have hmap : ((if neg then ['-'] else []) ++ ip ++ '.' :: fp).map (fun c => if c = 'E' then 'e' else c) =
      (if neg then ['-'] else []) ++ ip ++ '.' :: fp := by
    conv_rhs => rw [← List.map_id ((if neg then ['-'] else []) ++ ip ++ '.' :: fp)]
    apply List.map_congr_left
    intro c hc
    have : c ≠ 'E' := by
      rcases hch c hc with h | rfl | rfl
      · exact ne_of_isDigit h (by decide)
      · decide
      · decide
    simp [this]
  have hne : 'e' ∉ (if neg then ['-'] else []) ++ ip ++ '.' :: fp := by
    intro hm
    rcases hch _ hm with h | h | h
    · exact absurd h (by decide)
    · exact absurd h (by decide)
    · exact absurd h (by decide)
  apply parseDecimal_of_parts _ ((if neg then ['-'] else []) ++ ip ++ '.' :: fp) [] false _ (ip ++ '.' :: fp)
  · rw [hstrip, hmap, O.partition_of_not_mem _ _ hne]
  · cases neg with
    | true => simp [signBody]
    | false =>
      cases ip with
      | nil => exact absurd rfl hine
      | cons d ip' =>
        have hd := hi d (by simp)
        have h1 : d ≠ '-' := ne_of_isDigit hd (by decide)
        have h2 : d ≠ '+' := ne_of_isDigit hd (by decide)
        simp only [Bool.false_eq_true, if_false, List.nil_append, List.cons_append]
        unfold signBody
        split
        · rename_i heq; exact absurd (List.cons.inj heq).1 h1
        · rename_i heq; exact absurd (List.cons.inj heq).1 h2
        · rfl
  · exact O.partition_first '.' ip fp (hi.not_mem (by decide))

theorem pow10_zero : pow10 0 = 1 := by simp [pow10]

theorem decimalOfParts_plain (sign : Int) (ip fp : Str) (hine : ip ≠ []) (hfne : fp ≠ []) (i f : Nat)
    (hpi : parseNat ip = some i) (hpf : parseNat fp = some f) :
    decimalOfParts sign ip true fp false [] =
      some ((sign : Rat) * ((i : Rat) + (f : Rat) / ((10 ^ fp.length : Nat) : Rat))) := by
  have h1 : ip.isEmpty = false := by cases ip <;> simp_all
  have h2 : fp.isEmpty = false := by cases fp <;> simp_all
  simp [decimalOfParts, h1, h2, hpi, hpf, pow10_zero]

/-! ### the printed beat -/

theorem beatToStr_eq (x : Rat) :
    beatToStr x = (if thousandths x < 0 ∨ (thousandths x = 0 ∧ x < 0) then ['-'] else []) ++
      natDigits ((thousandths x).natAbs / 1000) ++ '.' :: pad3 ((thousandths x).natAbs % 1000) := by
  simp [beatToStr]

/-- reading the printed three-decimal form of any rational gives the rounded value -/
theorem parseDecimal_beatToStr (x : Rat) : parseDecimal (beatToStr x) = some (round3 x) := by
  rw [beatToStr_eq]
  have hdec := parseDecimal_plain (decide (thousandths x < 0 ∨ (thousandths x = 0 ∧ x < 0)))
    (natDigits ((thousandths x).natAbs / 1000)) (pad3 ((thousandths x).natAbs % 1000))
    (isDig_natDigits _) (isDig_pad3 _) (natDigits_ne_nil _)
  simp only [decide_eq_true_eq] at hdec
  rw [hdec, decimalOfParts_plain _ _ _ (natDigits_ne_nil _) (pad3_ne_nil _) _ _ (parseNat_natDigits _)
    (parseNat_pad3 _), length_pad3 (Nat.mod_lt _ (by decide))]
  congr 1
  unfold round3
  generalize thousandths x = m
  have hsplit : (((m.natAbs / 1000 : Nat) : Rat) + ((m.natAbs % 1000 : Nat) : Rat) / ((10 ^ 3 : Nat) : Rat)) =
      (m.natAbs : Rat) / 1000 := by
    have := Nat.div_add_mod m.natAbs 1000
    have h2 : ((1000 * (m.natAbs / 1000) + m.natAbs % 1000 : Nat) : Rat) = (m.natAbs : Rat) := by rw [this]
    push_cast at h2 ⊢
    rw [← h2]; ring
  rw [hsplit]
  have habs : ((m.natAbs : Int) : Rat) = (m.natAbs : Rat) := by simp
  by_cases hneg : m < 0
  · have : (m.natAbs : Int) = -m := by omega
    have h3 : (m.natAbs : Rat) = -(m : Rat) := by rw [← habs, this]; simp
    simp only [hneg, true_or, if_true, h3]; push_cast; ring
  · by_cases hz : m = 0
    · subst hz; simp
    · have : (m.natAbs : Int) = m := by omega
      have h3 : (m.natAbs : Rat) = (m : Rat) := by rw [← habs, this]
      simp only [hneg, hz, false_and, or_self, if_false, h3]; push_cast; ring

theorem beatFromStr_beatToStr (x : Rat) : beatFromStr (beatToStr x) = some (roundToTick (round3 x)) := by
  simp [beatFromStr, parseDecimal_beatToStr]

/-- the characters of a printed beat -/
theorem beatToStr_chars (x : Rat) : ∀ c ∈ beatToStr x, c.isDigit = true ∨ c = '-' ∨ c = '.' := by
  intro c hc
  rw [beatToStr_eq] at hc
  simp only [List.mem_append, List.mem_cons] at hc
  rcases hc with (hc | hc) | rfl | hc
  · split at hc <;> simp at hc; exact Or.inr (Or.inl hc)
  · exact Or.inl (isDig_natDigits _ c hc)
  · exact Or.inr (Or.inr rfl)
  · exact Or.inl (isDig_pad3 _ c hc)

theorem beatToStr_ne_nil (x : Rat) : beatToStr x ≠ [] := by
  rw [beatToStr_eq]; simp

theorem beatToStr_not_mem (x : Rat) {d : Char} (h1 : d.isDigit = false) (h2 : d ≠ '-') (h3 : d ≠ '.') :
    d ∉ beatToStr x := by
  intro hm
  rcases beatToStr_chars x d hm with h | h | h
  · rw [h1] at h; cases h
  · exact h2 h
  · exact h3 h

theorem beatToStr_not_space (x : Rat) : ∀ c ∈ beatToStr x, pyIsSpace c = false := by
  intro c hc
  rcases beatToStr_chars x c hc with h | rfl | rfl
  · exact not_space_of_isDigit h
  · decide
  · decide

/-! ### rows of a `BeatValues` text -/

/-- the value token of a row: no ',' or '=' inside, no white space at either end (so that `strip`
leaves it alone). The empty token is allowed: nothing in the round trip depends on it. -/
def TokenOK (v : Str) : Prop :=
  ',' ∉ v ∧ '=' ∉ v ∧ (∀ c ∈ v.head?, pyIsSpace c = false) ∧ (∀ c ∈ v.getLast?, pyIsSpace c = false)

instance (v : Str) : Decidable (TokenOK v) := by unfold TokenOK; infer_instance

def Blank (w : Str) : Prop := ∀ c ∈ w, pyIsSpace c = true

theorem blank_iff_isBlank (w : Str) : Blank w ↔ isBlank w = true := by
  simp [Blank, isBlank, List.all_eq_true]

theorem Blank.not_mem {w : Str} (h : Blank w) {d : Char} (hd : pyIsSpace d = false) : d ∉ w := by
  intro hm; rw [h d hm] at hd; cases hd

/-- the text of one row, as `BeatValues.__str__` writes it -/
def rowText (r : BVRow) : Str := beatToStr r.beat ++ ['='] ++ r.value

/-- `BeatValues.from_str` on one row -/
def parseRow (row : Str) : Option BVRow :=
  match splitOn '=' (strip row) with
  | [b, v] => (beatFromStr b).map (fun q => { beat := q, value := v })
  | _ => none

theorem beatValuesFromStr_some (s : Str) :
    beatValuesFromStr (some s) =
      if s.isEmpty ∨ (strip s).isEmpty then some [] else (splitOn ',' s).mapM parseRow := rfl

theorem beatValuesToStr_eq (rows : List BVRow) : beatValuesToStr rows = joinWith [',', '\n'] (rows.map rowText) := rfl

theorem rowText_trimmed (r : BVRow) (h : TokenOK r.value) : Trimmed (rowText r) := by
  obtain ⟨_, _, h3, h4⟩ := h
  constructor
  · intro c hc
    apply beatToStr_not_space r.beat c
    cases hb : beatToStr r.beat with
    | nil => exact absurd hb (beatToStr_ne_nil _)
    | cons d ds =>
      simp only [rowText, hb, List.cons_append, List.head?_cons, Option.mem_def, Option.some.injEq] at hc
      subst hc; simp
  · intro c hc
    cases hv : r.value with
    | nil =>
      simp only [rowText, hv, List.append_nil, List.getLast?_append, List.getLast?_singleton,
        Option.mem_def, Option.some_or, Option.some.injEq] at hc
      subst hc; decide
    | cons d ds =>
      apply h4
      have : rowText r = (beatToStr r.beat ++ ['=']) ++ r.value := rfl
      rw [this, List.getLast?_append_of_ne_nil _ (by rw [hv]; simp)] at hc
      exact hc

theorem parseRow_rowText (r : BVRow) (h : TokenOK r.value) :
    parseRow (rowText r) = some { beat := roundToTick (round3 r.beat), value := r.value } := by
  have hs : splitOn '=' (rowText r) = [beatToStr r.beat, r.value] := by
    have : rowText r = beatToStr r.beat ++ '=' :: r.value := by simp [rowText]
    rw [this, splitOn_append_sep (beatToStr_not_mem _ (by decide) (by decide) (by decide)),
      splitOn_of_not_mem h.2.1]
  simp [parseRow, strip_of_trimmed (rowText_trimmed r h), hs, beatFromStr_beatToStr]

/-- white space around a row is ignored -/
theorem parseRow_surround (w1 w2 p : Str) (h1 : Blank w1) (h2 : Blank w2) :
    parseRow (w1 ++ p ++ w2) = parseRow p := by
  unfold parseRow
  rw [O.strip_surround w1 w2 p h1 h2]

theorem rowText_no_comma (r : BVRow) (h : TokenOK r.value) : ',' ∉ rowText r := by
  simp only [rowText, List.mem_append, List.mem_singleton, not_or]
  exact ⟨⟨beatToStr_not_mem _ (by decide) (by decide) (by decide), by decide⟩, h.1⟩

/-! ### the whole table -/

theorem strip_ne_nil_of_mem {s : Str} {c : Char} (hc : c ∈ s) (hs : pyIsSpace c = false) : strip s ≠ [] := by
  intro he
  obtain ⟨w1, w2, e, h1, h2⟩ := strip_decomp s
  rw [he, List.append_nil] at e
  rw [e, List.mem_append] at hc
  rcases hc with hc | hc
  · rw [h1 c hc] at hs; cases hs
  · rw [h2 c hc] at hs; cases hs

theorem strip_nil_eq : strip ([] : Str) = [] := rfl

/-- the test for "no rows" only depends on the stripped text -/
theorem beatValuesFromStr_some' (s : Str) :
    beatValuesFromStr (some s) = if strip s = [] then some [] else (splitOn ',' s).mapM parseRow := by
  rw [beatValuesFromStr_some]
  by_cases h : strip s = []
  · simp [h]
  · have : s ≠ [] := by rintro rfl; exact h rfl
    simp [h, this]

theorem mapM_option_cons {α β} (f : α → Option β) (a : α) (l : List α) :
    (a :: l).mapM f = (f a).bind fun b => (l.mapM f).map (b :: ·) := by
  rw [List.mapM_cons]
  cases f a with
  | none => rfl
  | some b => cases l.mapM f <;> rfl

theorem mapM_option_map_congr {α β β' γ} (f : β → Option γ) (f' : β' → Option γ) (g : α → β) (g' : α → β')
    (l : List α)
    (h : ∀ x ∈ l, f (g x) = f' (g' x)) : (l.map g).mapM f = (l.map g').mapM f' := by
  induction l with
  | nil => rfl
  | cons a l ih =>
    simp only [List.map_cons, mapM_option_cons]
    rw [h a (by simp), ih (fun x hx => h x (by simp [hx]))]

theorem mapM_option_map_some {α β γ} (f : β → Option γ) (g : α → β) (k : α → γ) (l : List α)
    (h : ∀ x ∈ l, f (g x) = some (k x)) : (l.map g).mapM f = some (l.map k) := by
  induction l with
  | nil => rfl
  | cons a l ih =>
    rw [List.map_cons, mapM_option_cons, h a (by simp), ih (fun x hx => h x (by simp [hx]))]
    rfl

/-- a joined text with at least two parts contains the separator -/
theorem sep_mem_joinWith (sep : Char) (p q : Str) (rest : List Str) : sep ∈ joinWith [sep] (p :: q :: rest) := by
  rw [joinWith_cons_cons]; simp

/-- padding every row text with white space on both sides does not change what is read -/
theorem beatValues_padded (items : List (Str × Str × Str))
    (hb : ∀ t ∈ items, Blank t.1 ∧ Blank t.2.2) (hc : ∀ t ∈ items, ',' ∉ t.2.1) :
    beatValuesFromStr (some (joinWith [','] (items.map fun t => t.1 ++ t.2.1 ++ t.2.2))) =
      beatValuesFromStr (some (joinWith [','] (items.map fun t => t.2.1))) := by
  have hcomma : pyIsSpace ',' = false := by decide
  rw [beatValuesFromStr_some', beatValuesFromStr_some']
  match items, hb, hc with
  | [], _, _ => rfl
  | [t], hb, hc =>
    obtain ⟨h1, h2⟩ := hb t (by simp)
    simp only [List.map_cons, List.map_nil, joinWith_singleton]
    rw [O.strip_surround _ _ _ h1 h2]
    split
    · rfl
    · have hn : ',' ∉ t.1 ++ t.2.1 ++ t.2.2 := by
        simp only [List.mem_append, not_or]
        exact ⟨⟨h1.not_mem hcomma, hc t (by simp)⟩, h2.not_mem hcomma⟩
      rw [splitOn_of_not_mem hn, splitOn_of_not_mem (hc t (by simp))]
      simp only [mapM_option_cons, parseRow_surround _ _ _ h1 h2]
  | t :: u :: rest, hb, hc =>
    simp only [List.map_cons]
    rw [if_neg (strip_ne_nil_of_mem (sep_mem_joinWith _ _ _ _) hcomma),
      if_neg (strip_ne_nil_of_mem (sep_mem_joinWith _ _ _ _) hcomma)]
    rw [← List.map_cons (f := fun t : Str × Str × Str => t.1 ++ t.2.1 ++ t.2.2),
      ← List.map_cons (f := fun t : Str × Str × Str => t.1 ++ t.2.1 ++ t.2.2),
      ← List.map_cons (f := fun t : Str × Str × Str => t.2.1),
      ← List.map_cons (f := fun t : Str × Str × Str => t.2.1)]
    rw [splitOn_joinWith (by simp), splitOn_joinWith (by simp)]
    · apply mapM_option_map_congr
      intro x hx
      exact parseRow_surround _ _ _ (hb x hx).1 (hb x hx).2
    · intro p hp
      obtain ⟨x, hx, rfl⟩ := List.mem_map.mp hp
      exact hc x hx
    · intro p hp
      obtain ⟨x, hx, rfl⟩ := List.mem_map.mp hp
      simp only [List.mem_append, not_or]
      exact ⟨⟨(hb x hx).1.not_mem hcomma, hc x hx⟩, (hb x hx).2.not_mem hcomma⟩

/-- the rows written by `rowText`, with commas between them, read back (beats snapped to the grid) -/
theorem beatValues_rows (rows : List BVRow) (h : ∀ r ∈ rows, TokenOK r.value) :
    beatValuesFromStr (some (joinWith [','] (rows.map rowText))) =
      some (rows.map fun r => { beat := roundToTick (round3 r.beat), value := r.value }) := by
  rw [beatValuesFromStr_some']
  cases rows with
  | nil => rfl
  | cons r rest =>
    have hne : strip (joinWith [','] ((r :: rest).map rowText)) ≠ [] := by
      have hm : '=' ∈ joinWith [','] ((r :: rest).map rowText) := by
        cases rest with
        | nil => simp [rowText]
        | cons q rest => simp [joinWith_cons_cons, rowText]
      exact strip_ne_nil_of_mem hm (by decide)
    rw [if_neg hne, splitOn_joinWith (by simp)]
    · exact mapM_option_map_some parseRow rowText _ (r :: rest) (fun x hx => parseRow_rowText x (h x hx))
    · intro p hp
      obtain ⟨x, hx, rfl⟩ := List.mem_map.mp hp
      exact rowText_no_comma x (h x hx)

/-- `sep.join` with a separator `c ++ ws` is `c.join` of the parts with `ws` put before all but the first -/
theorem joinWith_cons_sep (c : Char) (ws : Str) (p : Str) (ps : List Str) :
    joinWith (c :: ws) (p :: ps) = joinWith [c] (p :: ps.map (ws ++ ·)) := by
  induction ps generalizing p with
  | nil => rfl
  | cons q ps ih =>
    rw [joinWith_cons_cons, ih q, List.map_cons, joinWith_cons_cons]
    cases ps with
    | nil => simp
    | cons q' ps' => simp [joinWith_cons_cons]

/-- rows written with arbitrary white space around each of them read back (beats snapped to the grid) -/
theorem beatValues_rows_padded (items : List (Str × BVRow × Str))
    (hb : ∀ t ∈ items, Blank t.1 ∧ Blank t.2.2) (hv : ∀ t ∈ items, TokenOK t.2.1.value) :
    beatValuesFromStr (some (joinWith [','] (items.map fun t => t.1 ++ rowText t.2.1 ++ t.2.2))) =
      some (items.map fun t => { beat := roundToTick (round3 t.2.1.beat), value := t.2.1.value }) := by
  have h1 := beatValues_padded (items.map fun t => (t.1, rowText t.2.1, t.2.2))
    (by
      intro t ht
      obtain ⟨x, hx, rfl⟩ := List.mem_map.mp ht
      exact hb x hx)
    (by
      intro t ht
      obtain ⟨x, hx, rfl⟩ := List.mem_map.mp ht
      exact rowText_no_comma _ (hv x hx))
  have h2 := beatValues_rows (items.map (·.2.1)) (by
    intro r hr
    obtain ⟨x, hx, rfl⟩ := List.mem_map.mp hr
    exact hv x hx)
  simp only [List.map_map, Function.comp_def] at h1 h2
  rw [h1, h2]

/-- the printed table is the comma-joined rows with a newline before all rows but the first -/
theorem beatValuesToStr_items (r : BVRow) (rest : List BVRow) :
    beatValuesToStr (r :: rest) = joinWith [',']
      ((([], r, []) :: rest.map fun x => (['\n'], x, [])).map
        fun t : Str × BVRow × Str => t.1 ++ rowText t.2.1 ++ t.2.2) := by
  rw [beatValuesToStr_eq, List.map_cons, joinWith_cons_sep]
  simp [List.map_map, Function.comp_def]

/-- print, then read: the rows with their beats snapped to the grid -/
theorem beatValues_print_read (rows : List BVRow) (hv : ∀ r ∈ rows, TokenOK r.value) :
    beatValuesFromStr (some (beatValuesToStr rows)) =
      some (rows.map fun r => { beat := roundToTick (round3 r.beat), value := r.value }) := by
  cases rows with
  | nil => rfl
  | cons r rest =>
    rw [beatValuesToStr_items, beatValues_rows_padded]
    · simp [List.map_map, Function.comp_def]
    · intro t ht
      simp only [List.mem_cons, List.mem_map] at ht
      rcases ht with rfl | ⟨x, _, rfl⟩
      · exact ⟨by simp [Blank], by simp [Blank]⟩
      · exact ⟨by intro c hc; simp at hc; subst hc; decide, by simp [Blank]⟩
    · intro t ht
      simp only [List.mem_cons, List.mem_map] at ht
      rcases ht with rfl | ⟨x, hx, rfl⟩
      · exact hv _ (by simp)
      · exact hv x (by simp [hx])

end Simfile
