/-
String lemmas needed by the object round trips (C01–C04): `splitOn`/`joinWith`, `strip`, `upper`.
Everything is in namespace `Simfile.O`.
-/
import Simfile.Model.Str
namespace Simfile.O
open Simfile

/-! ### splitOn / joinWith -/

theorem splitOn_ne_nil (sep : Char) (s : Str) : splitOn sep s ≠ [] := by
  induction s with
  | nil => simp [splitOn]
  | cons c cs ih =>
    unfold splitOn
    split
    · simp
    · split <;> simp

theorem splitOn_cons_sep (sep : Char) (cs : Str) : splitOn sep (sep :: cs) = [] :: splitOn sep cs := by
  simp [splitOn]

theorem splitOn_cons_ne {sep c : Char} (h : c ≠ sep) (cs p : Str) (ps : List Str)
    (hp : splitOn sep cs = p :: ps) : splitOn sep (c :: cs) = (c :: p) :: ps := by
  rw [splitOn, if_neg h, hp]

theorem joinWith_cons_cons (sep p q : Str) (rest : List Str) :
    joinWith sep (p :: q :: rest) = p ++ sep ++ joinWith sep (q :: rest) := rfl

theorem joinWith_consChar (sep : Str) (c : Char) (p : Str) (ps : List Str) :
    joinWith sep ((c :: p) :: ps) = c :: joinWith sep (p :: ps) := by
  cases ps with
  | nil => rfl
  | cons q rest => simp [joinWith]

theorem joinWith_splitOn (sep : Char) (s : Str) : joinWith [sep] (splitOn sep s) = s := by
  induction s with
  | nil => rfl
  | cons c cs ih =>
    by_cases h : c = sep
    · subst h
      rw [splitOn_cons_sep]
      cases hs : splitOn c cs with
      | nil => exact absurd hs (splitOn_ne_nil _ _)
      | cons p ps =>
        rw [hs] at ih
        rw [joinWith_cons_cons, ih]; rfl
    · cases hs : splitOn sep cs with
      | nil => exact absurd hs (splitOn_ne_nil _ _)
      | cons p ps =>
        rw [splitOn_cons_ne h cs p ps hs, joinWith_consChar, ← hs, ih]

theorem splitOn_no_sep (sep : Char) (s : Str) : ∀ c ∈ splitOn sep s, sep ∉ c := by
  induction s with
  | nil => simp [splitOn]
  | cons c cs ih =>
    by_cases h : c = sep
    · subst h
      rw [splitOn_cons_sep]
      intro x hx
      rcases List.mem_cons.mp hx with rfl | hx
      · simp
      · exact ih x hx
    · cases hs : splitOn sep cs with
      | nil => exact absurd hs (splitOn_ne_nil _ _)
      | cons p ps =>
        rw [splitOn_cons_ne h cs p ps hs]
        rw [hs] at ih
        intro x hx
        rcases List.mem_cons.mp hx with rfl | hx
        · intro hm
          rcases List.mem_cons.mp hm with rfl | hm
          · exact h rfl
          · exact ih p (List.mem_cons_self) hm
        · exact ih x (List.mem_cons_of_mem _ hx)

theorem head?_splitOn_isSome (sep : Char) (s : Str) : ((splitOn sep s).head?).isSome = true := by
  cases h : splitOn sep s with
  | nil => exact absurd h (splitOn_ne_nil _ _)
  | cons p ps => rfl

/-! ### strip -/

theorem dropWhile_all {α} (p : α → Bool) (ws : List α) (h : ∀ c ∈ ws, p c = true) :
    ws.dropWhile p = [] := by
  induction ws with
  | nil => rfl
  | cons w ws ih =>
    rw [List.dropWhile_cons, if_pos (h w List.mem_cons_self)]
    exact ih (fun c hc => h c (List.mem_cons_of_mem _ hc))

theorem dropWhile_append_all {α} (p : α → Bool) (ws v : List α) (h : ∀ c ∈ ws, p c = true) :
    (ws ++ v).dropWhile p = v.dropWhile p := by
  induction ws with
  | nil => rfl
  | cons w ws ih =>
    rw [List.cons_append, List.dropWhile_cons, if_pos (h w List.mem_cons_self)]
    exact ih (fun c hc => h c (List.mem_cons_of_mem _ hc))

theorem lstrip_append_left (ws v : Str) (h : ∀ c ∈ ws, pyIsSpace c = true) :
    lstrip (ws ++ v) = lstrip v := dropWhile_append_all _ _ _ h

theorem rstrip_append_right (ws v : Str) (h : ∀ c ∈ ws, pyIsSpace c = true) :
    rstrip (v ++ ws) = rstrip v := by
  unfold rstrip
  rw [List.reverse_append, dropWhile_append_all _ _ _ (fun c hc => h c (List.mem_reverse.mp hc))]

theorem rstrip_nil : rstrip [] = [] := rfl
theorem lstrip_nil : lstrip [] = [] := rfl
theorem strip_nil : strip [] = [] := rfl

theorem strip_append_left (ws v : Str) (h : ∀ c ∈ ws, pyIsSpace c = true) :
    strip (ws ++ v) = strip v := by
  unfold strip; rw [lstrip_append_left _ _ h]

theorem rstrip_all (ws : Str) (h : ∀ c ∈ ws, pyIsSpace c = true) : rstrip ws = [] := by
  have := rstrip_append_right ws [] h
  rw [List.nil_append] at this
  exact this.trans rfl

theorem strip_append_right (ws v : Str) (h : ∀ c ∈ ws, pyIsSpace c = true) :
    strip (v ++ ws) = strip v := by
  induction v with
  | nil =>
    unfold strip lstrip
    rw [List.nil_append, dropWhile_all _ _ h]; rfl
  | cons c v ih =>
    unfold strip lstrip at ih ⊢
    by_cases hc : pyIsSpace c = true
    · rw [List.cons_append, List.dropWhile_cons, if_pos hc, List.dropWhile_cons, if_pos hc]
      exact ih
    · rw [List.cons_append, List.dropWhile_cons, if_neg hc, List.dropWhile_cons, if_neg hc]
      exact rstrip_append_right ws (c :: v) h

/-- surrounding a string by white space does not change its `strip` -/
theorem strip_surround (w1 w2 v : Str) (h1 : ∀ c ∈ w1, pyIsSpace c = true)
    (h2 : ∀ c ∈ w2, pyIsSpace c = true) : strip (w1 ++ v ++ w2) = strip v := by
  rw [strip_append_right _ _ h2, strip_append_left _ _ h1]

/-- `u` is `rstrip u` followed by white space -/
theorem rstrip_append_takeWhile (u : Str) :
    rstrip u ++ (u.reverse.takeWhile pyIsSpace).reverse = u := by
  unfold rstrip
  rw [← List.reverse_append, List.takeWhile_append_dropWhile, List.reverse_reverse]

theorem dropWhile_dropWhile {α} (p : α → Bool) (l : List α) :
    (l.dropWhile p).dropWhile p = l.dropWhile p := by
  induction l with
  | nil => rfl
  | cons a l ih =>
    by_cases h : p a = true
    · rw [List.dropWhile_cons, if_pos h]; exact ih
    · rw [List.dropWhile_cons, if_neg h, List.dropWhile_cons, if_neg h]

theorem rstrip_rstrip (u : Str) : rstrip (rstrip u) = rstrip u := by
  unfold rstrip
  rw [List.reverse_reverse, dropWhile_dropWhile]

/-- a string that does not start with white space keeps that property under `rstrip` -/
theorem lstrip_rstrip_of_lstrip_eq (u : Str) (h : lstrip u = u) : lstrip (rstrip u) = rstrip u := by
  cases hr : rstrip u with
  | nil => rfl
  | cons a r =>
    have hu := rstrip_append_takeWhile u
    rw [hr] at hu
    cases u with
    | nil => simp at hu
    | cons b u' =>
      have hab : a = b := by
        rw [List.cons_append] at hu; exact (List.cons.inj hu).1
      subst hab
      unfold lstrip at h ⊢
      by_cases hs : pyIsSpace a = true
      · rw [List.dropWhile_cons, if_pos hs] at h
        have hl := (List.dropWhile_suffix pyIsSpace (l := u')).length_le
        rw [h] at hl; simp at hl; omega
      · rw [List.dropWhile_cons, if_neg hs]

theorem lstrip_lstrip (u : Str) : lstrip (lstrip u) = lstrip u := dropWhile_dropWhile _ _

theorem strip_strip (v : Str) : strip (strip v) = strip v := by
  unfold strip
  rw [lstrip_rstrip_of_lstrip_eq _ (lstrip_lstrip v), rstrip_rstrip]

/-! ### upper -/

theorem upperChar_upperChar (c : Char) : upperChar (upperChar c) = upperChar c := by
  unfold upperChar
  by_cases h : 'a'.toNat ≤ c.toNat ∧ c.toNat ≤ 'z'.toNat
  · rw [if_pos h]
    have h1 : ('a'.toNat) = 97 := rfl
    have h2 : ('z'.toNat) = 122 := rfl
    rw [h1, h2] at h
    have hv : (c.toNat - 32).isValidChar := by
      left; omega
    have : (Char.ofNat (c.toNat - 32)).toNat = c.toNat - 32 := by
      rw [Char.ofNat, dif_pos hv]; rfl
    rw [if_neg]
    rw [this, h1, h2]; omega
  · rw [if_neg h, if_neg h]

theorem upper_upper (s : Str) : upper (upper s) = upper s := by
  unfold upper
  rw [List.map_map]
  apply List.map_congr_left
  intro c _
  exact upperChar_upperChar c

/-! ### partition / rpartition -/

theorem partition_of_not_mem (sep : Char) (s : Str) (h : sep ∉ s) : partition sep s = (s, false, []) := by
  induction s with
  | nil => rfl
  | cons c cs ih =>
    rw [List.mem_cons, not_or] at h
    rw [partition, if_neg (fun e => h.1 e.symm), ih h.2]

theorem partition_first (sep : Char) (a b : Str) (h : sep ∉ a) :
    partition sep (a ++ sep :: b) = (a, true, b) := by
  induction a with
  | nil => simp [partition]
  | cons c cs ih =>
    rw [List.mem_cons, not_or] at h
    rw [List.cons_append, partition, if_neg (fun e => h.1 e.symm), ih h.2]

theorem rpartition_of_not_mem (sep : Char) (s : Str) (h : sep ∉ s) : rpartition sep s = ([], false, s) := by
  unfold rpartition
  rw [partition_of_not_mem sep s.reverse (fun hm => h (List.mem_reverse.mp hm))]
  rfl

/-- `rpartition` splits at the LAST separator -/
theorem rpartition_last (sep : Char) (a b : Str) (h : sep ∉ b) :
    rpartition sep (a ++ sep :: b) = (a, true, b) := by
  unfold rpartition
  rw [List.reverse_append, List.reverse_cons, List.append_assoc, List.singleton_append,
    partition_first sep b.reverse a.reverse (fun hm => h (List.mem_reverse.mp hm))]
  simp

theorem lowerChar_eq_dot (c : Char) (h : lowerChar c = '.') : c = '.' := by
  unfold lowerChar at h
  by_cases hc : 'A'.toNat ≤ c.toNat ∧ c.toNat ≤ 'Z'.toNat
  · rw [if_pos hc] at h
    have h1 : ('A'.toNat) = 65 := rfl
    have h2 : ('Z'.toNat) = 90 := rfl
    rw [h1, h2] at hc
    have hv : (c.toNat + 32).isValidChar := by left; omega
    have : (Char.ofNat (c.toNat + 32)).toNat = c.toNat + 32 := by
      rw [Char.ofNat, dif_pos hv]; rfl
    rw [h] at this
    have h3 : ('.'.toNat) = 46 := rfl
    omega
  · rw [if_neg hc] at h; exact h

theorem lower_append (a b : Str) : lower (a ++ b) = lower a ++ lower b := by
  unfold lower; rw [List.map_append]

theorem lower_cons (c : Char) (s : Str) : lower (c :: s) = lowerChar c :: lower s := rfl

theorem dot_not_mem_lower (s : Str) (h : '.' ∉ s) : '.' ∉ lower s := by
  intro hm
  unfold lower at hm
  obtain ⟨c, hc, he⟩ := List.mem_map.mp hm
  rw [lowerChar_eq_dot c he] at hc
  exact h hc

end Simfile.O
