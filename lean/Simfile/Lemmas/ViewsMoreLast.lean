/-
Last write wins: for every class over the basic alphabet (stated with the effective key of each later operation),
and for SM charts over the whole interface on the syntax of the history (C18, second round).
-/
import Simfile.Lemmas.ViewsMoreRun
namespace Simfile.VX
open Simfile Simfile.O Simfile.V

/-! ### every class, basic alphabet -/

/-- a key that no operation of the history acts on keeps its value (or its absence) -/
theorem vrun_get?_untouched (k : Kind) (d : Dict) (ops : List VOp) (key : Str)
    (h : ∀ i (hi : i < ops.length), effKey k (vrun k d (ops.take i)).1 ops[i] ≠ some key) :
    (vrun k d ops).1.get? key = d.get? key := by
  induction ops generalizing d with
  | nil => rfl
  | cons op ops ih =>
    rw [vrun_cons]
    have h0 := h 0 (by simp)
    simp only [List.take_zero, List.getElem_cons_zero] at h0
    rw [ih (vstep k d op).1 ?_, vstep_get?_ne k d op key h0]
    intro i hi
    have := h (i + 1) (by simpa using hi)
    simpa only [List.take_succ_cons, vrun_cons, List.getElem_cons_succ] using this

/-! ### SM charts, on the syntax of the history -/

theorem smWrites_eq_some_iff (key : Str) (op : VOpX) (v : Str) :
    smWrites key op = some v ↔ op = .base (.setKey key v) ∨ op = .base (.setAttr (lower key) v) := by
  constructor
  · intro h
    cases op with
    | base b =>
      cases b with
      | setKey k v' =>
        simp only [smWrites] at h
        split at h
        · rename_i e; subst e; cases h; exact Or.inl rfl
        · cases h
      | setAttr a v' =>
        simp only [smWrites] at h
        split at h
        · rename_i e; subst e; cases h; exact Or.inr rfl
        · cases h
      | _ => cases h
    | _ => cases h
  · rintro (rfl | rfl) <;> simp [smWrites]

theorem smWrites_eq_none_iff (key : Str) (op : VOpX) :
    smWrites key op = none ↔ ∀ w, op ≠ .base (.setKey key w) ∧ op ≠ .base (.setAttr (lower key) w) := by
  constructor
  · intro h w
    constructor
    · intro e; rw [(smWrites_eq_some_iff key op w).mpr (Or.inl e)] at h; cases h
    · intro e; rw [(smWrites_eq_some_iff key op w).mpr (Or.inr e)] at h; cases h
  · intro h
    cases hw : smWrites key op with
    | none => rfl
    | some v =>
      rcases (smWrites_eq_some_iff key op v).mp hw with e | e
      · exact absurd e (h v).1
      · exact absurd e (h v).2

theorem lastWrite_append (key : Str) (l1 l2 : List VOpX) :
    lastWrite key (l1 ++ l2) = (lastWrite key l2).or (lastWrite key l1) := by
  induction l1 with
  | nil => simp [lastWrite_nil]
  | cons op l1 ih =>
    rw [List.cons_append, lastWrite_cons, lastWrite_cons, ih]
    cases lastWrite key l2 <;> simp

theorem lastWrite_eq_none (key : Str) (ops : List VOpX) (h : ∀ o ∈ ops, smWrites key o = none) :
    lastWrite key ops = none := by
  induction ops with
  | nil => rfl
  | cons op ops ih =>
    rw [lastWrite_cons, ih (fun o ho => h o (List.mem_cons_of_mem _ ho)), h op List.mem_cons_self]; rfl

theorem lastWrite_split (key : Str) (pre post : List VOpX) (op : VOpX) (v : Str)
    (hop : smWrites key op = some v) (hpost : ∀ o ∈ post, smWrites key o = none) :
    lastWrite key (pre ++ op :: post) = some v := by
  rw [lastWrite_append, lastWrite_cons, lastWrite_eq_none key post hpost, hop]; rfl

theorem lastWrite_none_mp (key : Str) (ops : List VOpX) (h : lastWrite key ops = none) :
    ∀ o ∈ ops, smWrites key o = none := by
  induction ops with
  | nil => intro o ho; cases ho
  | cons op ops ih =>
    rw [lastWrite_cons] at h
    cases hl : lastWrite key ops with
    | some w => rw [hl] at h; cases h
    | none =>
      rw [hl] at h
      have h' : smWrites key op = none := by simpa using h
      intro o ho
      rcases List.mem_cons.mp ho with rfl | ho
      · exact h'
      · exact ih hl o ho

theorem lastWrite_eq_none_iff (key : Str) (ops : List VOpX) :
    lastWrite key ops = none ↔ ∀ o ∈ ops, smWrites key o = none :=
  ⟨lastWrite_none_mp key ops, lastWrite_eq_none key ops⟩

/-- `lastWrite` is `some v` exactly when the history splits at a last assignment of `v` -/
theorem lastWrite_eq_some_iff (key : Str) (ops : List VOpX) (v : Str) :
    lastWrite key ops = some v ↔
      ∃ pre op post, ops = pre ++ op :: post ∧ smWrites key op = some v ∧ ∀ o ∈ post, smWrites key o = none := by
  constructor
  · intro h
    induction ops with
    | nil => cases h
    | cons op ops ih =>
      rw [lastWrite_cons] at h
      cases hl : lastWrite key ops with
      | some w =>
        rw [hl] at h
        have h' : w = v := by simpa using h
        subst h'
        obtain ⟨pre, o, post, e, h1, h2⟩ := ih hl
        exact ⟨op :: pre, o, post, by rw [e]; rfl, h1, h2⟩
      | none =>
        rw [hl] at h
        have h' : smWrites key op = some v := by simpa using h
        exact ⟨[], op, ops, rfl, h', lastWrite_none_mp key ops hl⟩
  · rintro ⟨pre, op, post, rfl, h1, h2⟩
    exact lastWrite_split key pre post op v h1 h2

end Simfile.VX
