/-
C11 (float) helper: closed-term evaluation of the event list of the sample timing data of Props/C11Float.lean
(`merge2` is defined by well-founded recursion, so the kernel does not evaluate `events` by itself; the remaining
stages — states, error bounds, search — are evaluated by the kernel in Props/C11Float.lean).
-/
import Simfile.Model.EngineF
import Simfile.Lemmas.EngineBasic
namespace Simfile

/-- the sample of Props/C11Float.lean -/
def sampleTDF : TimingData :=
  { bpms := [(0, 120), (1, 240)], stops := [(2, 1/2)], delays := [(2, 1/4)], warps := [(0, 3)], offset := -9/1000 }

theorem merge2_nil_rightF (xs : List TEvent) : merge2 xs [] = xs := by
  cases xs <;> simp [merge2]

theorem coalesce_sampleF : coalesceWarps [((0 : Rat), (3 : Rat))] = ([0], [3]) := by decide +kernel

theorem roundToTick_three : roundToTick 3 = 3 := by decide +kernel

theorem events_sampleF : events sampleTDF =
    [⟨0,0,.warp⟩, ⟨1,240,.bpm⟩, ⟨2,1/4,.delay⟩, ⟨2,1/4,.delayEnd⟩, ⟨2,1/2,.stop⟩, ⟨2,1/2,.stopEnd⟩, ⟨3,0,.warpEnd⟩] := by
  norm_num [events, sampleTDF, coalesce_sampleF, merge2, merge2_nil_rightF, TEvent.lt, keyLT]

end Simfile
