/-
The concrete tokenizer (`MsdP.parse`) plugged into the entry-point model, the parser's error at load level, class
constructors versus `load`, and the chart-level entry points (`SSCChart.from_str`, `SMChart.from_str/from_msd`).
-/
import Simfile.Model.Entry
import Simfile.Model.MsdParser
import Simfile.Lemmas.LoadRules
import Simfile.Lemmas.ObjectsSSC
import Simfile.Lemmas.StrLemmas
namespace Simfile.MsdP
open Simfile Simfile.O

/-- the tokenizer argument of `loadFile` instantiated with the modelled msdparser (the same term as in
`Model/EndToEnd.lean`); a text on which the lexer fails its assertion (unpaired final backslash, excluded by the
property) is given the empty result -/
def tokOf (strict : Bool) (text : Str) : Tokens := (parse strict text).getD { params := [], strayError := false }

/-- the hypothesis `htok` of `C03.entry_points_agree` holds for the concrete tokenizer -/
theorem tokOf_nil (strict : Bool) : tokOf strict [] = ⟨[], false⟩ := by
  cases strict <;> rfl

theorem tokOf_of_parse {strict : Bool} {text : Str} {t : Tokens} (h : parse strict text = some t) :
    tokOf strict text = t := by
  simp [tokOf, h]

/-! ### class constructors and the parser's error -/

/-- `load` is the class constructor of the detected format, also when the peek at the first parameter fails -/
theorem load_eq_loadAs (name : Option Str) (t : Tokens) : load name t = loadAs (formatOf name t.params) t := by
  unfold load formatOf
  cases name.bind suffixRule with
  | some b => rfl
  | none =>
    simp only
    split
    · rename_i h
      obtain ⟨ps, se⟩ := t
      simp only [List.isEmpty_iff] at h
      obtain ⟨rfl, rfl⟩ := h
      rfl
    · rfl

theorem loadAs_ssc (t : Tokens) :
    loadAs true t = if t.strayError then .error .msdParserError else .ok (.ssc (loadSSC t.params)) := by
  unfold loadAs
  simp only [if_true]
  rfl

theorem loadAs_sm (t : Tokens) :
    loadAs false t = match loadSM t.params with
      | .error e => .error e
      | .ok s => if t.strayError then .error .msdParserError else .ok (.sm s) := by
  unfold loadAs
  simp only [Bool.false_eq_true, if_false]
  cases loadSM t.params <;> rfl

/-- the class constructor returns the parser's error iff the tokenizer stopped with it and the loader's own error
(an SM chart with fewer than six components among the parameters already produced) did not come first -/
theorem loadAs_parser_error_iff (b : Bool) (t : Tokens) :
    loadAs b t = .error .msdParserError ↔
      t.strayError = true ∧ (b = true ∨ ∃ s, loadSM t.params = .ok s) := by
  cases b with
  | true =>
    rw [loadAs_ssc]
    cases t.strayError <;> simp
  | false =>
    rw [loadAs_sm]
    rcases loadSM_cases t.params with ⟨_, he⟩ | ⟨_, s, hs⟩
    · rw [he]; simp
    · rw [hs]
      cases t.strayError <;> simp

/-! ### `SSCChart.from_str` -/

theorem loadSSCChartBody_stops (pre : List Param) (last : Param) (post : List Param) (d : Dict)
    (h : ∀ p ∈ pre, isNotesKey p = false) (hl : isNotesKey last = true) :
    loadSSCChartBody (pre ++ last :: post) d = setAll d ((pre ++ [last]).map kvOf) := by
  induction pre generalizing d with
  | nil =>
    simp only [isNotesKey, decide_eq_true_eq] at hl
    simp only [List.nil_append, loadSSCChartBody, hl, if_true, List.map_cons, List.map_nil, setAll_cons, setAll_nil,
      kvOf]
  | cons p pre ih =>
    have hp := h p List.mem_cons_self
    simp only [isNotesKey, decide_eq_false_iff_not] at hp
    rw [List.cons_append, loadSSCChartBody]
    simp only [hp, if_false]
    rw [ih _ (fun q hq => h q (List.mem_cons_of_mem _ hq))]
    rfl

theorem loadSSCChartBody_all (body : List Param) (d : Dict) (h : ∀ p ∈ body, isNotesKey p = false) :
    loadSSCChartBody body d = setAll d (body.map kvOf) := by
  induction body generalizing d with
  | nil => rfl
  | cons p body ih =>
    have hp := h p List.mem_cons_self
    simp only [isNotesKey, decide_eq_false_iff_not] at hp
    rw [loadSSCChartBody]
    simp only [hp, if_false]
    rw [ih _ (fun q hq => h q (List.mem_cons_of_mem _ hq))]
    rfl

/-! ### `SMChart.from_msd` / `from_str` -/

theorem loadSM_single (p : Param) (h : upper p.key = kNOTES) :
    loadSM [p] = (smChartFromMsd p.comps.tail).map fun c => ⟨[], [c]⟩ := by
  simp only [loadSM, List.foldlM_cons, List.foldlM_nil, h, if_true]
  cases smChartFromMsd p.comps.tail <;> rfl

end Simfile.MsdP
