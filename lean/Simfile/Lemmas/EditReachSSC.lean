/-
Helper lemmas for C02 (growth) — reachability (`Props/C02Reach.lean`): every edit of `Model/EditSSC.lean` that meets the
caller's obligations keeps an SSC simfile inside the round-trip domain `C02.DomSSC`.
-/
import Simfile.Model.EditSSC
import Simfile.Lemmas.Views
import Simfile.Lemmas.EditReach
import Simfile.Props.C02
namespace Simfile
open Simfile.O Simfile.V

/-- the caller's obligations for one edit (same body as `C02Reach.EditOK`, which is defined downstream) -/
def EditOKSSCL : SSCEdit → Prop
  | .setKey k _ => upper k = k ∧ k ≠ kNOTEDATA
  | .delKey _ => True
  | .setAttr _ _ => True
  | .delAttr _ => True
  | .appendChart c => C02.DomSSCChart c
  | .insertChart _ c => C02.DomSSCChart c
  | .setChart _ c => C02.DomSSCChart c
  | .popChart _ => True
  | .reverseCharts => True
  | .clearCharts => True
  | .chartSetKey _ k v => upper k = k ∧ k ≠ kNOTEDATA ∧ ((k = kNOTES ∨ k = kNOTES2) → v ≠ none)
  | .chartDelKey _ k => k ≠ kNOTES ∧ k ≠ kNOTES2
  | .chartSetAttr _ _ _ => True

namespace EditReachSSC

/-! ### the property dictionary (of the simfile and of a chart) -/

/-- the three dictionary conditions of `DomSSC` / `DomSSCChart` -/
structure PropsOKS (d : Dict) : Prop where
  wf : d.WF
  upper : ∀ k ∈ d.keys, upper k = k
  notND : ∀ k ∈ d.keys, k ≠ kNOTEDATA

theorem propsS_set (d : Dict) (k : Str) (v : Option Str) (h : PropsOKS d) (hu : upper k = k) (hn : k ≠ kNOTEDATA) :
    PropsOKS (d.set k v) := by
  have hmem : ∀ x ∈ Dict.keys (d.set k v), x ∈ Dict.keys d ∨ x = k := by
    intro x hx
    rw [keys_set] at hx
    split at hx
    · exact Or.inl hx
    · rcases List.mem_append.mp hx with hx | hx
      · exact Or.inl hx
      · exact Or.inr (List.mem_singleton.mp hx)
  refine ⟨WF_set _ _ _ h.wf, ?_, ?_⟩
  · intro x hx
    rcases hmem x hx with hx | rfl
    · exact h.upper x hx
    · exact hu
  · intro x hx
    rcases hmem x hx with hx | rfl
    · exact h.notND x hx
    · exact hn

theorem propsS_erase (d : Dict) (k : Str) (h : PropsOKS d) : PropsOKS (d.erase k) := by
  have hmem : ∀ x ∈ Dict.keys (d.erase k), x ∈ Dict.keys d := by
    intro x hx
    rw [keys_erase] at hx
    exact (List.mem_filter.mp hx).1
  exact ⟨WF_erase _ _ h.wf, fun x hx => h.upper x (hmem x hx), fun x hx => h.notND x (hmem x hx)⟩

/-- every key and alias of the class's generated table is upper-case and is not NOTEDATA -/
def TableOK (k : Kind) : Prop :=
  ∀ e ∈ propsTable k, (upper e.2.1 = e.2.1 ∧ e.2.1 ≠ kNOTEDATA) ∧
    ∀ al, e.2.2 = some al → upper al = al ∧ al ≠ kNOTEDATA

theorem sscSimfile_table_keys : TableOK .sscSimfile := by
  show ∀ e ∈ T.sscSimfileProps, (upper e.2.1 = e.2.1 ∧ e.2.1 ≠ kNOTEDATA) ∧
    ∀ al, e.2.2 = some al → upper al = al ∧ al ≠ kNOTEDATA
  decide +kernel

theorem sscChart_table_keys : TableOK .sscChart := by
  show ∀ e ∈ T.sscChartProps, (upper e.2.1 = e.2.1 ∧ e.2.1 ≠ kNOTEDATA) ∧
    ∀ al, e.2.2 = some al → upper al = al ∧ al ≠ kNOTEDATA
  decide +kernel

theorem attrKey_ok (k : Kind) (ht : TableOK k) (d : Dict) (a key : Str) (h : attrKey k d a = some key) :
    upper key = key ∧ key ≠ kNOTEDATA := by
  obtain ⟨key0, alias, hf, rfl⟩ := attrKey_some _ d a key h
  have hm : (a, key0, alias) ∈ propsTable k := List.mem_of_find?_eq_some hf
  obtain ⟨h1, h2⟩ := ht _ hm
  rcases nameOrAlias_cases d key0 alias with e | ⟨al, hal, _, _, e⟩
  · rw [e]; exact h1
  · rw [e]; exact h2 al hal

theorem propsS_delKey (k : Kind) (d : Dict) (key : Str) (h : PropsOKS d) : PropsOKS (vstep k d (.delKey key)).1 := by
  rw [vstep_delKey]
  split
  · exact h
  · split
    · exact propsS_erase _ _ h
    · exact h

theorem propsS_setAttr (k : Kind) (ht : TableOK k) (d : Dict) (a v : Str) (h : PropsOKS d) :
    PropsOKS (vstep k d (.setAttr a v)).1 := by
  rw [vstep_setAttr]
  cases hk : attrKey k d a with
  | none => exact h
  | some key =>
    simp only []
    split
    · exact h
    · obtain ⟨hu, hn⟩ := attrKey_ok k ht d a key hk
      exact propsS_set _ _ _ h hu hn

theorem propsS_delAttr (k : Kind) (d : Dict) (a : Str) (h : PropsOKS d) : PropsOKS (vstep k d (.delAttr a)).1 := by
  rw [vstep_delAttr]
  cases hk : attrKey k d a with
  | none => exact h
  | some key =>
    simp only []
    split
    · exact h
    · split
      · exact propsS_erase _ _ h
      · exact h

/-! ### the note data of a chart -/

/-- the `notes` condition of `DomSSCChart` without `notesKey`: NOTES holds a string, or NOTES is absent and NOTES2 holds a
string -/
def NotesOK (d : Dict) : Prop :=
  (∃ n, d.get? kNOTES = some (some n)) ∨ (d.contains kNOTES = false ∧ ∃ n, d.get? kNOTES2 = some (some n))

theorem notes_iff_ok (c : SSCChart) : (∃ n, c.props.get? (notesKey c) = some (some n)) ↔ NotesOK c.props := by
  unfold notesKey NotesOK
  cases h1 : Dict.contains c.props kNOTES with
  | true =>
    simp only [Bool.not_true, Bool.false_and, Bool.false_eq_true, if_false]
    constructor
    · intro h; exact Or.inl h
    · rintro (h | ⟨h, _⟩)
      · exact h
      · cases h
  | false =>
    have g1 : Dict.get? c.props kNOTES = none := get?_of_contains_false _ _ h1
    cases h2 : Dict.contains c.props kNOTES2 with
    | true =>
      simp only [Bool.not_false, Bool.true_and, if_true]
      constructor
      · intro h; exact Or.inr ⟨by trivial, h⟩
      · rintro (⟨n, h⟩ | ⟨_, h⟩)
        · rw [g1] at h; cases h
        · exact h
    | false =>
      have g2 : Dict.get? c.props kNOTES2 = none := get?_of_contains_false _ _ h2
      simp only [Bool.not_false, Bool.true_and, Bool.false_eq_true, if_false]
      constructor
      · intro h; exact Or.inl h
      · rintro (h | ⟨_, n, h⟩)
        · exact h
        · rw [g2] at h; cases h

theorem notes_ne : kNOTES ≠ kNOTES2 := by decide

theorem notesOK_set (d : Dict) (k : Str) (v : Option Str) (h : NotesOK d)
    (hv : (k = kNOTES ∨ k = kNOTES2) → v ≠ none) : NotesOK (d.set k v) := by
  by_cases e1 : k = kNOTES
  · subst e1
    cases v with
    | none => exact absurd rfl (hv (Or.inl rfl))
    | some n => exact Or.inl ⟨n, get?_set_self _ _ _⟩
  · by_cases e2 : k = kNOTES2
    · subst e2
      cases v with
      | none => exact absurd rfl (hv (Or.inr rfl))
      | some n =>
        rcases h with ⟨m, hm⟩ | ⟨hc, m, hm⟩
        · exact Or.inl ⟨m, by rw [get?_set_ne _ _ _ _ notes_ne]; exact hm⟩
        · exact Or.inr ⟨by rw [contains_set_ne _ _ _ _ notes_ne]; exact hc, n, get?_set_self _ _ _⟩
    · have n1 : kNOTES ≠ k := fun e => e1 e.symm
      have n2 : kNOTES2 ≠ k := fun e => e2 e.symm
      rcases h with ⟨m, hm⟩ | ⟨hc, m, hm⟩
      · exact Or.inl ⟨m, by rw [get?_set_ne _ _ _ _ n1]; exact hm⟩
      · exact Or.inr ⟨by rw [contains_set_ne _ _ _ _ n1]; exact hc, m, by rw [get?_set_ne _ _ _ _ n2]; exact hm⟩

theorem notesOK_erase (d : Dict) (k : Str) (h : NotesOK d) (h1 : k ≠ kNOTES) (h2 : k ≠ kNOTES2) :
    NotesOK (d.erase k) := by
  have n1 : kNOTES ≠ k := fun e => h1 e.symm
  have n2 : kNOTES2 ≠ k := fun e => h2 e.symm
  rcases h with ⟨m, hm⟩ | ⟨hc, m, hm⟩
  · exact Or.inl ⟨m, by rw [get?_erase_ne _ _ _ n1]; exact hm⟩
  · refine Or.inr ⟨?_, m, by rw [get?_erase_ne _ _ _ n2]; exact hm⟩
    rw [contains_eq, get?_erase_ne _ _ _ n1, ← contains_eq]; exact hc

/-! ### chart-level edits -/

theorem domChart_props (c : SSCChart) (h : C02.DomSSCChart c) : PropsOKS c.props := ⟨h.wf, h.upper, h.notND⟩

theorem domChart_mk (d : Dict) (hp : PropsOKS d) (hn : NotesOK d) : C02.DomSSCChart ⟨d⟩ :=
  ⟨hp.wf, hp.upper, hp.notND, (notes_iff_ok ⟨d⟩).mpr hn⟩

theorem domChart_set (c : SSCChart) (k : Str) (v : Option Str) (h : C02.DomSSCChart c) (hu : upper k = k)
    (hn : k ≠ kNOTEDATA) (hv : (k = kNOTES ∨ k = kNOTES2) → v ≠ none) : C02.DomSSCChart ⟨c.props.set k v⟩ :=
  domChart_mk _ (propsS_set _ _ _ (domChart_props c h) hu hn) (notesOK_set _ _ _ ((notes_iff_ok c).mp h.notes) hv)

theorem domChart_setKey (c : SSCChart) (k : Str) (v : Option Str) (h : C02.DomSSCChart c) (hu : upper k = k)
    (hn : k ≠ kNOTEDATA) (hv : (k = kNOTES ∨ k = kNOTES2) → v ≠ none) : C02.DomSSCChart ⟨setKeyOpt c.props k v⟩ :=
  domChart_set c k v h hu hn hv

theorem domChart_delKey (c : SSCChart) (k : Str) (h : C02.DomSSCChart c) (h1 : k ≠ kNOTES) (h2 : k ≠ kNOTES2) :
    C02.DomSSCChart ⟨(vstep .sscChart c.props (.delKey k)).1⟩ := by
  rw [vstep_delKey]
  split
  · exact h
  · split
    · exact domChart_mk _ (propsS_erase _ _ (domChart_props c h)) (notesOK_erase _ _ ((notes_iff_ok c).mp h.notes) h1 h2)
    · exact h

theorem domChart_setAttr (c : SSCChart) (a v : Str) (h : C02.DomSSCChart c) :
    C02.DomSSCChart ⟨(vstep .sscChart c.props (.setAttr a v)).1⟩ := by
  rw [vstep_setAttr]
  cases hk : attrKey .sscChart c.props a with
  | none => exact h
  | some key =>
    simp only []
    split
    · exact h
    · obtain ⟨hu, hn⟩ := attrKey_ok .sscChart sscChart_table_keys c.props a key hk
      exact domChart_set c key (some v) h hu hn (fun _ e => by cases e)

end EditReachSSC

open EditReach EditReachSSC

theorem applyEditSSC_dom (s : SSCSimfile) (e : SSCEdit) (h : C02.DomSSC s) (he : EditOKSSCL e) :
    C02.DomSSC (applyEditSSC s e) := by
  have hp : PropsOKS s.props := ⟨h.wf, h.upper, h.notND⟩
  have mk : ∀ d, PropsOKS d → C02.DomSSC { s with props := d } := fun d hd => ⟨hd.wf, hd.upper, hd.notND, h.charts⟩
  have mkc : ∀ l : List SSCChart, (∀ c ∈ l, C02.DomSSCChart c) → C02.DomSSC { s with charts := l } :=
    fun l hl => ⟨h.wf, h.upper, h.notND, hl⟩
  cases e with
  | setKey k v => exact mk _ (propsS_set _ _ _ hp he.1 he.2)
  | delKey k => exact mk _ (propsS_delKey _ _ _ hp)
  | setAttr a v => exact mk _ (propsS_setAttr _ sscSimfile_table_keys _ _ _ hp)
  | delAttr a => exact mk _ (propsS_delAttr _ _ _ hp)
  | appendChart c =>
    refine mkc _ ?_
    intro x hx
    rcases List.mem_append.mp hx with hx | hx
    · exact h.charts x hx
    · rw [List.mem_singleton.mp hx]; exact he
  | insertChart i c =>
    refine mkc _ ?_
    intro x hx
    rcases mem_listInsertAt _ _ _ _ hx with hx | rfl
    · exact h.charts x hx
    · exact he
  | setChart i c =>
    refine mkc _ ?_
    intro x hx
    rcases mem_listSetAt _ _ _ _ hx with hx | rfl
    · exact h.charts x hx
    · exact he
  | popChart i =>
    refine mkc _ ?_
    intro x hx
    exact h.charts x (List.mem_of_mem_eraseIdx hx)
  | reverseCharts =>
    refine mkc _ ?_
    intro x hx
    exact h.charts x (List.mem_reverse.mp hx)
  | clearCharts =>
    refine mkc _ ?_
    intro x hx
    cases hx
  | chartSetKey i k v =>
    show C02.DomSSC (match s.charts[i]? with
      | some c => { s with charts := listSetAt s.charts i ⟨setKeyOpt c.props k v⟩ }
      | none => s)
    cases hc : s.charts[i]? with
    | none => exact h
    | some c =>
      refine mkc _ ?_
      intro x hx
      rcases mem_listSetAt _ _ _ _ hx with hx | rfl
      · exact h.charts x hx
      · exact domChart_setKey c k v (h.charts c (List.mem_of_getElem? hc)) he.1 he.2.1 he.2.2
  | chartDelKey i k =>
    show C02.DomSSC (match s.charts[i]? with
      | some c => { s with charts := listSetAt s.charts i ⟨(vstep .sscChart c.props (.delKey k)).1⟩ }
      | none => s)
    cases hc : s.charts[i]? with
    | none => exact h
    | some c =>
      refine mkc _ ?_
      intro x hx
      rcases mem_listSetAt _ _ _ _ hx with hx | rfl
      · exact h.charts x hx
      · exact domChart_delKey c k (h.charts c (List.mem_of_getElem? hc)) he.1 he.2
  | chartSetAttr i a v =>
    show C02.DomSSC (match s.charts[i]? with
      | some c => { s with charts := listSetAt s.charts i ⟨(vstep .sscChart c.props (.setAttr a v)).1⟩ }
      | none => s)
    cases hc : s.charts[i]? with
    | none => exact h
    | some c =>
      refine mkc _ ?_
      intro x hx
      rcases mem_listSetAt _ _ _ _ hx with hx | rfl
      · exact h.charts x hx
      · exact domChart_setAttr c a v (h.charts c (List.mem_of_getElem? hc))

theorem applyEditsSSC_dom (s : SSCSimfile) (es : List SSCEdit) (h : C02.DomSSC s) (hes : ∀ e ∈ es, EditOKSSCL e) :
    C02.DomSSC (applyEditsSSC s es) := by
  induction es generalizing s with
  | nil => exact h
  | cons e es ih =>
    show C02.DomSSC (applyEditsSSC (applyEditSSC s e) es)
    exact ih _ (applyEditSSC_dom s e h (hes e List.mem_cons_self)) (fun e' he' => hes e' (List.mem_cons_of_mem _ he'))

theorem del_notes_not_dom :
    ¬ C02.DomSSC (applyEditSSC ⟨[], [⟨[(kNOTES, some ['0'])]⟩]⟩ (.chartDelKey 0 kNOTES)) := by
  decide +kernel

end Simfile
