/-
The lexer model `MsdP.lex` does not depend on its fuel once the fuel exceeds the length of the text;
`lexF` is the lexer with canonical fuel, with its unfolding equation.
-/
import Simfile.Model.MsdParser
namespace Simfile.MsdP

theorem length_dropWhile_le {α} (p : α → Bool) (l : List α) : (l.dropWhile p).length ≤ l.length := by
  induction l with
  | nil => simp
  | cons a l ih =>
    simp only [List.dropWhile_cons]
    split
    · simp only [List.length_cons]; omega
    · simp

/-- fuel independence -/
theorem lex_fuel : ∀ (n m : Nat) (s : Str) (i l : Bool), s.length < n → s.length < m →
    lex n s i l = lex m s i l := by
  intro n
  induction n with
  | zero => intro m s i l h; omega
  | succ n ih =>
    intro m s i l hn hm
    cases m with
    | zero => omega
    | succ m =>
      cases s with
      | nil => simp [lex]
      | cons c cs =>
        simp only [List.length_cons] at hn hm
        have hd := length_dropWhile_le isPlain cs
        have hd2 := length_dropWhile_le (fun x => !isNl x) cs
        have key : ∀ (r : Str) (i l : Bool), r.length ≤ cs.length → lex n r i l = lex m r i l :=
          fun r i l h => ih m r i l (by omega) (by omega)
        unfold lex
        simp only [key _ _ _ hd, key _ _ _ hd2, key cs _ _ (Nat.le_refl _)]
        cases cs with
        | nil => rfl
        | cons d cs' =>
          simp only [key cs' _ _ (by simp)]

/-- the lexer with canonical fuel -/
def lexF (s : Str) (i l : Bool) : Except LexErr (List Tok) := lex (s.length + 1) s i l

theorem lex_eq_lexF (n : Nat) (s : Str) (i l : Bool) (h : s.length ≤ n) : lex (n + 1) s i l = lexF s i l :=
  lex_fuel _ _ _ _ _ (by omega) (by omega)

end Simfile.MsdP

namespace Simfile.MsdP

theorem lexF_nil (i l : Bool) : lexF [] i l = .ok [] := rfl

/-- the unfolding equation of the lexer, fuel-free -/
theorem lexF_cons (c : Char) (cs : Str) (inside lastNl : Bool) :
    lexF (c :: cs) inside lastNl =
    if isPlain c then
      (lexF (cs.dropWhile isPlain) inside (endsNl (c :: cs.takeWhile isPlain))).map
        (Tok.text (c :: cs.takeWhile isPlain) :: ·)
    else if c = '#' then
      if !inside || lastNl then (lexF cs true lastNl).map (Tok.start :: ·)
      else (lexF cs inside false).map (Tok.text ['#'] :: ·)
    else if c = ':' then
      if inside then (lexF cs inside lastNl).map (Tok.next :: ·)
      else (lexF cs inside false).map (Tok.text [':'] :: ·)
    else if c = ';' then
      if inside then (lexF cs false lastNl).map (Tok.endp :: ·)
      else (lexF cs false false).map (Tok.text [';'] :: ·)
    else if c = '\\' then
      match cs with
      | [] => .error .unpairedBackslash
      | d :: cs' =>
        if inside then (lexF cs' inside lastNl).map (Tok.escape d :: ·)
        else (lexF cs' inside (isNl d)).map (Tok.text ['\\', d] :: ·)
    else
      match cs with
      | '/' :: _ =>
        (lexF (cs.dropWhile (fun x => !isNl x)) inside lastNl).map
          (Tok.comment (c :: cs.takeWhile (fun x => !isNl x)) :: ·)
      | _ => (lexF cs inside false).map (Tok.text ['/'] :: ·) := by
  have key : ∀ (r : Str) (i l : Bool), r.length ≤ cs.length → lex (cs.length + 1) r i l = lexF r i l :=
    fun r i l h => lex_eq_lexF _ r i l h
  have hd := length_dropWhile_le isPlain cs
  have hd2 := length_dropWhile_le (fun x => !isNl x) cs
  show lex (cs.length + 1 + 1) (c :: cs) inside lastNl = _
  unfold lex
  simp only [key _ _ _ hd, key _ _ _ hd2, key cs _ _ (Nat.le_refl _)]
  cases cs with
  | nil => rfl
  | cons d cs' =>
    have : lex (cs'.length + 1 + 1) cs' = lexF cs' := by
      funext i l; exact lex_eq_lexF _ cs' i l (by omega)
    simp only [List.length_cons, this]
    rfl

theorem lexF_plain {c : Char} (h : isPlain c = true) (cs : Str) (i l : Bool) :
    lexF (c :: cs) i l = (lexF (cs.dropWhile isPlain) i (endsNl (c :: cs.takeWhile isPlain))).map
        (Tok.text (c :: cs.takeWhile isPlain) :: ·) := by
  rw [lexF_cons, if_pos h]

theorem lexF_hash_start (cs : Str) (i l : Bool) (h : (!i || l) = true) :
    lexF ('#' :: cs) i l = (lexF cs true l).map (Tok.start :: ·) := by
  rw [lexF_cons, if_neg (by decide), if_pos rfl, if_pos h]

theorem lexF_hash_text (cs : Str) :
    lexF ('#' :: cs) true false = (lexF cs true false).map (Tok.text ['#'] :: ·) := by
  rw [lexF_cons, if_neg (by decide), if_pos rfl, if_neg (by decide)]

theorem lexF_colon_in (cs : Str) (l : Bool) :
    lexF (':' :: cs) true l = (lexF cs true l).map (Tok.next :: ·) := by
  rw [lexF_cons, if_neg (by decide), if_neg (by decide), if_pos rfl, if_pos rfl]

theorem lexF_semi_in (cs : Str) (l : Bool) :
    lexF (';' :: cs) true l = (lexF cs false l).map (Tok.endp :: ·) := by
  rw [lexF_cons, if_neg (by decide), if_neg (by decide), if_neg (by decide), if_pos rfl, if_pos rfl]

theorem lexF_bs_in (d : Char) (cs : Str) (l : Bool) :
    lexF ('\\' :: d :: cs) true l = (lexF cs true l).map (Tok.escape d :: ·) := by
  rw [lexF_cons, if_neg (by decide), if_neg (by decide), if_neg (by decide), if_neg (by decide), if_pos rfl]
  simp

theorem lexF_slash_text (cs : Str) (i l : Bool) (h : cs.head? ≠ some '/') :
    lexF ('/' :: cs) i l = (lexF cs i false).map (Tok.text ['/'] :: ·) := by
  rw [lexF_cons, if_neg (by decide), if_neg (by decide), if_neg (by decide), if_neg (by decide),
    if_neg (by decide)]
  split
  · simp at h
  · rfl

end Simfile.MsdP
