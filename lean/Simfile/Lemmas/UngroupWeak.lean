/-
Lemmas for C10: `ungroup_notes` on a grouped sequence that is only ordered by beat (the rows may have
been reordered, as JOIN_BY_NOTE_TYPE does): it never meets an orphan, and returns the notes and the
rebuilt tails of the sequence, rearranged, with non-decreasing beats.
-/
import Simfile.Lemmas.UngroupMore
namespace Simfile.Ungroup
open Simfile Simfile.Spec

/-- the notes a grouped item stands for -/
def notesOf : GNote → List Note
  | .plain n => [n]
  | .withTail h tb => [h, recon h tb]

/-- the conditions on a grouped sequence: beats non-decreasing, one player, tails not before their
heads, and every rebuilt tail lies before all later items of its column -/
structure Weak (p0 : Nat) (L : List GNote) : Prop where
  beats : (L.map GNote.beat).Pairwise (· ≤ ·)
  player : ∀ g ∈ L, g.key.1 = p0
  tailAfter : ∀ h tb, GNote.withTail h tb ∈ L → h.beat ≤ tb
  pni : L.Pairwise fun a g => ∀ h tb, a = .withTail h tb → g.column = h.column →
    toK (recon h tb).key < toK g.key

theorem Weak.tail {p0 : Nat} {g : GNote} {L : List GNote} (h : Weak p0 (g :: L)) : Weak p0 L where
  beats := by
    have := h.beats
    simp only [List.map_cons, List.pairwise_cons] at this
    exact this.2
  player := fun x hx => h.player x (by simp [hx])
  tailAfter := fun hd tb hm => h.tailAfter hd tb (by simp [hm])
  pni := (List.pairwise_cons.mp h.pni).2

theorem note_beat_le_gnote {y : Note} {g : GNote} (h : toK y.key ≤ toK g.key) (hp : y.key.1 = g.key.1) :
    y.beat ≤ g.beat := by
  cases g <;> exact beat_le_of_toK_le h hp

theorem gnote_beat_le_note {y : Note} {g : GNote} (h : toK g.key ≤ toK y.key) (hp : g.key.1 = y.key.1) :
    g.beat ≤ y.beat := by
  cases g <;> exact beat_le_of_toK_le h hp

/-- the loop invariant -/
structure Inv (p0 : Nat) (s : UState) (rest : List GNote) : Prop where
  outSorted : (s.out.map (·.beat)).Pairwise (· ≤ ·)
  outPend : ∀ y ∈ s.out, ∀ t ∈ s.pending, y.beat ≤ t.beat
  outRest : ∀ y ∈ s.out, ∀ g ∈ rest, y.beat ≤ g.beat
  pendSorted : PSorted s.pending
  pendPlayer : ∀ t ∈ s.pending, t.player = p0
  pendRest : ∀ t ∈ s.pending, ∀ g ∈ rest, t.column = g.column → toK t.key < toK g.key

theorem pairwise_append_singleton {l : List Rat} {b : Rat} (hl : l.Pairwise (· ≤ ·)) (hb : ∀ y ∈ l, y ≤ b) :
    (l ++ [b]).Pairwise (· ≤ ·) := by
  rw [List.pairwise_append]
  exact ⟨hl, List.pairwise_singleton _ _, fun y hy z hz => by simp at hz; subst hz; exact hb y hy⟩

/-- yielding the reached tails `r` and then the note `n` of the current item -/
theorem inv_emit {p0 : Nat} {r pd out : List Note} {g : GNote} {rest : List GNote} {n : Note}
    (hi : Inv p0 { pending := r ++ pd, out := out } (g :: rest))
    (hbeats : ∀ g2 ∈ rest, g.beat ≤ g2.beat) (hp : g.key.1 = p0) (hn : n.key = g.key) (hnb : n.beat = g.beat)
    (hr : ∀ y ∈ r, toK y.key < toK g.key) (hpd : ∀ y ∈ pd, toK g.key ≤ toK y.key) :
    Inv p0 { pending := pd, out := out ++ r ++ [n] } rest := by
  have hsorted := List.pairwise_append.mp hi.pendSorted
  have hplr : ∀ y ∈ r, y.key.1 = g.key.1 := fun y hy => by
    rw [hp]; exact hi.pendPlayer y (by simp [hy])
  have hplpd : ∀ y ∈ pd, y.key.1 = g.key.1 := fun y hy => by
    rw [hp]; exact hi.pendPlayer y (by simp [hy])
  have hrn : ∀ y ∈ r, y.beat ≤ g.beat := fun y hy => note_beat_le_gnote (le_of_lt (hr y hy)) (hplr y hy)
  refine ⟨?_, ?_, ?_, hsorted.2.1, fun t ht => hi.pendPlayer t (by simp [ht]), ?_⟩
  · -- the output stays ordered by beat
    simp only [List.map_append, List.map_cons, List.map_nil]
    apply pairwise_append_singleton
    · rw [List.pairwise_append]
      refine ⟨hi.outSorted, ?_, ?_⟩
      · exact (List.pairwise_map.mpr (hsorted.1.imp_of_mem fun {a b} ha hb hab =>
          beat_le_of_toK_le hab ((hplr a ha).trans (hplr b hb).symm)))
      · intro a ha b hb
        obtain ⟨y, hy, rfl⟩ := List.mem_map.mp ha
        obtain ⟨t, ht, rfl⟩ := List.mem_map.mp hb
        exact hi.outPend y hy t (by simp [ht])
    · intro b hb
      rw [hnb]
      rcases List.mem_append.mp hb with hb | hb
      · obtain ⟨y, hy, rfl⟩ := List.mem_map.mp hb
        exact hi.outRest y hy g (by simp)
      · obtain ⟨y, hy, rfl⟩ := List.mem_map.mp hb
        exact hrn y hy
  · intro y hy t ht
    have htg : g.beat ≤ t.beat := gnote_beat_le_note (hpd t ht) (hplpd t ht).symm
    simp only [List.mem_append, List.mem_singleton] at hy
    rcases hy with (hy | hy) | rfl
    · exact hi.outPend y hy t (by simp [ht])
    · exact le_trans (hrn y hy) htg
    · rw [hnb]; exact htg
  · intro y hy g2 hg2
    simp only [List.mem_append, List.mem_singleton] at hy
    rcases hy with (hy | hy) | rfl
    · exact hi.outRest y hy g2 (by simp [hg2])
    · exact le_trans (hrn y hy) (hbeats g2 hg2)
    · rw [hnb]; exact hbeats g2 hg2
  · intro t ht g2 hg2
    exact hi.pendRest t (by simp [ht]) g2 (by simp [hg2])

/-- pushing a rebuilt tail -/
theorem inv_insert {p0 : Nat} {pd out : List Note} {rest : List GNote} {t : Note}
    (hi : Inv p0 { pending := pd, out := out } rest) (hp : t.player = p0)
    (hout : ∀ y ∈ out, y.beat ≤ t.beat)
    (hrest : ∀ g2 ∈ rest, t.column = g2.column → toK t.key < toK g2.key) :
    Inv p0 { pending := heapInsert t pd, out := out } rest := by
  refine ⟨hi.outSorted, ?_, hi.outRest, heapInsert_sorted t pd hi.pendSorted, ?_, ?_⟩
  · intro y hy u hu
    rcases mem_heapInsert.mp hu with rfl | hu
    · exact hout y hy
    · exact hi.outPend y hy u hu
  · intro u hu
    rcases mem_heapInsert.mp hu with rfl | hu
    · exact hp
    · exact hi.pendPlayer u hu
  · intro u hu g2 hg2
    rcases mem_heapInsert.mp hu with rfl | hu
    · exact hrest g2 hg2
    · exact hi.pendRest u hu g2 hg2

/-- under the invariant the orphan check never fires -/
theorem not_inside {p0 : Nat} {s : UState} {g : GNote} {rest : List GNote} (hi : Inv p0 s (g :: rest))
    (n : Note) (hk : n.key = g.key) (hc : n.column = g.column) : inside s.pending n = false := by
  unfold inside
  rw [List.any_eq_false]
  intro t ht
  simp only [decide_eq_true_eq]
  intro hcol
  have hge := popReached_snd_ge n.key s.pending hi.pendSorted t ht
  have hmem : t ∈ s.pending := by
    rw [← popReached_append n.key s.pending]; simp [ht]
  have hlt := hi.pendRest t hmem g (by simp) (hcol.trans hc)
  rw [hk] at hge
  exact absurd hlt (not_lt.mpr hge)

theorem step_ok (p : Orphan) {p0 : Nat} {s : UState} {g : GNote} {rest : List GNote}
    (hw : Weak p0 (g :: rest)) (hi : Inv p0 s (g :: rest)) :
    ∃ s', ungroupStep p s g = .ok s' ∧ Inv p0 s' rest ∧ (finish s').Perm (finish s ++ notesOf g) := by
  have hbeats : ∀ g2 ∈ rest, g.beat ≤ g2.beat := by
    have := hw.beats
    simp only [List.map_cons, List.pairwise_cons] at this
    intro g2 hg2
    exact this.1 _ (List.mem_map.mpr ⟨g2, hg2, rfl⟩)
  have hp := hw.player g (by simp)
  have happ := popReached_append g.key s.pending
  have hr := popReached_fst_lt g.key s.pending
  have hpd := popReached_snd_ge g.key s.pending hi.pendSorted
  have hi' : Inv p0 { pending := (popReached g.key s.pending).1 ++ (popReached g.key s.pending).2, out := s.out }
      (g :: rest) := by rw [happ]; exact hi
  cases g with
  | plain n =>
    refine ⟨_, step_plain_outside p s n (not_inside hi n rfl rfl), ?_, ?_⟩
    · exact inv_emit hi' hbeats hp rfl rfl hr hpd
    · simp only [finish, notesOf]
      conv_rhs => rw [← happ]
      simp only [GNote.key, List.append_assoc]
      refine List.Perm.append_left _ (List.Perm.append_left _ ?_)
      exact List.perm_append_comm
  | withTail h tb =>
    refine ⟨_, step_withTail_outside p s h tb (not_inside hi h rfl rfl), ?_, ?_⟩
    · have h1 : Inv p0 ⟨(popReached h.key s.pending).2, s.out ++ (popReached h.key s.pending).1 ++ [h]⟩ rest :=
        inv_emit hi' hbeats hp rfl rfl hr hpd
      apply inv_insert h1
      · exact hp
      · have htb : h.beat ≤ tb := hw.tailAfter h tb (by simp)
        intro y hy
        have := h1.outSorted
        simp only [List.map_append, List.map_cons, List.map_nil] at this
        simp only [List.mem_append, List.mem_singleton] at hy
        have hyh : y.beat ≤ h.beat := by
          rcases hy with hy | rfl
          · have h2 := (List.pairwise_append.mp this).2.2
            exact h2 y.beat (by
              rw [← List.map_append]; exact List.mem_map.mpr ⟨y, by simpa using hy, rfl⟩) h.beat (by simp)
          · exact le_refl _
        exact le_trans hyh htb
      · intro g2 hg2 hcol
        exact (List.pairwise_cons.mp hw.pni).1 g2 hg2 h tb rfl hcol.symm
    · simp only [finish, notesOf]
      conv_rhs => rw [← happ]
      simp only [GNote.key, List.append_assoc]
      refine List.Perm.append_left _ (List.Perm.append_left _ ?_)
      refine (List.Perm.append_left _ (heapInsert_perm _ _)).trans ?_
      exact List.perm_append_comm (l₁ := [h, recon h tb])

/-- the whole loop -/
theorem run_weak (p : Orphan) {p0 : Nat} : ∀ (L : List GNote) (s : UState), Weak p0 L → Inv p0 s L →
    ∃ s', L.foldlM (ungroupStep p) s = .ok s' ∧ Inv p0 s' [] ∧ (finish s').Perm (finish s ++ L.flatMap notesOf) := by
  intro L
  induction L with
  | nil => intro s _ hi; exact ⟨s, rfl, hi, by simp⟩
  | cons g L ih =>
    intro s hw hi
    obtain ⟨s1, h1, hi1, hp1⟩ := step_ok p hw hi
    obtain ⟨s2, h2, hi2, hp2⟩ := ih s1 hw.tail hi1
    refine ⟨s2, ?_, hi2, ?_⟩
    · simp only [List.foldlM_cons, h1, bind, Except.bind]; exact h2
    · refine hp2.trans ?_
      simp only [List.flatMap_cons, ← List.append_assoc]
      exact List.Perm.append_right _ hp1

theorem finish_sorted {p0 : Nat} {s : UState} (hi : Inv p0 s []) : ((finish s).map (·.beat)).Pairwise (· ≤ ·) := by
  simp only [finish, List.map_append]
  rw [List.pairwise_append]
  refine ⟨hi.outSorted, ?_, ?_⟩
  · exact List.pairwise_map.mpr (hi.pendSorted.imp_of_mem fun {a b} ha hb hab =>
      beat_le_of_toK_le hab ((hi.pendPlayer a ha).trans (hi.pendPlayer b hb).symm))
  · intro a ha b hb
    obtain ⟨y, hy, rfl⟩ := List.mem_map.mp ha
    obtain ⟨t, ht, rfl⟩ := List.mem_map.mp hb
    exact hi.outPend y hy t ht

/-- `ungroup_notes` on a weakly ordered grouped sequence, with any policy -/
theorem ungroup_weak (p : Orphan) {p0 : Nat} (groups : List (List GNote)) (hw : Weak p0 groups.flatten) :
    ∃ out, ungroupNotes p groups = .ok out ∧ out.Perm (groups.flatten.flatMap notesOf) ∧
      (out.map (·.beat)).Pairwise (· ≤ ·) := by
  have hi0 : Inv p0 { pending := [], out := [] } groups.flatten :=
    ⟨by simp, by simp, by simp, by simp [PSorted], by simp, by simp⟩
  obtain ⟨s', h1, hi, hp⟩ := run_weak p groups.flatten _ hw hi0
  refine ⟨finish s', ?_, by simpa [finish] using hp, finish_sorted hi⟩
  rw [ungroupNotes_eq, h1]; rfl

/-! ### the orphan check never fires; the policy is irrelevant -/

/-- the note of an item that `check_orphan` looks at -/
def headOf : GNote → Note
  | .plain n => n
  | .withTail h _ => h

theorem headOf_key (g : GNote) : (headOf g).key = g.key := by cases g <;> rfl
theorem headOf_column (g : GNote) : (headOf g).column = g.column := by cases g <;> rfl

theorem step_policy (p p' : Orphan) {p0 : Nat} {s : UState} {g : GNote} {rest : List GNote}
    (hi : Inv p0 s (g :: rest)) : ungroupStep p s g = ungroupStep p' s g := by
  cases g with
  | plain n =>
    rw [step_plain_outside p s n (not_inside hi n rfl rfl), step_plain_outside p' s n (not_inside hi n rfl rfl)]
  | withTail h tb =>
    rw [step_withTail_outside p s h tb (not_inside hi h rfl rfl),
      step_withTail_outside p' s h tb (not_inside hi h rfl rfl)]

theorem run_policy (p p' : Orphan) {p0 : Nat} : ∀ (L : List GNote) (s : UState), Weak p0 L → Inv p0 s L →
    L.foldlM (ungroupStep p) s = L.foldlM (ungroupStep p') s := by
  intro L
  induction L with
  | nil => intro s _ _; rfl
  | cons g L ih =>
    intro s hw hi
    obtain ⟨s1, h1, hi1, _⟩ := step_ok p hw hi
    have h1' : ungroupStep p' s g = .ok s1 := by rw [← step_policy p p' hi]; exact h1
    simp only [List.foldlM_cons, h1, h1', bind, Except.bind]
    exact ih s1 hw.tail hi1

/-- running a prefix keeps the invariant for the rest -/
theorem run_weak_prefix (p : Orphan) {p0 : Nat} : ∀ (A rest : List GNote) (s : UState), Weak p0 (A ++ rest) →
    Inv p0 s (A ++ rest) → ∃ s', A.foldlM (ungroupStep p) s = .ok s' ∧ Inv p0 s' rest := by
  intro A
  induction A with
  | nil => intro rest s _ hi; exact ⟨s, rfl, hi⟩
  | cons g A ih =>
    intro rest s hw hi
    obtain ⟨s1, h1, hi1, _⟩ := step_ok p hw hi
    obtain ⟨s2, h2, hi2⟩ := ih rest s1 hw.tail hi1
    exact ⟨s2, by simp only [List.foldlM_cons, h1, bind, Except.bind]; exact h2, hi2⟩

theorem inv_init (p0 : Nat) (L : List GNote) : Inv p0 { pending := [], out := [] } L :=
  ⟨by simp, by simp, by simp, by simp [PSorted], by simp, by simp⟩

/-- whenever an item is reached, no tail is pending on its column -/
theorem never_inside_weak (p : Orphan) {p0 : Nat} (A B : List GNote) (x : GNote) (hw : Weak p0 (A ++ x :: B)) :
    ∃ s, A.foldlM (ungroupStep p) { pending := [], out := [] } = .ok s ∧ inside s.pending (headOf x) = false := by
  obtain ⟨s, h1, hi⟩ := run_weak_prefix p A (x :: B) _ hw (inv_init p0 _)
  exact ⟨s, h1, not_inside hi (headOf x) (headOf_key x) (headOf_column x)⟩

theorem policy_irrelevant_weak (p p' : Orphan) {p0 : Nat} (groups : List (List GNote))
    (hw : Weak p0 groups.flatten) : ungroupNotes p groups = ungroupNotes p' groups := by
  rw [ungroupNotes_eq, ungroupNotes_eq, run_policy p p' _ _ hw (inv_init p0 _)]

theorem pairwise_trichotomy {α} {R : α → α → Prop} {l : List α} (h : l.Pairwise R) {a b : α} (ha : a ∈ l)
    (hb : b ∈ l) : a = b ∨ R a b ∨ R b a := by
  induction l with
  | nil => simp at ha
  | cons x l ih =>
    have h' := List.pairwise_cons.mp h
    rcases List.mem_cons.mp ha with ea | ha'
    · rcases List.mem_cons.mp hb with eb | hb'
      · exact Or.inl (ea.trans eb.symm)
      · exact Or.inr (Or.inl (ea ▸ h'.1 b hb'))
    · rcases List.mem_cons.mp hb with eb | hb'
      · exact Or.inr (Or.inr (eb ▸ h'.1 a ha'))
      · exact ih h'.2 ha' hb'

theorem GNote.key_eq (g : GNote) : g.key = (g.key.1, g.beat, g.column) := by cases g <;> rfl

/-- in beats: nothing of the head's column lies after the head and not after its tail -/
theorem weak_never_between {p0 : Nat} {L : List GNote} (hw : Weak p0 L) (h : Note) (tb : Rat)
    (ha : GNote.withTail h tb ∈ L) (x : GNote) (hx : x ∈ L) (hc : x.column = h.column) (hb : h.beat < x.beat) :
    tb < x.beat := by
  have hpw := (List.pairwise_map.mp hw.beats).and hw.pni
  have hlt : toK (recon h tb).key < toK x.key := by
    rcases pairwise_trichotomy hpw ha hx with e | hr | hr
    · rw [← e] at hb; exact absurd hb (lt_irrefl _)
    · exact hr.2 h tb rfl hc
    · exact absurd hb (not_lt.mpr hr.1)
  have hp : (recon h tb).key.1 = x.key.1 := (hw.player _ ha).trans (hw.player x hx).symm
  rw [GNote.key_eq x] at hlt hp
  simp only [recon, Note.key, toK, Prod.Lex.toLex_lt_toLex] at hlt hp
  rcases hlt with hlt | ⟨_, hlt | ⟨_, hlt⟩⟩
  · omega
  · exact hlt
  · omega

end Simfile.Ungroup
