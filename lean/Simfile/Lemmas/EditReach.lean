/-
Helper lemmas for C01 (growth) — reachability (`Props/C01Reach.lean`): every edit of `Model/Edit.lean` that meets the caller's
obligations keeps an SM simfile inside the round-trip domain `C01.DomSM`.
-/
import Simfile.Model.Edit
import Simfile.Lemmas.Views
import Simfile.Props.C01
namespace Simfile
open Simfile.O Simfile.V

/-- the caller's obligations for one edit (same body as `C01Reach.EditOK`, which is defined downstream) -/
def EditOKL : SMEdit → Prop
  | .setKey k _ => upper k = k ∧ k ≠ kNOTES
  | .delKey _ => True
  | .setAttr _ _ => True
  | .delAttr _ => True
  | .appendChart c => C01.DomSMChart c
  | .insertChart _ c => C01.DomSMChart c
  | .setChart _ c => C01.DomSMChart c
  | .popChart _ => True
  | .reverseCharts => True
  | .clearCharts => True
  | .setField _ _ v => strip v = v
  | .setExtra _ e => e = none ∨ ∃ l, e = some l ∧ l ≠ []

namespace EditReach

/-! ### the property dictionary -/

/-- the three dictionary conditions of `DomSM` -/
structure PropsOK (d : Dict) : Prop where
  wf : d.WF
  upper : ∀ k ∈ d.keys, upper k = k
  notNotes : ∀ k ∈ d.keys, k ≠ kNOTES

theorem propsOK_set (d : Dict) (k : Str) (v : Option Str) (h : PropsOK d) (hu : upper k = k) (hn : k ≠ kNOTES) :
    PropsOK (d.set k v) := by
  have hmem : ∀ x ∈ Dict.keys (d.set k v), x ∈ Dict.keys d ∨ x = k := by
    intro x hx
    rw [keys_set] at hx
    split at hx
    · exact Or.inl hx
    · rcases List.mem_append.mp hx with hx | hx
      · exact Or.inl hx
      · exact Or.inr (List.mem_singleton.mp hx)
  refine ⟨WF_set _ _ _ h.wf, ?_, ?_⟩
  · intro x hx
    rcases hmem x hx with hx | rfl
    · exact h.upper x hx
    · exact hu
  · intro x hx
    rcases hmem x hx with hx | rfl
    · exact h.notNotes x hx
    · exact hn

theorem propsOK_erase (d : Dict) (k : Str) (h : PropsOK d) : PropsOK (d.erase k) := by
  have hmem : ∀ x ∈ Dict.keys (d.erase k), x ∈ Dict.keys d := by
    intro x hx
    rw [keys_erase] at hx
    exact (List.mem_filter.mp hx).1
  exact ⟨WF_erase _ _ h.wf, fun x hx => h.upper x (hmem x hx), fun x hx => h.notNotes x (hmem x hx)⟩

/-- every key and alias of the generated SM simfile table is upper-case and is not NOTES -/
theorem smSimfile_table_keys :
    ∀ e ∈ T.smSimfileProps, (upper e.2.1 = e.2.1 ∧ e.2.1 ≠ kNOTES) ∧
      ∀ al, e.2.2 = some al → upper al = al ∧ al ≠ kNOTES := by
  decide +kernel

theorem smSimfile_attrKey (d : Dict) (a key : Str) (h : attrKey .smSimfile d a = some key) :
    upper key = key ∧ key ≠ kNOTES := by
  obtain ⟨key0, alias, hf, rfl⟩ := attrKey_some _ d a key h
  have hm : (a, key0, alias) ∈ T.smSimfileProps := List.mem_of_find?_eq_some hf
  obtain ⟨h1, h2⟩ := smSimfile_table_keys _ hm
  rcases nameOrAlias_cases d key0 alias with e | ⟨al, hal, _, _, e⟩
  · rw [e]; exact h1
  · rw [e]; exact h2 al hal

theorem propsOK_delKey (d : Dict) (k : Str) (h : PropsOK d) : PropsOK (vstep .smSimfile d (.delKey k)).1 := by
  rw [vstep_delKey]
  split
  · exact h
  · split
    · exact propsOK_erase _ _ h
    · exact h

theorem propsOK_setAttr (d : Dict) (a v : Str) (h : PropsOK d) : PropsOK (vstep .smSimfile d (.setAttr a v)).1 := by
  rw [vstep_setAttr]
  cases hk : attrKey .smSimfile d a with
  | none => exact h
  | some key =>
    simp only []
    split
    · exact h
    · obtain ⟨hu, hn⟩ := smSimfile_attrKey d a key hk
      exact propsOK_set _ _ _ h hu hn

theorem propsOK_delAttr (d : Dict) (a : Str) (h : PropsOK d) : PropsOK (vstep .smSimfile d (.delAttr a)).1 := by
  rw [vstep_delAttr]
  cases hk : attrKey .smSimfile d a with
  | none => exact h
  | some key =>
    simp only []
    split
    · exact h
    · split
      · exact propsOK_erase _ _ h
      · exact h

/-! ### the chart list -/

theorem mem_listSetAt {α} (l : List α) (i : Nat) (v x : α) (h : x ∈ listSetAt l i v) : x ∈ l ∨ x = v := by
  induction l generalizing i with
  | nil => simp [listSetAt] at h
  | cons y ys ih =>
    cases i with
    | zero =>
      simp only [listSetAt, List.mem_cons] at h
      rcases h with h | h
      · exact Or.inr h
      · exact Or.inl (List.mem_cons_of_mem _ h)
    | succ n =>
      simp only [listSetAt, List.mem_cons] at h
      rcases h with h | h
      · exact Or.inl (h ▸ List.mem_cons_self)
      · rcases ih n h with h | h
        · exact Or.inl (List.mem_cons_of_mem _ h)
        · exact Or.inr h

theorem mem_listInsertAt {α} (l : List α) (i : Nat) (v x : α) (h : x ∈ listInsertAt l i v) : x ∈ l ∨ x = v := by
  unfold listInsertAt at h
  rcases List.mem_append.mp h with h | h
  · exact Or.inl (List.mem_of_mem_take h)
  · rcases List.mem_cons.mp h with h | h
    · exact Or.inr h
    · exact Or.inl (List.mem_of_mem_drop h)

/-! ### chart fields -/

theorem mem_set (d : Dict) (k : Str) (v : Option Str) (kv : Str × Option Str) (h : kv ∈ d.set k v) :
    kv ∈ d ∨ kv = (k, v) := by
  induction d with
  | nil => exact Or.inr (by simpa [Dict.set] using h)
  | cons kv' d ih =>
    obtain ⟨k', v'⟩ := kv'
    rw [Dict.set] at h
    split at h
    · rcases List.mem_cons.mp h with h | h
      · exact Or.inr h
      · exact Or.inl (List.mem_cons_of_mem _ h)
    · rcases List.mem_cons.mp h with h | h
      · exact Or.inl (h ▸ List.mem_cons_self)
      · rcases ih h with h | h
        · exact Or.inl (List.mem_cons_of_mem _ h)
        · exact Or.inr h

theorem domChart_setField (c : SMChart) (key v : Str) (h : C01.DomSMChart c) (hv : strip v = v) :
    C01.DomSMChart { c with fields := (vstep .smChart c.fields (.setKey key v)).1 } := by
  refine ⟨smChart_vstep_keys _ _ h.keys, ?_, h.extra⟩
  show ∀ kv ∈ (vstep .smChart c.fields (.setKey key v)).1, ∃ v, kv.2 = some v ∧ strip v = v
  rw [vstep_setKey]
  split
  · exact h.vals
  · intro kv hkv
    rcases mem_set _ _ _ _ hkv with hkv | rfl
    · exact h.vals kv hkv
    · exact ⟨v, rfl, hv⟩

theorem domChart_setExtra (c : SMChart) (e : Option (List Str)) (h : C01.DomSMChart c)
    (he : e = none ∨ ∃ l, e = some l ∧ l ≠ []) : C01.DomSMChart { c with extradata := e } :=
  ⟨h.keys, h.vals, he⟩

end EditReach

open EditReach

theorem applyEdit_dom (s : SMSimfile) (e : SMEdit) (h : C01.DomSM s) (he : EditOKL e) : C01.DomSM (applyEdit s e) := by
  have hp : PropsOK s.props := ⟨h.wf, h.upper, h.notNotes⟩
  have mk : ∀ d, PropsOK d → C01.DomSM { s with props := d } := fun d hd => ⟨hd.wf, hd.upper, hd.notNotes, h.charts⟩
  have mkc : ∀ l : List SMChart, (∀ c ∈ l, C01.DomSMChart c) → C01.DomSM { s with charts := l } :=
    fun l hl => ⟨h.wf, h.upper, h.notNotes, hl⟩
  cases e with
  | setKey k v => exact mk _ (propsOK_set _ _ _ hp he.1 he.2)
  | delKey k => exact mk _ (propsOK_delKey _ _ hp)
  | setAttr a v => exact mk _ (propsOK_setAttr _ _ _ hp)
  | delAttr a => exact mk _ (propsOK_delAttr _ _ hp)
  | appendChart c =>
    refine mkc _ ?_
    intro x hx
    rcases List.mem_append.mp hx with hx | hx
    · exact h.charts x hx
    · rw [List.mem_singleton.mp hx]; exact he
  | insertChart i c =>
    refine mkc _ ?_
    intro x hx
    rcases mem_listInsertAt _ _ _ _ hx with hx | rfl
    · exact h.charts x hx
    · exact he
  | setChart i c =>
    refine mkc _ ?_
    intro x hx
    rcases mem_listSetAt _ _ _ _ hx with hx | rfl
    · exact h.charts x hx
    · exact he
  | popChart i =>
    refine mkc _ ?_
    intro x hx
    exact h.charts x (List.mem_of_mem_eraseIdx hx)
  | reverseCharts =>
    refine mkc _ ?_
    intro x hx
    exact h.charts x (List.mem_reverse.mp hx)
  | clearCharts =>
    refine mkc _ ?_
    intro x hx
    cases hx
  | setField i key v =>
    show C01.DomSM (match s.charts[i]? with
      | some c => { s with charts := listSetAt s.charts i { c with fields := (vstep .smChart c.fields (.setKey key v)).1 } }
      | none => s)
    cases hc : s.charts[i]? with
    | none => exact h
    | some c =>
      refine mkc _ ?_
      intro x hx
      rcases mem_listSetAt _ _ _ _ hx with hx | rfl
      · exact h.charts x hx
      · exact domChart_setField c key v (h.charts c (List.mem_of_getElem? hc)) he
  | setExtra i e =>
    show C01.DomSM (match s.charts[i]? with
      | some c => { s with charts := listSetAt s.charts i { c with extradata := e } }
      | none => s)
    cases hc : s.charts[i]? with
    | none => exact h
    | some c =>
      refine mkc _ ?_
      intro x hx
      rcases mem_listSetAt _ _ _ _ hx with hx | rfl
      · exact h.charts x hx
      · exact domChart_setExtra c e (h.charts c (List.mem_of_getElem? hc)) he

theorem applyEdits_dom (s : SMSimfile) (es : List SMEdit) (h : C01.DomSM s) (hes : ∀ e ∈ es, EditOKL e) :
    C01.DomSM (applyEdits s es) := by
  induction es generalizing s with
  | nil => exact h
  | cons e es ih =>
    show C01.DomSM (applyEdits (applyEdit s e) es)
    exact ih _ (applyEdit_dom s e h (hes e List.mem_cons_self)) (fun e' he' => hes e' (List.mem_cons_of_mem _ he'))

theorem empty_dom : C01.DomSM ⟨[], []⟩ :=
  ⟨List.nodup_nil, fun _ hk => (by cases hk), fun _ hk => (by cases hk), fun _ hc => (by cases hc)⟩

theorem lower_key_not_dom : ¬ C01.DomSM (applyEdit ⟨[], []⟩ (.setKey ['t'] (some ['x']))) := by
  intro h
  have := h.upper ['t'] (by simp [applyEdit, setKeyOpt, Dict.set, Dict.keys])
  revert this
  decide

theorem blankChart_dom (e : Option (List Str)) (he : e = none ∨ ∃ l, e = some l ∧ l ≠ []) :
    C01.DomSMChart ⟨T.blankSMChart, e⟩ :=
  ⟨(by decide +kernel : Dict.keys T.blankSMChart = T.smChartProperties),
   (by decide +kernel : ∀ kv ∈ T.blankSMChart, ∃ v, kv.2 = some v ∧ strip v = v), he⟩

theorem sample_history_ok : ∀ e ∈ ([.setKey "TITLE".toList (some "a:b;c".toList), .setKey "ATTACKS".toList none,
    .setAttr "stops".toList "4=1".toList,
    .delAttr "stops".toList, .delKey "TITLE".toList, .appendChart ⟨T.blankSMChart, none⟩,
    .insertChart 0 ⟨T.blankSMChart, some ["x".toList]⟩,
    .setField 0 "METER".toList "12".toList, .setExtra 1 (some ["".toList]), .reverseCharts, .popChart 5,
    .setChart 0 ⟨T.blankSMChart, none⟩,
    .clearCharts] : List SMEdit), EditOKL e := by
  intro e he
  simp only [List.mem_cons, List.not_mem_nil, or_false] at he
  rcases he with rfl | rfl | rfl | rfl | rfl | rfl | rfl | rfl | rfl | rfl | rfl | rfl | rfl
  · exact ⟨by decide +kernel, by decide +kernel⟩
  · exact ⟨by decide +kernel, by decide +kernel⟩
  · trivial
  · trivial
  · trivial
  · exact blankChart_dom _ (Or.inl rfl)
  · exact blankChart_dom _ (Or.inr ⟨_, rfl, by simp⟩)
  · show strip _ = _; decide +kernel
  · exact Or.inr ⟨_, rfl, by simp⟩
  · trivial
  · trivial
  · exact blankChart_dom _ (Or.inl rfl)
  · trivial

end Simfile
