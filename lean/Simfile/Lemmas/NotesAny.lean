/-
The decoder on ARBITRARY text: `decodeWith cols t` succeeds iff every line of every measure of every
player is individually readable, and then its value is a pure function of the text (`textNotes`).
No `Spec.render`, no `WF`.
-/
import Simfile.Lemmas.NotesDecode
namespace Simfile
namespace Any
open Simfile

/-! ### `mapM` in `Except` -/

theorem mapM_ok_iff {α β ε} (f : α → Except ε β) (P : α → Prop) (g : α → β) (xs : List α)
    (h : ∀ x ∈ xs, ∀ r, f x = .ok r ↔ P x ∧ r = g x) (rs : List β) :
    xs.mapM f = .ok rs ↔ (∀ x ∈ xs, P x) ∧ rs = xs.map g := by
  induction xs generalizing rs with
  | nil =>
    simp only [List.mapM_nil, List.not_mem_nil, false_imp_iff, implies_true, true_and, List.map_nil]
    constructor
    · intro h; cases h; rfl
    · rintro rfl; rfl
  | cons x xs ih =>
    have ih' := ih (fun y hy => h y (by simp [hy]))
    have hx := h x (by simp)
    rw [List.mapM_cons]
    cases hfx : f x with
    | error e =>
      simp only [bind, Except.bind]
      constructor
      · intro h'; cases h'
      · rintro ⟨hP, _⟩
        have := (hx (g x)).mpr ⟨hP x (by simp), rfl⟩
        rw [hfx] at this; cases this
    | ok r =>
      obtain ⟨hPx, rfl⟩ := (hx r).mp hfx
      cases hxs : xs.mapM f with
      | error e =>
        simp only [bind, Except.bind]
        constructor
        · intro h'; cases h'
        · rintro ⟨hP, _⟩
          have := (ih' (xs.map g)).mpr ⟨fun y hy => hP y (by simp [hy]), rfl⟩
          rw [hxs] at this; cases this
      | ok rs' =>
        obtain ⟨hPxs, rfl⟩ := (ih' rs').mp hxs
        simp only [bind, Except.bind, pure, Except.pure, List.map_cons]
        constructor
        · intro h'; cases h'
          exact ⟨by intro y hy; rcases List.mem_cons.mp hy with rfl | hy; exact hPx; exact hPxs y hy, rfl⟩
        · rintro ⟨_, rfl⟩; rfl

/-! ### one line -/

/-- the cells and keysounds `notesOfLine` reads off a line -/
def lineCells (cols : Nat) (line : Str) : Except NErr (Str × List (Option Nat)) :=
  extractKeysounds true (strip line).length (strip line) (List.replicate cols none)

/-- the note of the character `x.2` in column `x.1` (row `l` of `sub` rows in measure `m`, player `p`) -/
def cellNote (p m sub l : Nat) (ks : List (Option Nat)) (x : Nat × Char) : Option Note :=
  if x.2 = '0' then none
  else some { beat := ((m * 4 * sub + l * 4 : Nat) : Rat) / (sub : Rat), column := x.1, ntype := x.2,
              player := p, keysound := ks.getD x.1 none }

/-- every non-'0' cell is a known note character in a column below `cols` -/
def CellsOK (cols off : Nat) (cells : Str) : Prop :=
  ∀ x ∈ enumFrom off cells, x.2 ≠ '0' → isNoteChar x.2 = true ∧ x.1 < cols

theorem go_ok_iff (cols p m sub l : Nat) (ks : List (Option Nat)) (cells : Str) :
    ∀ (off : Nat) (ns : List Note),
      notesOfLine.go cols p m sub l ks off cells = .ok ns ↔
        CellsOK cols off cells ∧ ns = (enumFrom off cells).filterMap (cellNote p m sub l ks) := by
  induction cells with
  | nil =>
    intro off ns
    simp only [notesOfLine.go, CellsOK, enumFrom_nil, List.not_mem_nil, false_imp_iff, implies_true,
      true_and, List.filterMap_nil]
    constructor
    · intro h; cases h; rfl
    · rintro rfl; rfl
  | cons ch rest ih =>
    intro off ns
    have hC : CellsOK cols off (ch :: rest) ↔
        (ch ≠ '0' → isNoteChar ch = true ∧ off < cols) ∧ CellsOK cols (off + 1) rest := by
      simp only [CellsOK, enumFrom_cons, List.mem_cons, forall_eq_or_imp]
    rw [notesOfLine.go, hC, enumFrom_cons, List.filterMap_cons]
    by_cases h0 : ch = '0'
    · rw [if_pos h0, ih (off + 1) ns]
      simp [cellNote, h0]
    · rw [if_neg h0]
      have hcn : cellNote p m sub l ks (off, ch) =
          some ⟨((m * 4 * sub + l * 4 : Nat) : Rat) / (sub : Rat), off, ch, p, ks.getD off none⟩ := by
        simp [cellNote, h0]
      rw [hcn]
      by_cases hn : isNoteChar ch = true
      · rw [if_neg (by simp [hn])]
        by_cases hc : cols ≤ off
        · rw [if_pos hc]
          constructor
          · intro h; cases h
          · rintro ⟨⟨h1, _⟩, _⟩; have := (h1 h0).2; omega
        · rw [if_neg hc]
          cases hgo : notesOfLine.go cols p m sub l ks (off + 1) rest with
          | error e =>
            simp only [bind, Except.bind]
            constructor
            · intro h; cases h
            · rintro ⟨⟨_, h2⟩, _⟩
              have := (ih (off + 1) _).mpr ⟨h2, rfl⟩
              rw [hgo] at this; cases this
          | ok tl =>
            obtain ⟨h2, rfl⟩ := (ih (off + 1) tl).mp hgo
            simp only [bind, Except.bind, pure, Except.pure]
            constructor
            · intro h; cases h
              exact ⟨⟨fun _ => ⟨hn, by omega⟩, h2⟩, rfl⟩
            · rintro ⟨_, rfl⟩; rfl
      · rw [if_pos (by simpa using hn)]
        constructor
        · intro h; cases h
        · rintro ⟨⟨h1, _⟩, _⟩; exact absurd (h1 h0).1 hn

/-- a line the decoder can read: brackets well formed and every non-'0' cell known and in range -/
def LineOK (cols : Nat) (line : Str) : Prop :=
  ∃ cells ks, lineCells cols line = .ok (cells, ks) ∧ CellsOK cols 0 cells

/-- the notes of a line (empty if the line is unreadable) -/
def lineNotes (cols p m sub l : Nat) (line : Str) : List Note :=
  match lineCells cols line with
  | .ok (cells, ks) => (enumFrom 0 cells).filterMap (cellNote p m sub l ks)
  | .error _ => []

theorem notesOfLine_ok_iff (cols p m sub l : Nat) (line : Str) (ns : List Note) :
    notesOfLine cols p m sub l line = .ok ns ↔ LineOK cols line ∧ ns = lineNotes cols p m sub l line := by
  unfold notesOfLine LineOK lineNotes
  simp only
  change (lineCells cols line >>= fun x => notesOfLine.go cols p m sub l x.2 0 x.1) = .ok ns ↔ _
  cases h : lineCells cols line with
  | error e =>
    simp only [bind, Except.bind]
    constructor
    · intro h'; cases h'
    · rintro ⟨⟨_, _, h', _⟩, _⟩; cases h'
  | ok r =>
    obtain ⟨cells, ks⟩ := r
    simp only [bind, Except.bind]
    rw [go_ok_iff]
    constructor
    · rintro ⟨h1, h2⟩; exact ⟨⟨cells, ks, rfl, h1⟩, h2⟩
    · rintro ⟨⟨cells', ks', h', h1⟩, h2⟩
      cases h'
      exact ⟨h1, h2⟩

/-! ### one measure -/

theorem measureGo_eq (cols p m sub : Nat) (lines : List Str) : ∀ l,
    notesOfMeasure.go cols p m sub l lines =
      ((enumFrom l lines).mapM fun x => notesOfLine cols p m sub x.1 x.2).map List.flatten := by
  induction lines with
  | nil => intro l; rfl
  | cons line rest ih =>
    intro l
    rw [notesOfMeasure.go, enumFrom_cons, List.mapM_cons, ih (l + 1)]
    cases notesOfLine cols p m sub l line with
    | error e => rfl
    | ok a =>
      simp only [bind, Except.bind]
      cases (enumFrom (l + 1) rest).mapM fun x => notesOfLine cols p m sub x.1 x.2 with
      | error e => rfl
      | ok b => rfl

/-- the notes of a (stripped) measure text -/
def measureNotes (cols p m : Nat) (s : Str) : List Note :=
  ((enumFrom 0 (splitLines s)).map fun x => lineNotes cols p m (splitLines s).length x.1 x.2).flatten

theorem map_flatten_ok_iff {α ε} (e : Except ε (List (List α))) (ns : List α) :
    e.map List.flatten = .ok ns ↔ ∃ rs, e = .ok rs ∧ ns = rs.flatten := by
  cases e with
  | error x =>
    constructor
    · intro h; cases h
    · rintro ⟨_, h, _⟩; cases h
  | ok rs =>
    constructor
    · intro h; cases h; exact ⟨rs, rfl, rfl⟩
    · rintro ⟨_, h, rfl⟩; cases h; rfl

theorem notesOfMeasure_ok_iff (cols p m : Nat) (s : Str) (ns : List Note) :
    notesOfMeasure cols p m s = .ok ns ↔
      (∀ line ∈ splitLines s, LineOK cols line) ∧ ns = measureNotes cols p m s := by
  unfold notesOfMeasure
  simp only
  rw [measureGo_eq, map_flatten_ok_iff]
  have key := mapM_ok_iff (fun x : Nat × Str => notesOfLine cols p m (splitLines s).length x.1 x.2)
    (fun x => LineOK cols x.2) (fun x => lineNotes cols p m (splitLines s).length x.1 x.2)
    (enumFrom 0 (splitLines s)) (fun x _ r => notesOfLine_ok_iff cols p m _ x.1 x.2 r)
  constructor
  · rintro ⟨rs, h1, rfl⟩
    obtain ⟨h2, rfl⟩ := (key rs).mp h1
    refine ⟨?_, rfl⟩
    intro line hl
    obtain ⟨i, hi⟩ := List.getElem?_of_mem hl
    exact h2 (i, line) (mem_enumFrom.mpr ⟨Nat.zero_le _, by simpa using hi⟩)
  · rintro ⟨h1, rfl⟩
    refine ⟨_, (key _).mpr ⟨?_, rfl⟩, rfl⟩
    intro x hx
    exact h1 x.2 (List.mem_of_getElem? (mem_enumFrom.mp hx).2)

/-! ### players and the whole text -/

def playerNotes (cols p : Nat) (sec : Str) : List Note :=
  ((enumFrom 0 (splitOn ',' sec)).map fun x => measureNotes cols p x.1 (strip x.2)).flatten

/-- the notes a text denotes: a pure function of the text -/
def textNotes (cols : Nat) (t : Str) : List Note :=
  ((enumFrom 0 (splitOn '&' t)).map fun x => playerNotes cols x.1 x.2).flatten

/-- the text is readable: every line of every measure of every player is -/
def Accepts (cols : Nat) (t : Str) : Prop :=
  ∀ sec ∈ splitOn '&' t, ∀ mt ∈ splitOn ',' sec, ∀ line ∈ splitLines (strip mt), LineOK cols line

theorem mem_of_mem_enumFrom {α} {k : Nat} {x : Nat × α} {xs : List α} (h : x ∈ enumFrom k xs) : x.2 ∈ xs :=
  List.mem_of_getElem? (mem_enumFrom.mp h).2

theorem mem_enumFrom_of_mem {α} {k : Nat} {a : α} {xs : List α} (h : a ∈ xs) : ∃ i, (i, a) ∈ enumFrom k xs := by
  obtain ⟨i, hi⟩ := List.getElem?_of_mem h
  exact ⟨k + i, mem_enumFrom.mpr ⟨by omega, by simpa using hi⟩⟩

/-- one player's section, as `decodeWith` reads it -/
def decodePlayer (cols p : Nat) (sec : Str) : Except NErr (List Note) := do
  let ms ← (enumFrom 0 (splitOn ',' sec)).mapM fun (x : Nat × Str) => notesOfMeasure cols p x.1 (strip x.2)
  pure ms.flatten

theorem decodeWith_eq (cols : Nat) (t : Str) :
    decodeWith cols t = (do
      let pp ← (enumFrom 0 (splitOn '&' t)).mapM fun (x : Nat × Str) => decodePlayer cols x.1 x.2
      pure pp.flatten) := rfl

theorem bind_flatten_ok_iff {α ε} (e : Except ε (List (List α))) (ns : List α) :
    (e >>= fun rs => pure rs.flatten) = .ok ns ↔ ∃ rs, e = .ok rs ∧ ns = rs.flatten :=
  map_flatten_ok_iff e ns

theorem decodePlayer_ok_iff (cols p : Nat) (sec : Str) (ns : List Note) :
    decodePlayer cols p sec = .ok ns ↔
      (∀ mt ∈ splitOn ',' sec, ∀ line ∈ splitLines (strip mt), LineOK cols line) ∧
        ns = playerNotes cols p sec := by
  have key := mapM_ok_iff (fun x : Nat × Str => notesOfMeasure cols p x.1 (strip x.2))
    (fun x => ∀ line ∈ splitLines (strip x.2), LineOK cols line)
    (fun x => measureNotes cols p x.1 (strip x.2))
    (enumFrom 0 (splitOn ',' sec)) (fun x _ r => notesOfMeasure_ok_iff cols p x.1 (strip x.2) r)
  unfold decodePlayer
  rw [bind_flatten_ok_iff]
  constructor
  · rintro ⟨rs, h, rfl⟩
    obtain ⟨h1, rfl⟩ := (key rs).mp h
    refine ⟨?_, rfl⟩
    intro mt hmt
    obtain ⟨i, hi⟩ := mem_enumFrom_of_mem (k := 0) hmt
    exact h1 _ hi
  · rintro ⟨h1, rfl⟩
    exact ⟨_, (key _).mpr ⟨fun x hx => h1 x.2 (mem_of_mem_enumFrom hx), rfl⟩, rfl⟩

/-- **the decoder on arbitrary text**: it succeeds exactly on the readable texts, with value `textNotes` -/
theorem decodeWith_ok_iff (cols : Nat) (t : Str) (ns : List Note) :
    decodeWith cols t = .ok ns ↔ Accepts cols t ∧ ns = textNotes cols t := by
  have key := mapM_ok_iff (fun x : Nat × Str => decodePlayer cols x.1 x.2)
    (fun x => ∀ mt ∈ splitOn ',' x.2, ∀ line ∈ splitLines (strip mt), LineOK cols line)
    (fun x => playerNotes cols x.1 x.2)
    (enumFrom 0 (splitOn '&' t)) (fun x _ r => decodePlayer_ok_iff cols x.1 x.2 r)
  rw [decodeWith_eq, bind_flatten_ok_iff]
  constructor
  · rintro ⟨rs, h, rfl⟩
    obtain ⟨h1, rfl⟩ := (key rs).mp h
    refine ⟨?_, rfl⟩
    intro sec hsec
    obtain ⟨i, hi⟩ := mem_enumFrom_of_mem (k := 0) hsec
    exact h1 _ hi
  · rintro ⟨h1, rfl⟩
    exact ⟨_, (key _).mpr ⟨fun x hx => h1 x.2 (mem_of_mem_enumFrom hx), rfl⟩, rfl⟩

end Any
end Simfile
