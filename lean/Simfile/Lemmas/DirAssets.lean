/-
Helper definitions and lemmas for C20 (Simfile.Model.Dir: assets, pack banner).
-/
import Simfile.Model.Dir
namespace Simfile
namespace AssetL

/-! ### `mapM` in `Option` -/

theorem mapM_cons_opt {α β} (g : α → Option β) (a : α) (l : List α) :
    (a :: l).mapM g =
      match g a with
      | none => none
      | some b => match l.mapM g with
        | none => none
        | some bs => some (b :: bs) := by
  rw [List.mapM_cons]
  cases g a with
  | none => rfl
  | some b => cases l.mapM g <;> rfl

theorem mapM_total {α β} (g : α → Option β) (h : α → β) (l : List α) (hg : ∀ a ∈ l, g a = some (h a)) :
    l.mapM g = some (l.map h) := by
  induction l with
  | nil => rfl
  | cons a l ih =>
    rw [mapM_cons_opt, hg a (by simp), ih (fun x hx => hg x (by simp [hx]))]
    rfl

theorem mapM_eq_some {α β} (g : α → Option β) :
    ∀ (l : List α) (bs : List β), l.mapM g = some bs → l.map g = bs.map some := by
  intro l
  induction l with
  | nil => intro bs h; cases h; rfl
  | cons a l ih =>
    intro bs h
    rw [mapM_cons_opt] at h
    cases ha : g a with
    | none => rw [ha] at h; cases h
    | some b =>
      rw [ha] at h
      cases hl : l.mapM g with
      | none => rw [hl] at h; cases h
      | some bs' =>
        rw [hl] at h
        cases h
        simp [ha, ih bs' hl]

theorem mapM_eq_none {α β} (g : α → Option β) (l : List α) (h : l.mapM g = none) : ∃ a ∈ l, g a = none := by
  induction l with
  | nil => cases h
  | cons a l ih =>
    rw [mapM_cons_opt] at h
    cases ha : g a with
    | none => exact ⟨a, by simp, ha⟩
    | some b =>
      rw [ha] at h
      cases hl : l.mapM g with
      | none =>
        obtain ⟨x, hx, hxn⟩ := ih hl
        exact ⟨x, by simp [hx], hxn⟩
      | some bs' => rw [hl] at h; cases h

/-! ### which kinds are modelled -/

/-- the kind is in the table and all of its presets are inside the modelled regex fragment -/
def kindModelled (kind : Str) : Bool :=
  match T.assetDefinitions.find? (·.1 = kind) with
  | none => false
  | some (_, presets, _, _) => (presets.mapM compilePreset).isSome

theorem assetMatches_isSome (kind name : Str) : (assetMatches kind name).isSome = kindModelled kind := by
  unfold assetMatches kindModelled
  generalize T.assetDefinitions.find? (·.1 = kind) = r
  cases r with
  | none => rfl
  | some d =>
    obtain ⟨a, presets, exts, byExt⟩ := d
    simp only
    cases presets.mapM compilePreset <;> rfl

theorem assetMatches_of_modelled {kind : Str} (h : kindModelled kind = true) (name : Str) :
    assetMatches kind name = some ((assetMatches kind name).getD false) := by
  have := assetMatches_isSome kind name
  rw [h] at this
  cases hm : assetMatches kind name with
  | none => rw [hm] at this; cases this
  | some b => rfl

theorem assetMatches_none_of_not_modelled {kind : Str} (h : kindModelled kind = false) (name : Str) :
    assetMatches kind name = none := by
  have := assetMatches_isSome kind name
  rw [h] at this
  cases hm : assetMatches kind name with
  | none => rfl
  | some b => rw [hm] at this; cases this

/-! ### the lookup -/

/-- the specified file, found case-insensitively in its containing directory -/
def viaSpec (specified : Option Str) (containing : Option (List Str)) (file : Str) : Option Str :=
  match specified with
  | some (_ :: _) => caseInsensitive containing file
  | _ => none

theorem assetLookup_eq (kind : Str) (specified : Option Str) (containing : Option (List Str)) (file : Str)
    (dirlist : List Str) :
    assetLookup kind specified containing file dirlist =
      match viaSpec specified containing file with
      | some item => some (some (.inl item))
      | none =>
        match dirlist.mapM (fun f => (assetMatches kind f).map fun b => (f, b)) with
        | none => none
        | some fs => some ((fs.find? (·.2)).map fun fb => .inr fb.1) := rfl

theorem viaSpec_some {c : Char} {cs : Str} (containing : Option (List Str)) (file : Str) :
    viaSpec (some (c :: cs)) containing file = caseInsensitive containing file := rfl

theorem viaSpec_none_iff (specified : Option Str) (containing : Option (List Str)) (file : Str) :
    viaSpec specified containing file = none ↔
      specified = none ∨ specified = some [] ∨ caseInsensitive containing file = none := by
  rcases specified with _ | (_ | ⟨c, cs⟩) <;> simp [viaSpec]

theorem viaSpec_mem {specified : Option Str} {containing : Option (List Str)} {file item : Str}
    (h : viaSpec specified containing file = some item) :
    ∃ l, containing = some l ∧ l.find? (fun x => lower x = lower file) = some item := by
  rcases specified with _ | (_ | ⟨c, cs⟩)
  · cases h
  · cases h
  · rw [viaSpec_some] at h
    cases containing with
    | none => cases h
    | some l => exact ⟨l, rfl, h⟩

/-- the pattern scan of the simfile directory, for a modelled kind -/
theorem scan_modelled {kind : Str} (hk : kindModelled kind = true) (dirlist : List Str) :
    (match dirlist.mapM (fun f => (assetMatches kind f).map fun b => (f, b)) with
      | none => none
      | some fs => some ((fs.find? (·.2)).map fun fb => (Sum.inr fb.1 : Sum Str Str))) =
    some ((dirlist.find? fun f => assetMatches kind f = some true).map Sum.inr) := by
  rw [mapM_total _ (fun f => (f, (assetMatches kind f).getD false)) dirlist
    (fun f _ => by rw [assetMatches_of_modelled hk f]; rfl)]
  simp only [List.find?_map, Option.map_map]
  congr 2
  congr 1
  funext f
  simp only [Function.comp]
  rw [assetMatches_of_modelled hk f]
  cases (assetMatches kind f).getD false <;> simp

theorem scan_fst (kind : Str) :
    ∀ (dirlist : List Str) (fs : List (Str × Bool)),
      dirlist.mapM (fun f => (assetMatches kind f).map fun b => (f, b)) = some fs →
      fs = dirlist.map fun f => (f, (assetMatches kind f).getD false) := by
  intro dirlist fs h
  have h2 := mapM_eq_some _ _ _ h
  clear h
  induction dirlist generalizing fs with
  | nil => cases fs <;> simp_all
  | cons a l ih =>
    cases fs with
    | nil => simp at h2
    | cons x fs =>
      simp only [List.map_cons, List.cons.injEq] at h2 ⊢
      refine ⟨?_, ih fs h2.2⟩
      cases hm : assetMatches kind a with
      | none => rw [hm] at h2; simp at h2
      | some b =>
        rw [hm] at h2
        simp only [Option.map_some, Option.some.injEq] at h2
        rw [← h2.1]; rfl

/-! ### pack banner -/

theorem extMatch_single (item ext : Str) : (extMatch item [ext]).isSome = endsWith (lower item) ext := by
  unfold extMatch
  simp only [List.find?_cons, List.find?_nil]
  cases endsWith (lower item) ext <;> rfl

/-- the first entry of the listing whose lower-cased name ends with `ext` -/
def firstWithExt (listing : List Str) (ext : Str) : Option Str :=
  listing.find? fun item => endsWith (lower item) ext

theorem packBanner_eq (listing : List Str) (name : Str) (beside : Str → Bool) :
    packBanner listing name beside =
      match T.imageExts.findSome? (firstWithExt listing) with
      | some item => some (true, item)
      | none => (T.imageExts.find? fun ext => beside (name ++ ext)).map fun ext => (false, name ++ ext) := by
  unfold packBanner
  have : (fun ext => listing.find? fun item => (extMatch item [ext]).isSome) = firstWithExt listing := by
    funext ext
    unfold firstWithExt
    congr 1
    funext item
    exact extMatch_single item ext
  rw [this]
  rfl

end AssetL
end Simfile
