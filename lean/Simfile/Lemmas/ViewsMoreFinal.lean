/-
SM charts: the whole final mapping after a history, in closed form (C18, second round).
-/
import Simfile.Lemmas.ViewsMoreLast
namespace Simfile.VX
open Simfile Simfile.O Simfile.V

/-- a mapping with every value recomputed from its key and old value -/
def mapVals (f : Str → Option Str → Option Str) (d : Dict) : Dict := d.map fun kv => (kv.1, f kv.1 kv.2)

theorem keys_mapVals (f : Str → Option Str → Option Str) (d : Dict) : Dict.keys (mapVals f d) = Dict.keys d := by
  unfold mapVals Dict.keys; rw [List.map_map]; rfl

theorem get?_mapVals (f : Str → Option Str → Option Str) (d : Dict) (k : Str) :
    (mapVals f d).get? k = (d.get? k).map (f k) := by
  induction d with
  | nil => rfl
  | cons kv d ih =>
    obtain ⟨k₁, v₁⟩ := kv
    by_cases e : k = k₁
    · subst e
      show Dict.get? ((k, f k v₁) :: mapVals f d) k = _
      rw [get?_cons_self, get?_cons_self]; rfl
    · show Dict.get? ((k₁, f k₁ v₁) :: mapVals f d) k = _
      rw [get?_cons_ne _ _ _ _ e, get?_cons_ne _ _ _ _ e, ih]

/-- mappings with the same key list and the same value under each key are equal -/
theorem eq_of_keys_get? (d1 d2 : Dict) (hw : Dict.WF d1) (hk : Dict.keys d1 = Dict.keys d2)
    (hg : ∀ k ∈ Dict.keys d1, d1.get? k = d2.get? k) : d1 = d2 := by
  induction d1 generalizing d2 with
  | nil =>
    cases d2 with
    | nil => rfl
    | cons kv d2 => cases hk
  | cons kv d1 ih =>
    obtain ⟨k₁, v₁⟩ := kv
    cases d2 with
    | nil => cases hk
    | cons kv2 d2 =>
      obtain ⟨k₂, v₂⟩ := kv2
      rw [keys_cons, keys_cons] at hk
      simp only [List.cons.injEq] at hk
      obtain ⟨e, hk'⟩ := hk
      subst e
      unfold Dict.WF at hw
      rw [keys_cons, List.nodup_cons] at hw
      have h1 := hg k₁ (by rw [keys_cons]; exact List.mem_cons_self)
      rw [get?_cons_self, get?_cons_self] at h1
      cases h1
      congr 1
      apply ih d2 hw.2 hk'
      intro k hm
      have hne : k ≠ k₁ := fun e => hw.1 (e ▸ hm)
      have := hg k (by rw [keys_cons]; exact List.mem_cons_of_mem _ hm)
      rwa [get?_cons_ne _ _ _ _ hne, get?_cons_ne _ _ _ _ hne] at this

theorem nodup_of_WF (d : Dict) (hw : Dict.WF d) : d.Nodup :=
  List.Pairwise.of_map (fun kv : Str × Option Str => kv.1) (fun _ _ hne e => hne (congrArg Prod.fst e)) hw

/-- mappings with unique keys that answer every lookup alike have the same items -/
theorem perm_of_get? (d1 d2 : Dict) (h1 : Dict.WF d1) (h2 : Dict.WF d2) (hg : ∀ k, d1.get? k = d2.get? k) :
    d1.Perm d2 := by
  rw [List.perm_ext_iff_of_nodup (nodup_of_WF d1 h1) (nodup_of_WF d2 h2)]
  rintro ⟨k, v⟩
  constructor
  · intro hm; exact mem_of_get? d2 k v (by rw [← hg]; exact get?_of_mem_WF d1 k v h1 hm)
  · intro hm; exact mem_of_get? d1 k v (by rw [hg]; exact get?_of_mem_WF d2 k v h2 hm)

/-- the initial mapping with every field that was assigned set to its last assigned value -/
def smFinal (d : Dict) (ops : List VOpX) : Dict :=
  mapVals (fun key old => match lastWrite key ops with | some v => some v | none => old) d

theorem sm_run_final_get? (d : Dict) (h : Six d) (ops : List VOpX) (k : Str) :
    (vrunX .smChart d ops).1.get? k = (smFinal d ops).get? k := by
  unfold smFinal
  rw [get?_mapVals]
  by_cases hk : k ∈ T.smChartProperties
  · rw [sm_run_get? d h k hk]
    obtain ⟨s, hs⟩ := h.get?_some k hk
    rw [hs]
    cases lastWrite k ops <;> rfl
  · rw [(sm_run_six d h ops).get?_none k hk, h.get?_none k hk]; rfl

theorem sm_run_final_perm (d : Dict) (h : Six d) (ops : List VOpX) :
    (vrunX .smChart d ops).1.Perm (smFinal d ops) := by
  apply perm_of_get? _ _ (sm_run_six d h ops).WF
  · unfold Dict.WF smFinal; rw [keys_mapVals]; exact h.WF
  · exact sm_run_final_get? d h ops

theorem sm_run_final_eq (d : Dict) (h : Six d) (ops : List VOpX)
    (hn : ∀ op ∈ ops, ∀ key last, op ≠ .moveToEnd key last) :
    (vrunX .smChart d ops).1 = smFinal d ops := by
  apply eq_of_keys_get? _ _ (sm_run_six d h ops).WF
  · rw [sm_run_keys_nomove d h ops hn]; unfold smFinal; rw [keys_mapVals]
  · intro k _; exact sm_run_final_get? d h ops k

end Simfile.VX
