/-
More lemmas for C10: single steps of `ungroup_notes` on a note inside a pending hold, and a run
theorem for arbitrary grouped sequences that are only weakly ordered (by beat), as produced by the
same-beat mode JOIN_BY_NOTE_TYPE, which reorders the notes of a row.
-/
import Simfile.Lemmas.UngroupJoin
import Mathlib.Data.Prod.Lex
namespace Simfile.Ungroup
open Simfile Simfile.Spec

/-! ### the position order as Mathlib's lexicographic linear order -/

/-- the position key in the lexicographic linear order -/
def toK (a : Nat × Rat × Nat) : ℕ ×ₗ (ℚ ×ₗ ℕ) := toLex (a.1, toLex (a.2.1, a.2.2))

theorem keyLt_iff (a b : Nat × Rat × Nat) : keyLt a b = true ↔ toK a < toK b := by
  simp only [keyLt, toK, Prod.Lex.toLex_lt_toLex, Bool.or_eq_true, Bool.and_eq_true, decide_eq_true_eq]

theorem keyLt_false_iff (a b : Nat × Rat × Nat) : keyLt a b = false ↔ toK b ≤ toK a := by
  rw [← not_lt, ← keyLt_iff]; simp

theorem keyLe_iff (a b : Nat × Rat × Nat) : keyLe a b = true ↔ toK a ≤ toK b := by
  simp only [keyLe, toK, Prod.Lex.toLex_le_toLex, Bool.or_eq_true, Bool.and_eq_true, decide_eq_true_eq]

theorem beat_le_of_toK_le {a b : Nat × Rat × Nat} (h : toK a ≤ toK b) (hp : a.1 = b.1) : a.2.1 ≤ b.2.1 := by
  simp only [toK, Prod.Lex.toLex_le_toLex] at h
  rcases h with h | ⟨_, h | ⟨h, _⟩⟩
  · omega
  · exact le_of_lt h
  · exact le_of_eq h

theorem toK_lt_of_beat_lt {a b : Nat × Rat × Nat} (hp : a.1 = b.1) (h : a.2.1 < b.2.1) : toK a < toK b := by
  simp only [toK, Prod.Lex.toLex_lt_toLex]
  exact Or.inr ⟨hp, Or.inl h⟩

theorem toK_injective {a b : Nat × Rat × Nat} (h : toK a = toK b) : a = b := by
  rcases a with ⟨a1, a2, a3⟩
  rcases b with ⟨b1, b2, b3⟩
  simp only [toK] at h
  have h1 := congrArg (fun x => (ofLex x).1) h
  have h2 := congrArg (fun x => (ofLex (ofLex x).2).1) h
  have h3 := congrArg (fun x => (ofLex (ofLex x).2).2) h
  simp only [ofLex_toLex] at h1 h2 h3
  rw [h1, h2, h3]

/-! ### `popReached`, `heapInsert` -/

theorem popReached_cons_ge (k : Nat × Rat × Nat) (n : Note) (l : List Note) (h : keyLt n.key k = false) :
    popReached k (n :: l) = ([], n :: l) := by
  simp [popReached, h]

theorem popReached_append (k : Nat × Rat × Nat) (l : List Note) :
    (popReached k l).1 ++ (popReached k l).2 = l := by
  induction l with
  | nil => rfl
  | cons t ts ih =>
    cases h : keyLt t.key k with
    | true => rw [popReached_cons_lt _ _ _ h]; simp [ih]
    | false => rw [popReached_cons_ge _ _ _ h]; rfl

theorem popReached_fst_lt (k : Nat × Rat × Nat) (l : List Note) :
    ∀ y ∈ (popReached k l).1, toK y.key < toK k := by
  induction l with
  | nil => intro y hy; simp [popReached] at hy
  | cons t ts ih =>
    cases h : keyLt t.key k with
    | true =>
      rw [popReached_cons_lt _ _ _ h]
      intro y hy
      rcases List.mem_cons.mp hy with rfl | hy
      · exact (keyLt_iff _ _).mp h
      · exact ih y hy
    | false => rw [popReached_cons_ge _ _ _ h]; intro y hy; simp at hy

/-- sorted by position (weakly) -/
def PSorted (l : List Note) : Prop := l.Pairwise fun a b => toK a.key ≤ toK b.key

theorem popReached_snd_ge (k : Nat × Rat × Nat) (l : List Note) (hs : PSorted l) :
    ∀ y ∈ (popReached k l).2, toK k ≤ toK y.key := by
  induction l with
  | nil => intro y hy; simp [popReached] at hy
  | cons t ts ih =>
    have hs' := List.pairwise_cons.mp hs
    cases h : keyLt t.key k with
    | true => rw [popReached_cons_lt _ _ _ h]; exact ih hs'.2
    | false =>
      rw [popReached_cons_ge _ _ _ h]
      have hk := (keyLt_false_iff _ _).mp h
      intro y hy
      rcases List.mem_cons.mp hy with rfl | hy
      · exact hk
      · exact le_trans hk (hs'.1 y hy)

theorem heapInsert_perm (t : Note) (l : List Note) : (heapInsert t l).Perm (t :: l) := by
  induction l with
  | nil => exact List.Perm.refl _
  | cons x xs ih =>
    simp only [heapInsert]
    split
    · exact List.Perm.refl _
    · exact (List.Perm.cons x ih).trans (List.Perm.swap t x xs)

theorem mem_heapInsert {t y : Note} {l : List Note} : y ∈ heapInsert t l ↔ y = t ∨ y ∈ l := by
  rw [(heapInsert_perm t l).mem_iff, List.mem_cons]

theorem heapInsert_sorted (t : Note) (l : List Note) (hs : PSorted l) : PSorted (heapInsert t l) := by
  induction l with
  | nil => simp [heapInsert, PSorted]
  | cons x xs ih =>
    have hs' := List.pairwise_cons.mp hs
    simp only [heapInsert]
    split
    · rename_i hlt
      have hlt' : toK t.key < toK x.key := (keyLt_iff _ _).mp hlt
      refine List.pairwise_cons.mpr ⟨?_, hs⟩
      intro y hy
      rcases List.mem_cons.mp hy with rfl | hy
      · exact le_of_lt hlt'
      · exact le_trans (le_of_lt hlt') (hs'.1 y hy)
    · rename_i hlt
      have hge : toK x.key ≤ toK t.key := (keyLt_false_iff _ _).mp (by simpa [Note.lt] using hlt)
      refine List.pairwise_cons.mpr ⟨?_, ih hs'.2⟩
      intro y hy
      rcases mem_heapInsert.mp hy with rfl | hy
      · exact hge
      · exact hs'.1 y hy

/-! ### one step on a note inside / outside a pending hold -/

/-- a tail is pending on the note's column when the note is processed (the reached tails having
been yielded): the note lies inside a joined hold of its own column -/
def inside (pending : List Note) (n : Note) : Bool :=
  (popReached n.key pending).2.any (·.column = n.column)

theorem step_plain_inside (s : UState) (n : Note) (h : inside s.pending n = true) :
    ungroupStep .raise s (.plain n) = .error .orphaned ∧
    ungroupStep .keep s (.plain n) =
      .ok { pending := (popReached n.key s.pending).2, out := s.out ++ (popReached n.key s.pending).1 ++ [n] } ∧
    ungroupStep .drop s (.plain n) =
      .ok { pending := (popReached n.key s.pending).2, out := s.out ++ (popReached n.key s.pending).1 } := by
  unfold inside at h
  simp [ungroupStep, GNote.key, checkOrphan, h, bind, Except.bind, pure, Except.pure]

theorem step_plain_outside (p : Orphan) (s : UState) (n : Note) (h : inside s.pending n = false) :
    ungroupStep p s (.plain n) =
      .ok { pending := (popReached n.key s.pending).2, out := s.out ++ (popReached n.key s.pending).1 ++ [n] } := by
  unfold inside at h
  simp [ungroupStep, GNote.key, checkOrphan, h, bind, Except.bind, pure, Except.pure]

theorem step_withTail_inside (s : UState) (hd : Note) (tb : Rat) (h : inside s.pending hd = true) :
    ungroupStep .raise s (.withTail hd tb) = .error .orphaned ∧
    ungroupStep .keep s (.withTail hd tb) =
      .ok { pending := heapInsert (recon hd tb) (popReached hd.key s.pending).2,
            out := s.out ++ (popReached hd.key s.pending).1 ++ [hd] } ∧
    ungroupStep .drop s (.withTail hd tb) =
      .ok { pending := heapInsert (recon hd tb) (popReached hd.key s.pending).2,
            out := s.out ++ (popReached hd.key s.pending).1 } := by
  unfold inside at h
  simp [ungroupStep, GNote.key, checkOrphan, h, bind, Except.bind, pure, Except.pure, recon]

theorem step_withTail_outside (p : Orphan) (s : UState) (hd : Note) (tb : Rat) (h : inside s.pending hd = false) :
    ungroupStep p s (.withTail hd tb) =
      .ok { pending := heapInsert (recon hd tb) (popReached hd.key s.pending).2,
            out := s.out ++ (popReached hd.key s.pending).1 ++ [hd] } := by
  unfold inside at h
  simp [ungroupStep, GNote.key, checkOrphan, h, bind, Except.bind, pure, Except.pure, recon]

/-- an unreached tail on the note's column is enough -/
theorem inside_of_mem {pending : List Note} {n t : Note} (ht : t ∈ pending) (hc : t.column = n.column)
    (hk : keyLt t.key n.key = false) : inside pending n = true := by
  unfold inside
  rw [List.any_eq_true]
  refine ⟨t, ?_, by simpa using hc⟩
  have := popReached_append n.key pending
  rw [← this, List.mem_append] at ht
  rcases ht with ht | ht
  · have := (keyLt_iff _ _).mpr (popReached_fst_lt _ _ t ht)
    rw [this] at hk; cases hk
  · exact ht

/-! ### DROP is KEEP on the sequence without the splitting notes -/

/-- remove the plain notes that lie inside a joined hold of their column -/
def removeInside : List Note → List GNote → List GNote
  | _, [] => []
  | pd, .plain n :: gs =>
    if inside pd n then removeInside (popReached n.key pd).2 gs
    else .plain n :: removeInside (popReached n.key pd).2 gs
  | pd, .withTail h tb :: gs =>
    .withTail h tb :: removeInside (heapInsert (recon h tb) (popReached h.key pd).2) gs

/-- no head of a joined hold lies inside another joined hold of its column -/
def NoHeadInside : List Note → List GNote → Prop
  | _, [] => True
  | pd, .plain n :: gs => NoHeadInside (popReached n.key pd).2 gs
  | pd, .withTail h tb :: gs =>
    inside pd h = false ∧ NoHeadInside (heapInsert (recon h tb) (popReached h.key pd).2) gs

theorem removeInside_sublist : ∀ (gs : List GNote) (pd : List Note), (removeInside pd gs).Sublist gs := by
  intro gs
  induction gs with
  | nil => intro pd; exact List.Sublist.refl _
  | cons g gs ih =>
    intro pd
    cases g with
    | plain n =>
      simp only [removeInside]
      split
      · exact (ih _).cons _
      · exact (ih _).cons_cons _
    | withTail h tb => exact (ih _).cons_cons _

theorem popReached_mono {k k' : Nat × Rat × Nat} (hk : toK k ≤ toK k') (pd : List Note) :
    popReached k' pd =
      ((popReached k pd).1 ++ (popReached k' (popReached k pd).2).1, (popReached k' (popReached k pd).2).2) := by
  induction pd with
  | nil => rfl
  | cons t ts ih =>
    cases h : keyLt t.key k with
    | true =>
      have h' : keyLt t.key k' = true := (keyLt_iff _ _).mpr (lt_of_lt_of_le ((keyLt_iff _ _).mp h) hk)
      rw [popReached_cons_lt _ _ _ h, popReached_cons_lt _ _ _ h', ih]
      rfl
    | false => rw [popReached_cons_ge _ _ _ h]; rfl

/-- popping the tails before `k` early makes no difference when nothing before `k` follows -/
theorem lazy_pop (p : Orphan) (k : Nat × Rat × Nat) (pd out : List Note) (L : List GNote)
    (hL : ∀ g ∈ L, toK k ≤ toK g.key) :
    (L.foldlM (ungroupStep p) { pending := pd, out := out }).map finish =
      (L.foldlM (ungroupStep p) { pending := (popReached k pd).2, out := out ++ (popReached k pd).1 }).map finish := by
  cases L with
  | nil =>
    simp only [List.foldlM_nil, pure, Except.pure, Except.map, finish, List.append_assoc, popReached_append]
  | cons g L =>
    have hg := hL g (by simp)
    simp only [List.foldlM_cons]
    have : ungroupStep p { pending := pd, out := out } g
        = ungroupStep p { pending := (popReached k pd).2, out := out ++ (popReached k pd).1 } g := by
      unfold ungroupStep
      simp only [popReached_mono hg pd, List.append_assoc]
    rw [this]

/-- on a position-ordered sequence in which no joined head lies inside another hold of its column,
the DROP policy acts as the KEEP policy on the sequence without the splitting notes -/
theorem drop_eq_keep_removed : ∀ (gs : List GNote) (pd out : List Note),
    gs.Pairwise (fun a b => toK a.key ≤ toK b.key) → NoHeadInside pd gs →
    (gs.foldlM (ungroupStep .drop) { pending := pd, out := out }).map finish =
      ((removeInside pd gs).foldlM (ungroupStep .keep) { pending := pd, out := out }).map finish := by
  intro gs
  induction gs with
  | nil => intro pd out _ _; rfl
  | cons g gs ih =>
    intro pd out hs hn
    have hs' := List.pairwise_cons.mp hs
    cases g with
    | plain n =>
      simp only [NoHeadInside] at hn
      cases hin : inside pd n with
      | true =>
        have hstep := (step_plain_inside { pending := pd, out := out } n hin).2.2
        simp only [removeInside, hin, if_true, List.foldlM_cons, hstep, bind, Except.bind]
        rw [ih _ _ hs'.2 hn]
        exact (lazy_pop .keep n.key pd out _ (fun g hg => hs'.1 g ((removeInside_sublist gs _).subset hg))).symm
      | false =>
        simp only [removeInside, hin, Bool.false_eq_true, if_false, List.foldlM_cons,
          step_plain_outside _ { pending := pd, out := out } n hin, bind, Except.bind]
        exact ih _ _ hs'.2 hn
    | withTail h tb =>
      simp only [NoHeadInside] at hn
      simp only [removeInside, List.foldlM_cons,
        step_withTail_outside _ { pending := pd, out := out } h tb hn.1, bind, Except.bind]
      exact ih _ _ hs'.2 hn.2

theorem ungroupNotes_eq (p : Orphan) (groups : List (List GNote)) :
    ungroupNotes p groups = (groups.flatten.foldlM (ungroupStep p) { pending := [], out := [] }).map finish := by
  unfold ungroupNotes
  cases groups.flatten.foldlM (ungroupStep p) { pending := [], out := [] } <;> rfl

end Simfile.Ungroup
