/- `OrderedDict.__eq__` as CPython computes it (dictionary equality, then the key sequences position by position) is equality of
the item lists, for dictionaries with distinct keys. -/
import Simfile.Model.Equality
namespace Simfile
open Dict

theorem get?_cons_self (k : Str) (v : Option Str) (d : Dict) : Dict.get? ((k, v) :: d) k = some v := by
  simp [Dict.get?, List.lookup]

theorem get?_cons_ne (k k' : Str) (v : Option Str) (d : Dict) (h : k' ≠ k) : Dict.get? ((k, v) :: d) k' = Dict.get? d k' := by
  unfold Dict.get?
  rw [List.lookup_cons]
  have : (k' == k) = false := by simpa using h
  rw [this]

theorem get?_of_mem_wf (d : Dict) (h : WF d) (kv : Str × Option Str) (hm : kv ∈ d) : Dict.get? d kv.1 = some kv.2 := by
  induction d with
  | nil => cases hm
  | cons x xs ih =>
    obtain ⟨k, v⟩ := x
    have hnd : k ∉ keys xs ∧ WF xs := by
      unfold WF keys at h; simp only [List.map_cons, List.nodup_cons] at h; exact ⟨by simpa [keys] using h.1, h.2⟩
    rcases List.mem_cons.mp hm with e | hm'
    · subst e; exact get?_cons_self _ _ _
    · have hne : kv.1 ≠ k := by
        intro e; apply hnd.1; rw [← e]; exact List.mem_map_of_mem (f := Prod.fst) hm'
      rw [get?_cons_ne _ _ _ _ hne]; exact ih hnd.2 hm'

theorem keysAgree_self (a : Dict) : keysAgree a a = true := by
  induction a with
  | nil => rfl
  | cons x xs ih => simp [keysAgree, ih]

theorem orderedDictEq_self (a : Dict) (h : WF a) : orderedDictEq a a = true := by
  unfold orderedDictEq dictEq
  simp only [beq_self_eq_true, Bool.true_and, Bool.and_eq_true, List.all_eq_true, keysAgree_self, and_true]
  intro kv hm
  rw [get?_of_mem_wf a h kv hm]; simp

/-- the two steps together decide equality of the item lists -/
theorem orderedDictEq_eq (a b : Dict) (ha : WF a) (hb : WF b) (h : orderedDictEq a b = true) : a = b := by
  induction a generalizing b with
  | nil =>
    cases b with
    | nil => rfl
    | cons y ys => simp [orderedDictEq, dictEq] at h
  | cons x xs ih =>
    cases b with
    | nil => simp [orderedDictEq, dictEq] at h
    | cons y ys =>
      obtain ⟨k, v⟩ := x
      obtain ⟨k', v'⟩ := y
      simp only [orderedDictEq, dictEq, List.length_cons, List.all_cons, keysAgree, Bool.and_eq_true, beq_iff_eq,
        decide_eq_true_eq, List.all_eq_true] at h
      obtain ⟨⟨hlen, hhead, htail⟩, hk, hkeys⟩ := h
      subst hk
      rw [get?_cons_self] at hhead
      have hv : v' = v := by injection hhead
      subst hv
      have hax : k ∉ keys xs ∧ WF xs := by
        unfold WF keys at ha; simp only [List.map_cons, List.nodup_cons] at ha; exact ⟨by simpa [keys] using ha.1, ha.2⟩
      have hbx : k ∉ keys ys ∧ WF ys := by
        unfold WF keys at hb; simp only [List.map_cons, List.nodup_cons] at hb; exact ⟨by simpa [keys] using hb.1, hb.2⟩
      have : xs = ys := by
        apply ih ys hax.2 hbx.2
        simp only [orderedDictEq, dictEq, Bool.and_eq_true, beq_iff_eq, List.all_eq_true]
        refine ⟨⟨by omega, ?_⟩, hkeys⟩
        intro kv hm
        have hne : kv.1 ≠ k := by
          intro e; apply hax.1; rw [← e]; exact List.mem_map_of_mem (f := Prod.fst) hm
        have := htail kv hm
        rw [get?_cons_ne _ _ _ _ hne] at this
        exact this
      rw [this]

theorem orderedDictEq_iff (a b : Dict) (ha : WF a) (hb : WF b) : orderedDictEq a b = true ↔ a = b :=
  ⟨orderedDictEq_eq a b ha hb, fun e => by subst e; exact orderedDictEq_self a ha⟩

theorem sscChartsEq_iff (a b : List Dict) (ha : ∀ d ∈ a, WF d) (hb : ∀ d ∈ b, WF d) : chartsEq false a b = true ↔ a = b := by
  induction a generalizing b with
  | nil => cases b <;> simp [chartsEq]
  | cons x xs ih =>
    cases b with
    | nil => simp [chartsEq]
    | cons y ys =>
      simp only [chartsEq, chartEq, Bool.false_eq_true, if_false, Bool.and_eq_true, List.cons.injEq]
      rw [orderedDictEq_iff x y (ha x (by simp)) (hb y (by simp)),
        ih ys (fun d hd => ha d (by simp [hd])) (fun d hd => hb d (by simp [hd]))]

end Simfile
