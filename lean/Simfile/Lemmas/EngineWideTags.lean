/-
C12 helpers for Simfile/Props/C12Wide.lean: the tag of a `beat_at` query (only "WARP or not" matters, and off
the state times not even that), and the round trip at the two ends of a pause (which covers the hittable
beats inside warps).
-/
import Simfile.Lemmas.EngineWarpTag
import Simfile.Lemmas.EngineWideBpm
namespace Simfile.Wide
open Simfile C11

variable {td : TimingData}

/-! ### the tag of a `beat_at` query -/

theorem priorByTime_nonwarp (td : TimingData) (t : Rat) {g : Tag} (hg : g ≠ .warp) :
    (mkEngine td).priorByTime t g = (mkEngine td).priorByTime t .stop := by
  unfold Engine.priorByTime
  have h2 : (.stop : Tag) ≠ .warp := by decide
  simp only [if_neg hg, if_neg h2]

theorem beatAt_nonwarp (td : TimingData) (t : Rat) {g : Tag} (hg : g ≠ .warp) :
    beatAt td t g = beatAt td t .stop := by
  rw [beatAt_eq, beatAt_eq, priorByTime_nonwarp td t hg]

/-- the bisect loop only looks at the values of the test on the array elements -/
theorem bisectRightLoop_congr {α} (lt lt' : α → Bool) (a : Array α)
    (h : ∀ (i : Nat) (y : α), a[i]? = some y → lt y = lt' y) :
    ∀ fuel lo hi, bisectRightLoop lt a fuel lo hi = bisectRightLoop lt' a fuel lo hi := by
  intro fuel
  induction fuel with
  | zero => intro lo hi; rfl
  | succ fuel ih =>
    intro lo hi
    unfold bisectRightLoop
    by_cases hlt : lo < hi
    · simp only [hlt, if_true]
      cases hy : a[(lo + hi) / 2]? with
      | none => rfl
      | some y => simp only [h _ y hy, ih]
    · simp only [hlt, if_false]

/-- off the state times the two searches (bisect_left for WARP, bisect_right otherwise) select the same
state -/
theorem priorByTime_off_times (td : TimingData) (t : Rat) (hne : ∀ s ∈ states td, s.time ≠ t) (g g' : Tag) :
    (mkEngine td).priorByTime t g = (mkEngine td).priorByTime t g' := by
  rw [priorByTime_eq, priorByTime_eq]
  have : ∀ w w' : Bool, bisectRightLoop (timeTest w t) (states td).toArray ((states td).toArray.size + 1) 0
      (states td).toArray.size = bisectRightLoop (timeTest w' t) (states td).toArray
        ((states td).toArray.size + 1) 0 (states td).toArray.size := by
    intro w w'
    apply bisectRightLoop_congr
    intro i y hy
    have hmem : y ∈ states td := by
      rw [List.getElem?_toArray] at hy
      exact List.mem_of_getElem? hy
    have hyt := hne y hmem
    rcases lt_or_gt_of_ne hyt with h | h
    · have h' : ¬ t < y.time := not_lt.2 (le_of_lt h)
      cases w <;> cases w' <;> simp [timeTest, h, h']
    · have h' : ¬ y.time < t := not_lt.2 (le_of_lt h)
      cases w <;> cases w' <;> simp [timeTest, h, h']
  rw [this (decide (g = .warp)) (decide (g' = .warp))]

theorem beatAt_off_times (td : TimingData) (t : Rat) (hne : ∀ s ∈ states td, s.time ≠ t) (g g' : Tag) :
    beatAt td t g = beatAt td t g' := by
  rw [beatAt_eq, beatAt_eq, priorByTime_off_times td t hne g g']

/-- the beats on which the timing data put an event -/
def eventBeat (td : TimingData) (b : Rat) : Prop :=
  b = 0 ∨ (∃ e ∈ td.bpms, e.1 = b) ∨ (∃ e ∈ td.stops, e.1 = b) ∨ (∃ e ∈ td.delays, e.1 = b) ∨
    (∃ w ∈ td.warps, w.1 = b ∨ w.1 + roundToTick w.2 = b)

theorem event_eventBeat (hd : Dom td) {e : TEvent} (he : e ∈ events td) : eventBeat td e.beat := by
  obtain ⟨_, _, _, h4⟩ := Simfile.segs_spec td.warps hd.warps_pos hd.warps_sorted
  cases ht : e.tag
  · obtain ⟨sg, hsg, h⟩ := events_warp he ht
    obtain ⟨⟨w, hw, e1⟩, _⟩ := h4 sg hsg
    exact Or.inr (Or.inr (Or.inr (Or.inr ⟨w, hw, Or.inl (by rw [← e1, h])⟩)))
  · obtain ⟨sg, hsg, h⟩ := events_warpEnd he ht
    obtain ⟨_, ⟨w, hw, e2⟩⟩ := h4 sg hsg
    exact Or.inr (Or.inr (Or.inr (Or.inr ⟨w, hw, Or.inr (by rw [← e2, h])⟩)))
  · exact Or.inr (Or.inl ⟨_, List.mem_of_mem_tail (events_bpm he ht), rfl⟩)
  · exact Or.inr (Or.inr (Or.inr (Or.inl ⟨_, events_delay he ht, rfl⟩)))
  · exact Or.inr (Or.inr (Or.inr (Or.inl ⟨_, events_delayEnd he ht, rfl⟩)))
  · exact Or.inr (Or.inr (Or.inl ⟨_, events_stop he ht, rfl⟩))
  · exact Or.inr (Or.inr (Or.inl ⟨_, events_stopEnd he ht, rfl⟩))

/-- every state time is the declarative time of a key on an event beat -/
theorem state_time_event (hd : Dom td) {s : TState} (hs : s ∈ states td) :
    eventBeat td s.beat ∧ s.time = Spec.timeSpec td s.beat s.tag := by
  rw [states_eq_run] at hs
  rcases List.mem_cons.1 hs with rfl | hs
  · refine ⟨Or.inl rfl, ?_⟩
    show -td.offset = Spec.timeSpec td 0 .bpm
    rw [timeSpec_eq, paused_eq_K, pausedK_low hd.toDom0 (key_lt.2 (Or.inr ⟨rfl, by simp⟩)), travel_zero]
    ring
  · have hinv := states_inv hd.toDom0 s hs
    refine ⟨?_, hinv.time⟩
    obtain ⟨k, hk, rfl⟩ := List.getElem_of_mem hs
    have hk' : k < (events td).length := by rw [run_length] at hk; exact hk
    have hy : (states td)[k + 1]? = some (run (initState td) (events td))[k] := by
      rw [states_eq_run, List.getElem?_cons_succ, List.getElem?_eq_getElem hk]
    obtain ⟨_, _, hb, _⟩ := states_pos hd k _ hy
    rw [hb]
    exact event_eventBeat hd (List.getElem_mem hk')

/-! ### the two ends of a pause -/

theorem pause_len_pos (hd : Dom td) {g0 : Tag} (hg0 : g0 = .stop ∨ g0 = .delay) {b L : Rat}
    (he : (⟨b, L, g0⟩ : TEvent) ∈ events td) : 0 < L := by
  rcases hg0 with rfl | rfl
  · exact hd.stops_pos _ (events_stop he rfl)
  · exact hd.delays_pos _ (events_delay he rfl)

/-- at the time a pause starts the default search returns the beat of the pause -/
theorem beatAt_pause_start (hd : Dom td) (g0 g1 : Tag) (hadj : g1.val = g0.val + 1)
    (hg0 : g0 = .stop ∨ g0 = .delay) (b L : Rat) (he0 : (⟨b, L, g0⟩ : TEvent) ∈ events td) :
    beatAt td (Spec.timeSpec td b g0) .stop = b := by
  have hgr := stop_at_event_time hd he0
  simp only at hgr
  have hL := pause_len_pos hd hg0 he0
  have hp := timeSpec_pause hd g0 g1 hadj hg0 b L he0
  have hb : IsGreatest {c : Rat | onGrid c ∧ Spec.timeSpec td c .warp ≤ Spec.timeSpec td b g0} b := by
    constructor
    · exact ⟨(event_beat_ok hd.toDom0 he0).2, timeSpec_mono td hd.toDom0 (key_le.2 (Or.inr ⟨rfl, by simp⟩))⟩
    · intro c hc
      by_contra hlt
      have h1 : Spec.timeSpec td b g1 ≤ Spec.timeSpec td c .warp :=
        timeSpec_mono td hd.toDom0 (key_le.2 (Or.inl (not_le.1 hlt)))
      have h2 := hc.2
      linarith
  exact hgr.unique hb

/-- at the time a pause ends the WARP search returns the beat of the pause -/
theorem beatAt_pause_end (hd : Dom td) (g0 g1 : Tag) (hadj : g1.val = g0.val + 1)
    (hg0 : g0 = .stop ∨ g0 = .delay) (b L : Rat) (he0 : (⟨b, L, g0⟩ : TEvent) ∈ events td)
    (he1 : (⟨b, L, g1⟩ : TEvent) ∈ events td) :
    beatAt td (Spec.timeSpec td b g1) .warp = b := by
  have hls := warp_at_event_time hd he1
  simp only at hls
  have hL := pause_len_pos hd hg0 he0
  have hp := timeSpec_pause hd g0 g1 hadj hg0 b L he0
  have hb : IsLeast {c : Rat | onGrid c ∧ Spec.timeSpec td b g1 ≤ Spec.timeSpec td c .stopEnd} b := by
    constructor
    · exact ⟨(event_beat_ok hd.toDom0 he0).2,
        timeSpec_mono td hd.toDom0 (key_le.2 (Or.inr ⟨rfl, by rw [val_stopEnd]; exact Tag.val_le_six _⟩))⟩
    · intro c hc
      by_contra hlt
      have h1 : Spec.timeSpec td c .stopEnd ≤ Spec.timeSpec td b g0 :=
        timeSpec_mono td hd.toDom0 (key_le.2 (Or.inl (not_le.1 hlt)))
      have h2 := hc.2
      linarith
  exact hls.unique hb

/-- the whole pause, ends included: on `[start, end)` every tag but WARP answers the beat of the pause, on
`(start, end]` the WARP tag does -/
theorem beatAt_pause_closed (hd : Dom td) (g0 g1 : Tag) (hadj : g1.val = g0.val + 1)
    (hg0 : g0 = .stop ∨ g0 = .delay) (b L : Rat) (he0 : (⟨b, L, g0⟩ : TEvent) ∈ events td)
    (he1 : (⟨b, L, g1⟩ : TEvent) ∈ events td) (t : Rat) :
    (Spec.timeSpec td b g0 ≤ t → t < Spec.timeSpec td b g0 + L → ∀ g, g ≠ .warp → beatAt td t g = b) ∧
    (Spec.timeSpec td b g0 < t → t ≤ Spec.timeSpec td b g0 + L → beatAt td t .warp = b) := by
  have hp := timeSpec_pause hd g0 g1 hadj hg0 b L he0
  constructor
  · intro h1 h2 g hg
    rcases eq_or_lt_of_le h1 with h | h
    · rw [← h, beatAt_nonwarp td _ hg]
      exact beatAt_pause_start hd g0 g1 hadj hg0 b L he0
    · exact beatAt_pause hd g0 g1 hadj hg0 b L he0 he1 t h h2 g
  · intro h1 h2
    rcases eq_or_lt_of_le h2 with h | h
    · rw [h, ← hp]
      exact beatAt_pause_end hd g0 g1 hadj hg0 b L he0 he1
    · exact beatAt_pause hd g0 g1 hadj hg0 b L he0 he1 t h1 h .warp


/-! ### the round trip outside the warps, under every tag -/

/-- at the END time of a stop on a beat outside the warps the default search still answers that beat -/
theorem beatAt_stopEnd_outside (hd : Dom td) {b L : Rat} (hs : (b, L) ∈ td.stops)
    (hw : Spec.inWarp td b = false) : beatAt td (Spec.timeSpec td b .stopEnd) .stop = b := by
  have hgr := stop_at_event_time hd (ev_stopEnd hs)
  simp only at hgr
  obtain ⟨h0, hbg⟩ := hd.stops_grid _ hs
  simp only at h0 hbg
  have hb : IsGreatest {c : Rat | onGrid c ∧ Spec.timeSpec td c .warp ≤ Spec.timeSpec td b .stopEnd} b := by
    constructor
    · exact ⟨hbg, timeSpec_mono td hd.toDom0 (key_le.2 (Or.inr ⟨rfl, by simp⟩))⟩
    · intro c hc
      by_contra hlt
      have hgap := grid_gap hbg hc.1 (not_le.1 hlt)
      have h1 : Spec.timeSpec td (b + 1 / 48) .warp ≤ Spec.timeSpec td c .warp := by
        apply timeSpec_mono td hd.toDom0
        rcases lt_or_eq_of_le hgap with h | h
        · exact key_le.2 (Or.inl h)
        · exact key_le.2 (Or.inr ⟨h, le_refl _⟩)
      have h2 := timeSpec_strict_tick hd hbg h0 hw .stopEnd
      have h3 := hc.2
      linarith
  exact hgr.unique hb

/-- on a tick-aligned beat outside the warps, the time of the beat under ANY tag is answered by that beat
(default search) -/
theorem beatAt_timeSpec_any_tag (hd : Dom td) {b : Rat} (hb : onGrid b) (hw : Spec.inWarp td b = false)
    (g : Tag) : beatAt td (Spec.timeSpec td b g) .stop = b := by
  have hbase := beatAt_timeSpec hd hb hw
  by_cases h4 : g.val < Tag.val .delayEnd
  · by_cases hdel : ∃ e ∈ td.delays, e.1 = b
    · obtain ⟨e, he, rfl⟩ := hdel
      have he' : (e.1, e.2) ∈ td.delays := he
      have : Spec.timeSpec td e.1 g = Spec.timeSpec td e.1 .delay := by
        apply timeSpec_tag
        · intro _; simp only [val_delayEnd, val_delay] at h4 ⊢; omega
        · intro _; simp only [val_delayEnd, val_stopEnd, val_delay] at h4 ⊢; omega
      rw [this]
      exact beatAt_pause_start hd .delay .delayEnd (by simp) (Or.inr rfl) e.1 e.2 (ev_delay he')
    · have : Spec.timeSpec td b g = Spec.timeSpec td b .stop := by
        apply timeSpec_tag
        · intro h; exact absurd h hdel
        · intro _; simp only [val_delayEnd, val_stopEnd, val_stop] at h4 ⊢; omega
      rw [this]; exact hbase
  · by_cases h6 : g = .stopEnd
    · subst h6
      by_cases hst : ∃ e ∈ td.stops, e.1 = b
      · obtain ⟨e, he, rfl⟩ := hst
        exact beatAt_stopEnd_outside hd (show (e.1, e.2) ∈ td.stops from he) hw
      · have : Spec.timeSpec td b .stopEnd = Spec.timeSpec td b .stop := by
          apply timeSpec_tag
          · intro _; simp
          · intro h; exact absurd h hst
        rw [this]; exact hbase
    · have : Spec.timeSpec td b g = Spec.timeSpec td b .stop := by
        apply timeSpec_tag
        · intro _; simp only [val_delayEnd, val_stop] at h4 ⊢; omega
        · intro _
          rw [stopEnd_le_iff, stopEnd_le_iff]
          constructor
          · intro h; exact absurd h h6
          · intro h; cases h
      rw [this]; exact hbase

/-! ### a delay without a stop inside a warp: the default search overshoots -/

theorem le_of_lt_next_tick {d b : Rat} (hd : onGrid d) (hb : onGrid b) (h : d < b + 1 / 48) : d ≤ b := by
  by_contra hc
  have := grid_gap hb hd (not_le.1 hc)
  linarith

/-- inside a warp the next tick starts at the time at which the beat ends -/
theorem timeSpec_next_tick_in_warp (hd : Dom td) {b : Rat} (hb : onGrid b) (h0 : 0 ≤ b)
    (hw : Spec.inWarp td b = true) :
    Spec.timeSpec td (b + 1 / 48) .warp = Spec.timeSpec td b .stopEnd := by
  rw [timeSpec_eq, timeSpec_eq]
  have ht : travel td (b + 1 / 48) = travel td b := by
    obtain ⟨n, hn⟩ := onGrid_nat hb h0
    have := travel_step td true (Spec.bpmOn td b) b (b + 1 / 48) n hn (by linarith) (by
      intro m hm hmc
      have h1 : (m : Rat) < (n : Rat) + 1 := by
        rw [hn, ← add_div] at hmc
        exact (div_lt_div_iff_of_pos_right (by norm_num : (0 : Rat) < 48)).1 hmc
      have h2 : m < n + 1 := by exact_mod_cast h1
      have : m = n := by omega
      subst this
      rw [← hn]; exact ⟨hw, rfl⟩)
    rw [this]
    simp
  have hp : Spec.paused td (b + 1 / 48) .warp = Spec.paused td b .stopEnd := by
    rw [paused_eq_K, paused_eq_K]
    unfold pausedK
    have h1 : foldSum (fun β => key β .delayEnd ≤ key (b + 1 / 48) .warp) td.delays 0 =
        foldSum (fun β => key β .delayEnd ≤ key b .stopEnd) td.delays 0 := by
      apply foldSum_congr
      intro d hd'
      have hg := (hd.delays_grid d hd').2
      rw [key_le, key_le]
      simp only [val_delayEnd, val_warp, val_stopEnd]
      constructor
      · rintro (h | ⟨_, h⟩)
        · rcases lt_or_eq_of_le (le_of_lt_next_tick hg hb h) with h' | h'
          · exact Or.inl h'
          · exact Or.inr ⟨h', by norm_num⟩
        · omega
      · rintro (h | ⟨h, _⟩)
        · left; linarith
        · left; linarith
    have h2 : foldSum (fun β => key β .stopEnd ≤ key (b + 1 / 48) .warp) td.stops 0 =
        foldSum (fun β => key β .stopEnd ≤ key b .stopEnd) td.stops 0 := by
      apply foldSum_congr
      intro d hd'
      have hg := (hd.stops_grid d hd').2
      rw [key_le, key_le]
      simp only [val_warp, val_stopEnd]
      constructor
      · rintro (h | ⟨_, h⟩)
        · rcases lt_or_eq_of_le (le_of_lt_next_tick hg hb h) with h' | h'
          · exact Or.inl h'
          · exact Or.inr ⟨h', le_refl _⟩
        · omega
      · rintro (h | ⟨h, _⟩)
        · left; linarith
        · left; linarith
    rw [h1, h2]
  rw [ht, hp]

theorem onGrid_tick : onGrid (1 / 48 : Rat) := ⟨1, by rw [ticks_cast]; norm_num⟩

/-- a delay and no stop on a beat inside a warp: at the time the delay ends the default search has already
left the beat -/
theorem delay_only_overshoots (hd : Dom td) {b L : Rat} (hs : (b, L) ∈ td.delays)
    (hw : Spec.inWarp td b = true) (hno : ∀ e ∈ td.stops, e.1 ≠ b) :
    b + 1 / 48 ≤ beatAt td (Spec.timeSpec td b .delayEnd) .stop := by
  have hgr := stop_at_event_time hd (ev_delayEnd hs)
  simp only at hgr
  obtain ⟨h0, hbg⟩ := hd.delays_grid _ hs
  simp only at h0 hbg
  apply hgr.2
  refine ⟨onGrid_add hbg onGrid_tick, ?_⟩
  rw [timeSpec_next_tick_in_warp hd hbg h0 hw]
  apply le_of_eq
  apply timeSpec_tag
  · intro _; simp
  · rintro ⟨e, he, heb⟩; exact absurd heb (hno e he)

end Simfile.Wide
