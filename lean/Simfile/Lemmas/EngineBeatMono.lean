/-
C12 helper: `beat_at` is monotone in the time; inside a pause it returns the beat of the pause.
-/
import Simfile.Lemmas.EngineBeat
namespace Simfile
open C11

variable {td : TimingData}

/-- extrapolating from a state never passes the beat of the next state, for the times the search
assigns to that state -/
theorem link (hd : Dom td) (w : Bool) {k : Nat} {y z : TState} (hy : (states td)[k]? = some y)
    (hz : (states td)[k + 1]? = some z) {t : Rat} (h1 : k = 0 ∨ R1 w y.time t) (h2 : R2 w t z.time) :
    y.beat + y.beatsUntil t ≤ z.beat := by
  have hk : k < (events td).length := by have := states_lt_of_get hz; omega
  have hz' := states_succ td k y hy hk
  rw [hz] at hz'
  have hzeq := Option.some.inj hz'
  have hbeat : y.beat ≤ z.beat := beats_le hd (Nat.le_succ k) hy hz
  by_cases hp : y.tag = .stop ∨ y.tag = .delay
  · rw [beatsUntil_pause hp]; simpa using hbeat
  · rw [beatsUntil_run hp]
    have hbpm := state_bpm_pos hd hy
    have htime : z.time = y.time + y.timeUntil z.beat z.tag := by rw [hzeq]; rfl
    have hadd : ¬ ((y.tag = .stop ∨ y.tag = .delay) ∧ (z.tag = .stopEnd ∨ z.tag = .delayEnd)) :=
      fun h => hp h.1
    unfold TState.timeUntil at htime
    rw [if_neg hadd, add_zero] at htime
    by_cases hw : y.warp = true
    · rw [if_pos hw, add_zero] at htime
      exfalso
      rcases h1 with h1 | h1
      · subst h1
        rw [states_zero] at hy
        rw [← Option.some.inj hy] at hw
        exact absurd hw (by simp [initState])
      · rw [htime] at h2
        exact R12_contra h1 (le_refl t) h2
    · rw [if_neg hw] at htime
      have ht := R2_le h2
      have hle : (t - y.time) / 60 * y.bpm ≤ z.beat - y.beat := by
        have h3 : t - y.time ≤ (z.beat - y.beat) * 60 / y.bpm := by linarith
        have h4 : (t - y.time) / 60 * y.bpm ≤ (z.beat - y.beat) * 60 / y.bpm / 60 * y.bpm := by
          apply mul_le_mul_of_nonneg_right _ (le_of_lt hbpm)
          exact div_le_div_of_nonneg_right h3 (by norm_num)
        have h5 : (z.beat - y.beat) * 60 / y.bpm / 60 * y.bpm = z.beat - y.beat := by
          field_simp
        linarith
      have := roundToTick_mono hle
      rw [roundToTick_grid (onGrid_sub (state_beat_grid hd hz) (state_beat_grid hd hy))] at this
      linarith

/-- 8. `beat_at` is monotone in the time, for each tag -/
theorem beatAt_mono (hd : Dom td) (g : Tag) {t₁ t₂ : Rat} (h : t₁ ≤ t₂) : beatAt td t₁ g ≤ beatAt td t₂ g := by
  obtain ⟨k₁, y₁, hy₁, hs₁, ha₁, hb₁⟩ := priorByTime_sel hd t₁ g
  obtain ⟨k₂, y₂, hy₂, hs₂, ha₂, hb₂⟩ := priorByTime_sel hd t₂ g
  rw [beatAt_eq, beatAt_eq, hs₁, hs₂]
  have hk : k₁ ≤ k₂ := by
    by_contra hc
    have hlt : k₂ < k₁ := by omega
    rcases ha₁ with ha₁ | ha₁
    · omega
    · exact R12_contra ha₁ h (hb₂ k₁ y₁ hlt hy₁)
  rcases Nat.lt_or_eq_of_le hk with hlt | heq
  · have hlen := states_lt_of_get hy₂
    obtain ⟨z, hz⟩ := states_get td (k₁ + 1) (by omega)
    have h1 := link hd _ hy₁ hz ha₁ (hb₁ (k₁ + 1) z (Nat.lt_succ_self _) hz)
    have h2 : z.beat ≤ y₂.beat := beats_le hd hlt hz hy₂
    have h3 : 0 ≤ y₂.beatsUntil t₂ := by
      rcases ha₂ with ha₂ | ha₂
      · omega
      · exact beatsUntil_nonneg (le_of_lt (state_bpm_pos hd hy₂)) (R1_le ha₂)
    linarith
  · subst heq
    rw [hy₁] at hy₂
    obtain rfl := Option.some.inj hy₂
    have := beatsUntil_mono (s := y₁) (le_of_lt (state_bpm_pos hd hy₁)) h
    linarith

/-! ### inside a pause -/

theorem event_index {e : TEvent} (he : e ∈ events td) : ∃ j, ∃ hj : j < (events td).length, (events td)[j] = e :=
  List.getElem_of_mem he

/-- the END key of a pause is `L` seconds after its start key -/
theorem timeSpec_pause (hd : Dom td) (g0 g1 : Tag) (hadj : g1.val = g0.val + 1)
    (hg0 : g0 = .stop ∨ g0 = .delay) (b L : Rat) (he : (⟨b, L, g0⟩ : TEvent) ∈ events td) :
    Spec.timeSpec td b g1 = Spec.timeSpec td b g0 + L := by
  obtain ⟨j, hj, hej⟩ := event_index he
  obtain ⟨z, _, hinv, hzb, hzt, hzv, hzk⟩ := states_event hd j hj
  rw [hej] at hzb hzt hzv hzk
  simp only at hzb hzt hzv
  have hg1 : g1 = .stopEnd ∨ g1 = .delayEnd := by
    rcases hg0 with rfl | rfl
    · left; apply Tag.val_inj; rw [hadj]; simp
    · right; apply Tag.val_inj; rw [hadj]; simp
  have hle : skey z ≤ key b g1 := by
    rw [hzk]; exact key_le.2 (Or.inr ⟨rfl, by simp only; omega⟩)
  have hno : NoneBetween td (skey z) (key b g1) := by
    intro e _ hh
    rw [hzk] at hh
    have h1 := key_squeeze (le_of_lt hh.1) (le_of_lt hh.2)
    rcases key_lt.1 hh.1 with h2 | h2
    · exact absurd h1.1.symm (ne_of_lt h2)
    · rcases key_lt.1 hh.2 with h3 | h3
      · exact absurd h1.1 (ne_of_lt h3)
      · have := h2.2; have := h3.2; simp only at *; omega
  have hst := step_time hd z hinv b g1 hle hno
  have ht0 : z.time = Spec.timeSpec td b g0 := by rw [hinv.time, hzb, hzt]
  rw [← hst, ← ht0]
  unfold TState.timeUntil
  have hc : (g0 = .stop ∨ g0 = .delay) ∧ (g1 = .stopEnd ∨ g1 = .delayEnd) := ⟨hg0, hg1⟩
  rw [hzb, hzt, hzv, if_pos hc]
  split <;> simp

/-- between the start key and the END key of a pause every search returns the beat of the pause -/
theorem beatAt_pause (hd : Dom td) (g0 g1 : Tag) (hadj : g1.val = g0.val + 1)
    (hg0 : g0 = .stop ∨ g0 = .delay) (b L : Rat) (he0 : (⟨b, L, g0⟩ : TEvent) ∈ events td)
    (he1 : (⟨b, L, g1⟩ : TEvent) ∈ events td) (t : Rat) (h1 : Spec.timeSpec td b g0 < t)
    (h2 : t < Spec.timeSpec td b g0 + L) (g : Tag) : beatAt td t g = b := by
  obtain ⟨j, hj, hej⟩ := event_index he0
  obtain ⟨j', hj', hej'⟩ := event_index he1
  obtain ⟨z, hz, hinv, hzb, hzt, _, hzk⟩ := states_event hd j hj
  obtain ⟨z', hz', hinv', hzb', hzt', _, hzk'⟩ := states_event hd j' hj'
  rw [hej] at hzb hzt hzk
  rw [hej'] at hzb' hzt' hzk'
  simp only at hzb hzt hzb' hzt'
  have hzt0 : z.time = Spec.timeSpec td b g0 := by rw [hinv.time, hzb, hzt]
  have hzt1 : z'.time = Spec.timeSpec td b g0 + L := by
    rw [hinv'.time, hzb', hzt', timeSpec_pause hd g0 g1 hadj hg0 b L he0]
  obtain ⟨k, y, hy, hsel, ha, hb⟩ := priorByTime_sel hd t g
  rw [beatAt_eq, hsel]
  have hk1 : j + 1 ≤ k := by
    by_contra hc
    have := R2_le (hb (j + 1) z (by omega) hz)
    rw [hzt0] at this
    linarith
  cases k with
  | zero => omega
  | succ i =>
    have hyt : y.time ≤ t := by
      rcases ha with ha | ha
      · omega
      · exact R1_le ha
    have hk2 : i < j' := by
      by_contra hc
      have := times_le hd (show j' + 1 ≤ i + 1 by omega) hz' hy
      rw [hzt1] at this
      linarith
    obtain ⟨hi, _, _, _, _, hyk⟩ := states_pos hd i y hy
    have hlow := events_key_le hd hj hi (show j ≤ i by omega)
    have hhigh := events_key_lt hd hi hj' hk2
    rw [hej, ← hyk] at hlow
    rw [hej', ← hyk] at hhigh
    unfold ekey at hlow hhigh
    simp only at hlow hhigh
    obtain ⟨hb', hv1, _⟩ := key_squeeze hlow (le_of_lt hhigh)
    have htag : y.tag = g0 := by
      apply Tag.val_inj
      rcases key_lt.1 hhigh with h3 | h3
      · exact absurd hb' (ne_of_lt h3)
      · have := h3.2; omega
    rw [beatsUntil_pause (htag ▸ hg0), hb', add_zero]

end Simfile
