/-
The side conditions of the text-level removal theorem stated on positions of the token list (`Separable`), and the
proof that they imply the scan `removable`.
-/
import Simfile.Lemmas.MsdTextStray
namespace Simfile.MsdP

/-- a TEXT token that is exactly the byte order mark -/
def isLoneBom : Tok → Bool
  | .text s => decide (s = [bomC])
  | _ => false
def isComment : Tok → Bool
  | .comment _ => true
  | _ => false
/-- a token lexed from the character '#': START, or the TEXT "#" (a '#' inside a parameter not at a line start) -/
def isHash : Tok → Bool
  | .start => true
  | .text s => decide (s = ['#'])
  | _ => false
def isText : Tok → Bool
  | .text _ => true
  | _ => false

/-- the lexer's recovery flag after the tokens `pre`: the last TEXT token of `pre` ends in a line break -/
def flagAfter (pre : List Tok) : Bool := pre.foldl flagStep false

/-- The three side conditions on the token list of a text, by positions (`insideAfter pre = false`: the position
after `pre` is outside a parameter; `isStray x`: `x` is a TEXT token that is neither blank nor a lone byte order mark).
 * `after`: a stray token outside a parameter does not directly follow a comment or a lone byte order mark;
 * `before_bom`: it is not directly followed by a lone byte order mark;
 * `recovery`: at every token lexed from a '#' INSIDE a parameter, the last TEXT token before it and the last KEPT
   TEXT token before it agree on ending in a line break (e.g. because no stray text has been dropped since the
   last kept TEXT token, as when every parameter key is non-empty). -/
structure Separable (toks : List Tok) : Prop where
  after : ∀ pre a x post, toks = pre ++ a :: x :: post → insideAfter (pre ++ [a]) = false → isStray x = true →
    isComment a = false ∧ isLoneBom a = false
  before_bom : ∀ pre x a post, toks = pre ++ x :: a :: post → insideAfter pre = false → isStray x = true →
    isLoneBom a = false
  recovery : ∀ pre h post, toks = pre ++ h :: post → insideAfter pre = true → isHash h = true →
    flagAfter pre = flagAfter (cleanToks pre false)

def VA (ts : List Tok) (i : Bool) (p : Prev) : Prop :=
  ∃ x post, ts = x :: post ∧ i = false ∧ isStray x = true ∧ (p = .comment ∨ p = .bom)
def VB (ts : List Tok) (i : Bool) (p : Prev) : Prop :=
  ∃ a post, ts = a :: post ∧ i = false ∧ isLoneBom a = true ∧ p = .stray
def VC (ts : List Tok) (i : Bool) (b b' : Bool) : Prop :=
  ∃ mid h post, ts = mid ++ h :: post ∧ mid.foldl insideStep i = true ∧ isHash h = true ∧
    mid.foldl flagStep b ≠ (cleanToks mid i).foldl flagStep b'
def VD (ts : List Tok) (i : Bool) : Prop :=
  ∃ pre a x post, ts = pre ++ a :: x :: post ∧ (pre ++ [a]).foldl insideStep i = false ∧ isStray x = true ∧
    (isComment a = true ∨ isLoneBom a = true)
def VE (ts : List Tok) (i : Bool) : Prop :=
  ∃ pre x a post, ts = pre ++ x :: a :: post ∧ pre.foldl insideStep i = false ∧ isStray x = true ∧
    isLoneBom a = true
def VDeep (ts : List Tok) (i : Bool) : Prop := VD ts i ∨ VE ts i

theorem VDeep_shift (t : Tok) (ts : List Tok) (i : Bool) (h : VDeep ts (insideStep i t)) : VDeep (t :: ts) i := by
  rcases h with ⟨pre, a, x, post, rfl, h1, h2, h3⟩ | ⟨pre, x, a, post, rfl, h1, h2, h3⟩
  · exact Or.inl ⟨t :: pre, a, x, post, rfl, by simpa using h1, h2, h3⟩
  · exact Or.inr ⟨t :: pre, x, a, post, rfl, by simpa using h1, h2, h3⟩

theorem VC_keep (t : Tok) (ts : List Tok) (i b b' : Bool) (hk : (!i && isStray t) = false)
    (h : VC ts (insideStep i t) (flagStep b t) (flagStep b' t)) : VC (t :: ts) i b b' := by
  obtain ⟨mid, hh, post, rfl, h1, h2, h3⟩ := h
  refine ⟨t :: mid, hh, post, rfl, by simpa using h1, h2, ?_⟩
  rw [cleanToks_keep mid i hk]
  simpa using h3

theorem VC_drop (t : Tok) (ts : List Tok) (b b' : Bool) (hs : isStray t = true)
    (h : VC ts false (flagStep b t) b') : VC (t :: ts) false b b' := by
  obtain ⟨mid, hh, post, rfl, h1, h2, h3⟩ := h
  refine ⟨t :: mid, hh, post, rfl, by simpa [insideStep_of_isStray hs] using h1, h2, ?_⟩
  rw [cleanToks_drop mid hs]
  simpa using h3

theorem VC_here (t : Tok) (ts : List Tok) (b b' : Bool) (ht : isHash t = true) (hb : b ≠ b') :
    VC (t :: ts) true b b' := ⟨[], t, ts, rfl, rfl, ht, by simpa [cleanToks] using hb⟩

theorem not_VA_other (ts : List Tok) (i : Bool) : ¬ VA ts i .other := by
  rintro ⟨_, _, _, _, _, h | h⟩ <;> cases h
theorem not_VA_stray (ts : List Tok) (i : Bool) : ¬ VA ts i .stray := by
  rintro ⟨_, _, _, _, _, h | h⟩ <;> cases h
theorem not_VA_in (ts : List Tok) (p : Prev) : ¬ VA ts true p := by
  rintro ⟨_, _, _, h, _, _⟩; cases h
theorem not_VB_in (ts : List Tok) (p : Prev) : ¬ VB ts true p := by
  rintro ⟨_, _, _, h, _, _⟩; cases h
theorem not_VB_of_ne (ts : List Tok) (i : Bool) (p : Prev) (hp : p ≠ .stray) : ¬ VB ts i p := by
  rintro ⟨_, _, _, _, _, h⟩; exact hp h

/-- a failed scan points at a violation -/
theorem viol (ts : List Tok) : ∀ (i : Bool) (p : Prev) (b b' : Bool), removable ts i p b b' = false →
    VA ts i p ∨ VB ts i p ∨ VC ts i b b' ∨ VDeep ts i := by
  induction ts with
  | nil => intro i p b b' h; simp [removable] at h
  | cons t ts ih =>
    intro i p b b' h
    by_cases hx : (!i && isStray t) = true
    · -- dropped
      simp only [Bool.and_eq_true, Bool.not_eq_true'] at hx
      obtain ⟨hi, hst⟩ := hx
      subst hi
      rw [removable_drop _ _ _ _ hst] at h
      by_cases hp : p = .comment ∨ p = .bom
      · exact Or.inl ⟨t, ts, rfl, rfl, hst, hp⟩
      · have hp1 : p ≠ .comment := fun e => hp (Or.inl e)
        have hp2 : p ≠ .bom := fun e => hp (Or.inr e)
        have hr : removable ts false .stray (flagStep b t) b' = false := by
          cases hrr : removable ts false .stray (flagStep b t) b' with
          | false => rfl
          | true => simp [hrr, hp1, hp2] at h
        have hstep : insideStep false t = false := insideStep_of_isStray hst false
        rcases ih false .stray _ _ hr with hA | hB | hC | hD
        · exact absurd hA (not_VA_stray _ _)
        · obtain ⟨a, post, rfl, _, ha, _⟩ := hB
          exact Or.inr (Or.inr (Or.inr (Or.inr ⟨[], t, a, post, rfl, rfl, hst, ha⟩)))
        · exact Or.inr (Or.inr (Or.inl (VC_drop t ts b b' hst hC)))
        · exact Or.inr (Or.inr (Or.inr (VDeep_shift t ts false (by rw [hstep]; exact hD))))
    · have hx' : (!i && isStray t) = false := by simpa using hx
      cases t with
      | text s =>
        cases i with
        | true =>
          rw [removable_text_in] at h
          by_cases hsd : s = ['#'] ∧ b ≠ b'
          · obtain ⟨rfl, hbb⟩ := hsd
            exact Or.inr (Or.inr (Or.inl (VC_here _ ts b b' (by simp [isHash]) hbb)))
          · have hr : removable ts true .other (endsNl s) (endsNl s) = false := by
              cases hrr : removable ts true .other (endsNl s) (endsNl s) with
              | false => rfl
              | true =>
                simp only [hrr, Bool.and_true, Bool.not_eq_false', Bool.and_eq_true, decide_eq_true_eq,
                  bne_iff_ne, ne_eq] at h
                exact absurd h hsd
            rcases ih true .other _ _ hr with hA | hB | hC | hD
            · exact absurd hA (not_VA_in _ _)
            · exact absurd hB (not_VB_in _ _)
            · exact Or.inr (Or.inr (Or.inl (VC_keep _ ts true b b' hx' hC)))
            · exact Or.inr (Or.inr (Or.inr (VDeep_shift _ ts true hD)))
        | false =>
          have hso : strayOk s = true := by simpa [isStray] using hx'
          by_cases hb : s = [bomC]
          · subst hb
            rw [removable_text_bom] at h
            by_cases hp : p = .stray
            · exact Or.inr (Or.inl ⟨_, ts, rfl, rfl, by simp [isLoneBom], hp⟩)
            · have hr : removable ts false .bom false false = false := by
                cases hrr : removable ts false .bom false false with
                | false => rfl
                | true => simp [hrr, hp] at h
              rcases ih false .bom _ _ hr with hA | hB | hC | hD
              · obtain ⟨x, post, rfl, _, hxs, _⟩ := hA
                exact Or.inr (Or.inr (Or.inr (Or.inl ⟨[], _, x, post, rfl, by simp [insideStep], hxs,
                  Or.inr (by simp [isLoneBom])⟩)))
              · exact absurd hB (not_VB_of_ne _ _ _ (by simp))
              · exact Or.inr (Or.inr (Or.inl (VC_keep _ ts false b b' hx' hC)))
              · exact Or.inr (Or.inr (Or.inr (VDeep_shift _ ts false hD)))
          · rw [removable_text_blank _ _ _ _ _ hso hb] at h
            rcases ih false .other _ _ h with hA | hB | hC | hD
            · exact absurd hA (not_VA_other _ _)
            · exact absurd hB (not_VB_of_ne _ _ _ (by simp))
            · exact Or.inr (Or.inr (Or.inl (VC_keep _ ts false b b' hx' hC)))
            · exact Or.inr (Or.inr (Or.inr (VDeep_shift _ ts false hD)))
      | start =>
        rw [removable_start] at h
        by_cases hid : i = true ∧ b ≠ b'
        · obtain ⟨rfl, hbb⟩ := hid
          exact Or.inr (Or.inr (Or.inl (VC_here _ ts b b' rfl hbb)))
        · have hr : removable ts true .other b b' = false := by
            cases hrr : removable ts true .other b b' with
            | false => rfl
            | true =>
              simp only [hrr, Bool.and_true, Bool.not_eq_false', Bool.and_eq_true, bne_iff_ne, ne_eq] at h
              exact absurd h hid
          rcases ih true .other _ _ hr with hA | hB | hC | hD
          · exact absurd hA (not_VA_in _ _)
          · exact absurd hB (not_VB_in _ _)
          · exact Or.inr (Or.inr (Or.inl (VC_keep _ ts i b b' hx' hC)))
          · exact Or.inr (Or.inr (Or.inr (VDeep_shift _ ts i hD)))
      | endp =>
        rw [removable_endp] at h
        rcases ih false .other _ _ h with hA | hB | hC | hD
        · exact absurd hA (not_VA_other _ _)
        · exact absurd hB (not_VB_of_ne _ _ _ (by simp))
        · exact Or.inr (Or.inr (Or.inl (VC_keep _ ts i b b' hx' hC)))
        · exact Or.inr (Or.inr (Or.inr (VDeep_shift _ ts i hD)))
      | next =>
        rw [removable_next] at h
        rcases ih i .other _ _ h with hA | hB | hC | hD
        · exact absurd hA (not_VA_other _ _)
        · exact absurd hB (not_VB_of_ne _ _ _ (by simp))
        · exact Or.inr (Or.inr (Or.inl (VC_keep _ ts i b b' hx' hC)))
        · exact Or.inr (Or.inr (Or.inr (VDeep_shift _ ts i hD)))
      | escape c =>
        have h' : removable ts i .other b b' = false := by
          rw [removable.eq_def] at h
          simpa [hx'] using h
        rcases ih i .other _ _ h' with hA | hB | hC | hD
        · exact absurd hA (not_VA_other _ _)
        · exact absurd hB (not_VB_of_ne _ _ _ (by simp))
        · exact Or.inr (Or.inr (Or.inl (VC_keep _ ts i b b' hx' hC)))
        · exact Or.inr (Or.inr (Or.inr (VDeep_shift _ ts i hD)))
      | comment s =>
        rw [removable_comment] at h
        rcases ih i _ _ _ h with hA | hB | hC | hD
        · obtain ⟨x, post, rfl, hi, hxs, _⟩ := hA
          subst hi
          exact Or.inr (Or.inr (Or.inr (Or.inl ⟨[], _, x, post, rfl, by simp [insideStep], hxs,
            Or.inl rfl⟩)))
        · exact absurd hB (not_VB_of_ne _ _ _ (by cases i <;> simp))
        · exact Or.inr (Or.inr (Or.inl (VC_keep _ ts i b b' hx' hC)))
        · exact Or.inr (Or.inr (Or.inr (VDeep_shift _ ts i hD)))

/-- the positional side conditions imply the scan -/
theorem removable_of_separable (toks : List Tok) (h : Separable toks) :
    removable toks false .other false false = true := by
  cases hr : removable toks false .other false false with
  | true => rfl
  | false =>
    exfalso
    rcases viol toks false .other false false hr with hA | hB | hC | hD | hE
    · exact not_VA_other _ _ hA
    · exact not_VB_of_ne _ _ _ (by simp) hB
    · obtain ⟨pre, hh, post, e, h1, h2, h3⟩ := hC
      exact h3 (h.recovery pre hh post e h1 h2)
    · obtain ⟨pre, a, x, post, e, h1, h2, h3⟩ := hD
      have := h.after pre a x post e h1 h2
      rcases h3 with h3 | h3
      · rw [this.1] at h3; cases h3
      · rw [this.2] at h3; cases h3
    · obtain ⟨pre, x, a, post, e, h1, h2, h3⟩ := hE
      have := h.before_bom pre x a post e h1 h2
      rw [this] at h3; cases h3

/-! ### conversely: the scan implies the positional conditions, which are therefore decidable -/

theorem removable_keep_imp (t : Tok) (ts : List Tok) (i : Bool) (p : Prev) (b b' : Bool)
    (hk : (!i && isStray t) = false) (h : removable (t :: ts) i p b b' = true) :
    ∃ p', removable ts (insideStep i t) p' (flagStep b t) (flagStep b' t) = true := by
  cases t with
  | text s =>
    cases i with
    | true =>
      rw [removable_text_in] at h
      simp only [Bool.and_eq_true] at h
      exact ⟨_, h.2⟩
    | false =>
      have hso : strayOk s = true := by simpa [isStray] using hk
      by_cases hb : s = [bomC]
      · subst hb
        rw [removable_text_bom] at h
        simp only [Bool.and_eq_true] at h
        exact ⟨_, h.2⟩
      · rw [removable_text_blank _ _ _ _ _ hso hb] at h
        exact ⟨_, h⟩
  | start =>
    rw [removable_start] at h
    simp only [Bool.and_eq_true] at h
    exact ⟨_, h.2⟩
  | endp => rw [removable_endp] at h; exact ⟨_, h⟩
  | next => rw [removable_next] at h; exact ⟨_, h⟩
  | escape c =>
    rw [removable.eq_def] at h
    simp only [hk, Bool.false_eq_true, if_false] at h
    exact ⟨_, h⟩
  | comment s => rw [removable_comment] at h; exact ⟨_, h⟩

/-- a successful scan reaches every position, with the lexer states of the original and of the cleaned text -/
theorem removable_reach (pre rest : List Tok) : ∀ (i : Bool) (p : Prev) (b b' : Bool),
    removable (pre ++ rest) i p b b' = true →
    ∃ p2, removable rest (pre.foldl insideStep i) p2 (pre.foldl flagStep b)
      ((cleanToks pre i).foldl flagStep b') = true := by
  induction pre with
  | nil => intro i p b b' h; exact ⟨p, h⟩
  | cons t pre ih =>
    intro i p b b' h
    rw [List.cons_append] at h
    by_cases hx : (!i && isStray t) = true
    · have hi : i = false := by cases i <;> simp_all
      have hs : isStray t = true := by cases i <;> simp_all
      subst hi
      rw [removable_drop _ _ _ _ hs] at h
      simp only [Bool.and_eq_true] at h
      obtain ⟨p2, h2⟩ := ih false .stray _ _ h.2
      refine ⟨p2, ?_⟩
      rw [cleanToks_drop _ hs]
      simpa [insideStep_of_isStray hs] using h2
    · have hx' : (!i && isStray t) = false := by simpa using hx
      obtain ⟨p', h'⟩ := removable_keep_imp t _ i p b b' hx' h
      obtain ⟨p2, h2⟩ := ih _ p' _ _ h'
      refine ⟨p2, ?_⟩
      rw [cleanToks_keep _ _ hx']
      simpa using h2

theorem isLoneBom_eq {a : Tok} (h : isLoneBom a = true) : a = Tok.text [bomC] := by
  cases a <;> simp_all [isLoneBom]

theorem separable_of_removable (toks : List Tok) (h : removable toks false .other false false = true) :
    Separable toks := by
  refine ⟨?_, ?_, ?_⟩
  · intro pre a x post e hin hx
    subst e
    obtain ⟨p2, h2⟩ := removable_reach pre _ false .other false false h
    have hno : ∀ q b b', removable (x :: post) false q b b' = true → q ≠ .comment ∧ q ≠ .bom := by
      intro q b b' hq
      rw [removable_drop _ _ _ _ hx] at hq
      simp only [Bool.and_eq_true, bne_iff_ne, ne_eq] at hq
      exact hq.1
    constructor
    · cases hc : isComment a with
      | false => rfl
      | true =>
        exfalso
        cases a <;> simp [isComment] at hc
        rename_i s
        have hin' : insideAfter pre = false := by simpa [insideAfter, insideStep] using hin
        rw [show pre.foldl insideStep false = false from hin', removable_comment] at h2
        exact (hno _ _ _ h2).1 rfl
    · cases hc : isLoneBom a with
      | false => rfl
      | true =>
        exfalso
        have := isLoneBom_eq hc
        subst this
        have hin' : insideAfter pre = false := by simpa [insideAfter, insideStep] using hin
        rw [show pre.foldl insideStep false = false from hin', removable_text_bom] at h2
        simp only [Bool.and_eq_true] at h2
        exact (hno _ _ _ h2.2).2 rfl
  · intro pre x a post e hin hx
    subst e
    obtain ⟨p2, h2⟩ := removable_reach pre _ false .other false false h
    rw [show pre.foldl insideStep false = false from hin, removable_drop _ _ _ _ hx] at h2
    simp only [Bool.and_eq_true] at h2
    cases hc : isLoneBom a with
    | false => rfl
    | true =>
      exfalso
      have := isLoneBom_eq hc
      subst this
      have h3 := h2.2
      rw [removable_text_bom] at h3
      simp at h3
  · intro pre hh post e hin hhash
    subst e
    obtain ⟨p2, h2⟩ := removable_reach pre _ false .other false false h
    rw [show pre.foldl insideStep false = true from hin] at h2
    have key : (pre.foldl flagStep false != (cleanToks pre false).foldl flagStep false) = false := by
      cases hh with
      | start =>
        rw [removable_start] at h2
        simp only [Bool.and_eq_true] at h2
        simpa using h2.1
      | text s =>
        have hs : s = ['#'] := by simpa [isHash] using hhash
        subst hs
        rw [removable_text_in] at h2
        simp only [Bool.and_eq_true] at h2
        simpa using h2.1
      | _ => simp [isHash] at hhash
    simpa [flagAfter] using key

/-- the positional side conditions are exactly the scan -/
theorem separable_iff_removable (toks : List Tok) :
    Separable toks ↔ removable toks false .other false false = true :=
  ⟨removable_of_separable toks, separable_of_removable toks⟩

/-! ### a simple sufficient condition for `recovery`: every parameter has a key -/

theorem cleanToks_append (A B : List Tok) : ∀ i, cleanToks (A ++ B) i = cleanToks A i ++ cleanToks B (A.foldl insideStep i) := by
  induction A with
  | nil => intro i; rfl
  | cons t A ih =>
    intro i
    by_cases hx : (!i && isStray t) = true
    · have hi : i = false := by cases i <;> simp_all
      have hs : isStray t = true := by cases i <;> simp_all
      subst hi
      rw [List.cons_append, cleanToks_drop _ hs, cleanToks_drop _ hs, ih]
      simp [insideStep_of_isStray hs]
    · have hx' : (!i && isStray t) = false := by simpa using hx
      rw [List.cons_append, cleanToks_keep _ _ hx', cleanToks_keep _ _ hx', ih]
      simp

theorem cleanToks_inside (X : List Tok) (h : ∀ t ∈ X, t ≠ Tok.endp) : cleanToks X true = X := by
  induction X with
  | nil => rfl
  | cons t X ih =>
    rw [cleanToks_keep_in]
    have ht : t ≠ Tok.endp := h t (by simp)
    have : insideStep true t = true := by cases t <;> simp_all [insideStep]
    rw [this, ih (fun y hy => h y (by simp [hy]))]

/-- being inside a parameter after `pre`: the last START of `pre` is followed by neither START nor END -/
theorem inside_split (pre : List Tok) : ∀ i, pre.foldl insideStep i = true →
    (i = true ∧ ∀ t ∈ pre, t ≠ Tok.start ∧ t ≠ Tok.endp) ∨
    ∃ A rest, pre = A ++ Tok.start :: rest ∧ ∀ t ∈ rest, t ≠ Tok.start ∧ t ≠ Tok.endp := by
  induction pre with
  | nil => intro i h; exact Or.inl ⟨by simpa using h, by simp⟩
  | cons t pre ih =>
    intro i h
    rw [List.foldl_cons] at h
    rcases ih _ h with ⟨hi, hall⟩ | ⟨A, rest, rfl, hall⟩
    · by_cases hts : t = Tok.start
      · subst hts
        exact Or.inr ⟨[], pre, rfl, hall⟩
      · have hte : t ≠ Tok.endp := by rintro rfl; simp [insideStep] at hi
        refine Or.inl ⟨?_, ?_⟩
        · cases t <;> simp_all [insideStep]
        · intro y hy
          rcases List.mem_cons.mp hy with rfl | hy
          · exact ⟨hts, hte⟩
          · exact hall y hy
    · exact Or.inr ⟨t :: A, rest, rfl, hall⟩

/-- every START token is directly followed by a TEXT token other than "#": every parameter has a non-empty key
that begins with an ordinary character -/
def KeyedStarts (toks : List Tok) : Prop :=
  ∀ pre post, toks = pre ++ Tok.start :: post → ∃ s rest, post = Tok.text s :: rest ∧ s ≠ ['#']

/-- `KeyedStarts` as a scan -/
def keyedB : List Tok → Bool
  | [] => true
  | .start :: rest => (match rest with | .text s :: _ => s != ['#'] | _ => false) && keyedB rest
  | _ :: rest => keyedB rest

theorem keyed_of_keyedB (toks : List Tok) (h : keyedB toks = true) : KeyedStarts toks := by
  induction toks with
  | nil => intro pre post e; simp at e
  | cons t ts ih =>
    intro pre post e
    cases pre with
    | nil =>
      simp only [List.nil_append, List.cons.injEq] at e
      obtain ⟨rfl, rfl⟩ := e
      simp only [keyedB, Bool.and_eq_true] at h
      cases ts with
      | nil => simp at h
      | cons r rest =>
        cases r <;> simp at h
        exact ⟨_, rest, rfl, h.1⟩
    | cons a pre' =>
      simp only [List.cons_append, List.cons.injEq] at e
      obtain ⟨rfl, rfl⟩ := e
      have h' : keyedB (pre' ++ Tok.start :: post) = true := by
        cases t <;> simp_all [keyedB]
      exact ih h' pre' post rfl

theorem recovery_of_keyed (toks : List Tok) (hk : KeyedStarts toks) :
    ∀ pre h post, toks = pre ++ h :: post → insideAfter pre = true → isHash h = true →
      flagAfter pre = flagAfter (cleanToks pre false) := by
  intro pre h post e hin hh
  rcases inside_split pre false hin with ⟨hi, _⟩ | ⟨A, rest, rfl, hall⟩
  · cases hi
  · obtain ⟨s, rest', e', hs⟩ := hk A (rest ++ h :: post) (by rw [e]; simp)
    cases rest with
    | nil =>
      simp only [List.nil_append, List.cons.injEq] at e'
      obtain ⟨rfl, _⟩ := e'
      simp [isHash, hs] at hh
    | cons r rest2 =>
      simp only [List.cons_append, List.cons.injEq] at e'
      obtain ⟨rfl, _⟩ := e'
      have hne : ∀ t ∈ Tok.text s :: rest2, t ≠ Tok.endp := fun t ht => (hall t ht).2
      have hc : cleanToks (A ++ Tok.start :: Tok.text s :: rest2) false =
          cleanToks A false ++ Tok.start :: Tok.text s :: rest2 := by
        rw [cleanToks_append, cleanToks_keep _ _ (by simp [isStray])]
        simp only [insideStep]
        rw [cleanToks_inside _ hne]
      rw [hc]
      simp [flagAfter, List.foldl_append, flagStep]

end Simfile.MsdP
