/-
Lemmas for C09 (round 2): the join phase on ARBITRARY streams (the same note may occur several times).
The machine state is related to the abstract state of Lemmas/GroupJoin*.lean only up to the order of
the emitted items: what has been yielded and what is buffered are, together, a rearrangement of the
images of the classified notes, and every held head still has a plain copy in the buffer.
This file: the buffer operations and the abstract state without the duplicate-freeness invariant.
-/
import Simfile.Lemmas.GroupJoinMain
namespace Simfile.JoinAny
open Simfile Simfile.Spec Simfile.Join

/-! ### the column invariant alone -/

/-- at most one open head per column -/
def Cols (A : List AN) : Prop := ((opens A).map (·.1)).Nodup

theorem cols_nil : Cols [] := List.nodup_nil

theorem Cols.closeCol {A : List AN} (g : Cols A) (c : Nat) (cl : Cls) : Cols (closeCol c cl A) := by
  unfold Cols
  rw [opens_closeCol]
  exact List.Nodup.sublist (List.filter_sublist.map _) g

theorem Cols.snoc {A : List AN} (g : Cols A) (n : Note) (k : Option Cls)
    (hk : k = none → hasOpen n.column A = false) : Cols (A ++ [(n, k)]) := by
  unfold Cols
  rw [opens_append]
  cases k with
  | some k =>
    have g' : ((opens A).map (·.1)).Nodup := g
    simpa using g'
  | none =>
    have g' : ((opens A).map (·.1)).Nodup := g
    have hno := hk rfl
    simp only [opens_cons_none, opens_nil, List.map_append, List.map_cons, List.map_nil]
    rw [List.nodup_append]
    refine ⟨g', by simp, ?_⟩
    intro a ha b hb
    simp only [List.mem_singleton] at hb
    subst hb
    intro hab
    subst hab
    have := hasOpen_iff.mpr (mem_opens_cols.mp ha)
    rw [hno] at this
    cases this

theorem Cols.absStep {A : List AN} (g : Cols A) (n : Note) : Cols (absStep A n) :=
  (g.closeCol _ _).snoc n _ (fun _ => hasOpen_closeCol_same _ _ _)

theorem Cols.tail {x : AN} {A : List AN} (g : Cols (x :: A)) : Cols A := by
  unfold Cols at g ⊢
  rcases x with ⟨m, _ | k⟩
  · simp only [opens_cons_none, List.map_cons, List.nodup_cons] at g
    exact g.2
  · simpa using g

theorem pcl_cols : ∀ P : List Note, Cols (pcl P) := by
  intro P
  induction P using snoc_induction with
  | nil => exact cols_nil
  | snoc P n ih => rw [pcl_snoc]; exact ih.absStep n

/-- a held head is not the head of another column -/
theorem opens_ne {A : List AN} {cn : Nat × Note} (h : cn ∈ opens A) {hd : Note} (hne : cn.1 ≠ hd.column) :
    GNote.plain cn.2 ≠ GNote.plain hd := by
  rcases cn with ⟨c, m⟩
  obtain ⟨_, hc⟩ := mem_opens.mp h
  intro e
  have : m = hd := GNote.plain.inj e
  subst this
  exact hne hc

/-! ### closing a column, up to order -/

theorem closeCol_perm (o : GOpts) (cl : Cls) (hd : Note) : ∀ (A : List AN), Cols A → (hd, none) ∈ A →
    ∃ M, (A.flatMap (pimage o)).Perm (GNote.plain hd :: M) ∧
      ((closeCol hd.column cl A).flatMap (pimage o)).Perm (pimage o (hd, some cl) ++ M) := by
  intro A
  induction A with
  | nil => intro _ hm; simp at hm
  | cons x A ih =>
    intro hc hm
    rcases x with ⟨m, k⟩
    by_cases hx : k = none ∧ m.column = hd.column
    · obtain ⟨rfl, hcol⟩ := hx
      have hc' := hc
      unfold Cols at hc'
      simp only [opens_cons_none, List.map_cons, List.nodup_cons] at hc'
      have hno : hasOpen hd.column A = false := by
        cases hh : hasOpen hd.column A with
        | false => rfl
        | true =>
          exact absurd (mem_opens_cols.mpr (hasOpen_iff.mp hh)) (hcol ▸ hc'.1)
      have hmh : m = hd := by
        rcases List.mem_cons.mp hm with h1 | h1
        · exact (Prod.mk.inj h1).1.symm
        · have := hasOpen_iff.mpr ⟨hd, h1, rfl⟩
          rw [hno] at this; cases this
      subst hmh
      have hcc : closeCol m.column cl ((m, none) :: A) = (m, some cl) :: A := by
        have h2 : closeCol m.column cl A = A := closeCol_id hno
        simp only [closeCol, List.map_cons] at h2 ⊢
        rw [h2]; simp
      refine ⟨A.flatMap (pimage o), ?_, ?_⟩
      · simp only [List.flatMap_cons]
        exact List.Perm.refl _
      · rw [hcc]
        simp only [List.flatMap_cons]
        exact List.Perm.refl _
    · have hm' : (hd, none) ∈ A := by
        rcases List.mem_cons.mp hm with h1 | h1
        · obtain ⟨rfl, rfl⟩ := Prod.mk.inj h1
          exact absurd ⟨rfl, rfl⟩ hx
        · exact h1
      have hcc : closeCol hd.column cl ((m, k) :: A) = (m, k) :: closeCol hd.column cl A := by
        simp only [closeCol, List.map_cons]
        rw [if_neg hx]
      obtain ⟨M, h1, h2⟩ := ih hc.tail hm'
      refine ⟨pimage o (m, k) ++ M, ?_, ?_⟩
      · simp only [List.flatMap_cons]
        exact (List.Perm.append_left _ h1).trans List.perm_middle
      · rw [hcc]
        simp only [List.flatMap_cons]
        exact (List.Perm.append_left _ h2).trans (List.perm_append_comm_assoc _ _ _)

/-- replacing the plain copy of a held head by the image of its final class keeps the yielded and
buffered items a rearrangement of the abstract state -/
theorem close_perm (o : GOpts) (cl : Cls) (hd : Note) (A : List AN) (hc : Cols A) (hm : (hd, none) ∈ A)
    (out buf b : List GNote) (hperm : (out ++ buf).Perm (A.flatMap (pimage o)))
    (hmem : GNote.plain hd ∈ buf)
    (hb : b.Perm (pimage o (hd, some cl) ++ buf.erase (.plain hd))) :
    (out ++ b).Perm ((closeCol hd.column cl A).flatMap (pimage o)) := by
  obtain ⟨M, h1, h2⟩ := closeCol_perm o cl hd A hc hm
  have e1 : (out ++ buf).Perm (GNote.plain hd :: (out ++ buf.erase (.plain hd))) :=
    (List.Perm.append_left _ (List.perm_cons_erase hmem)).trans List.perm_middle
  have e2 : (out ++ buf.erase (.plain hd)).Perm M :=
    List.Perm.cons_inv (e1.symm.trans (hperm.trans h1))
  exact (List.Perm.append_left _ hb).trans
    ((List.perm_append_comm_assoc _ _ _).trans ((List.Perm.append_left _ e2).trans h2.symm))

/-! ### buffer operations on a buffer that holds the head -/

theorem removeFirst_erase (h : Note) : ∀ (buf : List GNote), GNote.plain h ∈ buf →
    removeFirst buf h = some (buf.erase (.plain h)) := by
  intro buf
  induction buf with
  | nil => intro hm; simp at hm
  | cons g rest ih =>
    intro hm
    by_cases hg : g = .plain h
    · subst hg; simp [removeFirst]
    · have hm' : GNote.plain h ∈ rest := by
        rcases List.mem_cons.mp hm with e | e
        · exact absurd e.symm hg
        · exact e
      simp only [removeFirst, if_neg hg, ih hm', Option.map_some, List.erase_cons]
      have : (g == GNote.plain h) = false := by simpa using hg
      simp [this]

theorem attachTail_erase (h : Note) (tb : Rat) : ∀ (buf : List GNote), GNote.plain h ∈ buf →
    ∃ b, attachTail buf h tb = some b ∧ b.Perm (.withTail h tb :: buf.erase (.plain h)) := by
  intro buf
  induction buf with
  | nil => intro hm; simp at hm
  | cons g rest ih =>
    intro hm
    by_cases hg : g = .plain h
    · subst hg
      exact ⟨.withTail h tb :: rest, by simp [attachTail], by simp⟩
    · have hm' : GNote.plain h ∈ rest := by
        rcases List.mem_cons.mp hm with e | e
        · exact absurd e.symm hg
        · exact e
      obtain ⟨b, hb1, hb2⟩ := ih hm'
      refine ⟨g :: b, by simp [attachTail, hg, hb1], ?_⟩
      have : (g == GNote.plain h) = false := by simpa using hg
      rw [List.erase_cons, this]
      simp only [Bool.false_eq_true, if_false]
      exact (List.Perm.cons g hb2).trans (List.Perm.swap _ _ _)

theorem popUntilHeld_ok (H : List (Nat × Note)) : ∀ (buf : List GNote),
    (∃ cn ∈ H, GNote.plain cn.2 ∈ buf) →
    ∃ p r, popUntilHeld H buf = some (p, r) ∧ p ++ r = buf ∧
      ∀ cn ∈ H, GNote.plain cn.2 ∈ buf → GNote.plain cn.2 ∈ r := by
  intro buf
  induction buf with
  | nil => rintro ⟨cn, _, h⟩; simp at h
  | cons g rest ih =>
    intro hex
    by_cases hany : H.any (fun cn => GNote.plain cn.2 = g) = true
    · exact ⟨[], g :: rest, by simp [popUntilHeld, hany], rfl, fun _ _ h => h⟩
    · have hne : ∀ cn ∈ H, GNote.plain cn.2 ≠ g := by
        intro cn hcn e
        exact hany (List.any_eq_true.mpr ⟨cn, hcn, by simpa using e⟩)
      have hex' : ∃ cn ∈ H, GNote.plain cn.2 ∈ rest := by
        obtain ⟨cn, hcn, hm⟩ := hex
        rcases List.mem_cons.mp hm with e | e
        · exact absurd e (hne cn hcn)
        · exact ⟨cn, hcn, e⟩
      obtain ⟨p, r, h1, h2, h3⟩ := ih hex'
      refine ⟨g :: p, r, by simp [popUntilHeld, hany, h1], by simp [h2], ?_⟩
      intro cn hcn hm
      rcases List.mem_cons.mp hm with e | e
      · exact absurd e (hne cn hcn)
      · exact h3 cn hcn e

/-- `flush_until_held_note` succeeds whenever every held head is buffered; it moves items from the
buffer to the output and leaves the held heads buffered -/
theorem flushUntilHeld_ok (held : List (Nat × Note)) (buf out : List GNote)
    (hb : ∀ cn ∈ held, GNote.plain cn.2 ∈ buf) :
    ∃ s', (JState.mk held buf out).flushUntilHeld = some s' ∧ s'.held = held ∧
      s'.out ++ s'.buffer = out ++ buf ∧ ∀ cn ∈ held, GNote.plain cn.2 ∈ s'.buffer := by
  unfold JState.flushUntilHeld
  cases held with
  | nil =>
    exact ⟨(JState.mk [] buf out).flush, by simp, rfl, by simp [JState.flush], by simp⟩
  | cons cn0 rest =>
    obtain ⟨p, r, h1, h2, h3⟩ := popUntilHeld_ok (cn0 :: rest) buf ⟨cn0, by simp, hb cn0 (by simp)⟩
    refine ⟨⟨cn0 :: rest, r, out ++ p⟩, by simp [h1], rfl, by simp [← h2], ?_⟩
    intro cn hcn
    exact h3 cn hcn (hb cn hcn)

end Simfile.JoinAny
