/-
Lemmas for C09: one iteration of the join loop (`joinStep`) is the abstract step `absStep`.
-/
import Simfile.Lemmas.GroupJoinBuf
namespace Simfile.Join
open Simfile Simfile.Spec

theorem isHead_tail : isHead cTAIL = false := by decide

theorem not_isHead_of_tail {n : Note} (h : n.ntype = cTAIL) : isHead n.ntype = false := by
  rw [h]; exact isHead_tail

/-- the class a new note gets at the moment it arrives -/
def newCls (A : List AN) (n : Note) : Option Cls :=
  if isHead n.ntype then none
  else if n.ntype = cTAIL then (if hasOpen n.column A then some .consumed else some .orphanTail)
  else some .plain

def absStep (A : List AN) (n : Note) : List AN := closeCol n.column (closeCls n) A ++ [(n, newCls A n)]

def anyCls (k : Cls) (A : List AN) : Bool := A.any fun x => decide (x.2 = some k)

/-- a RAISE policy has been met -/
def raised (o : GOpts) (A : List AN) : Bool :=
  (decide (o.orphanHead = .raise) && anyCls .orphanHead A) || (decide (o.orphanTail = .raise) && anyCls .orphanTail A)

theorem anyCls_append (k : Cls) (A B : List AN) : anyCls k (A ++ B) = (anyCls k A || anyCls k B) := by
  simp [anyCls]

theorem anyCls_closeCol (k : Cls) (c : Nat) (cl : Cls) (A : List AN) :
    anyCls k (closeCol c cl A) = (anyCls k A || (hasOpen c A && decide (cl = k))) := by
  induction A with
  | nil => rfl
  | cons x A ih =>
    simp only [anyCls, closeCol, hasOpen, List.map_cons, List.any_cons] at ih ⊢
    rw [ih]
    rcases x with ⟨m, _ | k'⟩
    · by_cases hc : m.column = c
      · by_cases hk : cl = k <;> simp [hc, hk]
      · simp [hc]
    · simp only [reduceCtorEq, false_and, if_false, Option.isNone_some, Bool.false_and, Bool.false_or]
      cases decide (some k' = some k) <;> simp

/-! ### the two halves of the loop body -/

def orInternal {α} : Option α → Except GErr α
  | some a => .ok a
  | none => .error .internal

def closeStep (o : GOpts) (s : JState) (n : Note) : Except GErr JState :=
  if heldContains s.held n.column || n.ntype = cTAIL then
    (joinHeadToTail o s.buffer (heldPop s.held n.column).1 (some n)).bind fun buf =>
      orInternal (JState.mk (heldPop s.held n.column).2 buf s.out).flushUntilHeld
  else .ok s

def pushStep (s1 : JState) (n : Note) : JState :=
  let s2 := if isHead n.ntype then { s1 with held := heldSet s1.held n.column n } else s1
  if n.ntype ≠ cTAIL then s2.maybeBuffer n else s2

theorem joinStep_eq (o : GOpts) (s : JState) (n : Note) :
    joinStep o s n = (closeStep o s n).bind fun s1 => .ok (pushStep s1 n) := by
  unfold joinStep closeStep pushStep
  by_cases hc : (heldContains s.held n.column || decide (n.ntype = cTAIL)) = true
  · simp only [hc, if_true]
    cases joinHeadToTail o s.buffer (heldPop s.held n.column).1 (some n) with
    | error e => rfl
    | ok buf =>
      simp only [bind, Except.bind, pure, Except.pure]
      cases (JState.mk (heldPop s.held n.column).2 buf s.out).flushUntilHeld <;> rfl
  · simp only [hc]
    rfl

/-! ### helper facts -/

theorem find_opens_some {c : Nat} {A : List AN} (h : hasOpen c A = true) :
    ∃ hd, (opens A).find? (·.1 = c) = some (c, hd) ∧ (hd, none) ∈ A ∧ hd.column = c := by
  have hc : heldContains (opens A) c = true := by rw [heldContains_opens]; exact h
  unfold heldContains at hc
  cases hf : (opens A).find? (·.1 = c) with
  | none =>
    have := List.find?_eq_none.mp hf
    obtain ⟨x, hx, hp⟩ := List.any_eq_true.mp hc
    exact absurd hp (this x hx)
  | some x =>
    have hp := List.find?_some hf
    have hx := List.mem_of_find?_eq_some hf
    rcases x with ⟨c', hd⟩
    have hc' : c' = c := by simpa using hp
    subst hc'
    obtain ⟨h1, h2⟩ := mem_opens.mp hx
    exact ⟨hd, rfl, h1, h2.symm⟩

theorem find_opens_none {c : Nat} {A : List AN} (h : hasOpen c A = false) :
    (opens A).find? (·.1 = c) = none := by
  have hc : heldContains (opens A) c = false := by rw [heldContains_opens]; exact h
  unfold heldContains at hc
  apply List.find?_eq_none.mpr
  intro x hx hp
  have : (opens A).any (·.1 = c) = true := List.any_eq_true.mpr ⟨x, hx, hp⟩
  rw [hc] at this
  cases this

theorem Good.closeCol {A : List AN} (g : Good A) (c : Nat) (cl : Cls) : Good (closeCol c cl A) := by
  refine ⟨by rw [closeCol_map_fst]; exact g.nodup, ?_⟩
  rw [opens_closeCol]
  exact List.Nodup.sublist (List.filter_sublist.map _) g.cols

theorem Good.snoc {A : List AN} (g : Good A) {n : Note} (hn : n ∉ A.map (·.1)) (k : Option Cls)
    (hk : k = none → hasOpen n.column A = false) : Good (A ++ [(n, k)]) := by
  constructor
  · rw [List.map_append, List.nodup_append]
    refine ⟨g.nodup, by simp, ?_⟩
    intro a ha b hb
    simp only [List.map_cons, List.map_nil, List.mem_singleton] at hb
    subst hb
    intro hab
    exact hn (hab ▸ ha)
  · rw [opens_append]
    cases k with
    | some k => simpa using g.cols
    | none =>
      have hno := hk rfl
      simp only [opens_cons_none, opens_nil, List.map_append, List.map_cons, List.map_nil]
      rw [List.nodup_append]
      refine ⟨g.cols, by simp, ?_⟩
      intro a ha b hb
      simp only [List.mem_singleton] at hb
      subst hb
      intro hab
      subst hab
      have := hasOpen_iff.mpr (mem_opens_cols.mp ha)
      rw [hno] at this
      cases this

theorem stateOf_eq (o : GOpts) (A : List AN) :
    stateOf o A = { held := opens A, buffer := (A.dropWhile (·.2.isSome)).flatMap (pimage o),
                    out := (A.takeWhile (·.2.isSome)).flatMap (pimage o) } := by
  simp only [stateOf, preState, opens_dropWhile]

theorem closeCol_split (c : Nat) (cl : Cls) (A : List AN) :
    closeCol c cl A = A.takeWhile (·.2.isSome) ++ closeCol c cl (A.dropWhile (·.2.isSome)) := by
  have h := congrArg (closeCol c cl) (List.takeWhile_append_dropWhile (p := fun x : AN => x.2.isSome) (l := A)).symm
  rw [closeCol_append, closeCol_of_allSome (fun x hx => of_mem_takeWhile (p := fun x : AN => x.2.isSome) hx)] at h
  exact h

/-- `flush_until_held_note` after the buffer has been updated -/
theorem finish (o : GOpts) (A : List AN) (c : Nat) (cl : Cls) (E : List AN) (hE : ∀ x ∈ E, x.2.isSome = true)
    (hgood : Good (closeCol c cl A ++ E)) :
    ({ held := (opens A).filter (·.1 ≠ c),
       buffer := (closeCol c cl (A.dropWhile (·.2.isSome)) ++ E).flatMap (pimage o),
       out := (A.takeWhile (·.2.isSome)).flatMap (pimage o) } : JState).flushUntilHeld
      = some (stateOf o (closeCol c cl A ++ E)) := by
  have e1 : closeCol c cl A ++ E =
      A.takeWhile (·.2.isSome) ++ (closeCol c cl (A.dropWhile (·.2.isSome)) ++ E) := by
    rw [← List.append_assoc, ← closeCol_split]
  have hT : ∀ x ∈ A.takeWhile (·.2.isSome), x.2.isSome = true :=
    fun x hx => of_mem_takeWhile (p := fun x : AN => x.2.isSome) hx
  have e2 : JState.mk ((opens A).filter (·.1 ≠ c))
       ((closeCol c cl (A.dropWhile (·.2.isSome)) ++ E).flatMap (pimage o))
       ((A.takeWhile (·.2.isSome)).flatMap (pimage o))
      = preState o (A.takeWhile (·.2.isSome)) (closeCol c cl (A.dropWhile (·.2.isSome)) ++ E) := by
    simp only [preState, opens_append, opens_closeCol, opens_dropWhile, (opens_eq_nil_iff E).mpr hE,
      List.append_nil]
  rw [e2, flushUntilHeld_spec o _ _ hT, e1]
  rw [e1] at hgood
  exact hgood.append_right

/-! ### first half: closing the column -/

def closeAbs (A : List AN) (n : Note) : List AN :=
  closeCol n.column (closeCls n) A ++ (if n.ntype = cTAIL then [(n, newCls A n)] else [])

theorem mem_dropWhile_of_none {A : List AN} {m : Note} (h : (m, none) ∈ A) :
    (m, none) ∈ A.dropWhile (·.2.isSome) := by
  have h2 : (m, none) ∈ A.takeWhile (·.2.isSome) ++ A.dropWhile (·.2.isSome) := by
    rw [List.takeWhile_append_dropWhile]; exact h
  rcases List.mem_append.mp h2 with h3 | h3
  · have := of_mem_takeWhile (p := fun x : AN => x.2.isSome) h3
    simp at this
  · exact h3

theorem Good.dropWhile {A : List AN} (g : Good A) : Good (A.dropWhile (·.2.isSome)) := by
  have h : Good (A.takeWhile (·.2.isSome) ++ A.dropWhile (·.2.isSome)) := by
    rw [List.takeWhile_append_dropWhile]; exact g
  exact h.append_right

theorem hasOpen_dropWhile (c : Nat) (A : List AN) : hasOpen c (A.dropWhile (·.2.isSome)) = hasOpen c A := by
  rw [← heldContains_opens, ← heldContains_opens, opens_dropWhile]

theorem jht_tail (o : GOpts) (buf b : List GNote) (h t : Note) (ht : t.ntype = cTAIL)
    (hb : attachTail buf h t.beat = some b) : joinHeadToTail o buf (some h) (some t) = .ok b := by
  simp [joinHeadToTail, ht, hb]

theorem jht_nontail_raise (o : GOpts) (buf : List GNote) (h t : Note) (ht : ¬ t.ntype = cTAIL)
    (ho : o.orphanHead = .raise) : joinHeadToTail o buf (some h) (some t) = .error .orphaned := by
  simp [joinHeadToTail, ht, ho]

theorem jht_nontail_keep (o : GOpts) (buf : List GNote) (h t : Note) (ht : ¬ t.ntype = cTAIL)
    (ho : o.orphanHead = .keep) : joinHeadToTail o buf (some h) (some t) = .ok buf := by
  simp [joinHeadToTail, ht, ho]

theorem jht_nontail_drop (o : GOpts) (buf b : List GNote) (h t : Note) (ht : ¬ t.ntype = cTAIL)
    (ho : o.orphanHead = .drop) (hb : removeFirst buf h = some b) :
    joinHeadToTail o buf (some h) (some t) = .ok b := by
  simp [joinHeadToTail, ht, ho, hb]

theorem jht_none_raise (o : GOpts) (buf : List GNote) (t : Note) (ho : o.orphanTail = .raise) :
    joinHeadToTail o buf none (some t) = .error .orphaned := by
  simp [joinHeadToTail, ho]

theorem jht_none_keep (o : GOpts) (buf : List GNote) (t : Note) (ho : o.orphanTail = .keep) :
    joinHeadToTail o buf none (some t) = .ok (buf ++ [.plain t]) := by
  simp [joinHeadToTail, ho]

theorem jht_none_drop (o : GOpts) (buf : List GNote) (t : Note) (ho : o.orphanTail = .drop) :
    joinHeadToTail o buf none (some t) = .ok buf := by
  simp [joinHeadToTail, ho]

theorem raised_close (o : GOpts) (c : Nat) (cl : Cls) (A E : List AN) (hr : raised o A = false) :
    raised o (closeCol c cl A ++ E) =
      ((decide (o.orphanHead = .raise) && hasOpen c A && decide (cl = .orphanHead)) ||
       (decide (o.orphanTail = .raise) && hasOpen c A && decide (cl = .orphanTail)) || raised o E) := by
  simp only [raised, anyCls_append, anyCls_closeCol] at hr ⊢
  revert hr
  generalize decide (o.orphanHead = .raise) = a1
  generalize decide (o.orphanTail = .raise) = a2
  generalize anyCls .orphanHead A = a3
  generalize anyCls .orphanTail A = a4
  generalize anyCls .orphanHead E = a5
  generalize anyCls .orphanTail E = a6
  generalize hasOpen c A = a7
  generalize decide (cl = .orphanHead) = a8
  generalize decide (cl = .orphanTail) = a9
  cases a1 <;> cases a2 <;> cases a3 <;> cases a4 <;> cases a5 <;> cases a6 <;> cases a7 <;> cases a8 <;>
    cases a9 <;> simp

theorem raised_single (o : GOpts) (n : Note) (k : Option Cls) :
    raised o [(n, k)] = ((decide (o.orphanHead = .raise) && decide (k = some .orphanHead)) ||
      (decide (o.orphanTail = .raise) && decide (k = some .orphanTail))) := by
  simp [raised, anyCls]

theorem raised_nil (o : GOpts) : raised o [] = false := by simp [raised, anyCls]

/-- the `flushUntilHeld` of `closeStep` once the buffer is known -/
theorem afterBuf (o : GOpts) (A : List AN) (c : Nat) (cl : Cls) (E : List AN) (buf : List GNote)
    (hE : ∀ x ∈ E, x.2.isSome = true) (hgood : Good (closeCol c cl A ++ E))
    (hbuf : buf = (closeCol c cl (A.dropWhile (·.2.isSome)) ++ E).flatMap (pimage o)) :
    orInternal (JState.mk ((opens A).filter (·.1 ≠ c)) buf
        ((A.takeWhile (·.2.isSome)).flatMap (pimage o))).flushUntilHeld
      = .ok (stateOf o (closeCol c cl A ++ E)) := by
  subst hbuf
  rw [finish o A c cl E hE hgood]
  rfl

theorem closeStep_spec (o : GOpts) (A : List AN) (g : Good A) (n : Note) (hn : n ∉ A.map (·.1))
    (hr : raised o A = false) :
    closeStep o (stateOf o A) n =
      if raised o (closeAbs A n) then .error .orphaned else .ok (stateOf o (closeAbs A n)) := by
  rw [stateOf_eq]
  unfold closeStep closeAbs
  simp only [heldContains_opens, heldPop]
  by_cases hO : hasOpen n.column A = true
  · obtain ⟨hd, hf, hm, hcol⟩ := find_opens_some hO
    have hmD := mem_dropWhile_of_none hm
    have gD := g.dropWhile
    simp only [hO, Bool.true_or, if_true, hf, Option.map_some]
    by_cases ht : n.ntype = cTAIL
    · have hcl : closeCls n = .joined n.beat := by simp [closeCls, ht]
      have hnew : newCls A n = some .consumed := by simp [newCls, isHead_tail, ht, hO]
      have hat := attachTail_spec o hd n.beat _ gD hmD
      rw [hcol] at hat
      rw [jht_tail o _ _ hd n ht hat]
      simp only [ht, if_true, hcl, hnew, Except.bind]
      have hr' := raised_close o n.column (.joined n.beat) A [(n, some .consumed)] hr
      simp only [raised_single, reduceCtorEq, decide_false, Bool.and_false, Bool.or_false,
        Option.some.injEq] at hr'
      rw [hr']
      have hgood : Good (closeCol n.column (.joined n.beat) A ++ [(n, some .consumed)]) :=
        (g.closeCol _ _).snoc (by rw [closeCol_map_fst]; exact hn) _ (by simp)
      rw [afterBuf o A n.column (.joined n.beat) [(n, some .consumed)] _ (by simp) hgood
        (by simp [pimage, image])]
      simp
    · have hcl : closeCls n = .orphanHead := by simp [closeCls, ht]
      simp only [ht, if_false, hcl, List.append_nil]
      have hr' := raised_close o n.column .orphanHead A [] hr
      simp only [List.append_nil, hO, raised_nil] at hr'
      rw [hr']
      have hgood : Good (closeCol n.column .orphanHead A ++ []) := by
        rw [List.append_nil]; exact g.closeCol _ _
      cases hoh : o.orphanHead with
      | raise =>
        rw [jht_nontail_raise o _ hd n ht hoh]
        simp [Except.bind]
      | keep =>
        rw [jht_nontail_keep o _ hd n ht hoh]
        simp only [Except.bind]
        rw [afterBuf o A n.column .orphanHead [] _ (by simp) hgood (by rw [List.append_nil, keep_spec o hoh])]
        simp
      | drop =>
        have hrf := removeFirst_spec o hoh hd _ gD hmD
        rw [hcol] at hrf
        rw [jht_nontail_drop o _ _ hd n ht hoh hrf]
        simp only [Except.bind]
        rw [afterBuf o A n.column .orphanHead [] _ (by simp) hgood (by rw [List.append_nil])]
        simp
  · have hO' : hasOpen n.column A = false := by simpa using hO
    have hid : closeCol n.column (closeCls n) A = A := closeCol_id hO'
    simp only [hO', Bool.false_or, find_opens_none hO', Option.map_none, decide_eq_true_eq]
    by_cases ht : n.ntype = cTAIL
    · have hnew : newCls A n = some .orphanTail := by simp [newCls, isHead_tail, ht, hO']
      simp only [ht, if_true, hnew]
      have hr' := raised_close o n.column (closeCls n) A [(n, some .orphanTail)] hr
      simp only [hO', raised_single] at hr'
      rw [hr']
      have hgood : Good (closeCol n.column (closeCls n) A ++ [(n, some .orphanTail)]) :=
        (g.closeCol _ _).snoc (by rw [closeCol_map_fst]; exact hn) _ (by simp)
      have hidD : closeCol n.column (closeCls n) (A.dropWhile (·.2.isSome)) = A.dropWhile (·.2.isSome) :=
        closeCol_id (by rw [hasOpen_dropWhile]; exact hO')
      cases hot : o.orphanTail with
      | raise =>
        rw [jht_none_raise o _ n hot]
        simp [Except.bind]
      | keep =>
        rw [jht_none_keep o _ n hot]
        simp only [Except.bind]
        rw [afterBuf o A n.column (closeCls n) [(n, some .orphanTail)] _ (by simp) hgood
          (by rw [hidD]; simp [pimage, image, hot])]
        simp
      | drop =>
        rw [jht_none_drop o _ n hot]
        simp only [Except.bind]
        rw [afterBuf o A n.column (closeCls n) [(n, some .orphanTail)] _ (by simp) hgood
          (by rw [hidD]; simp [pimage, image, hot])]
        simp
    · simp only [ht, if_false, List.append_nil, hid, hr, Bool.false_eq_true]
      rw [stateOf_eq]

/-! ### second half: the note itself -/

theorem while_snoc {α} (p : α → Bool) (x : α) : ∀ B : List α, ((∀ y ∈ B, p y = true) → p x = false) →
    (B ++ [x]).takeWhile p = B.takeWhile p ∧ (B ++ [x]).dropWhile p = B.dropWhile p ++ [x] := by
  intro B
  induction B with
  | nil => intro h; have := h (by simp); simp [this]
  | cons y B ih =>
    intro h
    cases hy : p y with
    | false => simp [hy]
    | true =>
      have ih' := ih (fun hall => h (by
        intro z hz
        rcases List.mem_cons.mp hz with rfl | hz
        · exact hy
        · exact hall z hz))
      simp [hy, ih'.1, ih'.2]

theorem heldSet_fresh (c : Nat) (n : Note) : ∀ l : List (Nat × Note), (∀ x ∈ l, x.1 ≠ c) →
    heldSet l c n = l ++ [(c, n)] := by
  intro l
  induction l with
  | nil => intro _; rfl
  | cons x l ih =>
    intro h
    rcases x with ⟨c', n'⟩
    have : c' ≠ c := h (c', n') (by simp)
    simp only [heldSet, if_neg this, List.cons_append]
    rw [ih (fun y hy => h y (by simp [hy]))]

theorem pushStep_tail (s : JState) (n : Note) (ht : n.ntype = cTAIL) : pushStep s n = s := by
  simp [pushStep, ht, isHead_tail]

theorem pushStep_spec (o : GOpts) (B : List AN) (n : Note) (ht : ¬ n.ntype = cTAIL)
    (hno : hasOpen n.column B = false) :
    pushStep (stateOf o B) n = stateOf o (B ++ [(n, if isHead n.ntype then none else some .plain)]) := by
  rw [stateOf_eq, stateOf_eq]
  unfold pushStep
  simp only [ne_eq, ht, not_false_eq_true, if_true]
  cases hh : isHead n.ntype with
  | true =>
    have hfresh : heldSet (opens B) n.column n = opens B ++ [(n.column, n)] := by
      apply heldSet_fresh
      intro x hx hc
      have : hasOpen n.column B = true :=
        hasOpen_iff.mpr (mem_opens_cols.mp (List.mem_map.mpr ⟨x, hx, hc⟩))
      rw [hno] at this; cases this
    have hw := while_snoc (fun x : AN => x.2.isSome) (n, none) B (fun _ => rfl)
    simp only [if_true, hfresh, JState.maybeBuffer, hw.1, hw.2, opens_append, opens_cons_none, opens_nil]
    simp [pimage]
  | false =>
    simp only [Bool.false_eq_true, if_false, JState.maybeBuffer]
    by_cases he : opens B = []
    · have hall : ∀ x ∈ B ++ [(n, some Cls.plain)], x.2.isSome = true := by
        intro x hx
        rcases List.mem_append.mp hx with h | h
        · exact (opens_eq_nil_iff B).mp he x h
        · simp at h; subst h; rfl
      have hallB : ∀ x ∈ B, x.2.isSome = true := (opens_eq_nil_iff B).mp he
      rw [takeWhile_all hall, dropWhile_all hall, takeWhile_all hallB, dropWhile_all hallB]
      simp [he, JState.flush, opens_append, pimage, image]
    · have hw := while_snoc (fun x : AN => x.2.isSome) (n, some .plain) B (fun hall => by
        exact absurd ((opens_eq_nil_iff B).mpr hall) he)
      have hne : (opens B).isEmpty = false := by
        cases hb : opens B with
        | nil => exact absurd hb he
        | cons _ _ => rfl
      simp only [hne, Bool.false_eq_true, if_false, hw.1, hw.2, opens_append, opens_cons_some, opens_nil]
      simp [pimage, image]

theorem raised_append (o : GOpts) (A E : List AN) : raised o (A ++ E) = (raised o A || raised o E) := by
  simp only [raised, anyCls_append]
  generalize decide (o.orphanHead = .raise) = a1
  generalize decide (o.orphanTail = .raise) = a2
  generalize anyCls .orphanHead A = a3
  generalize anyCls .orphanTail A = a4
  generalize anyCls .orphanHead E = a5
  generalize anyCls .orphanTail E = a6
  cases a1 <;> cases a2 <;> cases a3 <;> cases a4 <;> cases a5 <;> cases a6 <;> rfl

/-- one iteration of the loop is the abstract step -/
theorem joinStep_spec (o : GOpts) (A : List AN) (g : Good A) (n : Note) (hn : n ∉ A.map (·.1))
    (hr : raised o A = false) :
    joinStep o (stateOf o A) n =
      if raised o (absStep A n) then .error .orphaned else .ok (stateOf o (absStep A n)) := by
  rw [joinStep_eq, closeStep_spec o A g n hn hr]
  by_cases ht : n.ntype = cTAIL
  · have : closeAbs A n = absStep A n := by simp [closeAbs, absStep, ht]
    rw [this]
    cases raised o (absStep A n) <;> simp [Except.bind, pushStep_tail _ n ht]
  · have h1 : closeAbs A n = closeCol n.column (closeCls n) A := by simp [closeAbs, ht]
    have h2 : newCls A n = if isHead n.ntype then none else some .plain := by simp [newCls, ht]
    have h3 : raised o (absStep A n) = raised o (closeCol n.column (closeCls n) A) := by
      unfold absStep
      rw [raised_append, raised_single, h2]
      cases isHead n.ntype <;> simp
    rw [h1, h3]
    cases raised o (closeCol n.column (closeCls n) A) with
    | true => simp [Except.bind]
    | false =>
      simp only [Bool.false_eq_true, if_false, Except.bind]
      rw [pushStep_spec o _ n ht (hasOpen_closeCol_same _ _ _)]
      unfold absStep
      rw [h2]

end Simfile.Join
