/-
SM charts: consequences of the classification (`smClass_spec`) for single steps and for whole histories —
which operations are which (stated on the syntax of the operation), the six keys, refused operations can be
dropped from a history, last write wins (C18, second round).
-/
import Simfile.Lemmas.ViewsMoreSM
namespace Simfile.VX
open Simfile Simfile.O Simfile.V

/-! ### the classes, on the syntax of the operation -/

theorem smClass_assign_iff (op : VOpX) (key v : Str) :
    smClass op = .assign key v ↔
      key ∈ T.smChartProperties ∧ (op = .base (.setKey key v) ∨ op = .base (.setAttr (lower key) v)) := by
  constructor
  · intro h
    cases op with
    | base b =>
      cases b with
      | setAttr a v' =>
        simp only [smClass] at h
        cases hk : attrKey .smChart [] a with
        | none => rw [hk] at h; cases h
        | some key' =>
          rw [hk] at h
          simp only [SmClass.assign.injEq] at h
          obtain ⟨rfl, rfl⟩ := h
          obtain ⟨hm, rfl⟩ := (sm_attrKey_iff [] a key').mp hk
          exact ⟨hm, Or.inr rfl⟩
      | setKey key' v' =>
        simp only [smClass] at h
        split at h
        · rename_i hm
          simp only [SmClass.assign.injEq] at h
          obtain ⟨rfl, rfl⟩ := h
          exact ⟨hm, Or.inl rfl⟩
        · cases h
      | getAttr a => simp only [smClass] at h; split at h <;> cases h
      | delAttr a => simp only [smClass] at h; split at h <;> cases h
      | getKey key' => simp only [smClass] at h; split at h <;> cases h
      | delKey _ => cases h
      | contains _ => cases h
      | items => cases h
      | pop _ => cases h
      | popitem => cases h
      | update _ _ => cases h
    | clear => cases h
    | setDefault key' v' => simp only [smClass] at h; split at h <;> cases h
    | moveToEnd key' last => simp only [smClass] at h; split at h <;> cases h
  · rintro ⟨hm, rfl | rfl⟩
    · simp only [smClass]; rw [if_pos hm]
    · simp only [smClass]; rw [smChart_attrKey_of_mem [] key hm]

theorem smClass_move_iff (op : VOpX) (key : Str) (last : Bool) :
    smClass op = .move key last ↔ key ∈ T.smChartProperties ∧ op = .moveToEnd key last := by
  constructor
  · intro h
    cases op with
    | base b =>
      cases b with
      | setAttr a v' => simp only [smClass] at h; split at h <;> cases h
      | setKey key' v' => simp only [smClass] at h; split at h <;> cases h
      | getAttr a => simp only [smClass] at h; split at h <;> cases h
      | delAttr a => simp only [smClass] at h; split at h <;> cases h
      | getKey key' => simp only [smClass] at h; split at h <;> cases h
      | delKey _ => cases h
      | contains _ => cases h
      | items => cases h
      | pop _ => cases h
      | popitem => cases h
      | update _ _ => cases h
    | clear => cases h
    | setDefault key' v' => simp only [smClass] at h; split at h <;> cases h
    | moveToEnd key' last' =>
      simp only [smClass] at h
      split at h
      · rename_i hm
        simp only [SmClass.move.injEq] at h
        obtain ⟨rfl, rfl⟩ := h
        exact ⟨hm, rfl⟩
      · cases h
  · rintro ⟨hm, rfl⟩
    simp only [smClass]; rw [if_pos hm]

theorem smClass_notImpl_iff (op : VOpX) :
    smClass op = .notImpl ↔
      op = .clear ∨ (∃ key, op = .base (.delKey key)) ∨ (∃ key, op = .base (.pop key)) ∨ op = .base .popitem ∨
      (∃ key v, op = .base (.update key v)) ∨ (∃ key ∈ T.smChartProperties, op = .base (.delAttr (lower key))) := by
  constructor
  · intro h
    cases op with
    | base b =>
      cases b with
      | setAttr a v' => simp only [smClass] at h; split at h <;> cases h
      | setKey key' v' => simp only [smClass] at h; split at h <;> cases h
      | getAttr a => simp only [smClass] at h; split at h <;> cases h
      | delAttr a =>
        simp only [smClass] at h
        cases hk : attrKey .smChart [] a with
        | none => rw [hk] at h; cases h
        | some key =>
          obtain ⟨hm, rfl⟩ := (sm_attrKey_iff [] a key).mp hk
          exact Or.inr (Or.inr (Or.inr (Or.inr (Or.inr ⟨key, hm, rfl⟩))))
      | getKey key' => simp only [smClass] at h; split at h <;> cases h
      | delKey key => exact Or.inr (Or.inl ⟨key, rfl⟩)
      | contains _ => cases h
      | items => cases h
      | pop key => exact Or.inr (Or.inr (Or.inl ⟨key, rfl⟩))
      | popitem => exact Or.inr (Or.inr (Or.inr (Or.inl rfl)))
      | update key v => exact Or.inr (Or.inr (Or.inr (Or.inr (Or.inl ⟨key, v, rfl⟩))))
    | clear => exact Or.inl rfl
    | setDefault key' v' => simp only [smClass] at h; split at h <;> cases h
    | moveToEnd key' last => simp only [smClass] at h; split at h <;> cases h
  · rintro (rfl | ⟨key, rfl⟩ | ⟨key, rfl⟩ | rfl | ⟨key, v, rfl⟩ | ⟨key, hm, rfl⟩)
    · rfl
    · rfl
    · rfl
    · rfl
    · rfl
    · simp only [smClass]; rw [smChart_attrKey_of_mem [] key hm]

theorem smClass_keyErr_iff (op : VOpX) :
    smClass op = .keyErr ↔
      ∃ key, key ∉ T.smChartProperties ∧
        (op = .base (.getKey key) ∨ (∃ v, op = .base (.setKey key v)) ∨ (∃ v, op = .setDefault key v) ∨
         (∃ last, op = .moveToEnd key last)) := by
  constructor
  · intro h
    cases op with
    | base b =>
      cases b with
      | setAttr a v' => simp only [smClass] at h; split at h <;> cases h
      | setKey key v =>
        simp only [smClass] at h
        split at h
        · cases h
        · rename_i hm; exact ⟨key, hm, Or.inr (Or.inl ⟨v, rfl⟩)⟩
      | getAttr a => simp only [smClass] at h; split at h <;> cases h
      | delAttr a => simp only [smClass] at h; split at h <;> cases h
      | getKey key =>
        simp only [smClass] at h
        split at h
        · cases h
        · rename_i hm; exact ⟨key, hm, Or.inl rfl⟩
      | delKey key => cases h
      | contains _ => cases h
      | items => cases h
      | pop key => cases h
      | popitem => cases h
      | update key v => cases h
    | clear => cases h
    | setDefault key v =>
      simp only [smClass] at h
      split at h
      · cases h
      · rename_i hm; exact ⟨key, hm, Or.inr (Or.inr (Or.inl ⟨v, rfl⟩))⟩
    | moveToEnd key last =>
      simp only [smClass] at h
      split at h
      · cases h
      · rename_i hm; exact ⟨key, hm, Or.inr (Or.inr (Or.inr ⟨last, rfl⟩))⟩
  · rintro ⟨key, hm, rfl | ⟨v, rfl⟩ | ⟨v, rfl⟩ | ⟨last, rfl⟩⟩ <;> (simp only [smClass]; rw [if_neg hm])

theorem smClass_attrErr_iff (op : VOpX) :
    smClass op = .attrErr ↔
      ∃ a, (∀ key ∈ T.smChartProperties, lower key ≠ a) ∧
        (op = .base (.getAttr a) ∨ (∃ v, op = .base (.setAttr a v)) ∨ op = .base (.delAttr a)) := by
  constructor
  · intro h
    cases op with
    | base b =>
      cases b with
      | setAttr a v =>
        simp only [smClass] at h
        cases hk : attrKey .smChart [] a with
        | none => exact ⟨a, (sm_attrKey_none_iff [] a).mp hk, Or.inr (Or.inl ⟨v, rfl⟩)⟩
        | some key => rw [hk] at h; cases h
      | setKey key v => simp only [smClass] at h; split at h <;> cases h
      | getAttr a =>
        simp only [smClass] at h
        cases hk : attrKey .smChart [] a with
        | none => exact ⟨a, (sm_attrKey_none_iff [] a).mp hk, Or.inl rfl⟩
        | some key => rw [hk] at h; cases h
      | delAttr a =>
        simp only [smClass] at h
        cases hk : attrKey .smChart [] a with
        | none => exact ⟨a, (sm_attrKey_none_iff [] a).mp hk, Or.inr (Or.inr rfl)⟩
        | some key => rw [hk] at h; cases h
      | getKey key => simp only [smClass] at h; split at h <;> cases h
      | delKey key => cases h
      | contains _ => cases h
      | items => cases h
      | pop key => cases h
      | popitem => cases h
      | update key v => cases h
    | clear => cases h
    | setDefault key v => simp only [smClass] at h; split at h <;> cases h
    | moveToEnd key last => simp only [smClass] at h; split at h <;> cases h
  · rintro ⟨a, ha, rfl | ⟨v, rfl⟩ | rfl⟩ <;>
      (simp only [smClass]; rw [(sm_attrKey_none_iff [] a).mpr ha])

/-! ### outputs -/

/-- the output of a class (`none`: a read, whose output depends on the mapping) -/
def classOut : SmClass → Option VOut
  | .assign _ _ => some .done
  | .move _ _ => some .done
  | .notImpl => some .notImplemented
  | .keyErr => some .keyError
  | .attrErr => some .attributeError
  | .read => none

theorem sm_out_of_class (d : Dict) (h : Six d) (op : VOpX) :
    match classOut (smClass op) with
    | some o => (vstepX .smChart d op).2 = o
    | none => IsRead (vstepX .smChart d op).2 := by
  have hs := smClass_spec d h op
  cases hc : smClass op with
  | assign key v => rw [hc] at hs; exact congrArg Prod.snd hs.2
  | move key last => rw [hc] at hs; obtain ⟨_, v, _, e⟩ := hs; exact congrArg Prod.snd e
  | notImpl => rw [hc] at hs; exact congrArg Prod.snd hs
  | keyErr => rw [hc] at hs; exact congrArg Prod.snd hs
  | attrErr => rw [hc] at hs; exact congrArg Prod.snd hs
  | read => rw [hc] at hs; exact hs.2

theorem not_isRead (o : VOut) (ho : o = .done ∨ o = .notImplemented ∨ o = .keyError ∨ o = .attributeError) :
    ¬ IsRead o := by
  rintro (⟨r, e⟩ | ⟨b, e⟩ | ⟨l, e⟩) <;> (subst e; rcases ho with h | h | h | h <;> cases h)

/-- an error or `done` output is decided by the class of the operation alone -/
theorem sm_out_iff (d : Dict) (h : Six d) (op : VOpX) (o : VOut)
    (ho : o = .done ∨ o = .notImplemented ∨ o = .keyError ∨ o = .attributeError) :
    (vstepX .smChart d op).2 = o ↔ classOut (smClass op) = some o := by
  have hs := sm_out_of_class d h op
  cases hc : classOut (smClass op) with
  | none =>
    rw [hc] at hs
    simp only [] at hs
    constructor
    · intro e; rw [e] at hs; exact absurd hs (not_isRead o ho)
    · intro e; cases e
  | some o' =>
    rw [hc] at hs
    simp only [] at hs
    rw [hs]
    constructor
    · intro e; rw [e]
    · intro e; exact Option.some.inj e

/-- the operations that go through -/
def smEffective (op : VOpX) : Bool :=
  match smClass op with
  | .assign _ _ => true
  | .move _ _ => true
  | _ => false

theorem smEffective_iff_class (op : VOpX) : smEffective op = true ↔ classOut (smClass op) = some .done := by
  unfold smEffective
  cases smClass op <;> simp [classOut]

theorem sm_done_iff (d : Dict) (h : Six d) (op : VOpX) :
    (vstepX .smChart d op).2 = .done ↔ smEffective op = true := by
  rw [sm_out_iff d h op .done (Or.inl rfl), smEffective_iff_class]

theorem smEffective_iff (op : VOpX) :
    smEffective op = true ↔
      (∃ key ∈ T.smChartProperties, ∃ v, op = .base (.setKey key v) ∨ op = .base (.setAttr (lower key) v)) ∨
      (∃ key ∈ T.smChartProperties, ∃ last, op = .moveToEnd key last) := by
  constructor
  · intro h
    unfold smEffective at h
    cases hc : smClass op with
    | assign key v =>
      obtain ⟨hm, ho⟩ := (smClass_assign_iff op key v).mp hc
      exact Or.inl ⟨key, hm, v, ho⟩
    | move key last =>
      obtain ⟨hm, ho⟩ := (smClass_move_iff op key last).mp hc
      exact Or.inr ⟨key, hm, last, ho⟩
    | notImpl => rw [hc] at h; cases h
    | keyErr => rw [hc] at h; cases h
    | attrErr => rw [hc] at h; cases h
    | read => rw [hc] at h; cases h
  · rintro (⟨key, hm, v, ho⟩ | ⟨key, hm, last, ho⟩)
    · unfold smEffective; rw [(smClass_assign_iff op key v).mpr ⟨hm, ho⟩]
    · unfold smEffective; rw [(smClass_move_iff op key last).mpr ⟨hm, ho⟩]

/-- anything that is not an effective operation leaves the mapping as it was -/
theorem sm_unchanged (d : Dict) (h : Six d) (op : VOpX) (hn : smEffective op = false) :
    (vstepX .smChart d op).1 = d := by
  have hs := smClass_spec d h op
  unfold smEffective at hn
  cases hc : smClass op with
  | assign key v => rw [hc] at hn; cases hn
  | move key last => rw [hc] at hn; cases hn
  | notImpl => rw [hc] at hs; exact congrArg Prod.fst hs
  | keyErr => rw [hc] at hs; exact congrArg Prod.fst hs
  | attrErr => rw [hc] at hs; exact congrArg Prod.fst hs
  | read => rw [hc] at hs; exact hs.1

/-! ### the six keys -/

theorem sm_step_keys (d : Dict) (h : Six d) (op : VOpX) :
    Six (vstepX .smChart d op).1 ∧
    ((∀ key last, op ≠ .moveToEnd key last) → Dict.keys (vstepX .smChart d op).1 = Dict.keys d) := by
  have hs := smClass_spec d h op
  cases hc : smClass op with
  | assign key v =>
    rw [hc] at hs
    obtain ⟨hm, e⟩ := hs
    have : Dict.keys (vstepX .smChart d op).1 = Dict.keys d := by rw [e]; exact h.set key hm _
    refine ⟨?_, fun _ => this⟩
    unfold Six; rw [this]; exact h
  | move key last =>
    rw [hc] at hs
    obtain ⟨hm, v, hv, e⟩ := hs
    refine ⟨by rw [e]; exact h.move key v last hv, fun hn => ?_⟩
    exact absurd ((smClass_move_iff op key last).mp hc).2 (hn key last)
  | notImpl => rw [hc] at hs; rw [show (vstepX .smChart d op).1 = d from congrArg Prod.fst hs]; exact ⟨h, fun _ => rfl⟩
  | keyErr => rw [hc] at hs; rw [show (vstepX .smChart d op).1 = d from congrArg Prod.fst hs]; exact ⟨h, fun _ => rfl⟩
  | attrErr => rw [hc] at hs; rw [show (vstepX .smChart d op).1 = d from congrArg Prod.fst hs]; exact ⟨h, fun _ => rfl⟩
  | read => rw [hc] at hs; rw [hs.1]; exact ⟨h, fun _ => rfl⟩

theorem sm_run_six (d : Dict) (h : Six d) (ops : List VOpX) : Six (vrunX .smChart d ops).1 := by
  induction ops generalizing d with
  | nil => exact h
  | cons op ops ih => rw [vrunX_cons]; exact ih _ (sm_step_keys d h op).1

theorem sm_run_keys_nomove (d : Dict) (h : Six d) (ops : List VOpX)
    (hn : ∀ op ∈ ops, ∀ key last, op ≠ .moveToEnd key last) :
    Dict.keys (vrunX .smChart d ops).1 = Dict.keys d := by
  induction ops generalizing d with
  | nil => rfl
  | cons op ops ih =>
    rw [vrunX_cons, ih _ (sm_step_keys d h op).1 (fun o ho => hn o (List.mem_cons_of_mem _ ho))]
    exact (sm_step_keys d h op).2 (hn op List.mem_cons_self)

/-- refused operations and reads can be dropped from a history without changing the final mapping -/
theorem sm_run_filter (d : Dict) (h : Six d) (ops : List VOpX) :
    (vrunX .smChart d ops).1 = (vrunX .smChart d (ops.filter smEffective)).1 := by
  induction ops generalizing d with
  | nil => rfl
  | cons op ops ih =>
    rw [vrunX_cons, List.filter_cons]
    cases he : smEffective op with
    | true =>
      simp only [if_true]
      rw [vrunX_cons]
      exact ih _ (sm_step_keys d h op).1
    | false =>
      simp only [Bool.false_eq_true, if_false]
      rw [sm_unchanged d h op he]
      exact ih d h

/-! ### last write wins -/

/-- the value an operation assigns to the field `key` of an SM chart (by upper-case key or by attribute) -/
def smWrites (key : Str) : VOpX → Option Str
  | .base (.setKey k v) => if k = key then some v else none
  | .base (.setAttr a v) => if a = lower key then some v else none
  | _ => none

theorem smWrites_some (key : Str) (hk : key ∈ T.smChartProperties) (op : VOpX) (v : Str)
    (h : smWrites key op = some v) : smClass op = .assign key v := by
  rw [smClass_assign_iff]
  refine ⟨hk, ?_⟩
  cases op with
  | base b =>
    cases b with
    | setKey k v' =>
      simp only [smWrites] at h
      split at h
      · rename_i e; subst e; cases h; exact Or.inl rfl
      · cases h
    | setAttr a v' =>
      simp only [smWrites] at h
      split at h
      · rename_i e; subst e; cases h; exact Or.inr rfl
      · cases h
    | _ => cases h
  | _ => cases h

theorem smWrites_of_assign (key : Str) (op : VOpX) (v : Str) (h : smClass op = .assign key v) :
    smWrites key op = some v := by
  obtain ⟨_, rfl | rfl⟩ := (smClass_assign_iff op key v).mp h <;> simp [smWrites]

theorem sm_step_get? (d : Dict) (h : Six d) (key : Str) (hk : key ∈ T.smChartProperties) (op : VOpX) :
    (vstepX .smChart d op).1.get? key =
      match smWrites key op with
      | some v => some (some v)
      | none => d.get? key := by
  have hs := smClass_spec d h op
  cases hw : smWrites key op with
  | some v =>
    rw [smWrites_some key hk op v hw] at hs
    rw [hs.2]; exact get?_set_self _ _ _
  | none =>
    simp only []
    cases hc : smClass op with
    | assign key' v' =>
      rw [hc] at hs
      rw [hs.2]
      apply get?_set_ne
      intro e; subst e
      rw [smWrites_of_assign key op v' hc] at hw; cases hw
    | move key' last =>
      rw [hc] at hs
      obtain ⟨_, v, hv, e⟩ := hs
      rw [e]; exact get?_move d key' v last hv key
    | notImpl => rw [hc] at hs; rw [show (vstepX .smChart d op).1 = d from congrArg Prod.fst hs]
    | keyErr => rw [hc] at hs; rw [show (vstepX .smChart d op).1 = d from congrArg Prod.fst hs]
    | attrErr => rw [hc] at hs; rw [show (vstepX .smChart d op).1 = d from congrArg Prod.fst hs]
    | read => rw [hc] at hs; rw [hs.1]

/-- the last value assigned to `key` in a history, if any -/
def lastWrite (key : Str) (ops : List VOpX) : Option Str := (ops.filterMap (smWrites key)).getLast?

theorem lastWrite_nil (key : Str) : lastWrite key [] = none := rfl

theorem lastWrite_cons (key : Str) (op : VOpX) (ops : List VOpX) :
    lastWrite key (op :: ops) = (lastWrite key ops).or (smWrites key op) := by
  unfold lastWrite
  rw [List.filterMap_cons]
  cases smWrites key op with
  | none => simp
  | some v =>
    simp only [List.getLast?_cons]
    cases (List.filterMap (smWrites key) ops).getLast? <;> rfl

theorem sm_run_get? (d : Dict) (h : Six d) (key : Str) (hk : key ∈ T.smChartProperties) (ops : List VOpX) :
    (vrunX .smChart d ops).1.get? key =
      match lastWrite key ops with
      | some v => some (some v)
      | none => d.get? key := by
  induction ops generalizing d with
  | nil => rfl
  | cons op ops ih =>
    rw [vrunX_cons, ih _ (sm_step_keys d h op).1, lastWrite_cons, sm_step_get? d h key hk op]
    cases lastWrite key ops with
    | some v => rfl
    | none => cases smWrites key op <;> rfl

theorem lastWrite_filter (key : Str) (p : VOpX → Bool) (ops : List VOpX)
    (hp : ∀ op ∈ ops, p op = false → smWrites key op = none) :
    lastWrite key (ops.filter p) = lastWrite key ops := by
  induction ops with
  | nil => rfl
  | cons op ops ih =>
    have ih' := ih (fun o ho => hp o (List.mem_cons_of_mem _ ho))
    rw [List.filter_cons]
    cases hpo : p op with
    | true => simp only [if_true]; rw [lastWrite_cons, lastWrite_cons, ih']
    | false =>
      simp only [Bool.false_eq_true, if_false]
      rw [lastWrite_cons, hp op List.mem_cons_self hpo, ih']; simp

end Simfile.VX
