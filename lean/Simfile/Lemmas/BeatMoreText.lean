/-
The printer slack lifted to text and tables (any beat printer whose output is within 6/10000 of a grid beat), and
`timingData` resolved to the dictionary keys it reads (C14 round 2).
-/
import Simfile.Lemmas.BeatValues
import Simfile.Lemmas.Source
import Simfile.Lemmas.BeatMoreRound
namespace Simfile
open Simfile.O Simfile.V Simfile.S

/-! ### the slack, on rationals -/

theorem roundToTick_of_close (n : Int) (d : Rat) (h : |d - (n : Rat) / 48| ≤ 6 / 10000) :
    roundToTick d = (n : Rat) / 48 := by
  rw [roundToTick_eq]
  have : roundHalfEven (d * 48) = n := by
    apply roundHalfEven_unique
    rw [abs_le] at h; rw [abs_lt]
    constructor <;> linarith
  rw [this]

theorem round3_close (x : Rat) : |round3 x - x| ≤ 1 / 2000 := by
  have h := roundHalfEven_near (x * 1000)
  simp only [round3, thousandths] at *
  rw [abs_le] at *
  obtain ⟨h1, h2⟩ := h
  constructor
  · rw [le_sub_iff_add_le, le_div_iff₀ (by norm_num)]; linarith
  · rw [sub_le_iff_le_add, div_le_iff₀ (by norm_num)]; linarith

theorem roundToTick_round3_grid (n : Int) : roundToTick (round3 ((n : Rat) / 48)) = (n : Rat) / 48 :=
  roundToTick_of_close n _ (le_trans (round3_close _) (by norm_num))

/-! ### what the round trip needs of a beat printer -/

/-- A beat printer is good enough for the round trip when, on every grid beat `n/48`, its text contains no ','
and no '=', does not start with white space, and reads (as a decimal literal) as a number within 6/10000 of
the beat. The model printer `beatToStr` is one (`printerOK_beatToStr`); CPython's `f"{float(b):.3f}"` is assumed
to be one as long as `float(b)` is within 1/10000 of `b` (the single trusted fact about floats). -/
def PrinterOK (pr : Rat → Str) : Prop :=
  ∀ n : Int, ',' ∉ pr ((n : Rat) / 48) ∧ '=' ∉ pr ((n : Rat) / 48) ∧
    (∀ c ∈ (pr ((n : Rat) / 48)).head?, pyIsSpace c = false) ∧
    ∃ d, parseDecimal (pr ((n : Rat) / 48)) = some d ∧ |d - (n : Rat) / 48| ≤ 6 / 10000

theorem printerOK_beatToStr : PrinterOK beatToStr := by
  intro n
  refine ⟨beatToStr_not_mem _ (by decide) (by decide) (by decide),
    beatToStr_not_mem _ (by decide) (by decide) (by decide), ?_, round3 ((n : Rat) / 48),
    parseDecimal_beatToStr _, le_trans (round3_close _) (by norm_num)⟩
  intro c hc
  exact beatToStr_not_space _ c (List.mem_of_mem_head? hc)

theorem parseDecimal_nil : parseDecimal [] = none := by decide +kernel

/-- reading the text a good printer writes for a grid beat gives that beat -/
theorem beatFromStr_printed (pr : Rat → Str) (hpr : PrinterOK pr) (n : Int) :
    beatFromStr (pr ((n : Rat) / 48)) = some ((n : Rat) / 48) := by
  obtain ⟨_, _, _, d, hd, hn⟩ := hpr n
  simp only [beatFromStr, hd, Option.map_some, roundToTick_of_close n d hn]

/-! ### one row -/

theorem parseRow_text (b v : Str) (hne : b ≠ []) (hh : ∀ c ∈ b.head?, pyIsSpace c = false) (he : '=' ∉ b)
    (hv : TokenOK v) :
    parseRow (b ++ '=' :: v) = (beatFromStr b).map fun q => { beat := q, value := v } := by
  obtain ⟨_, hv2, _, hv4⟩ := hv
  have htr : Trimmed (b ++ '=' :: v) := by
    constructor
    · intro c hc
      apply hh
      cases b with
      | nil => exact absurd rfl hne
      | cons x xs => simpa using hc
    · intro c hc
      cases v with
      | nil =>
        have e : b ++ ['='] ≠ [] := by simp
        rw [List.getLast?_eq_some_getLast e, List.getLast_append_of_right_ne_nil _ _ (by simp)] at hc
        simp at hc; subst hc; decide
      | cons d ds =>
        apply hv4
        have : b ++ '=' :: d :: ds = (b ++ ['=']) ++ (d :: ds) := by simp
        rw [this, List.getLast?_append_of_ne_nil _ (by simp)] at hc
        exact hc
  have hs : splitOn '=' (b ++ '=' :: v) = [b, v] := by
    rw [splitOn_append_sep he, splitOn_of_not_mem hv2]
  simp only [parseRow, strip_of_trimmed htr, hs]

theorem parseRow_printed (pr : Rat → Str) (hpr : PrinterOK pr) (r : BVRow) (hg : onGrid r.beat)
    (hv : TokenOK r.value) : parseRow (pr r.beat ++ '=' :: r.value) = some r := by
  obtain ⟨n, hn⟩ := (onGrid_iff _).mp hg
  obtain ⟨_, he, hh, d, hd, _⟩ := hpr n
  have hne : pr ((n : Rat) / 48) ≠ [] := by
    intro e; rw [e, parseDecimal_nil] at hd; cases hd
  rw [hn, parseRow_text _ _ hne hh he hv, beatFromStr_printed pr hpr n]
  cases r; simp_all

/-! ### tables of arbitrary row texts -/

theorem parseRow_blank (t : Str) (h : strip t = []) : parseRow t = none := by
  unfold parseRow; rw [h]; rfl

/-- comma-free row texts that each parse, joined by commas, read back as the parsed rows -/
theorem beatValues_texts {α : Type} (items : List α) (txt : α → Str) (k : α → BVRow)
    (hp : ∀ x ∈ items, parseRow (txt x) = some (k x)) (hc : ∀ x ∈ items, ',' ∉ txt x) :
    beatValuesFromStr (some (joinWith [','] (items.map txt))) = some (items.map k) := by
  rw [beatValuesFromStr_some']
  match items, hp, hc with
  | [], _, _ => rfl
  | [x], hp, hc =>
    simp only [List.map_cons, List.map_nil, joinWith_singleton]
    have hx := hp x (by simp)
    have hne : strip (txt x) ≠ [] := by
      intro e; rw [parseRow_blank _ e] at hx; cases hx
    rw [if_neg hne, splitOn_of_not_mem (hc x (by simp))]
    simp only [mapM_option_cons, hx]
    rfl
  | x :: y :: rest, hp, hc =>
    have hne : strip (joinWith [','] ((x :: y :: rest).map txt)) ≠ [] :=
      strip_ne_nil_of_mem (by simp only [List.map_cons]; exact sep_mem_joinWith _ _ _ _) (by decide)
    rw [if_neg hne, splitOn_joinWith (by simp)]
    · exact mapM_option_map_some parseRow txt k _ hp
    · intro p hp'
      obtain ⟨z, hz, rfl⟩ := List.mem_map.mp hp'
      exact hc z hz

/-- the same with the `",\n"` separator of `BeatValues.__str__` -/
theorem beatValues_texts_nl {α : Type} (items : List α) (txt : α → Str) (k : α → BVRow)
    (hp : ∀ x ∈ items, parseRow (txt x) = some (k x)) (hc : ∀ x ∈ items, ',' ∉ txt x) :
    beatValuesFromStr (some (joinWith [',', '\n'] (items.map txt))) = some (items.map k) := by
  cases items with
  | nil => rfl
  | cons x rest =>
    have e : joinWith [',', '\n'] ((x :: rest).map txt) =
        joinWith [','] ((([], txt x, []) :: rest.map fun y => (['\n'], txt y, [])).map
          fun t : Str × Str × Str => t.1 ++ t.2.1 ++ t.2.2) := by
      rw [List.map_cons, joinWith_cons_sep]
      simp [List.map_map, Function.comp_def]
    have e2 : ((([], txt x, []) :: rest.map fun y => (['\n'], txt y, [])).map
        fun t : Str × Str × Str => t.2.1) = (x :: rest).map txt := by
      simp [List.map_map, Function.comp_def]
    rw [e, beatValues_padded, e2]
    · exact beatValues_texts (x :: rest) txt k hp hc
    · intro t ht
      simp only [List.mem_cons, List.mem_map] at ht
      rcases ht with rfl | ⟨y, _, rfl⟩
      · exact ⟨by simp [Blank], by simp [Blank]⟩
      · exact ⟨by intro c hc'; simp at hc'; subst hc'; decide, by simp [Blank]⟩
    · intro t ht
      simp only [List.mem_cons, List.mem_map] at ht
      rcases ht with rfl | ⟨y, hy, rfl⟩
      · exact hc x (by simp)
      · exact hc y (by simp [hy])

/-- the table text written with an arbitrary beat printer -/
def tableText (pr : Rat → Str) (rows : List BVRow) : Str :=
  joinWith [',', '\n'] (rows.map fun r => pr r.beat ++ '=' :: r.value)

theorem tableText_beatToStr (rows : List BVRow) : tableText beatToStr rows = beatValuesToStr rows := by
  unfold tableText beatValuesToStr
  congr 1
  apply List.map_congr_left
  intro r _
  simp

theorem beatValues_printed (pr : Rat → Str) (hpr : PrinterOK pr) (rows : List BVRow)
    (h : ∀ r ∈ rows, onGrid r.beat ∧ TokenOK r.value) :
    beatValuesFromStr (some (tableText pr rows)) = some rows := by
  have := beatValues_texts_nl rows (fun r => pr r.beat ++ '=' :: r.value) id
    (fun r hr => parseRow_printed pr hpr r (h r hr).1 (h r hr).2)
    (fun r hr => by
      obtain ⟨n, hn⟩ := (onGrid_iff _).mp (h r hr).1
      have hc := (hpr n).1
      rw [← hn] at hc
      simp only [List.mem_append, List.mem_cons, not_or]
      exact ⟨hc, by decide, (h r hr).2.1⟩)
  rw [List.map_id] at this
  exact this

/-! ### `timingData`: which keys are read -/

theorem bpms_table' (k : Kind) :
    (propsTable k).find? (·.1 = ['b','p','m','s']) =
      if k = .smChart then none else some (['b','p','m','s'], ['B','P','M','S'], none) := by
  cases k <;> decide +kernel

theorem delays_table' (k : Kind) :
    (propsTable k).find? (·.1 = ['d','e','l','a','y','s']) =
      if k = .smChart then none else some (['d','e','l','a','y','s'], ['D','E','L','A','Y','S'], none) := by
  cases k <;> decide +kernel

theorem stops_table' (k : Kind) :
    (propsTable k).find? (·.1 = ['s','t','o','p','s']) =
      if k = .smChart then none
      else some (['s','t','o','p','s'], ['S','T','O','P','S'],
        if k = .smSimfile then some ['F','R','E','E','Z','E','S'] else none) := by
  cases k <;> decide +kernel

theorem attrGet_bpms' (k : Kind) (d : Dict) (hk : k ≠ .smChart) :
    attrGet k d ['b','p','m','s'] = (d.get? ['B','P','M','S']).join := by
  have := bpms_table' k
  rw [if_neg hk] at this
  exact attrGet_of_find k d _ _ none this

theorem attrGet_delays' (k : Kind) (d : Dict) (hk : k ≠ .smChart) :
    attrGet k d ['d','e','l','a','y','s'] = (d.get? ['D','E','L','A','Y','S']).join := by
  have := delays_table' k
  rw [if_neg hk] at this
  exact attrGet_of_find k d _ _ none this

/-- the key the `stops` attribute resolves to: FREEZES for an SM simfile that has FREEZES but no STOPS -/
def stopsKey (s : Src) : Str :=
  if s.kind = .smSimfile ∧ s.d.contains ['S','T','O','P','S'] = false ∧ s.d.contains ['F','R','E','E','Z','E','S'] = true
  then ['F','R','E','E','Z','E','S'] else ['S','T','O','P','S']

theorem attrGet_stops' (s : Src) (hk : s.kind ≠ .smChart) :
    attrGet s.kind s.d ['s','t','o','p','s'] = (s.d.get? (stopsKey s)).join := by
  have := stops_table' s.kind
  rw [if_neg hk] at this
  rw [attrGet_of_find s.kind s.d _ _ _ this]
  unfold stopsKey
  by_cases hsm : s.kind = .smSimfile
  · simp only [hsm, if_true, true_and, nameOrAlias]
    cases h1 : s.d.contains ['S','T','O','P','S'] <;> cases h2 : s.d.contains ['F','R','E','E','Z','E','S'] <;> simp
  · simp only [hsm, if_false, false_and, nameOrAlias]

/-- a key that is present is the one `stops` reads -/
theorem stopsKey_of_present (s : Src) (v : Option Str) (h : s.d.get? ['S','T','O','P','S'] = some v) :
    stopsKey s = ['S','T','O','P','S'] := by
  unfold stopsKey
  have : s.d.contains ['S','T','O','P','S'] = true := by rw [contains_eq, h]; rfl
  simp [this]

/-- the offset rule of `TimingData.__init__`: `Decimal(offset or 0)` -/
def offsetRule : Option Str → Option Rat
  | some (x :: xs) => parseDecimal (x :: xs)
  | _ => some 0

theorem offsetRule_of_parse (off : Str) (q : Rat) (h : parseDecimal off = some q) : offsetRule (some off) = some q := by
  cases off with
  | nil => rw [parseDecimal_nil] at h; cases h
  | cons x xs => exact h

/-- the source is never an SM chart when the first argument is a simfile -/
theorem timingSource_kind (sim : Src) (chart : Option Src) (s : Src)
    (hsim : sim.kind = .smSimfile ∨ sim.kind = .sscSimfile) (h : timingSource sim chart = .ok s) :
    s.kind ≠ .smChart := by
  rcases timingSource_cases sim chart s h with ⟨_, rfl⟩ | ⟨hu, hc⟩
  · rcases hsim with e | e <;> rw [e] <;> decide
  · obtain ⟨_, c, hc', hk, _⟩ := (useChart_iff sim chart).mp hu
    rw [hc] at hc'; cases hc'
    rw [hk]; decide

/-- every field of `timingData` is the parser applied to the text stored under one key of the source -/
theorem timingData_reads (sim : Src) (chart : Option Src) (s : Src)
    (hsim : sim.kind = .smSimfile ∨ sim.kind = .sscSimfile) (h : timingSource sim chart = .ok s) :
    timingData sim chart = .ok
      { bpms := beatValuesFromStr (s.d.get? ['B','P','M','S']).join,
        stops := beatValuesFromStr (s.d.get? (stopsKey s)).join,
        delays := beatValuesFromStr (s.d.get? ['D','E','L','A','Y','S']).join,
        warps := beatValuesFromStr (s.d.get? ['W','A','R','P','S']).join,
        offset := offsetRule (s.d.get? ['O','F','F','S','E','T']).join } := by
  have hk := timingSource_kind sim chart s hsim h
  unfold timingData
  rw [h]
  show Except.ok _ = Except.ok _
  congr 1
  rw [attrGet_bpms' _ _ hk, attrGet_delays' _ _ hk, attrGet_stops' s hk, attrGet_offset, if_neg hk]
  rfl

end Simfile
