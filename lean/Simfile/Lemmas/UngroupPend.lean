/-
Lemmas for C10: the position order on notes and the set of pending tails
(`pend B R`: the tails of the remaining stream `R` that close a head of the processed part `B`).
-/
import Simfile.Lemmas.Ungroup
import Mathlib.Data.Rat.Floor
import Mathlib.Tactic.Linarith
namespace Simfile.Ungroup
open Simfile Simfile.Spec

/-! ### the position order -/

theorem keyLt_asymm {a b : Nat × Rat × Nat} (h : keyLt a b = true) : keyLt b a = false := by
  rcases a with ⟨a1, a2, a3⟩
  rcases b with ⟨b1, b2, b3⟩
  simp only [keyLt, Bool.or_eq_true, Bool.and_eq_true, decide_eq_true_eq] at h
  simp only [keyLt, Bool.or_eq_false_iff, Bool.and_eq_false_iff, decide_eq_false_iff_not]
  rcases h with h | ⟨h1, h | ⟨h2, h3⟩⟩
  · exact ⟨by omega, Or.inl (by omega)⟩
  · refine ⟨by omega, Or.inr ⟨by linarith, Or.inl (by intro e; rw [e] at h; exact lt_irrefl _ h)⟩⟩
  · refine ⟨by omega, Or.inr ⟨by linarith, Or.inr (by omega)⟩⟩

theorem keyLt_irrefl (a : Nat × Rat × Nat) : keyLt a a = false := by
  cases h : keyLt a a with
  | false => rfl
  | true => have := keyLt_asymm h; rw [h] at this; cases this

/-- strictly increasing positions -/
def Sorted (R : List Note) : Prop := R.Pairwise fun a b => keyLt a.key b.key = true

theorem Sorted.not_mem {n : Note} {R : List Note} (h : Sorted (n :: R)) : n ∉ R := by
  intro hm
  have := (List.pairwise_cons.mp h).1 n hm
  rw [keyLt_irrefl] at this
  cases this

theorem Sorted.tail {n : Note} {R : List Note} (h : Sorted (n :: R)) : Sorted R := (List.pairwise_cons.mp h).2

theorem Sorted.head_lt {n : Note} {R : List Note} (h : Sorted (n :: R)) {y : Note} (hy : y ∈ R) :
    keyLt n.key y.key = true := (List.pairwise_cons.mp h).1 y hy

/-! ### pending tails -/

/-- the tail note that `ungroup_notes` rebuilds from a note with tail -/
def recon (h : Note) (tb : Rat) : Note := { beat := tb, column := h.column, ntype := cTAIL, player := h.player }

/-- the nearest earlier note of column `c` is a head -/
def headOpen (B : List Note) (c : Nat) : Bool := (B.find? (·.column = c)).any fun h => isHead h.ntype

/-- `y` is a tail and the first note of its column in `R` -/
def tailFirst (R : List Note) (y : Note) : Bool :=
  decide (y.ntype = cTAIL) && (R.find? (·.column = y.column) == some y)

def pendP (B R : List Note) (y : Note) : Bool := tailFirst R y && headOpen B y.column

/-- the tails of `R` that close a head of `B` (nearest first): what is pending when `R` remains -/
def pend (B R : List Note) : List Note := R.filter (pendP B R)

def pend0 (B : List Note) (n : Note) (R : List Note) : List Note := R.filter (pendP B (n :: R))

theorem headOpen_cons (n : Note) (B : List Note) (c : Nat) :
    headOpen (n :: B) c = if n.column = c then isHead n.ntype else headOpen B c := by
  unfold headOpen
  by_cases h : n.column = c <;> simp [h]

theorem tailFirst_cons_of_ne {n y : Note} (R : List Note) (hne : y ≠ n) :
    tailFirst (n :: R) y = if n.column = y.column then false else tailFirst R y := by
  unfold tailFirst
  by_cases h : n.column = y.column
  · have : ¬ n = y := fun e => hne e.symm
    simp [h, this]
  · simp [h]

theorem pend_cons (B : List Note) (n : Note) (R : List Note) :
    pend B (n :: R) = (if decide (n.ntype = cTAIL) && headOpen B n.column then [n] else []) ++ pend0 B n R := by
  unfold pend pend0
  rw [List.filter_cons]
  have : pendP B (n :: R) n = (decide (n.ntype = cTAIL) && headOpen B n.column) := by
    simp [pendP, tailFirst]
  rw [this]
  split <;> simp

theorem mem_pend0 {B : List Note} {n : Note} {R : List Note} (hn : n ∉ R) {y : Note} (hy : y ∈ pend0 B n R) :
    y ∈ R ∧ y.column ≠ n.column := by
  unfold pend0 at hy
  obtain ⟨h1, h2⟩ := List.mem_filter.mp hy
  refine ⟨h1, ?_⟩
  have hne : y ≠ n := fun e => hn (e ▸ h1)
  intro hc
  simp [pendP, tailFirst_cons_of_ne R hne, hc] at h2

/-- a note that is not a head: nothing new becomes pending -/
theorem pend_shift_nonhead (B : List Note) (n : Note) (R : List Note) (hn : n ∉ R) (hh : isHead n.ntype = false) :
    pend (n :: B) R = pend0 B n R := by
  unfold pend pend0
  apply List.filter_congr
  intro y hy
  have hne : y ≠ n := fun e => hn (e ▸ hy)
  simp only [pendP, tailFirst_cons_of_ne R hne, headOpen_cons]
  by_cases hc : n.column = y.column <;> simp [hc, hh]

/-- a head whose column continues with something else than a tail: nothing new becomes pending -/
theorem pend_shift_orphan (B : List Note) (n : Note) (R : List Note) (hn : n ∉ R)
    (hnt : ∀ t, R.find? (·.column = n.column) = some t → t.ntype ≠ cTAIL) :
    pend (n :: B) R = pend0 B n R := by
  unfold pend pend0
  apply List.filter_congr
  intro y hy
  have hne : y ≠ n := fun e => hn (e ▸ hy)
  simp only [pendP, tailFirst_cons_of_ne R hne, headOpen_cons]
  by_cases hc : n.column = y.column
  · simp only [hc, if_true, Bool.false_and, Bool.and_eq_false_iff]
    left
    unfold tailFirst
    cases hf : R.find? (·.column = y.column) with
    | none => simp
    | some t =>
      by_cases hty : t = y
      · subst hty
        have := hnt t (by rw [hc]; exact hf)
        simp [this]
      · simp [hty]
  · simp [hc]

/-- a head whose column continues with the tail `t`: `t` becomes pending -/
theorem pend_shift_joined (B : List Note) (n : Note) (R : List Note) (hn : n ∉ R) (hh : isHead n.ntype = true)
    (t : Note) (hf : R.find? (·.column = n.column) = some t) (ht : t.ntype = cTAIL) :
    pend (n :: B) R = R.filter fun y => pendP B (n :: R) y || y == t := by
  unfold pend
  apply List.filter_congr
  intro y hy
  have hne : y ≠ n := fun e => hn (e ▸ hy)
  simp only [pendP, tailFirst_cons_of_ne R hne, headOpen_cons]
  by_cases hc : n.column = y.column
  · simp only [hc, if_true, Bool.false_and, Bool.false_or, hh, Bool.and_true]
    unfold tailFirst
    rw [← hc, hf]
    by_cases hty : y = t
    · subst hty; simp [ht]
    · have h1 : (some t == some y) = false :=
        beq_eq_false_iff_ne.mpr (fun e => hty (Option.some.inj e).symm)
      have h2 : (y == t) = false := beq_eq_false_iff_ne.mpr hty
      rw [h1, h2]; simp
  · have hyt : ¬ y = t := by
      intro e
      subst e
      have := List.find?_some hf
      simp at this
      exact hc this.symm
    simp [hc, hyt]

end Simfile.Ungroup
