/-
Helper definitions and lemmas for C19 (Simfile.Model.Dir: extension matching, directory scan, pack scan).
-/
import Simfile.Model.Dir
namespace Simfile
namespace DirL

/-- the lower-cased name ends in ".sm" -/
def isSm (item : Str) : Bool := endsWith (lower item) extSM
/-- the lower-cased name ends in ".ssc" -/
def isSsc (item : Str) : Bool := endsWith (lower item) extSSC

theorem simfileExts_eq : T.simfileExts = [extSSC, extSM] := rfl

/-- no string ends with both ".sm" and ".ssc" -/
theorem not_sm_of_ssc (s : Str) (h : endsWith s extSSC = true) : endsWith s extSM = false := by
  unfold endsWith at *
  have e1 : extSSC.reverse = ['c', 's', 's', '.'] := rfl
  have e2 : extSM.reverse = ['m', 's', '.'] := rfl
  rw [e1] at h
  rw [e2]
  generalize s.reverse = r at *
  cases r with
  | nil => simp [List.isPrefixOf] at h
  | cons a r =>
    simp only [List.isPrefixOf, Bool.and_eq_true, beq_iff_eq] at h
    have ha : a = 'c' := h.1.symm
    subst ha
    simp [List.isPrefixOf]

theorem isSm_false_of_isSsc {item : Str} (h : isSsc item = true) : isSm item = false :=
  not_sm_of_ssc _ h

theorem isSsc_false_of_isSm {item : Str} (h : isSm item = true) : isSsc item = false := by
  cases h2 : isSsc item with
  | false => rfl
  | true => rw [isSm_false_of_isSsc h2] at h; cases h

theorem find2 {α} (p : α → Bool) (a b : α) :
    [a, b].find? p = if p a then some a else if p b then some b else none := by
  simp only [List.find?_cons, List.find?_nil]
  cases p a <;> cases p b <;> rfl

theorem extMatch_simfile (item : Str) :
    extMatch item T.simfileExts =
      if isSsc item then some extSSC else if isSm item then some extSM else none := by
  unfold extMatch
  rw [simfileExts_eq]
  rw [find2]
  rfl

theorem extMatch_eq_sm_iff (item : Str) : extMatch item T.simfileExts = some extSM ↔ isSm item = true := by
  rw [extMatch_simfile]
  cases h1 : isSsc item with
  | true =>
    rw [isSm_false_of_isSsc h1]
    simp only [if_true]
    constructor
    · intro h; exact absurd h (by decide)
    · intro h; cases h
  | false =>
    cases isSm item <;> simp

theorem extMatch_eq_ssc_iff (item : Str) : extMatch item T.simfileExts = some extSSC ↔ isSsc item = true := by
  rw [extMatch_simfile]
  cases h1 : isSsc item with
  | true => simp
  | false =>
    cases isSm item
    · simp
    · simp only [Bool.false_eq_true, if_false, if_true]
      constructor
      · intro h; exact absurd h (by decide)
      · intro h; cases h

theorem extMatch_isSome_iff (item : Str) :
    (extMatch item T.simfileExts).isSome = (isSsc item || isSm item) := by
  rw [extMatch_simfile]
  cases isSsc item <;> cases isSm item <;> rfl

/-! ### the directory scan -/

/-- one step of the scan (the body of the fold in `scanDir`) -/
def step (ignoreDup : Bool) (sd : SimDir) (item : Str) : Except DErr SimDir :=
  match extMatch item T.simfileExts with
  | none => pure sd
  | some m =>
    if m = extSM then
      (match sd.sm with
       | some _ => if ignoreDup then pure sd else .error .duplicate
       | none => pure { sd with sm := some item })
    else if m = extSSC then
      (match sd.ssc with
       | some _ => if ignoreDup then pure sd else .error .duplicate
       | none => pure { sd with ssc := some item })
    else pure sd

theorem scanDir_eq (listing : List Str) (ign : Bool) :
    scanDir listing ign = listing.foldlM (step ign) { sm := none, ssc := none } := rfl

theorem step_ssc {item : Str} (h : isSsc item = true) (ign : Bool) (sd : SimDir) :
    step ign sd item =
      match sd.ssc with
      | some _ => if ign then .ok sd else .error .duplicate
      | none => .ok { sd with ssc := some item } := by
  unfold step
  rw [extMatch_simfile, h]
  simp only [if_true]
  have : ¬ (extSSC = extSM) := by decide
  simp only [this, if_false]
  rfl

theorem step_sm {item : Str} (h : isSm item = true) (ign : Bool) (sd : SimDir) :
    step ign sd item =
      match sd.sm with
      | some _ => if ign then .ok sd else .error .duplicate
      | none => .ok { sd with sm := some item } := by
  unfold step
  rw [extMatch_simfile, isSsc_false_of_isSm h, h]
  simp only [Bool.false_eq_true, if_false, if_true]
  rfl

theorem step_other {item : Str} (h1 : isSsc item = false) (h2 : isSm item = false) (ign : Bool) (sd : SimDir) :
    step ign sd item = .ok sd := by
  unfold step
  rw [extMatch_simfile, h1, h2]
  rfl

/-- how many entries of a kind have been seen: the one recorded plus those still in the listing -/
def seen (cur : Option Str) (p : Str → Bool) (listing : List Str) : Nat :=
  cur.toList.length + (listing.filter p).length

theorem foldlM_cons_except {α β ε} (f : β → α → Except ε β) (b : β) (a : α) (l : List α) :
    (a :: l).foldlM f b = (match f b a with | .ok b' => l.foldlM f b' | .error e => .error e) := by
  rw [List.foldlM_cons]
  cases f b a <;> rfl

/-- the fold, from any intermediate state -/
theorem fold_step (ign : Bool) (listing : List Str) :
    ∀ sd : SimDir, listing.foldlM (step ign) sd =
      if ign = false ∧ (2 ≤ seen sd.sm isSm listing ∨ 2 ≤ seen sd.ssc isSsc listing) then .error .duplicate
      else .ok { sm := sd.sm.or (listing.find? isSm), ssc := sd.ssc.or (listing.find? isSsc) } := by
  induction listing with
  | nil =>
    intro sd
    have h1 : seen sd.sm isSm [] ≤ 1 := by cases sd.sm <;> simp [seen]
    have h2 : seen sd.ssc isSsc [] ≤ 1 := by cases sd.ssc <;> simp [seen]
    have : ¬ (ign = false ∧ (2 ≤ seen sd.sm isSm [] ∨ 2 ≤ seen sd.ssc isSsc [])) := by omega
    rw [if_neg this]
    simp only [List.foldlM_nil, List.find?_nil, Option.or_none]
    rfl
  | cons item rest ih =>
    intro sd
    obtain ⟨sm, ssc⟩ := sd
    rw [foldlM_cons_except]
    cases h1 : isSsc item with
    | true =>
      have h2 := isSm_false_of_isSsc h1
      rw [step_ssc h1]
      cases ssc with
      | some x =>
        cases ign with
        | true => simp only [if_true]; rw [ih]; simp [h1, h2]
        | false =>
          simp only [Bool.false_eq_true, if_false]
          rw [if_pos]
          refine ⟨by simp, Or.inr ?_⟩
          simp only [seen, List.filter_cons, h1, if_true, Option.toList_some, List.length_cons, List.length_nil]
          omega
      | none =>
        simp only
        rw [ih]
        simp only [seen, List.filter_cons, h1, h2, List.find?_cons, if_true, Bool.false_eq_true, if_false,
          Option.toList_none, Option.toList_some, List.length_cons, List.length_nil, Option.none_or, Option.some_or]
        have e : ∀ n : Nat, 0 + 1 + n = 0 + (n + 1) := by omega
        simp only [e]
    | false =>
      cases h2 : isSm item with
      | true =>
        rw [step_sm h2]
        cases sm with
        | some x =>
          cases ign with
          | true => simp only [if_true]; rw [ih]; simp [h1, h2]
          | false =>
            simp only [Bool.false_eq_true, if_false]
            rw [if_pos]
            refine ⟨by simp, Or.inl ?_⟩
            simp only [seen, List.filter_cons, h2, if_true, Option.toList_some, List.length_cons, List.length_nil]
            omega
        | none =>
          simp only
          rw [ih]
          simp only [seen, List.filter_cons, h1, h2, List.find?_cons, if_true, Bool.false_eq_true, if_false,
            Option.toList_none, Option.toList_some, List.length_cons, List.length_nil, Option.none_or, Option.some_or]
          have e : ∀ n : Nat, 0 + 1 + n = 0 + (n + 1) := by omega
          simp only [e]
      | false =>
        rw [step_other h1 h2]
        simp only
        rw [ih]
        simp only [seen, List.filter_cons, h1, h2, List.find?_cons, Bool.false_eq_true, if_false]
        congr

theorem scanDir_char (listing : List Str) (ign : Bool) :
    scanDir listing ign =
      if ign = false ∧ (2 ≤ (listing.filter isSm).length ∨ 2 ≤ (listing.filter isSsc).length)
      then .error .duplicate
      else .ok { sm := listing.find? isSm, ssc := listing.find? isSsc } := by
  rw [scanDir_eq, fold_step]
  simp [seen]

end DirL
end Simfile
