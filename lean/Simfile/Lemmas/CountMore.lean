/-
NEW MODEL DEFINITIONS (round 2), mirroring the wrappers of /repo/simfile/notes/count.py that the frozen
model (Simfile/Model/Group.lean) only mentions in a comment: `count_jumps`, `count_hands`,
`count_holds`, `count_rolls`.

STATUS: these four definitions are transcriptions of the Python wrappers; they have NOT yet been tied
to the implementation by differential testing (the harness calls the Python wrappers and compares with
`countSteps … 2/3` and `countHoldsOrRolls … cHOLD/cROLL` directly). They still need that tie.

Python signatures:
  count_jumps(notes, *, include_note_types=DEFAULT_NOTE_TYPES, same_beat_notes=JOIN_ALL)
      = count_steps(..., same_beat_minimum=2)                 -- the minimum is NOT a parameter
  count_hands(notes, *, include_note_types=DEFAULT_NOTE_TYPES, same_beat_notes=JOIN_ALL, same_beat_minimum=3)
      = count_steps(..., same_beat_minimum=same_beat_minimum) -- the minimum IS a parameter, default 3
  count_holds(notes, *, orphaned_head=RAISE, orphaned_tail=RAISE) = _count_holds_or_rolls(notes, HOLD_HEAD, ...)
  count_rolls(notes, *, orphaned_head=RAISE, orphaned_tail=RAISE) = _count_holds_or_rolls(notes, ROLL_HEAD, ...)
`same_beat_minimum` is a Python int; a value ≤ 0 counts every group, which is what minimum 0 does here.
-/
import Simfile.Model.Group
namespace Simfile.CountMore
open Simfile

/-- `count_jumps` (new model definition, differential tie pending) -/
def countJumps (notes : List Note) (incl : List Char := defaultNoteTypes) (mode : SameBeat := .joinAll) :
    Except GErr Nat :=
  countSteps notes incl mode 2

/-- `count_hands` (new model definition, differential tie pending) -/
def countHands (notes : List Note) (incl : List Char := defaultNoteTypes) (mode : SameBeat := .joinAll)
    (minimum : Nat := 3) : Except GErr Nat :=
  countSteps notes incl mode minimum

/-- `count_holds` (new model definition, differential tie pending) -/
def countHolds (notes : List Note) (oh : Orphan := .raise) (ot : Orphan := .raise) : Except GErr Nat :=
  countHoldsOrRolls notes cHOLD oh ot

/-- `count_rolls` (new model definition, differential tie pending) -/
def countRolls (notes : List Note) (oh : Orphan := .raise) (ot : Orphan := .raise) : Except GErr Nat :=
  countHoldsOrRolls notes cROLL oh ot

end Simfile.CountMore
