/-
A syntactic reading of one line: tokens `ch` or `ch[digits]`. `tokenize` is a recogniser on raw text
(no reference to the decoder); `extract_toks` shows that `extractKeysounds` reads a tokenised line as
its token characters and keysounds. Rows may be ragged, '0' cells may carry a keysound, the digits
may have leading zeros.
-/
import Simfile.Lemmas.NotesAny
namespace Simfile
namespace Any
open Simfile

structure Tok where
  ch : Char
  /-- the text between the brackets, if the cell has a keysound -/
  ks : Option Str := none
deriving Repr, DecidableEq

def ksStr : Option Str → Str
  | some ds => '[' :: ds ++ [']']
  | none => []

def tokStr (tok : Tok) : Str := tok.ch :: ksStr tok.ks

def tokText (toks : List Tok) : Str := (toks.map tokStr).flatten

/-- the keysound index of a token -/
def tokKs (tok : Tok) : Option Nat := tok.ks.bind parseNat

/-- digits up to the closing bracket: `(digits, text after ']')` -/
def readKs : Str → Option (Str × Str)
  | [] => none
  | c :: cs =>
    if c = ']' then some ([], cs)
    else if c.isDigit then (readKs cs).map (fun x => (c :: x.1, x.2))
    else none

/-- an optional `[digits]` at the start of `rest`: `(digits?, text after it)` -/
def readTail (rest : Str) : Option (Option Str × Str) :=
  match rest with
  | [] => some (none, [])
  | d :: rest' =>
    if d = '[' then
      match readKs rest' with
      | some (ds, r) => if (parseNat ds).isSome then some (some ds, r) else none
      | none => none
    else some (none, d :: rest')

/-- tokenizer; `fuel` bounds the number of tokens -/
def tokenizeF : Nat → Str → Option (List Tok)
  | _, [] => some []
  | 0, _ :: _ => none
  | f + 1, ch :: rest =>
    if ch = '[' ∨ ch = ']' then none
    else match readTail rest with
      | some (ks, r) => (tokenizeF f r).map (fun ts => ⟨ch, ks⟩ :: ts)
      | none => none

def tokenize (s : Str) : Option (List Tok) := tokenizeF s.length s

structure TokOK (tok : Tok) : Prop where
  ch_ne : tok.ch ≠ '[' ∧ tok.ch ≠ ']'
  digits : ∀ ds, tok.ks = some ds → (∀ x ∈ ds, x ≠ '[' ∧ x ≠ ']') ∧ ∃ k, parseNat ds = some k

theorem readKs_spec : ∀ (s ds r : Str), readKs s = some (ds, r) →
    s = ds ++ ']' :: r ∧ ∀ x ∈ ds, x ≠ '[' ∧ x ≠ ']' := by
  intro s
  induction s with
  | nil => intro ds r h; simp [readKs] at h
  | cons c cs ih =>
    intro ds r h
    rw [readKs] at h
    split at h
    · rename_i hc
      simp only [Option.some.injEq, Prod.mk.injEq] at h
      obtain ⟨rfl, rfl⟩ := h
      subst hc
      exact ⟨rfl, by simp⟩
    · split at h
      · rename_i hd
        cases hr : readKs cs with
        | none => rw [hr] at h; simp at h
        | some x =>
          obtain ⟨d', r'⟩ := x
          rw [hr] at h
          simp only [Option.map_some, Option.some.injEq, Prod.mk.injEq] at h
          obtain ⟨rfl, rfl⟩ := h
          obtain ⟨e, hd'⟩ := ih d' r' hr
          refine ⟨by rw [e]; rfl, ?_⟩
          intro x hx
          rcases List.mem_cons.mp hx with rfl | hx
          · have := digit_props hd; exact ⟨this.2.2.1, this.2.2.2.1⟩
          · exact hd' x hx
      · cases h

theorem readTail_spec (rest : Str) (ks : Option Str) (r : Str) (h : readTail rest = some (ks, r)) :
    rest = ksStr ks ++ r ∧
      ∀ ds, ks = some ds → (∀ x ∈ ds, x ≠ '[' ∧ x ≠ ']') ∧ ∃ k, parseNat ds = some k := by
  unfold readTail at h
  cases rest with
  | nil =>
    simp only [Option.some.injEq, Prod.mk.injEq] at h
    obtain ⟨rfl, rfl⟩ := h
    exact ⟨rfl, by intro ds h'; cases h'⟩
  | cons d rest' =>
    simp only at h
    by_cases hd : d = '['
    · rw [if_pos hd] at h
      cases hr : readKs rest' with
      | none => rw [hr] at h; cases h
      | some x =>
        obtain ⟨ds, r'⟩ := x
        rw [hr] at h
        simp only at h
        obtain ⟨e, hdig⟩ := readKs_spec _ _ _ hr
        by_cases hp : (parseNat ds).isSome = true
        · rw [if_pos hp] at h
          simp only [Option.some.injEq, Prod.mk.injEq] at h
          obtain ⟨rfl, rfl⟩ := h
          refine ⟨by rw [hd, e]; simp [ksStr], ?_⟩
          intro ds' h'
          simp only [Option.some.injEq] at h'
          subst h'
          exact ⟨hdig, Option.isSome_iff_exists.mp hp⟩
        · rw [if_neg hp] at h; cases h
    · rw [if_neg hd] at h
      simp only [Option.some.injEq, Prod.mk.injEq] at h
      obtain ⟨rfl, rfl⟩ := h
      exact ⟨rfl, by intro ds h'; cases h'⟩

theorem tokText_cons (tok : Tok) (toks : List Tok) : tokText (tok :: toks) = tokStr tok ++ tokText toks := rfl

theorem tokenizeF_spec : ∀ (f : Nat) (s : Str) (toks : List Tok), tokenizeF f s = some toks →
    s = tokText toks ∧ ∀ tok ∈ toks, TokOK tok := by
  intro f
  induction f with
  | zero =>
    intro s toks h
    cases s with
    | nil => simp only [tokenizeF, Option.some.injEq] at h; subst h; exact ⟨rfl, by simp⟩
    | cons c r => simp [tokenizeF] at h
  | succ f ih =>
    intro s toks h
    cases s with
    | nil => simp only [tokenizeF, Option.some.injEq] at h; subst h; exact ⟨rfl, by simp⟩
    | cons ch rest =>
      rw [tokenizeF] at h
      by_cases hch : ch = '[' ∨ ch = ']'
      · rw [if_pos hch] at h; cases h
      · rw [if_neg hch] at h
        have hch' : ch ≠ '[' ∧ ch ≠ ']' := by
          constructor <;> (intro e; exact hch (by simp [e]))
        cases hrt : readTail rest with
        | none => rw [hrt] at h; cases h
        | some x =>
          obtain ⟨ks, r⟩ := x
          rw [hrt] at h
          simp only at h
          obtain ⟨e, hdig⟩ := readTail_spec _ _ _ hrt
          cases ht : tokenizeF f r with
          | none => rw [ht] at h; simp at h
          | some ts =>
            rw [ht] at h
            simp only [Option.map_some, Option.some.injEq] at h
            subst h
            obtain ⟨e2, hall⟩ := ih _ _ ht
            refine ⟨?_, ?_⟩
            · rw [tokText_cons, ← e2, e]; rfl
            · intro tok htok
              rcases List.mem_cons.mp htok with rfl | htok
              · exact ⟨hch', hdig⟩
              · exact hall tok htok

theorem tokenize_spec {s : Str} {toks : List Tok} (h : tokenize s = some toks) :
    s = tokText toks ∧ ∀ tok ∈ toks, TokOK tok := tokenizeF_spec _ _ _ h

/-! ### `extractKeysounds` on a tokenised line -/

/-- the keysound list after reading `toks`, whose first column is `off` -/
def applyT (ks : List (Option Nat)) (off : Nat) : List Tok → List (Option Nat)
  | [] => ks
  | tok :: r => applyT (match tok.ks with | some ds => listSet ks off (parseNat ds) | none => ks) (off + 1) r

theorem length_tokText_ge (toks : List Tok) : toks.length ≤ (tokText toks).length := by
  induction toks with
  | nil => simp [tokText]
  | cons c cs ih =>
    rw [tokText_cons]
    simp only [List.length_cons, List.length_append, tokStr]
    omega

theorem extract_toks (rest : List Tok) :
    ∀ (fuel : Nat) (done : Str) (ks : List (Option Nat)),
      rest.length ≤ fuel →
      (∀ c ∈ done, c ≠ '[' ∧ c ≠ ']') →
      (∀ tok ∈ rest, TokOK tok) →
      (∀ j tok, rest[j]? = some tok → tok.ks ≠ none → done.length + j < ks.length) →
      extractKeysounds true fuel (done ++ tokText rest) ks =
        .ok (done ++ rest.map (·.ch), applyT ks done.length rest) := by
  induction rest with
  | nil =>
    intro fuel done ks _ hd _ _
    have hnot : '[' ∉ done := fun h => (hd _ h).1 rfl
    simp only [tokText, List.map_nil, List.flatten_nil, List.append_nil, applyT]
    cases fuel with
    | zero => simp [extractKeysounds, hnot]
    | succ f => simp [extractKeysounds, findIdx_eq_none hnot]
  | cons c cs ih =>
    intro fuel done ks hf hd hr hk
    have hc := (hr c (by simp)).ch_ne
    have hd' : ∀ x ∈ done ++ [c.ch], x ≠ '[' ∧ x ≠ ']' := by
      intro x hx
      rcases List.mem_append.mp hx with hx | hx
      · exact hd x hx
      · simp only [List.mem_singleton] at hx; subst hx; exact hc
    have hr' : ∀ tok ∈ cs, TokOK tok := fun x hx => hr x (by simp [hx])
    have hk' : ∀ (ks' : List (Option Nat)), ks'.length = ks.length →
        ∀ j tok, cs[j]? = some tok → tok.ks ≠ none → (done ++ [c.ch]).length + j < ks'.length := by
      intro ks' hl j tok hj hne
      have := hk (j + 1) tok (by simpa using hj) hne
      simp only [List.length_append, List.length_cons, List.length_nil]
      omega
    cases hks : c.ks with
    | none =>
      have e : done ++ tokText (c :: cs) = (done ++ [c.ch]) ++ tokText cs := by
        simp [tokText_cons, tokStr, ksStr, hks]
      rw [e, ih fuel (done ++ [c.ch]) ks (by simp at hf; omega) hd' hr' (hk' ks rfl)]
      simp [applyT, hks]
    | some ds =>
      obtain ⟨f, rfl⟩ : ∃ f, fuel = f + 1 := ⟨fuel - 1, by simp at hf; omega⟩
      obtain ⟨hdig, k, hparse⟩ := (hr c (by simp)).digits ds hks
      have e : done ++ tokText (c :: cs) =
          (done ++ [c.ch]) ++ '[' :: (ds ++ ']' :: tokText cs) := by
        simp [tokText_cons, tokStr, ksStr, hks]
      have e2 : done ++ tokText (c :: cs) =
          ((done ++ [c.ch]) ++ '[' :: ds) ++ ']' :: tokText cs := by
        simp [tokText_cons, tokStr, ksStr, hks]
      have hi : findIdx '[' (done ++ tokText (c :: cs)) = some (done.length + 1) := by
        rw [e, findIdx_append (fun h => (hd' _ h).1 rfl)]; simp
      have hj : findIdx ']' (done ++ tokText (c :: cs)) = some (done.length + 1 + 1 + ds.length) := by
        rw [e2, findIdx_append]
        · simp; omega
        · intro h
          rcases List.mem_append.mp h with h | h
          · exact (hd' _ h).2 rfl
          · rcases List.mem_cons.mp h with h | h
            · exact absurd h (by decide)
            · exact (hdig _ h).2 rfl
      have hmid : ((done ++ tokText (c :: cs)).drop (done.length + 1 + 1)).take
          (done.length + 1 + 1 + ds.length - (done.length + 1 + 1)) = ds := by
        rw [e]
        have : done.length + 1 + 1 = (done ++ [c.ch] ++ ['[']).length := by simp
        rw [show (done ++ [c.ch]) ++ '[' :: (ds ++ ']' :: tokText cs) =
          (done ++ [c.ch] ++ ['[']) ++ (ds ++ ']' :: tokText cs) by simp]
        rw [this, List.drop_left]
        simp
      have htake : (done ++ tokText (c :: cs)).take (done.length + 1) = done ++ [c.ch] := by
        rw [e]
        have : done.length + 1 = (done ++ [c.ch]).length := by simp
        rw [this, List.take_left]
      have hdrop : (done ++ tokText (c :: cs)).drop (done.length + 1 + 1 + ds.length + 1) =
          tokText cs := by
        rw [e2]
        have : done.length + 1 + 1 + ds.length + 1 =
            ((done ++ [c.ch]) ++ '[' :: ds ++ [']']).length := by simp; omega
        rw [show ((done ++ [c.ch]) ++ '[' :: ds) ++ ']' :: tokText cs =
          ((done ++ [c.ch]) ++ '[' :: ds ++ [']']) ++ tokText cs by simp]
        rw [this, List.drop_left]
      have hlen := hk 0 c (by simp) (by rw [hks]; simp)
      have hrec : (true && decide (ks.length ≤ done.length + 1 - 1)) = false := by
        simp; omega
      rw [extractKeysounds, hi, hj]
      simp only
      rw [if_neg (by omega), hmid, hparse]
      simp only
      rw [if_neg (by simp), hrec]
      simp only [Bool.false_eq_true, if_false]
      rw [htake, hdrop, Nat.add_sub_cancel]
      rw [ih f (done ++ [c.ch]) (listSet ks done.length (some k)) (by simp at hf; omega) hd' hr'
        (hk' _ (listSet_length _ _ _))]
      simp [applyT, hks, hparse]

/-! ### the keysound list -/

theorem listSet_getElem? {α} (l : List α) (i : Nat) (v : α) (c : Nat) :
    (listSet l i v)[c]? = if c = i ∧ i < l.length then some v else l[c]? := by
  induction l generalizing i c with
  | nil => simp [listSet]
  | cons x xs ih =>
    cases i with
    | zero =>
      cases c with
      | zero => simp [listSet]
      | succ c => simp [listSet]
    | succ i =>
      cases c with
      | zero => simp [listSet]
      | succ c => simp [listSet, ih]

theorem applyT_length (ks : List (Option Nat)) (off : Nat) (toks : List Tok) :
    (applyT ks off toks).length = ks.length := by
  induction toks generalizing ks off with
  | nil => rfl
  | cons c cs ih =>
    rw [applyT, ih]
    cases c.ks <;> simp [listSet_length]

/-- what the keysound list holds for column `c`: the keysound of token `c` if it has one -/
theorem applyT_getElem? (toks : List Tok) : ∀ (ks : List (Option Nat)) (off : Nat),
    (∀ j tok, toks[j]? = some tok → tok.ks ≠ none → off + j < ks.length) →
    ∀ c, (applyT ks off toks)[c]? =
      if off ≤ c ∧ (∃ tok, toks[c - off]? = some tok ∧ tok.ks ≠ none) then
        some ((toks[c - off]?).bind tokKs) else ks[c]? := by
  induction toks with
  | nil => intro ks off _ c; simp [applyT]
  | cons t ts ih =>
    intro ks off hk c
    rw [applyT]
    have hk2 : ∀ (ks' : List (Option Nat)), ks'.length = ks.length →
        ∀ j tok, ts[j]? = some tok → tok.ks ≠ none → off + 1 + j < ks'.length := by
      intro ks' hl j tok hj hne
      have := hk (j + 1) tok (by simpa using hj) hne
      omega
    by_cases hc : off + 1 ≤ c
    · have e : c - off = (c - (off + 1)) + 1 := by omega
      have hoff : off ≤ c := by omega
      cases hks : t.ks with
      | none =>
        simp only
        rw [ih ks (off + 1) (hk2 ks rfl) c, e, List.getElem?_cons_succ]
        simp only [hc, hoff, true_and]
      | some ds =>
        simp only
        rw [ih _ (off + 1) (hk2 _ (listSet_length _ _ _)) c, e, List.getElem?_cons_succ,
          listSet_getElem?]
        simp only [hc, hoff, true_and]
        have : ¬ (c = off ∧ off < ks.length) := by omega
        rw [if_neg this]
    · have hno : ¬ (off + 1 ≤ c ∧ ∃ tok, ts[c - (off + 1)]? = some tok ∧ tok.ks ≠ none) := fun h => hc h.1
      cases hks : t.ks with
      | none =>
        simp only
        rw [ih ks (off + 1) (hk2 ks rfl) c, if_neg hno]
        by_cases hoc : off ≤ c
        · have : c = off := by omega
          subst this
          simp [hks]
        · rw [if_neg (fun h => hoc h.1)]
      | some ds =>
        simp only
        rw [ih _ (off + 1) (hk2 _ (listSet_length _ _ _)) c, if_neg hno, listSet_getElem?]
        by_cases hoc : off ≤ c
        · have : c = off := by omega
          subst this
          have hlen := hk 0 t (by simp) (by rw [hks]; simp)
          have hlen' : c < ks.length := by omega
          simp [hks, tokKs, hlen']
        · have : ¬ (c = off ∧ off < ks.length) := by omega
          rw [if_neg this, if_neg (fun h => hoc h.1)]

/-! ### the tokenizer recognises every sequence of cells (completeness) -/

theorem readKs_complete (ds r : Str) (h : ∀ x ∈ ds, x.isDigit = true) :
    readKs (ds ++ ']' :: r) = some (ds, r) := by
  induction ds with
  | nil => simp [readKs]
  | cons d ds ih =>
    have hd : d.isDigit = true := h d (by simp)
    have hne : d ≠ ']' := (digit_props hd).2.2.2.1
    rw [List.cons_append, readKs, if_neg hne, if_pos hd, ih (fun x hx => h x (by simp [hx]))]
    rfl

/-- a cell as the tokenizer accepts it -/
def TokIn (tok : Tok) : Prop :=
  tok.ch ≠ '[' ∧ tok.ch ≠ ']' ∧ ∀ ds, tok.ks = some ds → (∀ x ∈ ds, x.isDigit = true) ∧ (parseNat ds).isSome = true

theorem readTail_complete (ks : Option Str) (rest : List Tok)
    (hks : ∀ ds, ks = some ds → (∀ x ∈ ds, x.isDigit = true) ∧ (parseNat ds).isSome = true)
    (hrest : ∀ tok ∈ rest, TokIn tok) :
    readTail (ksStr ks ++ tokText rest) = some (ks, tokText rest) := by
  cases ks with
  | none =>
    simp only [ksStr, List.nil_append]
    cases rest with
    | nil => rfl
    | cons t2 r2 =>
      have := (hrest t2 (by simp)).1
      rw [tokText_cons]
      simp only [tokStr, List.cons_append]
      unfold readTail
      simp only
      rw [if_neg this]
  | some ds =>
    obtain ⟨h1, h2⟩ := hks ds rfl
    have e : ksStr (some ds) ++ tokText rest = '[' :: (ds ++ ']' :: tokText rest) := by simp [ksStr]
    rw [e]
    unfold readTail
    simp only
    rw [if_pos trivial, readKs_complete ds _ h1]
    simp only
    rw [if_pos h2]

theorem tokenizeF_complete (toks : List Tok) : ∀ f, toks.length ≤ f → (∀ tok ∈ toks, TokIn tok) →
    tokenizeF f (tokText toks) = some toks := by
  induction toks with
  | nil => intro f _ _; cases f <;> rfl
  | cons tok rest ih =>
    intro f hf hall
    obtain ⟨f', rfl⟩ : ∃ f', f = f' + 1 := ⟨f - 1, by simp at hf; omega⟩
    obtain ⟨h1, h2, h3⟩ := hall tok (by simp)
    have hrest : ∀ t ∈ rest, TokIn t := fun t ht => hall t (by simp [ht])
    rw [tokText_cons]
    simp only [tokStr, List.cons_append]
    rw [tokenizeF, if_neg (by simp [h1, h2]), readTail_complete tok.ks rest h3 hrest]
    simp only
    rw [ih f' (by simp at hf; omega) hrest]
    rfl

theorem tokenize_complete (toks : List Tok) (h : ∀ tok ∈ toks, TokIn tok) :
    tokenize (tokText toks) = some toks :=
  tokenizeF_complete toks _ (length_tokText_ge toks) h

theorem readKs_digits : ∀ (s ds r : Str), readKs s = some (ds, r) → ∀ x ∈ ds, x.isDigit = true := by
  intro s
  induction s with
  | nil => intro ds r h; simp [readKs] at h
  | cons c cs ih =>
    intro ds r h
    rw [readKs] at h
    by_cases hc : c = ']'
    · rw [if_pos hc] at h
      simp only [Option.some.injEq, Prod.mk.injEq] at h
      obtain ⟨rfl, _⟩ := h
      simp
    · rw [if_neg hc] at h
      by_cases hd : c.isDigit = true
      · rw [if_pos hd] at h
        cases hr : readKs cs with
        | none => rw [hr] at h; simp at h
        | some x =>
          rw [hr] at h
          simp only [Option.map_some, Option.some.injEq, Prod.mk.injEq] at h
          obtain ⟨rfl, _⟩ := h
          intro y hy
          rcases List.mem_cons.mp hy with rfl | hy
          · exact hd
          · exact ih x.1 x.2 hr y hy
      · rw [if_neg hd] at h; cases h

theorem readTail_in (rest : Str) (ks : Option Str) (r : Str) (h : readTail rest = some (ks, r)) :
    ∀ ds, ks = some ds → (∀ x ∈ ds, x.isDigit = true) ∧ (parseNat ds).isSome = true := by
  unfold readTail at h
  cases rest with
  | nil =>
    simp only [Option.some.injEq, Prod.mk.injEq] at h
    obtain ⟨rfl, _⟩ := h
    intro ds h'; cases h'
  | cons d rest' =>
    simp only at h
    by_cases hd : d = '['
    · rw [if_pos hd] at h
      cases hr : readKs rest' with
      | none => rw [hr] at h; cases h
      | some x =>
        rw [hr] at h
        simp only at h
        by_cases hp : (parseNat x.1).isSome = true
        · rw [if_pos hp] at h
          simp only [Option.some.injEq, Prod.mk.injEq] at h
          obtain ⟨rfl, _⟩ := h
          intro ds h'
          simp only [Option.some.injEq] at h'
          subst h'
          exact ⟨readKs_digits _ _ _ hr, hp⟩
        · rw [if_neg hp] at h; cases h
    · rw [if_neg hd] at h
      simp only [Option.some.injEq, Prod.mk.injEq] at h
      obtain ⟨rfl, _⟩ := h
      intro ds h'; cases h'

theorem tokenizeF_in : ∀ (f : Nat) (s : Str) (toks : List Tok), tokenizeF f s = some toks →
    ∀ tok ∈ toks, TokIn tok := by
  intro f
  induction f with
  | zero =>
    intro s toks h
    cases s with
    | nil => simp only [tokenizeF, Option.some.injEq] at h; subst h; simp
    | cons c r => simp [tokenizeF] at h
  | succ f ih =>
    intro s toks h
    cases s with
    | nil => simp only [tokenizeF, Option.some.injEq] at h; subst h; simp
    | cons ch rest =>
      rw [tokenizeF] at h
      by_cases hch : ch = '[' ∨ ch = ']'
      · rw [if_pos hch] at h; cases h
      · rw [if_neg hch] at h
        cases hrt : readTail rest with
        | none => rw [hrt] at h; cases h
        | some x =>
          obtain ⟨ks, r⟩ := x
          rw [hrt] at h
          simp only at h
          cases ht : tokenizeF f r with
          | none => rw [ht] at h; simp at h
          | some ts =>
            rw [ht] at h
            simp only [Option.map_some, Option.some.injEq] at h
            subst h
            intro tok htok
            rcases List.mem_cons.mp htok with rfl | htok
            · exact ⟨fun e => hch (Or.inl e), fun e => hch (Or.inr e), readTail_in _ _ _ hrt⟩
            · exact ih _ _ ht tok htok

/-- **unique readability**: `tokenize s = some toks` iff `s` is the cells `toks` written one after the other -/
theorem tokenize_iff (s : Str) (toks : List Tok) :
    tokenize s = some toks ↔ s = tokText toks ∧ ∀ tok ∈ toks, TokIn tok :=
  ⟨fun h => ⟨(tokenize_spec h).1, tokenizeF_in _ _ _ h⟩, fun ⟨e, h⟩ => e ▸ tokenize_complete toks h⟩

end Any
end Simfile
