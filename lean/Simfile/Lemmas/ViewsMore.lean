/-
Lemmas about the extended view alphabet (`VOpX`, `vstepX`, `vrunX`): dictionary facts for `move_to_end`,
`setdefault`, `clear`, and the invariants that hold for every class (C18, second round).
-/
import Simfile.Lemmas.Views
namespace Simfile.VX
open Simfile Simfile.O Simfile.V

/-! ### dictionary facts -/

/-- what `move_to_end(key, last)` makes of a mapping in which `key` holds `v` -/
def move (d : Dict) (key : Str) (v : Option Str) (last : Bool) : Dict :=
  if last then d.erase key ++ [(key, v)] else (key, v) :: d.erase key

theorem get?_append (d1 d2 : Dict) (k : Str) : Dict.get? (d1 ++ d2) k = (d1.get? k).or (d2.get? k) := by
  unfold Dict.get?; exact List.lookup_append

theorem erase_cons_self (k : Str) (v : Option Str) (d : Dict) : Dict.erase ((k, v) :: d) k = d.erase k := by
  unfold Dict.erase; rw [List.filter_cons]; simp

theorem erase_cons_ne (k k' : Str) (v : Option Str) (d : Dict) (h : k' ≠ k) :
    Dict.erase ((k', v) :: d) k = (k', v) :: d.erase k := by
  unfold Dict.erase; rw [List.filter_cons]; simp [h]

/-- a mapping with unique keys is its item under `key` followed by everything else, up to order -/
theorem perm_cons_erase (d : Dict) (key : Str) (v : Option Str) (hw : Dict.WF d) (hg : d.get? key = some v) :
    List.Perm d ((key, v) :: d.erase key) := by
  induction d with
  | nil => cases hg
  | cons kv d ih =>
    obtain ⟨k₁, v₁⟩ := kv
    unfold Dict.WF at hw
    rw [keys_cons, List.nodup_cons] at hw
    by_cases e : key = k₁
    · subst e
      rw [get?_cons_self] at hg
      cases hg
      rw [erase_cons_self, erase_of_not_mem _ _ hw.1]
    · rw [get?_cons_ne _ _ _ _ e] at hg
      rw [erase_cons_ne _ _ _ _ (fun c => e c.symm)]
      exact ((ih hw.2 hg).cons _).trans (List.Perm.swap _ _ _)

theorem move_perm (d : Dict) (key : Str) (v : Option Str) (last : Bool) (hw : Dict.WF d)
    (hg : d.get? key = some v) : List.Perm (move d key v last) d := by
  unfold move
  cases last with
  | true =>
    simp only [if_true]
    exact (List.perm_append_comm.trans (by simp)).trans (perm_cons_erase d key v hw hg).symm
  | false =>
    simp only [Bool.false_eq_true, if_false]
    exact (perm_cons_erase d key v hw hg).symm

theorem keys_perm {d1 d2 : Dict} (h : List.Perm d1 d2) : List.Perm (Dict.keys d1) (Dict.keys d2) := h.map _

theorem WF_perm {d1 d2 : Dict} (h : List.Perm d1 d2) (hw : Dict.WF d2) : Dict.WF d1 := by
  unfold Dict.WF at *
  exact (keys_perm h).nodup_iff.mpr hw

theorem WF_move (d : Dict) (key : Str) (v : Option Str) (last : Bool) (hw : Dict.WF d)
    (hg : d.get? key = some v) : Dict.WF (move d key v last) :=
  WF_perm (move_perm d key v last hw hg) hw

/-- moving a key changes no lookup (no uniqueness needed) -/
theorem get?_move (d : Dict) (key : Str) (v : Option Str) (last : Bool) (hg : d.get? key = some v) (k' : Str) :
    (move d key v last).get? k' = d.get? k' := by
  unfold move
  by_cases e : k' = key
  · subst e
    cases last with
    | true => simp only [if_true]; rw [get?_append, get?_erase_self, get?_cons_self, hg]; rfl
    | false => simp only [Bool.false_eq_true, if_false]; rw [get?_cons_self, hg]
  · cases last with
    | true =>
      simp only [if_true]
      rw [get?_append_ne _ _ _ _ e, get?_erase_ne _ _ _ e]
    | false =>
      simp only [Bool.false_eq_true, if_false]
      rw [get?_cons_ne _ _ _ _ e, get?_erase_ne _ _ _ e]

theorem keys_move (d : Dict) (key : Str) (v : Option Str) (last : Bool) :
    Dict.keys (move d key v last) =
      if last then (Dict.keys d).filter (fun x => x ≠ key) ++ [key]
      else key :: (Dict.keys d).filter (fun x => x ≠ key) := by
  unfold move
  cases last with
  | true => simp only [if_true]; rw [keys_append, keys_erase]; rfl
  | false => simp only [Bool.false_eq_true, if_false]; rw [keys_cons, keys_erase]

/-- two mappings with the same items (in any order) and unique keys answer every lookup alike -/
theorem get?_perm {d1 d2 : Dict} (h : List.Perm d1 d2) (hw : Dict.WF d2) (k : Str) : d1.get? k = d2.get? k := by
  have hw1 := WF_perm h hw
  cases h1 : d1.get? k with
  | none =>
    have : k ∉ Dict.keys d2 := fun hm => (get?_eq_none_iff d1 k).mp h1 ((keys_perm h).mem_iff.mpr hm)
    exact ((get?_eq_none_iff d2 k).mpr this).symm
  | some v =>
    exact (get?_of_mem_WF d2 k v hw (h.mem_iff.mp (mem_of_get? d1 k v h1))).symm

theorem contains_true_get? (d : Dict) (k : Str) (h : d.contains k = true) : ∃ v, d.get? k = some v := by
  rw [contains_eq] at h
  cases hg : d.get? k with
  | none => rw [hg] at h; cases h
  | some v => exact ⟨v, rfl⟩

/-! ### `vstepX`, one equation per extra operation -/

theorem vstepX_base (k : Kind) (d : Dict) (op : VOp) : vstepX k d (.base op) = vstep k d op := rfl
theorem vstepX_clear (k : Kind) (d : Dict) :
    vstepX k d .clear = if k = .smChart then (d, .notImplemented) else ([], .done) := rfl
theorem vstepX_setDefault (k : Kind) (d : Dict) (key v : Str) :
    vstepX k d (.setDefault key v) =
      if d.contains key then
        (if k = .smChart then
          (if T.smChartProperties.contains key then (d, .value (attrGet .smChart d (lower key))) else (d, .keyError))
         else (d, .value ((d.get? key).getD none)))
      else if k = .smChart && !T.smChartProperties.contains key then (d, .keyError)
      else (d.set key (some v), .value (some v)) := rfl
theorem vstepX_moveToEnd (k : Kind) (d : Dict) (key : Str) (last : Bool) :
    vstepX k d (.moveToEnd key last) = match d.get? key with
      | none => (d, .keyError)
      | some v => (move d key v last, .done) := rfl

theorem vstepX_moveToEnd_some (k : Kind) (d : Dict) (key : Str) (last : Bool) (v : Option Str)
    (h : d.get? key = some v) : vstepX k d (.moveToEnd key last) = (move d key v last, .done) := by
  rw [vstepX_moveToEnd, h]

theorem vstepX_moveToEnd_none (k : Kind) (d : Dict) (key : Str) (last : Bool)
    (h : d.get? key = none) : vstepX k d (.moveToEnd key last) = (d, .keyError) := by
  rw [vstepX_moveToEnd, h]

theorem vrunX_nil (k : Kind) (d : Dict) : vrunX k d [] = (d, []) := rfl

theorem vrunX_cons (k : Kind) (d : Dict) (op : VOpX) (ops : List VOpX) :
    vrunX k d (op :: ops) =
      ((vrunX k (vstepX k d op).1 ops).1, (vstepX k d op).2 :: (vrunX k (vstepX k d op).1 ops).2) := rfl

theorem vrunX_append_fst (k : Kind) (d : Dict) (l1 l2 : List VOpX) :
    (vrunX k d (l1 ++ l2)).1 = (vrunX k (vrunX k d l1).1 l2).1 := by
  induction l1 generalizing d with
  | nil => rfl
  | cons op l1 ih => rw [List.cons_append, vrunX_cons, vrunX_cons]; exact ih _

/-- the basic alphabet is the `base` part of the extended one -/
theorem vrun_eq_vrunX (k : Kind) (d : Dict) (ops : List VOp) : vrun k d ops = vrunX k d (ops.map .base) := by
  induction ops generalizing d with
  | nil => rfl
  | cons op ops ih => rw [vrun_cons, List.map_cons, vrunX_cons, vstepX_base, ih]

theorem vrun_append_fst (k : Kind) (d : Dict) (l1 l2 : List VOp) :
    (vrun k d (l1 ++ l2)).1 = (vrun k (vrun k d l1).1 l2).1 := by
  rw [vrun_eq_vrunX, List.map_append, vrunX_append_fst, ← vrun_eq_vrunX, ← vrun_eq_vrunX]

/-! ### what one extended step can do to the mapping, for every class -/

/-- the three extra operations: nothing, everything removed, a new key appended, or one key moved -/
theorem vstepX_dict (k : Kind) (d : Dict) (op : VOpX) :
    (∃ b, op = .base b) ∨ (vstepX k d op).1 = d ∨ (op = .clear ∧ k ≠ .smChart ∧ (vstepX k d op).1 = []) ∨
    (∃ key v, op = .setDefault key v ∧ d.contains key = false ∧ (vstepX k d op).1 = d.set key (some v)) ∨
    (∃ key last v, op = .moveToEnd key last ∧ d.get? key = some v ∧ (vstepX k d op).1 = move d key v last) := by
  cases op with
  | base b => exact Or.inl ⟨b, rfl⟩
  | clear =>
    rw [vstepX_clear]
    by_cases hk : k = .smChart
    · right; left; rw [if_pos hk]
    · right; right; left; rw [if_neg hk]; exact ⟨rfl, hk, rfl⟩
  | setDefault key v =>
    rw [vstepX_setDefault]
    by_cases hc : d.contains key = true
    · right; left
      rw [if_pos hc]
      split
      · split <;> rfl
      · rfl
    · rw [if_neg hc]
      split
      · right; left; rfl
      · right; right; right; left
        exact ⟨key, v, rfl, by simpa using hc, rfl⟩
  | moveToEnd key last =>
    cases hg : d.get? key with
    | none => right; left; rw [vstepX_moveToEnd_none k d key last hg]
    | some v =>
      right; right; right; right
      exact ⟨key, last, v, rfl, hg, by rw [vstepX_moveToEnd_some k d key last v hg]⟩

theorem vstepX_WF (k : Kind) (d : Dict) (op : VOpX) (h : Dict.WF d) : Dict.WF (vstepX k d op).1 := by
  rcases vstepX_dict k d op with ⟨b, rfl⟩ | e | ⟨_, _, e⟩ | ⟨key, v, _, _, e⟩ | ⟨key, last, v, _, hg, e⟩
  · exact vstep_WF k d b h
  · rw [e]; exact h
  · rw [e]; exact WF_nil
  · rw [e]; exact WF_set _ _ _ h
  · rw [e]; exact WF_move d key v last h hg

theorem vrunX_WF (k : Kind) (d : Dict) (ops : List VOpX) (h : Dict.WF d) : Dict.WF (vrunX k d ops).1 := by
  induction ops generalizing d with
  | nil => exact h
  | cons op ops ih => rw [vrunX_cons]; exact ih _ (vstepX_WF k d op h)

end Simfile.VX
