/-
C11 helper: the state invariant and the step lemma (from a state to any later key with no event
strictly in between).
-/
import Simfile.Lemmas.EngineStates
namespace Simfile
open C11

/-- the invariant of appendix A.2 for one state -/
structure StInv (td : TimingData) (s : TState) : Prop where
  time : s.time = Spec.timeSpec td s.beat s.tag
  bpm : s.bpm = bpmBefore td (skey s)
  warp : s.warp = true ↔ warpBefore td (skey s)
  nonneg : 0 ≤ s.beat
  grid : onGrid s.beat
  stop : s.tag = .stop → (s.beat, s.value) ∈ td.stops
  delay : s.tag = .delay → (s.beat, s.value) ∈ td.delays

/-- no event strictly between the two keys -/
def NoneBetween (td : TimingData) (κ q : K) : Prop := ∀ e ∈ events td, ¬ (κ < ekey e ∧ ekey e < q)

variable {td : TimingData}

theorem step_travel (hd : Dom td) (s : TState) (hs : StInv td s) (c : Rat) (h : Tag)
    (hle : skey s ≤ key c h) (hno : NoneBetween td (skey s) (key c h)) :
    travel td c = travel td s.beat + (if s.warp then 0 else (c - s.beat) * 60 / s.bpm) := by
  obtain ⟨n, hn⟩ := onGrid_nat hs.grid hs.nonneg
  apply travel_step td s.warp s.bpm s.beat c n hn (beat_le_of_key_le hle)
  intro m hm hmc
  have hbx : s.beat ≤ (m : Rat) / 48 := by
    rw [hn]
    apply div_le_div_of_nonneg_right _ (by norm_num)
    exact_mod_cast hm
  have hκx : skey s ≤ key ((m : Rat) / 48) .stopEnd := by
    apply key_le.2
    rcases lt_or_eq_of_le hbx with h1 | h1
    · exact Or.inl h1
    · exact Or.inr ⟨h1, by rw [val_stopEnd]; exact Tag.val_le_six _⟩
  have hxq : key ((m : Rat) / 48) .stopEnd < key c h := key_lt.2 (Or.inl hmc)
  have hno' : ∀ e ∈ events td, ¬ (skey s < ekey e ∧ ekey e ≤ key ((m : Rat) / 48) .stopEnd) :=
    fun e he hh => hno e he ⟨hh.1, lt_of_le_of_lt hh.2 hxq⟩
  constructor
  · have h1 := inWarp_iff_before td hd ((m : Rat) / 48) .stopEnd (by simp)
    have h2 := warpBefore_congr td hκx (fun e he _ => hno' e he)
    have h3 := hs.warp
    rw [Bool.eq_iff_iff, h1, ← h2, ← h3]
  · rw [bpmOn_eq_before td hd _ .stopEnd (by simp), ← bpmBefore_congr td hκx (fun e he _ => hno' e he),
      hs.bpm]

/-- the two keys `(c, g0)` and `(c, g1)` with adjacent tags: between them the selection of END rows of
the other kind does not change, and exactly the row on beat `c` of this kind is added -/
theorem step_paused (hd : Dom td) (s : TState) (hs : StInv td s) (c : Rat) (h : Tag)
    (hle : skey s ≤ key c h) (hno : NoneBetween td (skey s) (key c h)) :
    pausedK td (key c h) = pausedK td (skey s) +
      (if (s.tag = .stop ∨ s.tag = .delay) ∧ (h = .stopEnd ∨ h = .delayEnd) then s.value else 0) := by
  rcases eq_or_lt_of_le hle with heq | hlt
  · have htag : s.tag = h := (key_eq.1 heq).2
    rw [← heq, if_neg, add_zero]
    rintro ⟨h1 | h1, h2 | h2⟩ <;> rw [← htag, h1] at h2 <;> cases h2
  · by_cases hB : h = .stopEnd ∧ ∃ v, (c, v) ∈ td.stops
    · obtain ⟨rfl, v, hv⟩ := hB
      have h1 : key c .stop ≤ skey s := by
        by_contra hh
        exact hno _ (ev_stop hv) ⟨not_le.1 hh, key_lt.2 (Or.inr ⟨rfl, by simp⟩)⟩
      obtain ⟨hb, ht1, ht2⟩ := key_squeeze h1 (le_of_lt hlt)
      have ht : s.tag = .stop := by
        rcases key_lt.1 hlt with h3 | h3
        · exact absurd hb (ne_of_lt h3)
        · apply Tag.val_inj
          have := h3.2
          simp only [val_stop, val_stopEnd] at *
          omega
      have hval : s.value = v := row_unique hd.stops_sorted (hb ▸ hs.stop ht) hv
      rw [if_pos ⟨Or.inl ht, Or.inl rfl⟩, hval]
      have hsk : skey s = key c .stop := by unfold skey; rw [hb, ht]
      rw [hsk]
      unfold pausedK
      have hdel : foldSum (fun β => key β .delayEnd ≤ key c .stopEnd) td.delays 0 =
          foldSum (fun β => key β .delayEnd ≤ key c .stop) td.delays 0 :=
        foldSum_congr _ _ (fun d _ => by rw [key_le, key_le]; simp)
      have hst : foldSum (fun β => key β .stopEnd ≤ key c .stopEnd) td.stops 0 =
          foldSum (fun β => key β .stopEnd ≤ key c .stop) td.stops 0 + v := by
        have hpw := hd.stops_sorted
        rw [List.pairwise_map] at hpw
        apply foldSum_add_one c v _ 0 hpw hv
        · intro d _ hne
          rw [key_le, key_le]
          simp only [val_stopEnd, val_stop]
          constructor
          · rintro (h3 | h3)
            · exact Or.inl h3
            · omega
          · rintro (h3 | h3)
            · exact Or.inl h3
            · exact absurd h3.1 hne
        · rw [key_le]; simp
        · rw [key_le]; simp
      rw [hdel, hst]; ring
    · by_cases hC : h = .delayEnd ∧ ∃ v, (c, v) ∈ td.delays
      · obtain ⟨rfl, v, hv⟩ := hC
        have h1 : key c .delay ≤ skey s := by
          by_contra hh
          exact hno _ (ev_delay hv) ⟨not_le.1 hh, key_lt.2 (Or.inr ⟨rfl, by simp⟩)⟩
        obtain ⟨hb, ht1, ht2⟩ := key_squeeze h1 (le_of_lt hlt)
        have ht : s.tag = .delay := by
          rcases key_lt.1 hlt with h3 | h3
          · exact absurd hb (ne_of_lt h3)
          · apply Tag.val_inj
            have := h3.2
            simp only [val_delay, val_delayEnd] at *
            omega
        have hval : s.value = v := row_unique hd.delays_sorted (hb ▸ hs.delay ht) hv
        rw [if_pos ⟨Or.inr ht, Or.inr rfl⟩, hval]
        have hsk : skey s = key c .delay := by unfold skey; rw [hb, ht]
        rw [hsk]
        unfold pausedK
        have hst : foldSum (fun β => key β .stopEnd ≤ key c .delayEnd) td.stops 0 =
            foldSum (fun β => key β .stopEnd ≤ key c .delay) td.stops 0 :=
          foldSum_congr _ _ (fun d _ => by rw [key_le, key_le]; simp)
        have hdel : foldSum (fun β => key β .delayEnd ≤ key c .delayEnd) td.delays 0 =
            foldSum (fun β => key β .delayEnd ≤ key c .delay) td.delays 0 + v := by
          have hpw := hd.delays_sorted
          rw [List.pairwise_map] at hpw
          apply foldSum_add_one c v _ 0 hpw hv
          · intro d _ hne
            rw [key_le, key_le]
            simp only [val_delayEnd, val_delay]
            constructor
            · rintro (h3 | h3)
              · exact Or.inl h3
              · omega
            · rintro (h3 | h3)
              · exact Or.inl h3
              · exact absurd h3.1 hne
          · rw [key_le]; simp
          · rw [key_le]; simp
        rw [hdel, hst]; ring
      · -- the target key is not an END event
        have hcongr : pausedK td (skey s) = pausedK td (key c h) := by
          apply pausedK_congr td hle
          intro e he htag hh
          rcases eq_or_lt_of_le hh.2 with heq | hlt2
          · obtain ⟨hbeat, htg⟩ := key_eq.1 heq
            rcases htag with htag | htag
            · exact hC ⟨htg ▸ htag, e.value, hbeat ▸ events_delayEnd he htag⟩
            · exact hB ⟨htg ▸ htag, e.value, hbeat ▸ events_stopEnd he htag⟩
          · exact hno e he ⟨hh.1, hlt2⟩
        rw [← hcongr, if_neg, add_zero]
        rintro ⟨hg, hh⟩
        rcases hg with hg | hg
        · have hev := ev_stopEnd (hs.stop hg)
          have hlt1 : skey s < key s.beat .stopEnd := key_lt.2 (Or.inr ⟨rfl, by rw [hg]; simp⟩)
          have h2 : key c h ≤ key s.beat .stopEnd := by
            by_contra hh2
            exact hno _ hev ⟨hlt1, not_le.1 hh2⟩
          have h1 : key s.beat .stop ≤ key c h := by rw [← hg]; exact hle
          obtain ⟨hb, ht1, ht2⟩ := key_squeeze h1 h2
          have : h = .stopEnd := by
            rcases hh with hh | hh
            · exact hh
            · rw [hh] at ht1; simp at ht1
          exact hB ⟨this, s.value, hb ▸ hs.stop hg⟩
        · have hev := ev_delayEnd (hs.delay hg)
          have hlt1 : skey s < key s.beat .delayEnd := key_lt.2 (Or.inr ⟨rfl, by rw [hg]; simp⟩)
          have h2 : key c h ≤ key s.beat .delayEnd := by
            by_contra hh2
            exact hno _ hev ⟨hlt1, not_le.1 hh2⟩
          have h1 : key s.beat .delay ≤ key c h := by rw [← hg]; exact hle
          obtain ⟨hb, ht1, ht2⟩ := key_squeeze h1 h2
          have : h = .delayEnd := by
            rcases hh with hh | hh
            · rw [hh] at ht2; simp at ht2
            · exact hh
          exact hC ⟨this, s.value, hb ▸ hs.delay hg⟩

/-- the step lemma: extrapolating from a state to a later key with nothing strictly in between gives
the declarative time -/
theorem step_time (hd : Dom td) (s : TState) (hs : StInv td s) (c : Rat) (h : Tag)
    (hle : skey s ≤ key c h) (hno : NoneBetween td (skey s) (key c h)) :
    s.time + s.timeUntil c h = Spec.timeSpec td c h := by
  rw [timeSpec_eq, paused_eq_K, step_paused hd s hs c h hle hno, step_travel hd s hs c h hle hno,
    hs.time, timeSpec_eq, paused_eq_K]
  unfold TState.timeUntil skey
  ring

end Simfile
