/-
Association-list dictionary lemmas (`Dict.set`, `Dict.get?`, folding `set`) for C01–C04.
-/
import Simfile.Model.Objects
namespace Simfile.O
open Simfile

/-- folding `Dict.set` over a list of items (what every loader does) -/
def setAll (d0 : Dict) (kvs : List (Str × Option Str)) : Dict :=
  kvs.foldl (fun d kv => d.set kv.1 kv.2) d0

theorem setAll_nil (d0 : Dict) : setAll d0 [] = d0 := rfl
theorem setAll_cons (d0 : Dict) (kv) (kvs) : setAll d0 (kv :: kvs) = setAll (d0.set kv.1 kv.2) kvs := rfl
theorem setAll_append (d0 : Dict) (l1 l2) : setAll d0 (l1 ++ l2) = setAll (setAll d0 l1) l2 := by
  unfold setAll; rw [List.foldl_append]

theorem keys_nil : Dict.keys [] = [] := rfl
theorem keys_cons (kv : Str × Option Str) (d : Dict) : Dict.keys (kv :: d) = kv.1 :: Dict.keys d := rfl
theorem keys_append (d1 d2 : Dict) : Dict.keys (d1 ++ d2) = Dict.keys d1 ++ Dict.keys d2 := by
  unfold Dict.keys; rw [List.map_append]

theorem set_of_not_mem (d : Dict) (k : Str) (v : Option Str) (h : k ∉ Dict.keys d) :
    d.set k v = d ++ [(k, v)] := by
  induction d with
  | nil => rfl
  | cons kv d ih =>
    obtain ⟨k', v'⟩ := kv
    rw [keys_cons, List.mem_cons, not_or] at h
    rw [Dict.set, if_neg (fun e => h.1 e.symm), ih h.2]; rfl

theorem keys_set_of_mem (d : Dict) (k : Str) (v : Option Str) (h : k ∈ Dict.keys d) :
    Dict.keys (d.set k v) = Dict.keys d := by
  induction d with
  | nil => simp [keys_nil] at h
  | cons kv d ih =>
    obtain ⟨k', v'⟩ := kv
    by_cases e : k' = k
    · rw [Dict.set, if_pos e, keys_cons, keys_cons, e]
    · rw [keys_cons, List.mem_cons] at h
      rcases h with h | h
      · exact absurd h.symm e
      · rw [Dict.set, if_neg e, keys_cons, keys_cons, ih h]

theorem keys_set (d : Dict) (k : Str) (v : Option Str) :
    Dict.keys (d.set k v) = if k ∈ Dict.keys d then Dict.keys d else Dict.keys d ++ [k] := by
  by_cases h : k ∈ Dict.keys d
  · rw [if_pos h, keys_set_of_mem d k v h]
  · rw [if_neg h, set_of_not_mem d k v h, keys_append]; rfl

theorem WF_nil : Dict.WF [] := List.nodup_nil

theorem WF_set (d : Dict) (k : Str) (v : Option Str) (h : Dict.WF d) : Dict.WF (d.set k v) := by
  unfold Dict.WF at *
  rw [keys_set]
  split
  · exact h
  · rename_i hk
    rw [List.nodup_append]
    refine ⟨h, by simp, ?_⟩
    intro a ha b hb
    rw [List.mem_singleton] at hb
    subst hb
    intro e; subst e; exact hk ha

theorem WF_setAll (d0 : Dict) (kvs) (h : Dict.WF d0) : Dict.WF (setAll d0 kvs) := by
  induction kvs generalizing d0 with
  | nil => exact h
  | cons kv kvs ih => rw [setAll_cons]; exact ih _ (WF_set _ _ _ h)

theorem get?_nil (k : Str) : Dict.get? [] k = none := rfl

theorem get?_cons_self (k : Str) (v : Option Str) (d : Dict) : Dict.get? ((k, v) :: d) k = some v := by
  unfold Dict.get?; rw [List.lookup_cons]; simp

theorem get?_cons_ne (k k' : Str) (v : Option Str) (d : Dict) (h : k ≠ k') :
    Dict.get? ((k', v) :: d) k = Dict.get? d k := by
  unfold Dict.get?; rw [List.lookup_cons]
  have : (k == k') = false := by simpa using h
  rw [this]

theorem get?_set_self (d : Dict) (k : Str) (v : Option Str) : (d.set k v).get? k = some v := by
  induction d with
  | nil => exact get?_cons_self k v []
  | cons kv d ih =>
    obtain ⟨k', v'⟩ := kv
    by_cases e : k' = k
    · rw [Dict.set, if_pos e]; exact get?_cons_self k v d
    · rw [Dict.set, if_neg e, get?_cons_ne _ _ _ _ (fun h => e h.symm)]; exact ih

theorem get?_set_ne (d : Dict) (k k' : Str) (v : Option Str) (h : k' ≠ k) :
    (d.set k v).get? k' = d.get? k' := by
  induction d with
  | nil => rw [Dict.set, get?_cons_ne _ _ _ _ h]
  | cons kv d ih =>
    obtain ⟨k₁, v₁⟩ := kv
    by_cases e : k₁ = k
    · subst e
      rw [Dict.set, if_pos rfl, get?_cons_ne _ _ _ _ h, get?_cons_ne _ _ _ _ h]
    · rw [Dict.set, if_neg e]
      by_cases e' : k' = k₁
      · subst e'; rw [get?_cons_self, get?_cons_self]
      · rw [get?_cons_ne _ _ _ _ e', get?_cons_ne _ _ _ _ e', ih]

theorem get?_eq_none_iff (d : Dict) (k : Str) : d.get? k = none ↔ k ∉ Dict.keys d := by
  induction d with
  | nil => simp [get?_nil, keys_nil]
  | cons kv d ih =>
    obtain ⟨k', v'⟩ := kv
    by_cases e : k = k'
    · subst e; rw [get?_cons_self, keys_cons]; simp
    · rw [get?_cons_ne _ _ _ _ e, keys_cons, List.mem_cons, not_or, ih]
      exact ⟨fun h => ⟨e, h⟩, fun h => h.2⟩

theorem get?_of_mem_WF (d : Dict) (k : Str) (v : Option Str) (h : Dict.WF d) (hm : (k, v) ∈ d) :
    d.get? k = some v := by
  induction d with
  | nil => cases hm
  | cons kv d ih =>
    obtain ⟨k', v'⟩ := kv
    unfold Dict.WF at h
    rw [keys_cons, List.nodup_cons] at h
    rcases List.mem_cons.mp hm with e | hm'
    · cases e; exact get?_cons_self _ _ _
    · have hne : k ≠ k' := by
        intro e; subst e
        exact h.1 (List.mem_map.mpr ⟨(k, v), hm', rfl⟩)
      rw [get?_cons_ne _ _ _ _ hne]
      exact ih h.2 hm'

theorem mem_of_get? (d : Dict) (k : Str) (v : Option Str) (h : d.get? k = some v) : (k, v) ∈ d := by
  induction d with
  | nil => cases h
  | cons kv d ih =>
    obtain ⟨k', v'⟩ := kv
    by_cases e : k = k'
    · subst e; rw [get?_cons_self] at h; cases h; exact List.mem_cons_self
    · rw [get?_cons_ne _ _ _ _ e] at h; exact List.mem_cons_of_mem _ (ih h)

theorem contains_eq (d : Dict) (k : Str) : d.contains k = (d.get? k).isSome := rfl

theorem contains_iff (d : Dict) (k : Str) : d.contains k = true ↔ k ∈ Dict.keys d := by
  rw [contains_eq]
  cases h : d.get? k with
  | none => simp [(get?_eq_none_iff d k).mp h]
  | some v =>
    simp
    exact List.mem_map.mpr ⟨(k, v), mem_of_get? d k v h, rfl⟩

/-- folding `set` over the items of a dictionary with fresh, distinct keys appends them -/
theorem setAll_rebuild (acc d : Dict) (h : Dict.WF (acc ++ d)) : setAll acc d = acc ++ d := by
  induction d generalizing acc with
  | nil => simp [setAll_nil]
  | cons kv d ih =>
    obtain ⟨k, v⟩ := kv
    have hk : k ∉ Dict.keys acc := by
      unfold Dict.WF at h
      rw [keys_append, keys_cons, List.nodup_append] at h
      intro hm
      exact h.2.2 k hm k List.mem_cons_self rfl
    rw [setAll_cons, set_of_not_mem _ _ _ hk]
    have : acc ++ [(k, v)] ++ d = acc ++ (k, v) :: d := by simp
    rw [ih (acc ++ [(k, v)]) (by rw [this]; exact h), this]

theorem setAll_rebuild_nil (d : Dict) (h : Dict.WF d) : setAll [] d = d := by
  have := setAll_rebuild [] d (by simpa using h)
  simpa using this

/-! ### keys and values after folding `set` over arbitrary items -/

theorem keys_setAll (d0 : Dict) (kvs : List (Str × Option Str)) :
    Dict.keys (setAll d0 kvs) =
      Dict.keys d0 ++ ((kvs.map (·.1)).filter (fun k => !(Dict.keys d0).contains k)).eraseDups := by
  induction kvs generalizing d0 with
  | nil => simp [setAll_nil]
  | cons kv kvs ih =>
    obtain ⟨k, v⟩ := kv
    rw [setAll_cons, ih, keys_set]
    by_cases hk : k ∈ Dict.keys d0
    · rw [if_pos hk, List.map_cons, List.filter_cons]
      have : (!(Dict.keys d0).contains k) = false := by simpa using hk
      simp only [this]
      simp
    · rw [if_neg hk, List.map_cons, List.filter_cons]
      have : (!(Dict.keys d0).contains k) = true := by simpa using hk
      simp only [this, if_true]
      rw [List.eraseDups_cons, List.filter_filter, List.append_assoc]
      congr 2
      simp only [List.singleton_append]
      congr 1
      congr 1
      apply List.filter_congr
      intro x _
      by_cases hx : x = k <;> simp [hx]

theorem keys_setAll_nil (kvs : List (Str × Option Str)) :
    Dict.keys (setAll [] kvs) = (kvs.map (·.1)).eraseDups := by
  rw [keys_setAll]
  have : (List.filter (fun k => !(Dict.keys []).contains k) (kvs.map (·.1))) = kvs.map (·.1) :=
    List.filter_eq_self.mpr (by simp [keys_nil])
  rw [this]; rfl

theorem get?_setAll_of_not_mem (d0 : Dict) (kvs : List (Str × Option Str)) (k : Str)
    (h : ∀ kv ∈ kvs, kv.1 ≠ k) : (setAll d0 kvs).get? k = d0.get? k := by
  induction kvs generalizing d0 with
  | nil => rfl
  | cons kv kvs ih =>
    rw [setAll_cons, ih _ (fun x hx => h x (List.mem_cons_of_mem _ hx)),
      get?_set_ne _ _ _ _ (fun e => h kv List.mem_cons_self e.symm)]

/-- the value stored under `k` is the one of the last item with key `k` -/
theorem get?_setAll_last (d0 : Dict) (l1 l2 : List (Str × Option Str)) (k : Str) (v : Option Str)
    (h : ∀ kv ∈ l2, kv.1 ≠ k) : (setAll d0 (l1 ++ (k, v) :: l2)).get? k = some v := by
  rw [setAll_append, setAll_cons, get?_setAll_of_not_mem _ _ _ h, get?_set_self]

end Simfile.O
